import RisorModel.C08.Model
/-!
C08 — helper lemmas for `Props.lean`: integer wrap-around inside the range, unfolding of the
converter selection, `Object.Interface()` is represented by the object, pointer lifting.
-/
namespace Risor.C08

theorem wrapU_id (w : W) (i : Int) (h : inRangeU w.bits i = true) : wrapU w.bits i = i := by
  unfold inRangeU at h
  have h' := of_decide_eq_true h
  cases w <;> simp [W.bits] at h' <;> simp [W.bits, wrapU] <;> omega

theorem wrapS_id (w : W) (i : Int) (h : inRangeS w.bits i = true) : wrapS w.bits i = i := by
  unfold inRangeS at h
  have h' := of_decide_eq_true h
  cases w <;> simp [W.bits] at h' <;> simp [W.bits, wrapS] <;> omega

theorem wrap64_id (i : Int) (h : ¬ i ≥ two63) : wrap64 i = i := by
  simp [wrap64, h]

theorem under_idem : ∀ t : GoTy, under (under t) = under t
  | .named _ u => by simpa [under] using under_idem u
  | .bool | .int _ | .uint _ | .f32 | .f64 | .str | .time | .iface | .chan
  | .ptr _ | .slice _ | .array _ _ | .mapStr _ | .struct _ => rfl

/-- without a declared container type, a type that is neither of struct kind nor of a basic kind
    is its own underlying type -/
theorem under_self (ty : GoTy) (hn : namedBad ty = false) (hs : isStructKind ty = false)
    (hsc : isScalarKind ty = false) : under ty = ty := by
  cases ty with
  | named id u =>
    simp only [namedBad, Bool.or_eq_false_iff, Bool.and_eq_false_iff, Bool.not_eq_false'] at hn
    have h1 : isStructKind (.named id u) = isStructKind u := by simp [isStructKind, under]
    have h2 : isScalarKind (.named id u) = isScalarKind u := by simp [isScalarKind, under]
    rw [h1] at hs; rw [h2] at hsc
    rcases hn.1 with h | h
    · rw [h] at hs; cases hs
    · rw [h] at hsc; cases hsc
  | _ => rfl

/-- the converter of a type of a basic kind is the kind converter, except for `byte` itself
    through `createTypeConverter` -/
theorem sel_scalar (m : Mode) (ty : GoTy) (h : isScalarKind ty = true)
    (hb : ¬ (m = .create ∧ ty = .uint .w8)) : sel m ty = .scalar := by
  unfold sel
  simp [hb, getSel, h]

theorem zero_under : ∀ t : GoTy, zero t = zero (under t)
  | .named _ u => by simpa [zero, under] using zero_under u
  | .bool | .int _ | .uint _ | .f32 | .f64 | .str | .time | .iface | .chan
  | .ptr _ | .slice _ | .array _ _ | .mapStr _ | .struct _ => rfl

theorem convOK_under : ∀ t : GoTy, convOK t = convOK (under t)
  | .named _ u => by simpa [convOK, under] using convOK_under u
  | .bool | .int _ | .uint _ | .f32 | .f64 | .str | .time | .iface | .chan
  | .ptr _ | .slice _ | .array _ _ | .mapStr _ | .struct _ => rfl

/-! ### `[]byte` and `[]float64` payloads -/

theorem valsNums_intVals : ∀ ns : List Nat, valsNums (intVals ns) = some ns
  | [] => rfl
  | n :: r => by simp [intVals, valsNums, valsNums_intVals r]

theorem valsNums_floatVals : ∀ ns : List Nat, valsNums (floatVals ns) = some ns
  | [] => rfl
  | n :: r => by simp [floatVals, valsNums, valsNums_floatVals r]

theorem bytes_payload : ∀ xs : Vals, hasTys (.uint .w8) xs = true →
    ∃ ns, valsNums xs = some ns ∧ intVals ns = xs
  | .nil, _ => ⟨[], rfl, rfl⟩
  | .cons x r, h => by
    simp only [hasTys, Bool.and_eq_true] at h
    obtain ⟨ns, h1, h2⟩ := bytes_payload r h.2
    cases x with
    | int i =>
      have hx := h.1
      simp only [hasTy, under, inRangeU] at hx
      have hx' := of_decide_eq_true hx
      refine ⟨i.toNat :: ns, by simp [valsNums, h1], ?_⟩
      have : ((i.toNat : Nat) : Int) = i := Int.toNat_of_nonneg hx'.1
      simp [intVals, h2, this]
    | _ => simp [hasTy, under, isIfaceKind] at h

theorem floats_payload : ∀ xs : Vals, hasTys .f64 xs = true →
    ∃ ns, valsNums xs = some ns ∧ floatVals ns = xs
  | .nil, _ => ⟨[], rfl, rfl⟩
  | .cons x r, h => by
    simp only [hasTys, Bool.and_eq_true] at h
    obtain ⟨ns, h1, h2⟩ := floats_payload r h.2
    cases x with
    | float b => exact ⟨b :: ns, by simp [valsNums, h1], by simp [floatVals, h2]⟩
    | _ => simp [hasTy, under, isIfaceKind] at h

/-! ### `Object.Interface()` -/

theorem objIface_none : ∀ o : Obj, objIface o = none → o = .nil
  | .nil, _ => rfl
  | .bool _, h | .int _, h | .float _, h | .byte _, h | .str _, h | .bytes _, h | .floats _, h
  | .time _, h | .list _, h | .map _ _, h | .proxy _ _, h => by simp [objIface] at h

theorem proxy_repr (F : FOps) (pty : GoTy) (pv : GoVal) (h : proxyWf pty pv = true) :
    repr F pty pv (.proxy pty pv) = true := by
  unfold proxyWf at h
  split at h
  · rename_i s hs
    simp only [Bool.and_eq_true] at h
    cases pv with
    | nilv => simp [repr, hs, h.1]
    | ptr x => simp [repr, hs, h.1]
    | _ => simp at h
  · cases h

mutual
/-- what `Interface()` returns for an object is represented by that object -/
theorem objIface_repr (F : FOps) : ∀ (o : Obj) (d : GoTy) (x : GoVal), wfObj o = true →
    objIface o = some (d, x) → repr F d x o = true
  | .nil, _, _, _, h => by simp [objIface] at h
  | .bool b, d, x, _, h => by
    simp only [objIface, Option.some.injEq, Prod.mk.injEq] at h
    obtain ⟨rfl, rfl⟩ := h; simp [repr, under]
  | .int i, d, x, _, h => by
    simp only [objIface, Option.some.injEq, Prod.mk.injEq] at h
    obtain ⟨rfl, rfl⟩ := h; simp [repr, under, numIs]
  | .float b, d, x, _, h => by
    simp only [objIface, Option.some.injEq, Prod.mk.injEq] at h
    obtain ⟨rfl, rfl⟩ := h; simp [repr, under, f64Is]
  | .byte n, d, x, _, h => by
    simp only [objIface, Option.some.injEq, Prod.mk.injEq] at h
    obtain ⟨rfl, rfl⟩ := h; simp [repr, under, numIs]
  | .str s, d, x, _, h => by
    simp only [objIface, Option.some.injEq, Prod.mk.injEq] at h
    obtain ⟨rfl, rfl⟩ := h; simp [repr, under]
  | .bytes s, d, x, _, h => by
    simp only [objIface, Option.some.injEq, Prod.mk.injEq] at h
    obtain ⟨rfl, rfl⟩ := h; simp [repr, under, valsNums_intVals]
  | .floats s, d, x, _, h => by
    simp only [objIface, Option.some.injEq, Prod.mk.injEq] at h
    obtain ⟨rfl, rfl⟩ := h; simp [repr, under, valsNums_floatVals]
  | .time t, d, x, _, h => by
    simp only [objIface, Option.some.injEq, Prod.mk.injEq] at h
    obtain ⟨rfl, rfl⟩ := h; simp [repr]
  | .list os, d, x, hw, h => by
    simp only [objIface, Option.some.injEq, Prod.mk.injEq] at h
    obtain ⟨rfl, rfl⟩ := h
    simp only [repr, under]
    exact ifaceElems_reprs F os (by simpa [wfObj] using hw)
  | .map ks os, d, x, hw, h => by
    simp only [objIface, Option.some.injEq, Prod.mk.injEq] at h
    obtain ⟨rfl, rfl⟩ := h
    simp only [repr, under, decide_true, Bool.true_and]
    exact ifaceElems_reprs F os (by simpa [wfObj] using hw)
  | .proxy pty pv, d, x, hw, h => by
    simp only [objIface, Option.some.injEq, Prod.mk.injEq] at h
    obtain ⟨rfl, rfl⟩ := h
    exact proxy_repr F _ _ (by simpa [wfObj] using hw)
theorem ifaceElems_reprs (F : FOps) : ∀ os : Objs, wfObjs os = true →
    reprs F .iface (ifaceElems os) os = true
  | .nil, _ => by simp [ifaceElems, reprs]
  | .cons o r, hw => by
    simp only [wfObjs, Bool.and_eq_true] at hw
    have ih := ifaceElems_reprs F r hw.2
    simp only [ifaceElems, reprs, ih, Bool.and_true]
    cases h : objIface o with
    | none =>
      have := objIface_none o h
      subst this
      simp [repr, under]
    | some p =>
      obtain ⟨d, x⟩ := p
      have hne : o ≠ .nil := by
        intro e; subst e; simp [objIface] at h
      simp [repr, isIfaceKind, under, hne, objIface_repr F o d x hw.1 h]
end

/-! ### converter selection -/

theorem isStructKind_cases (ty : GoTy) (h : isStructKind ty = true) :
    (∃ fs, under ty = .struct fs) ∨ under ty = .time := by
  unfold isStructKind at h
  split at h
  · rename_i fs hu; exact Or.inl ⟨fs, hu⟩
  · rename_i hu; exact Or.inr hu
  · cases h

theorem sel_structKind (m : Mode) (ty : GoTy) (h : isStructKind ty = true) (ht : ty ≠ .time) :
    sel m ty = .structV := by
  have hne8 : ty ≠ .uint .w8 := by intro e; subst e; simp [isStructKind, under] at h
  have hsc : isScalarKind ty = false := by
    rcases isStructKind_cases ty h with ⟨fs, hu⟩ | hu <;> simp [isScalarKind, hu]
  have h1 : ty ≠ .slice (.uint .w8) := by intro e; subst e; simp [isStructKind, under] at h
  have h2 : ty ≠ .slice .f64 := by intro e; subst e; simp [isStructKind, under] at h
  unfold sel getSel
  rcases isStructKind_cases ty h with ⟨fs, hu⟩ | hu <;> simp [hne8, hsc, ht, h1, h2, hu]

theorem sel_time (m : Mode) : sel m .time = .time := by
  cases m <;> simp [sel, getSel, isScalarKind, under]

theorem sel_ptr_struct (m : Mode) (t : GoTy) (h : isStructKind t = true) :
    sel m (.ptr t) = .structP := by
  cases m <;> simp [sel, getSel, isScalarKind, under, h]

theorem sel_ptr_other (m : Mode) (t : GoTy) (h : isStructKind t = false) :
    sel m (.ptr t) = .pointer t := by
  cases m <;> simp [sel, getSel, isScalarKind, under, h]

theorem sel_iface (m : Mode) : sel m .iface = .dyn := by
  cases m <;> simp [sel, getSel, isScalarKind, under]

theorem sel_array (m : Mode) (n : Nat) (t : GoTy) : sel m (.array n t) = .array n t := by
  cases m <;> simp [sel, getSel, isScalarKind, under]

theorem sel_map (m : Mode) (t : GoTy) : sel m (.mapStr t) = .map t := by
  cases m <;> simp [sel, getSel, isScalarKind, under]

theorem sel_slice (m : Mode) (t : GoTy) :
    sel m (.slice t) = if t = .uint .w8 then .bytes else if t = .f64 then .floats else .slice t := by
  by_cases h1 : t = .uint .w8
  · subst h1; cases m <;> simp [sel, getSel, isScalarKind, under]
  · by_cases h2 : t = .f64
    · subst h2; cases m <;> simp [sel, getSel, isScalarKind, under]
    · cases m <;> simp [sel, getSel, isScalarKind, under, h1, h2]

/-! ### pointer lifting -/

theorem peel_fst_zero (ty : GoTy) (h : (peel ty).1 = 0) : (peel ty).2 = ty := by
  cases ty with
  | ptr t =>
    unfold peel at h ⊢
    by_cases hs : isStructKind t = true
    · simp [hs]
    · simp [hs] at h
  | _ => rfl

theorem peel_ptr_struct (t : GoTy) (h : isStructKind t = true) : peel (.ptr t) = (0, .ptr t) := by
  simp [peel, h]

theorem peel_ptr_other (t : GoTy) (h : isStructKind t = false) :
    peel (.ptr t) = ((peel t).1 + 1, (peel t).2) := by
  simp [peel, h]

theorem baseMode_create (k : Nat) : baseMode .create k = .create := by
  unfold baseMode; split <;> rfl

theorem liftPtr_succ (k : Nat) (o : Obj) (r : Outcome Dyn) (d : GoTy) (x : GoVal) (ho : o ≠ .nil)
    (h : liftPtr k o r = .ok (some (d, x))) : liftPtr (k + 1) o r = .ok (some (.ptr d, .ptr x)) := by
  cases k with
  | zero =>
    simp only [liftPtr, if_true] at h
    subst h
    cases o <;> simp_all [liftPtr, ptrTyN, ptrN]
  | succ k' =>
    cases o with
    | nil => exact absurd rfl ho
    | _ =>
      simp only [liftPtr, Nat.add_one_ne_zero, if_false] at h ⊢
      cases r with
      | ok p =>
        cases p with
        | none => simp at h
        | some q =>
          obtain ⟨d0, x0⟩ := q
          simp only [Outcome.ok.injEq, Option.some.injEq, Prod.mk.injEq] at h
          obtain ⟨rfl, rfl⟩ := h
          simp [ptrTyN, ptrN]
      | error => simp at h
      | panic => simp at h

theorem liftPtr_nil (k : Nat) (r : Outcome Dyn) : liftPtr (k + 1) .nil r = .ok none := by
  simp [liftPtr]


/-! ### the round-trip invariant, by mutual structural recursion on the Go value -/

/-- What the round-trip theorem establishes for one crossing: `From` is an error, or it gives an
    object that represents the value and from which `To` recovers the value (the untyped nil for a
    nil pointer / interface, else a value of exactly the slot's type). -/

def Good (F : FOps) (m : Mode) (ty : GoTy) (v : GoVal) : Prop :=
  fromGo F m ty v = .error ∨
  ∃ o, fromGo F m ty v = .ok o ∧ wfObj o = true ∧ repr F ty v o = true ∧
    ((o = .nil ∧ toGo F m ty o = .ok none ∧ v = .nilv) ∨
     (o ≠ .nil ∧ ∃ d x, toGo F m ty o = .ok (some (d, x)) ∧ (d = ty ∨ isIfaceKind ty = true) ∧
        repr F ty (store ty d x) o = true ∧ (mentionsIface ty = false → store ty d x = v)))

theorem tyGuards_nil (ty : GoTy) (h : tyGuards ty = []) : namedBad ty = false ∧ ptrIfaceBad ty = false := by
  unfold tyGuards at h
  cases h1 : namedBad ty <;> cases h2 : ptrIfaceBad ty <;> simp_all

theorem toGo_base (F : FOps) (m : Mode) (ty : GoTy) (o : Obj) (hc : convOK ty = true)
    (hk : (peel ty).1 = 0) : toGo F m ty o = toBase F m ty o := by
  unfold toGo
  simp only [hc, Bool.true_eq_false, if_false, hk, peel_fst_zero ty hk, liftPtr, baseMode, if_true]

/-- a type whose underlying type is not a pointer has no pointer layer to peel -/
theorem peel_under_leaf (ty : GoTy) (h : ∀ t, under ty ≠ .ptr t) : (peel ty).1 = 0 := by
  cases ty with
  | ptr t => exact absurd rfl (h t)
  | _ => rfl

/-- a leaf value whose `To` gives back the same type and value -/
theorem good_leaf (F : FOps) (m : Mode) (ty : GoTy) (v : GoVal) (o : Obj)
    (hk : (peel ty).1 = 0) (hc : convOK ty = true) (hi : isIfaceKind ty = false)
    (h1 : fromGo F m ty v = .ok o) (hw : wfObj o = true) (h2 : repr F ty v o = true) (h3 : o ≠ .nil)
    (h4 : toBase F m ty o = .ok (some (ty, v))) : Good F m ty v := by
  right
  refine ⟨o, h1, hw, h2, Or.inr ⟨h3, ty, v, ?_, Or.inl rfl, ?_, ?_⟩⟩
  · rw [toGo_base F m ty o hc hk, h4]
  · simpa [store, hi] using h2
  · intro _; simp [store, hi]

theorem good_bool (F : FOps) (m : Mode) (ty : GoTy) (b : Bool) (hc : convOK ty = true)
    (ht : hasTy ty (.bool b) = true) (hg : tyGuards ty = []) : Good F m ty (.bool b) := by
  simp only [hasTy, decide_eq_true_eq] at ht
  have hsel : sel m ty = .scalar :=
    sel_scalar m ty (by simp [isScalarKind, ht]) (by rintro ⟨_, rfl⟩; simp [under] at ht)
  apply good_leaf F m _ _ (.bool b) (peel_under_leaf ty (by simp [ht])) hc (by simp [isIfaceKind, ht])
  · simp [fromGo, hc, fromLeaf, hsel, ht, scalarFrom]
  · rfl
  · simp [repr, ht]
  · simp
  · simp [toBase, toLeaf, hsel, scalarTo, ht]

theorem good_str (F : FOps) (m : Mode) (ty : GoTy) (s : List Nat) (hc : convOK ty = true)
    (ht : hasTy ty (.str s) = true) (hg : tyGuards ty = []) : Good F m ty (.str s) := by
  simp only [hasTy, decide_eq_true_eq] at ht
  have hsel : sel m ty = .scalar :=
    sel_scalar m ty (by simp [isScalarKind, ht]) (by rintro ⟨_, rfl⟩; simp [under] at ht)
  apply good_leaf F m _ _ (.str s) (peel_under_leaf ty (by simp [ht])) hc (by simp [isIfaceKind, ht])
  · simp [fromGo, hc, fromLeaf, hsel, ht, scalarFrom]
  · rfl
  · simp [repr, ht]
  · simp
  · simp [toBase, toLeaf, hsel, scalarTo, ht]

theorem good_float (F : FOps) (hF : ∀ b, F.narrow (F.widen b) = b) (m : Mode) (ty : GoTy) (b : Nat)
    (hc : convOK ty = true) (ht : hasTy ty (.float b) = true) (_hg : tyGuards ty = []) :
    Good F m ty (.float b) := by
  unfold hasTy at ht
  cases hu : under ty with
  | f32 =>
    have hsel : sel m ty = .scalar :=
      sel_scalar m ty (by simp [isScalarKind, hu]) (by rintro ⟨_, rfl⟩; simp [under] at hu)
    apply good_leaf F m _ _ (.float (F.widen b)) (peel_under_leaf ty (by simp [hu])) hc (by simp [isIfaceKind, hu])
    · simp [fromGo, hc, fromLeaf, hsel, hu, scalarFrom]
    · rfl
    · simp [repr, hu, f32Is]
    · simp
    · simp [toBase, toLeaf, hsel, scalarTo, hu, hF]
  | f64 =>
    have hsel : sel m ty = .scalar :=
      sel_scalar m ty (by simp [isScalarKind, hu]) (by rintro ⟨_, rfl⟩; simp [under] at hu)
    apply good_leaf F m _ _ (.float b) (peel_under_leaf ty (by simp [hu])) hc (by simp [isIfaceKind, hu])
    · simp [fromGo, hc, fromLeaf, hsel, hu, scalarFrom]
    · rfl
    · simp [repr, hu, f64Is]
    · simp
    · simp [toBase, toLeaf, hsel, scalarTo, hu]
  | _ => simp [hu] at ht

theorem good_int (F : FOps) (m : Mode) (ty : GoTy) (i : Int)
    (hc : convOK ty = true) (ht : hasTy ty (.int i) = true) (_hg : tyGuards ty = []) :
    Good F m ty (.int i) := by
  unfold hasTy at ht
  cases hu : under ty with
  | int w =>
    simp only [hu] at ht
    have hsel : sel m ty = .scalar :=
      sel_scalar m ty (by simp [isScalarKind, hu]) (by rintro ⟨_, rfl⟩; simp [under] at hu)
    apply good_leaf F m _ _ (.int i) (peel_under_leaf ty (by simp [hu])) hc (by simp [isIfaceKind, hu])
    · simp [fromGo, hc, fromLeaf, hsel, hu, scalarFrom]
    · rfl
    · simp [repr, hu, numIs]
    · simp
    · simp [toBase, toLeaf, hsel, scalarTo, hu, ht]
  | uint w =>
    simp only [hu] at ht
    have hnn : 0 ≤ i := by
      unfold inRangeU at ht; exact (of_decide_eq_true ht).1
    by_cases hb : m = .create ∧ ty = .uint .w8
    · obtain ⟨rfl, rfl⟩ := hb
      simp only [under, GoTy.uint.injEq] at hu
      subst hu
      apply good_leaf F _ _ _ (.byte i.toNat) rfl hc rfl
      · simp [fromGo, convOK, fromLeaf, sel, byteFrom]
      · rfl
      · simp [repr, under, numIs, Int.toNat_of_nonneg hnn]
      · simp
      · simp [toBase, toLeaf, sel, scalarTo, under, Int.toNat_of_nonneg hnn, ht]
    · have hsel : sel m ty = .scalar := sel_scalar m ty (by simp [isScalarKind, hu]) hb
      -- an unsigned value ≥ 2⁶³ is rejected by `From` (it used to wrap: C08_fixed_uint64_wrapped)
      by_cases hge : i ≥ two63
      · left
        simp [fromGo, hc, fromLeaf, hsel, hu, scalarFrom, hge]
      · apply good_leaf F m _ _ (.int i) (peel_under_leaf ty (by simp [hu])) hc (by simp [isIfaceKind, hu])
        · simp [fromGo, hc, fromLeaf, hsel, hu, scalarFrom, hge]
        · rfl
        · simp [repr, hu, numIs]
        · simp
        · simp [toBase, toLeaf, hsel, scalarTo, hu, ht]
  | _ => simp [hu] at ht


theorem peel_structKind (ty : GoTy) (h : isStructKind ty = true) : (peel ty).1 = 0 := by
  cases ty with
  | ptr t => simp [isStructKind, under] at h
  | _ => rfl

theorem isIface_of_struct (ty : GoTy) (h : isStructKind ty = true) : isIfaceKind ty = false := by
  rcases isStructKind_cases ty h with ⟨fs, hu⟩ | hu <;> simp [isIfaceKind, hu]

/-- struct values (and declared types over time.Time) become proxies of a copy -/
theorem good_structV (F : FOps) (m : Mode) (ty : GoTy) (v : GoVal) (hc : convOK ty = true)
    (hs : isStructKind ty = true) (hne : ty ≠ .time)
    (hv : (∃ xs, v = .struct xs) ∨ (∃ t, v = .time t)) : Good F m ty v := by
  have hsel := sel_structKind m ty hs hne
  have hk := peel_structKind ty hs
  apply good_leaf F m ty v (.proxy (.ptr ty) (.ptr v)) hk hc (isIface_of_struct ty hs)
  · rcases hv with ⟨xs, rfl⟩ | ⟨t, rfl⟩ <;> simp [fromGo, hc, fromLeaf, hsel]
  · simp [wfObj, proxyWf, under, hs]
  · rcases hv with ⟨xs, rfl⟩ | ⟨t, rfl⟩ <;> simp [repr, hs, hne]
  · simp
  · simp [toBase, hsel]

theorem good_time (F : FOps) (m : Mode) (ty : GoTy) (t : Int) (hc : convOK ty = true)
    (ht : hasTy ty (.time t) = true) : Good F m ty (.time t) := by
  simp only [hasTy, decide_eq_true_eq] at ht
  have hs : isStructKind ty = true := by simp [isStructKind, ht]
  by_cases hty : ty = .time
  · subst hty
    apply good_leaf F m _ _ (.time t) rfl hc rfl
    · simp [fromGo, convOK, fromLeaf, sel_time, timeFrom]
    · rfl
    · simp [repr]
    · simp
    · simp [toBase, toLeaf, sel_time]
  · exact good_structV F m ty _ hc hs hty (Or.inr ⟨t, rfl⟩)

theorem good_struct (F : FOps) (m : Mode) (ty : GoTy) (xs : Vals) (hc : convOK ty = true)
    (ht : hasTy ty (.struct xs) = true) : Good F m ty (.struct xs) := by
  have hs : isStructKind ty = true := by
    unfold hasTy at ht; unfold isStructKind
    split at ht <;> simp_all
  have hne : ty ≠ .time := by
    intro e; subst e; simp [hasTy, under] at ht
  exact good_structV F m ty _ hc hs hne (Or.inl ⟨xs, rfl⟩)

theorem toGo_ptr (F : FOps) (m : Mode) (t : GoTy) (o : Obj) (d : GoTy) (x : GoVal)
    (hc : convOK t = true) (hs : isStructKind t = false) (ho : o ≠ .nil)
    (h : toGo F .create t o = .ok (some (d, x))) :
    toGo F m (.ptr t) o = .ok (some (.ptr d, .ptr x)) := by
  unfold toGo at h ⊢
  have hc' : convOK (.ptr t) = true := by simpa [convOK] using hc
  simp only [hc, hc', Bool.true_eq_false, if_false, baseMode_create] at h ⊢
  rw [peel_ptr_other t hs]
  have hb : baseMode m ((peel t).1 + 1) = .create := by simp [baseMode]
  simp only [hb]
  exact liftPtr_succ _ o _ d x ho h

theorem toGo_ptr_nil (F : FOps) (m : Mode) (t : GoTy)
    (hc : convOK t = true) (hs : isStructKind t = false) :
    toGo F m (.ptr t) .nil = .ok none := by
  unfold toGo
  have hc' : convOK (.ptr t) = true := by simpa [convOK] using hc
  simp only [hc', Bool.true_eq_false, if_false]
  rw [peel_ptr_other t hs]
  exact liftPtr_nil _ _

theorem toBase_dyn (F : FOps) (m : Mode) (b : GoTy) (o : Obj) (h : sel m b = .dyn) :
    toBase F m b o = .ok (objIface o) := by
  cases o <;> simp [toBase, toLeaf, h, objIface]

/-- `From` gives the script's nil for a nil pointer / nil interface only -/
theorem fromGo_nilv (F : FOps) (t : GoTy) (h : fromGo F .create t .nilv = .ok .nil) :
    nilable t = true := by
  unfold fromGo at h
  unfold nilable
  split at h
  · cases h
  · cases hs : sel .create t <;> simp [hs] at h ⊢

theorem assignable_of (t d : GoTy) (h : d = t ∨ isIfaceKind t = true) : assignable t d = true := by
  unfold assignable
  rcases h with rfl | h
  · simp
  · simp [h]

theorem toGo_unfold (F : FOps) (m : Mode) (t : GoTy) (o : Obj) (hc : convOK t = true) :
    toGo F m t o = liftPtr (peel t).1 o (toBase F (baseMode m (peel t).1) (peel t).2 o) := by
  simp [toGo, hc]


theorem reprs_length (F : FOps) (t : GoTy) : ∀ (xs : Vals) (os : Objs),
    reprs F t xs os = true → os.length = xs.length
  | .nil, .nil, _ => rfl
  | .cons _ r, .cons _ os, h => by
    simp only [reprs, Bool.and_eq_true] at h
    simp [Objs.length, Vals.length, reprs_length F t r os h.2]
  | .nil, .cons _ _, h => by simp [reprs] at h
  | .cons _ _, .nil, h => by simp [reprs] at h

/-- what the theorem establishes for the elements of a slice / array / map -/
def GoodVals (F : FOps) (t : GoTy) (xs : Vals) : Prop :=
  fromVals F t xs = .error ∨
  ∃ os, fromVals F t xs = .ok os ∧ wfObjs os = true ∧ reprs F t xs os = true ∧
    ∃ xs', toElems F t os = .ok xs' ∧ reprs F t xs' os = true ∧ (mentionsIface t = false → xs' = xs) ∧
      toArr F t xs.length os = .ok xs' ∧
      (∀ ks : List (List Nat), ks.length = xs.length → toMap F t ks os = .ok (ks, xs'))

theorem tyGuards_sub (ty t : GoTy) (h : tyGuards ty = [])
    (h1 : namedBad ty = namedBad t) (h2 : ptrIfaceBad ty = ptrIfaceBad t) : tyGuards t = [] := by
  unfold tyGuards at h ⊢
  rw [← h1, ← h2]; exact h

theorem append_nil' {α} {a b : List α} (h : a ++ b = []) : a = [] ∧ b = [] := by
  cases a <;> simp_all

theorem good_nilv (F : FOps) (m : Mode) (ty : GoTy) (hc : convOK ty = true)
    (ht : hasTy ty .nilv = true) (hg : tyGuards ty = []) : Good F m ty .nilv := by
  obtain ⟨hn, _⟩ := tyGuards_nil ty hg
  have hs : isStructKind ty = false := by
    unfold hasTy at ht; unfold isStructKind
    split at ht <;> simp_all
  have hsc : isScalarKind ty = false := by
    unfold hasTy at ht; unfold isScalarKind
    split at ht <;> simp_all
  have hu := under_self ty hn hs hsc
  unfold hasTy at ht
  rw [hu] at ht
  cases ty with
  | ptr t =>
    by_cases hst : isStructKind t = true
    · apply good_leaf F m _ _ (.proxy (.ptr t) .nilv) (by simp [peel_ptr_struct t hst]) hc rfl
      · simp [fromGo, hc, sel_ptr_struct m t hst]
      · simp [wfObj, proxyWf, under, hst]
      · simp [repr, under, hst]
      · simp
      · simp [toBase, sel_ptr_struct m t hst]
    · have hst' : isStructKind t = false := by simpa using hst
      right
      refine ⟨.nil, by simp [fromGo, hc, sel_ptr_other m t hst'], rfl, by simp [repr, under, hst'], Or.inl ⟨rfl, ?_, rfl⟩⟩
      exact toGo_ptr_nil F m t (by simpa [convOK] using hc) hst'
  | iface =>
    right
    refine ⟨.nil, by simp [fromGo, hc, sel_iface], rfl, by simp [repr, under], Or.inl ⟨rfl, ?_, rfl⟩⟩
    rw [toGo_base F m _ _ hc rfl, toBase_dyn F m _ _ (sel_iface m)]; rfl
  | chan => simp [convOK] at hc
  | _ => simp at ht

mutual
theorem good_val (F : FOps) (hF : ∀ b, F.narrow (F.widen b) = b) :
    ∀ (v : GoVal) (m : Mode) (ty : GoTy), convOK ty = true → hasTy ty v = true →
      tyGuards ty = [] → valGuards m ty v = [] → Good F m ty v
  | .bool b, m, ty, hc, ht, hg, _ => good_bool F m ty b hc ht hg
  | .int i, m, ty, hc, ht, hg, _ => good_int F m ty i hc ht hg
  | .float b, m, ty, hc, ht, hg, _ => good_float F hF m ty b hc ht hg
  | .str s, m, ty, hc, ht, hg, _ => good_str F m ty s hc ht hg
  | .time t, m, ty, hc, ht, _, _ => good_time F m ty t hc ht
  | .struct xs, m, ty, hc, ht, _, _ => good_struct F m ty xs hc ht
  | .nilv, m, ty, hc, ht, hg, _ => good_nilv F m ty hc ht hg
  | .ptr x, m, ty, hc, ht, hg, hv => by
    obtain ⟨hn, hpi⟩ := tyGuards_nil ty hg
    have hs : isStructKind ty = false := by
      unfold hasTy at ht; unfold isStructKind
      split at ht <;> simp_all
    have hsc : isScalarKind ty = false := by
      unfold hasTy at ht; unfold isScalarKind
      split at ht <;> simp_all
    have hu := under_self ty hn hs hsc
    unfold hasTy at ht
    rw [hu] at ht
    cases ty with
    | ptr t =>
      simp only at ht
      by_cases hst : isStructKind t = true
      · apply good_leaf F m _ _ (.proxy (.ptr t) (.ptr x)) (by simp [peel_ptr_struct t hst]) hc rfl
        · simp [fromGo, hc, sel_ptr_struct m t hst]
        · simp [wfObj, proxyWf, under, hst]
        · simp [repr, under, hst]
        · simp
        · simp [toBase, sel_ptr_struct m t hst]
      · have hst' : isStructKind t = false := by simpa using hst
        have hct : convOK t = true := by simpa [convOK] using hc
        have hsel := sel_ptr_other m t hst'
        simp only [ptrIfaceBad, Bool.or_eq_false_iff] at hpi
        have hgt : tyGuards t = [] := by
          unfold tyGuards; simp [show namedBad t = false by simpa [namedBad] using hn, hpi.2]
        unfold valGuards at hv
        simp only [hsel] at hv
        obtain ⟨hv1, hv2⟩ := append_nil' hv
        have ih := good_val F hF x .create t hct ht hgt hv2
        have hfrom : fromGo F m (.ptr t) (.ptr x) = fromGo F .create t x := by
          simp [fromGo, hc, hsel]
        rcases ih with he | ⟨o, h1, hw, h2, h3⟩
        · left; rw [hfrom, he]
        · right
          rcases h3 with ⟨rfl, _, rfl⟩ | ⟨hne, d, x', h4, h5, h6, h7⟩
          · have := fromGo_nilv F t h1
            simp [isNil, this] at hv1
          · have hd : d = t := by
              rcases h5 with h | h
              · exact h
              · rw [hpi.1] at h; cases h
            subst hd
            have hst2 : store d d x' = x' := by simp [store, hpi.1]
            rw [hst2] at h6 h7
            refine ⟨o, by rw [hfrom, h1], hw, by simp [repr, under, hst', hne, h2], Or.inr ⟨hne, .ptr d, .ptr x', toGo_ptr F m d o d x' hct hst' hne h4, Or.inl rfl, ?_, ?_⟩⟩
            · simp [store, isIfaceKind, under, repr, hst', hne, h6]
            · intro hm
              simp only [mentionsIface] at hm
              simp [store, isIfaceKind, under, h7 hm]
    | _ => simp at ht
  | .iface d x, m, ty, hc, ht, hg, hv => by
    obtain ⟨hn, _⟩ := tyGuards_nil ty hg
    simp only [hasTy, Bool.and_eq_true, Bool.not_eq_true'] at ht
    obtain ⟨⟨hi, hdi⟩, htx⟩ := ht
    have hs : isStructKind ty = false := by
      unfold isIfaceKind at hi; unfold isStructKind
      split at hi <;> simp_all
    have hsc : isScalarKind ty = false := by
      unfold isIfaceKind at hi; unfold isScalarKind
      split at hi <;> simp_all
    have hu := under_self ty hn hs hsc
    have hty : ty = .iface := by
      unfold isIfaceKind at hi
      rw [hu] at hi
      cases ty <;> simp_all
    subst hty
    have hfrom : fromGo F m .iface (.iface d x) = fromGo F .create d x := by
      simp [fromGo, convOK, sel_iface]
    by_cases hcd : convOK d = true
    · unfold valGuards at hv
      obtain ⟨hv1, hv23⟩ := append_nil' hv
      have ⟨hva, hvb⟩ := append_nil' hv1
      have ih := good_val F hF x .create d hcd htx hva hv23
      rcases ih with he | ⟨o, h1, hw, h2, h3⟩
      · left; rw [hfrom, he]
      · right
        have hne : o ≠ .nil := by
          rcases h3 with ⟨rfl, _, rfl⟩ | ⟨hne, _⟩
          · have := fromGo_nilv F d h1
            simp [isNil, this] at hvb
          · exact hne
        cases hoi : objIface o with
        | none => exact absurd (objIface_none o hoi) hne
        | some p =>
          obtain ⟨d', x'⟩ := p
          refine ⟨o, by rw [hfrom, h1], hw, by simp [repr, isIfaceKind, under, hne, h2], Or.inr ⟨hne, d', x', ?_, Or.inr rfl, ?_, ?_⟩⟩
          · rw [toGo_base F m _ _ rfl rfl, toBase_dyn F m _ _ (sel_iface m), hoi]
          · simp [store, isIfaceKind, under, repr, hne, objIface_repr F o d' x' hw hoi]
          · intro hm; simp [mentionsIface] at hm
    · left
      rw [hfrom]
      unfold fromGo
      simp [hcd]
  | .seq xs, m, ty, hc, ht, hg, hv => by
    obtain ⟨hn, hpi⟩ := tyGuards_nil ty hg
    have hs : isStructKind ty = false := by
      unfold hasTy at ht; unfold isStructKind
      split at ht <;> simp_all
    have hsc : isScalarKind ty = false := by
      unfold hasTy at ht; unfold isScalarKind
      split at ht <;> simp_all
    have hu := under_self ty hn hs hsc
    unfold hasTy at ht
    rw [hu] at ht
    cases ty with
    | slice t =>
      simp only at ht
      have hct : convOK t = true := by simpa [convOK] using hc
      by_cases h8 : t = .uint .w8
      · subst h8
        obtain ⟨ns, hp1, hp2⟩ := bytes_payload xs ht
        have hsel : sel m (.slice (.uint .w8)) = .bytes := by simp [sel_slice]
        apply good_leaf F m _ _ (.bytes ns) rfl hc rfl
        · simp [fromGo, convOK, hsel, hp1]
        · rfl
        · simp [repr, under, hp1]
        · simp
        · simp [toBase, toLeaf, hsel, hp2]
      · by_cases h64 : t = .f64
        · subst h64
          obtain ⟨ns, hp1, hp2⟩ := floats_payload xs ht
          have hsel : sel m (.slice .f64) = .floats := by simp [sel_slice]
          apply good_leaf F m _ _ (.floats ns) rfl hc rfl
          · simp [fromGo, convOK, hsel, hp1]
          · rfl
          · simp [repr, under, hp1]
          · simp
          · simp [toBase, toLeaf, hsel, hp2]
        · have hsel : sel m (.slice t) = .slice t := by simp [sel_slice, h8, h64]
          have hgt : tyGuards t = [] :=
            tyGuards_sub _ t hg (by simp [namedBad]) (by simp [ptrIfaceBad])
          unfold valGuards at hv
          simp only [hsel] at hv
          have ih := good_vals F hF xs t hct ht hgt hv
          have hfrom : fromGo F m (.slice t) (.seq xs) = (fromVals F t xs).map .list := by
            simp [fromGo, hc, hsel]
          rcases ih with he | ⟨os, h1, hw, h2, xs', h3, h4, h5, _, _⟩
          · left; rw [hfrom, he]; rfl
          · right
            refine ⟨.list os, by rw [hfrom, h1]; rfl, by simpa [wfObj] using hw, by simp [repr, under, h2], Or.inr ⟨by simp, .slice t, .seq xs', ?_, Or.inl rfl, ?_, ?_⟩⟩
            · rw [toGo_base F m _ _ hc rfl]; simp [toBase, hsel, h3]
            · simp [store, isIfaceKind, under, repr, h4]
            · intro hm; simp only [mentionsIface] at hm; simp [store, isIfaceKind, under, h5 hm]
    | array n t =>
      simp only [Bool.and_eq_true, decide_eq_true_eq] at ht
      have hct : convOK t = true := by simpa [convOK] using hc
      have hsel := sel_array m n t
      have hgt : tyGuards t = [] :=
        tyGuards_sub _ t hg (by simp [namedBad]) (by simp [ptrIfaceBad])
      unfold valGuards at hv
      simp only [hsel] at hv
      have ih := good_vals F hF xs t hct ht.1 hgt hv
      have hfrom : fromGo F m (.array n t) (.seq xs) = (fromVals F t xs).map .list := by
        simp [fromGo, hc, hsel]
      rcases ih with he | ⟨os, h1, hw, h2, xs', _, h4, h5, h6, _⟩
      · left; rw [hfrom, he]; rfl
      · right
        refine ⟨.list os, by rw [hfrom, h1]; rfl, by simpa [wfObj] using hw, by simp [repr, under, h2], Or.inr ⟨by simp, .array n t, .seq xs', ?_, Or.inl rfl, ?_, ?_⟩⟩
        · have hlen : ¬ os.length > n := by
            have := reprs_length F t xs os h2
            omega
          rw [toGo_base F m _ _ hc rfl]; rw [ht.2] at h6; simp [toBase, hsel, h6, hlen]
        · simp [store, isIfaceKind, under, repr, h4]
        · intro hm; simp only [mentionsIface] at hm; simp [store, isIfaceKind, under, h5 hm]
    | _ => simp at ht
  | .map ks xs, m, ty, hc, ht, hg, hv => by
    obtain ⟨hn, hpi⟩ := tyGuards_nil ty hg
    have hs : isStructKind ty = false := by
      unfold hasTy at ht; unfold isStructKind
      split at ht <;> simp_all
    have hsc : isScalarKind ty = false := by
      unfold hasTy at ht; unfold isScalarKind
      split at ht <;> simp_all
    have hu := under_self ty hn hs hsc
    unfold hasTy at ht
    rw [hu] at ht
    cases ty with
    | mapStr t =>
      simp only [Bool.and_eq_true, decide_eq_true_eq] at ht
      have hct : convOK t = true := by simpa [convOK] using hc
      have hsel := sel_map m t
      have hgt : tyGuards t = [] :=
        tyGuards_sub _ t hg (by simp [namedBad]) (by simp [ptrIfaceBad])
      unfold valGuards at hv
      simp only [hsel] at hv
      have ih := good_vals F hF xs t hct ht.1.1 hgt hv
      have hfrom : fromGo F m (.mapStr t) (.map ks xs) = (fromVals F t xs).map (.map ks) := by
        simp [fromGo, hc, hsel]
      rcases ih with he | ⟨os, h1, hw, h2, xs', _, h4, h5, _, h7⟩
      · left; rw [hfrom, he]; rfl
      · right
        refine ⟨.map ks os, by rw [hfrom, h1]; rfl, by simpa [wfObj] using hw, by simp [repr, under, h2], Or.inr ⟨by simp, .mapStr t, .map ks xs', ?_, Or.inl rfl, ?_, ?_⟩⟩
        · rw [toGo_base F m _ _ hc rfl]; simp [toBase, hsel, h7 ks ht.1.2]
        · simp [store, isIfaceKind, under, repr, h4]
        · intro hm; simp only [mentionsIface] at hm; simp [store, isIfaceKind, under, h5 hm]
    | _ => simp at ht
theorem good_vals (F : FOps) (hF : ∀ b, F.narrow (F.widen b) = b) :
    ∀ (xs : Vals) (t : GoTy), convOK t = true → hasTys t xs = true → tyGuards t = [] →
      elemGuards t xs = [] → GoodVals F t xs
  | .nil, t, _, _, _, _ => by
    right
    refine ⟨.nil, rfl, rfl, rfl, .nil, rfl, rfl, fun _ => rfl, rfl, ?_⟩
    intro ks hks
    cases ks with
    | nil => rfl
    | cons k r => simp [Vals.length] at hks
  | .cons x r, t, hc, ht, hg, hv => by
    simp only [hasTys, Bool.and_eq_true] at ht
    unfold elemGuards at hv
    obtain ⟨hv12, hv3⟩ := append_nil' hv
    obtain ⟨hv1, hv2⟩ := append_nil' hv12
    have ihx := good_val F hF x .create t hc ht.1 hg hv2
    have ihr := good_vals F hF r t hc ht.2 hg hv3
    rcases ihx with he | ⟨o, h1, hw, h2, h3⟩
    · left; simp [fromVals, he]
    · rcases ihr with he | ⟨os, g1, gw, g2, xs', g3, g4, g5, g6, g7⟩
      · left; simp [fromVals, h1, he]
      · right
        rcases h3 with ⟨rfl, _, rfl⟩ | ⟨hne, d, x', h4, h5, h6, h7⟩
        · have := fromGo_nilv F t h1
          simp [isNil, this] at hv1
        · have hto := toGo_unfold F .create t o hc
          rw [h4] at hto
          have hput : putElem t (some (d, x')) = .ok (store t d x') := by
            simp [putElem, assignable_of t d h5]
          refine ⟨.cons o os, by simp [fromVals, h1, g1], by simp [wfObjs, hw, gw], by simp [reprs, h2, g2], .cons (store t d x') xs', ?_, by simp [reprs, h6, g4], ?_, ?_, ?_⟩
          · simp [toElems, ← hto, hput, g3]
          · intro hm; rw [h7 hm, g5 hm]
          · simp [toArr, Vals.length, ← hto, hput, g6]
          · intro ks hks
            cases ks with
            | nil => simp [Vals.length] at hks
            | cons k ks' =>
              simp only [List.length_cons, Vals.length, Nat.add_right_cancel_iff] at hks
              simp [toMap, ← hto, assignable_of t d h5, g7 ks' hks]
end


/-! ### script → Go -/

theorem wfW_wfObj : ∀ o : Obj, wfW o = true → wfObj o = true
  | .proxy pty pv, h => by simp only [wfW, Bool.and_eq_true] at h; simpa [wfObj] using h.1
  | .list os, h => by simp only [wfW] at h; simpa [wfObj] using wfWs_wfObjs os h
  | .map ks os, h => by
    simp only [wfW, Bool.and_eq_true] at h; simpa [wfObj] using wfWs_wfObjs os h.2
  | .nil, _ | .bool _, _ | .int _, _ | .float _, _ | .byte _, _ | .str _, _ | .bytes _, _
  | .floats _, _ | .time _, _ => rfl
where wfWs_wfObjs : ∀ os : Objs, wfWs os = true → wfObjs os = true
  | .nil, _ => rfl
  | .cons o r, h => by
    simp only [wfWs, Bool.and_eq_true] at h
    simp [wfObjs, wfW_wfObj o h.1, wfWs_wfObjs r h.2]

def baseNil (m : Mode) (b : GoTy) : Prop :=
  (∃ t, sel m b = .slice t) ∨ (∃ t, sel m b = .map t) ∨ sel m b = .dyn

/-- what the write theorem establishes for `To` of a non-pointer converter -/
def BaseGood (F : FOps) (m : Mode) (b : GoTy) (o : Obj) : Prop :=
  toBase F m b o = .error ∨
  (o = .nil ∧ toBase F m b o = .ok none ∧ baseNil m b) ∨
  (o ≠ .nil ∧ ∃ d x, toBase F m b o = .ok (some (d, x)) ∧ (d = b ∨ isIfaceKind b = true) ∧
      repr F b (store b d x) o = true)

/-- the same for the converter of any type, pointer layers included -/
def WGood (F : FOps) (m : Mode) (ty : GoTy) (o : Obj) : Prop :=
  toGo F m ty o = .error ∨
  (o = .nil ∧ toGo F m ty o = .ok none ∧ repr F ty (zero ty) .nil = true ∧ (m = .create → nilTo ty = true)) ∨
  (o ≠ .nil ∧ ∃ d x, toGo F m ty o = .ok (some (d, x)) ∧ (d = ty ∨ isIfaceKind ty = true) ∧
      repr F ty (store ty d x) o = true)

theorem base_of_some (F : FOps) (m : Mode) (b : GoTy) (o : Obj) (d : GoTy) (x : GoVal)
    (h1 : toBase F m b o = .ok (some (d, x))) (hne : o ≠ .nil)
    (h2 : d = b ∨ isIfaceKind b = true) (h3 : repr F d x o = true) : BaseGood F m b o := by
  refine Or.inr (Or.inr ⟨hne, d, x, h1, h2, ?_⟩)
  cases hi : isIfaceKind b with
  | true => simp [store, hi, repr, hne, h3]
  | false =>
    rcases h2 with rfl | h
    · simpa [store, hi] using h3
    · rw [hi] at h; cases h

/-! inversion of the converter selection -/

theorem getSel_inv (ty : GoTy) :
    (∀ t, getSel ty = .slice t → under ty = .slice t) ∧
    (∀ n t, getSel ty = .array n t → under ty = .array n t) ∧
    (∀ t, getSel ty = .map t → under ty = .mapStr t) ∧
    (getSel ty = .dyn → under ty = .iface) ∧
    (getSel ty = .structV → isStructKind ty = true ∧ ty ≠ .time) ∧
    (getSel ty = .structP → ∃ t, under ty = .ptr t ∧ isStructKind t = true) ∧
    (getSel ty = .time → ty = .time) ∧
    (getSel ty = .bytes → ty = .slice (.uint .w8)) ∧
    (getSel ty = .floats → ty = .slice .f64) ∧
    (getSel ty = .scalar → isScalarKind ty = true) := by
  unfold getSel
  by_cases h1 : isScalarKind ty = true
  · simp [h1]
  · by_cases h2 : ty = .time
    · subst h2; simp [isScalarKind, under]
    · by_cases h3 : ty = .slice (.uint .w8)
      · subst h3; simp [isScalarKind, under]
      · by_cases h4 : ty = .slice .f64
        · subst h4; simp [isScalarKind, under]
        · simp only [h1, h2, h3, h4, if_false]
          cases hu : under ty <;> simp [isStructKind, hu, h2]
          rename_i t
          by_cases hs : isStructKind t = true <;> simp [isStructKind] at hs ⊢ <;> simp [hs]

theorem sel_ne_byte (m : Mode) (ty : GoTy) (s : Sel) (h : sel m ty = s) (hs : s ≠ .byte) :
    getSel ty = s := by
  unfold sel at h
  split at h
  · exact absurd h.symm hs
  · exact h


theorem scalarTo_ty (F : FOps) (b : GoTy) (o : Obj) (d : GoTy) (x : GoVal)
    (h : scalarTo F b o = .ok (some (d, x))) : d = b := by
  unfold scalarTo at h
  split at h <;> (first | (split at h <;> (first | (split at h <;> simp_all) | simp_all)) | simp_all)

theorem scalarTo_ne_panic (F : FOps) (b : GoTy) (o : Obj) : scalarTo F b o ≠ .panic := by
  unfold scalarTo
  split <;> (first | (split <;> (first | (split <;> simp) | simp)) | simp)

theorem scalarTo_ne_none (F : FOps) (b : GoTy) (o : Obj) : scalarTo F b o ≠ .ok none := by
  unfold scalarTo
  split <;> (first | (split <;> (first | (split <;> simp) | simp)) | simp)

theorem sel_byte_inv (m : Mode) (b : GoTy) (h : sel m b = .byte) : b = .uint .w8 := by
  unfold sel at h
  split at h
  · rename_i hc; exact hc.2
  · have := (getSel_inv b)
    unfold getSel at h
    split at h <;> try cases h
    split at h <;> try cases h
    split at h <;> try cases h
    split at h <;> try cases h
    split at h <;> try cases h
    split at h <;> cases h

theorem toLeaf_ne_panic (F : FOps) (m : Mode) (b : GoTy) (o : Obj) : toLeaf F m b o ≠ .panic := by
  unfold toLeaf
  split
  · exact scalarTo_ne_panic F b o
  · exact scalarTo_ne_panic F _ o
  all_goals (first | (split <;> simp) | simp)

theorem toLeaf_none (F : FOps) (m : Mode) (b : GoTy) (o : Obj) (h : toLeaf F m b o = .ok none) :
    o = .nil := by
  unfold toLeaf at h
  split at h
  · exact absurd h (scalarTo_ne_none F b o)
  · exact absurd h (scalarTo_ne_none F _ o)
  · split at h <;> simp at h
  · split at h <;> simp at h
  · split at h <;> simp at h
  · simp only [Outcome.ok.injEq] at h; exact objIface_none o h
  · simp at h

theorem toLeaf_ty (F : FOps) (m : Mode) (b : GoTy) (o : Obj) (d : GoTy) (x : GoVal)
    (hn : namedBad b = false) (h : toLeaf F m b o = .ok (some (d, x))) :
    d = b ∨ isIfaceKind b = true := by
  unfold toLeaf at h
  split at h
  · rename_i hs
    have hg := sel_ne_byte m b _ hs (by simp)
    left; exact scalarTo_ty F b o d x h
  · rename_i hs
    left; rw [scalarTo_ty F _ o d x h, sel_byte_inv m b hs]
  · rename_i hs
    have := (getSel_inv b).2.2.2.2.2.2.1 (sel_ne_byte m b _ hs (by simp))
    split at h <;> simp at h
    left; rw [this, h.1]
  · rename_i hs
    have := (getSel_inv b).2.2.2.2.2.2.2.1 (sel_ne_byte m b _ hs (by simp))
    split at h <;> simp at h <;> (left; rw [this, h.1])
  · rename_i hs
    have := (getSel_inv b).2.2.2.2.2.2.2.2.1 (sel_ne_byte m b _ hs (by simp))
    split at h <;> simp at h
    left; rw [this, h.1]
  · rename_i hs
    have := (getSel_inv b).2.2.2.1 (sel_ne_byte m b _ hs (by simp))
    right; simp [isIfaceKind, this]
  · simp at h


/-! pointer layers -/

theorem peel_succ_inv (ty : GoTy) (k : Nat) (h : (peel ty).1 = k + 1) :
    ∃ t, ty = .ptr t ∧ isStructKind t = false ∧ (peel t).1 = k ∧ (peel t).2 = (peel ty).2 := by
  cases ty with
  | ptr t =>
    by_cases hs : isStructKind t = true
    · rw [peel_ptr_struct t hs] at h; cases h
    · have hs' : isStructKind t = false := by simpa using hs
      rw [peel_ptr_other t hs'] at h ⊢
      exact ⟨t, rfl, hs', by simpa using h, rfl⟩
  | _ => simp [peel] at h

theorem peel_peel : ∀ ty : GoTy, (peel (peel ty).2).1 = 0
  | .ptr t => by
    by_cases hs : isStructKind t = true
    · rw [peel_ptr_struct t hs]; simp [peel_ptr_struct t hs]
    · have hs' : isStructKind t = false := by simpa using hs
      rw [peel_ptr_other t hs']; exact peel_peel t
  | .bool | .int _ | .uint _ | .f32 | .f64 | .str | .time | .iface | .chan | .named _ _
  | .slice _ | .array _ _ | .mapStr _ | .struct _ => rfl

theorem convOK_peel : ∀ ty : GoTy, convOK (peel ty).2 = convOK ty
  | .ptr t => by
    by_cases hs : isStructKind t = true
    · rw [peel_ptr_struct t hs]
    · have hs' : isStructKind t = false := by simpa using hs
      rw [peel_ptr_other t hs']; simpa [convOK] using convOK_peel t
  | .bool | .int _ | .uint _ | .f32 | .f64 | .str | .time | .iface | .chan | .named _ _
  | .slice _ | .array _ _ | .mapStr _ | .struct _ => rfl

theorem namedBad_peel : ∀ ty : GoTy, namedBad (peel ty).2 = namedBad ty
  | .ptr t => by
    by_cases hs : isStructKind t = true
    · rw [peel_ptr_struct t hs]
    · have hs' : isStructKind t = false := by simpa using hs
      rw [peel_ptr_other t hs']; simpa [namedBad] using namedBad_peel t
  | .bool | .int _ | .uint _ | .f32 | .f64 | .str | .time | .iface | .chan | .named _ _
  | .slice _ | .array _ _ | .mapStr _ | .struct _ => rfl

theorem ptrIfaceBad_peel : ∀ ty : GoTy, ptrIfaceBad ty = false → ptrIfaceBad (peel ty).2 = false
  | .ptr t, h => by
    by_cases hs : isStructKind t = true
    · rw [peel_ptr_struct t hs]; exact h
    · have hs' : isStructKind t = false := by simpa using hs
      rw [peel_ptr_other t hs']
      simp only [ptrIfaceBad, Bool.or_eq_false_iff] at h
      exact ptrIfaceBad_peel t h.2
  | .bool, h | .int _, h | .uint _, h | .f32, h | .f64, h | .str, h | .time, h | .iface, h | .chan, h
  | .named _ _, h | .slice _, h | .array _ _, h | .mapStr _, h | .struct _, h => h

theorem tyGuards_peel (ty : GoTy) (h : tyGuards ty = []) : tyGuards (peel ty).2 = [] := by
  obtain ⟨h1, h2⟩ := tyGuards_nil ty h
  unfold tyGuards
  simp [namedBad_peel ty, h1, ptrIfaceBad_peel ty h2]

theorem liftPtr_error (k : Nat) (o : Obj) (r : Outcome Dyn) (ho : o ≠ .nil)
    (h : liftPtr k o r = .error) : liftPtr (k + 1) o r = .error := by
  cases k with
  | zero =>
    simp only [liftPtr, if_true] at h
    subst h
    cases o <;> simp_all [liftPtr]
  | succ k' =>
    cases o with
    | nil => exact absurd rfl ho
    | _ =>
      simp only [liftPtr, Nat.add_one_ne_zero, if_false] at h ⊢
      cases r with
      | ok p => cases p <;> simp at h
      | error => rfl
      | panic => simp at h

theorem toGo_ptr_error (F : FOps) (m : Mode) (t : GoTy) (o : Obj)
    (hc : convOK t = true) (hs : isStructKind t = false) (ho : o ≠ .nil)
    (h : toGo F .create t o = .error) : toGo F m (.ptr t) o = .error := by
  unfold toGo at h ⊢
  have hc' : convOK (.ptr t) = true := by simpa [convOK] using hc
  simp only [hc, hc', Bool.true_eq_false, if_false, baseMode_create] at h ⊢
  rw [peel_ptr_other t hs]
  have hb : baseMode m ((peel t).1 + 1) = .create := by simp [baseMode]
  simp only [hb]
  exact liftPtr_error _ o _ ho h

theorem sel_slice_under (m : Mode) (b t : GoTy) (h : sel m b = .slice t) : under b = .slice t :=
  (getSel_inv b).1 t (sel_ne_byte m b _ h (by simp))
theorem sel_map_under (m : Mode) (b t : GoTy) (h : sel m b = .map t) : under b = .mapStr t :=
  (getSel_inv b).2.2.1 t (sel_ne_byte m b _ h (by simp))
theorem sel_array_under (m : Mode) (b : GoTy) (n : Nat) (t : GoTy) (h : sel m b = .array n t) :
    under b = .array n t :=
  (getSel_inv b).2.1 n t (sel_ne_byte m b _ h (by simp))
theorem sel_dyn_under (m : Mode) (b : GoTy) (h : sel m b = .dyn) : under b = .iface :=
  (getSel_inv b).2.2.2.1 (sel_ne_byte m b _ h (by simp))

/-- lifting the base result through the pointer layers -/
theorem wlift (F : FOps) (o : Obj) : ∀ (k : Nat) (m : Mode) (ty : GoTy), (peel ty).1 = k →
    convOK ty = true → tyGuards ty = [] →
    BaseGood F (baseMode m (peel ty).1) (peel ty).2 o → WGood F m ty o
  | 0, m, ty, hk, hc, hg, hb => by
    have h2 := peel_fst_zero ty hk
    rw [hk, h2] at hb
    simp only [baseMode, if_true] at hb
    unfold WGood
    rw [toGo_base F m ty o hc hk]
    rcases hb with he | ⟨rfl, h1, hn⟩ | h3
    · exact Or.inl he
    · refine Or.inr (Or.inl ⟨rfl, h1, ?_, ?_⟩)
      · rw [zero_under]
        rcases hn with ⟨t, hs⟩ | ⟨t, hs⟩ | hs
        · have hu := sel_slice_under m ty t hs; rw [hu]; simp [zero, repr, hu]
        · have hu := sel_map_under m ty t hs; rw [hu]; simp [zero, repr, hu]
        · have hu := sel_dyn_under m ty hs; rw [hu]; simp [zero, repr, hu]
      · intro hm; subst hm
        unfold nilTo
        rcases hn with ⟨t, hs⟩ | ⟨t, hs⟩ | hs <;> simp [hs]
    · exact Or.inr (Or.inr h3)
  | k + 1, m, ty, hk, hc, hg, hb => by
    obtain ⟨t, rfl, hs, hkt, hpt⟩ := peel_succ_inv ty k hk
    obtain ⟨hn, hpi⟩ := tyGuards_nil _ hg
    simp only [ptrIfaceBad, Bool.or_eq_false_iff] at hpi
    have hct : convOK t = true := by simpa [convOK] using hc
    have hgt : tyGuards t = [] := by
      unfold tyGuards; simp [show namedBad t = false by simpa [namedBad] using hn, hpi.2]
    unfold WGood
    by_cases ho : o = .nil
    · subst ho
      refine Or.inr (Or.inl ⟨rfl, toGo_ptr_nil F m t hct hs, by simp [zero, repr, under, hs], ?_⟩)
      intro _; simp [nilTo, sel_ptr_other .create t hs]
    · have hb' : BaseGood F (baseMode .create (peel t).1) (peel t).2 o := by
        rw [baseMode_create]
        rw [hk, ← hpt] at hb
        simpa [baseMode] using hb
      have ih := wlift F o k .create t hkt hct hgt hb'
      rcases ih with he | ⟨h0, _⟩ | ⟨_, d, x, h1, h2, h3⟩
      · exact Or.inl (toGo_ptr_error F m t o hct hs ho he)
      · exact absurd h0 ho
      · have hd : d = t := by
          rcases h2 with h | h
          · exact h
          · rw [hpi.1] at h; cases h
        subst hd
        have hst : store d d x = x := by simp [store, hpi.1]
        rw [hst] at h3
        refine Or.inr (Or.inr ⟨ho, .ptr d, .ptr x, toGo_ptr F m d o d x hct hs ho h1, Or.inl rfl, ?_⟩)
        simp [store, isIfaceKind, under, repr, hs, ho, h3]


theorem writeGuards_base (F : FOps) (m : Mode) (ty : GoTy) (o : Obj) :
    writeGuards F (baseMode m (peel ty).1) (peel ty).2 o = writeGuards F m ty o := by
  have h1 := peel_peel ty
  have h2 := peel_fst_zero _ h1
  cases o <;> simp only [writeGuards, h1, h2, baseMode, if_true]

/-- elements of a container converted by `toElems` / `toArr` / `toMap` -/
def ElemsGood (F : FOps) (t : GoTy) (os : Objs) : Prop :=
  (toElems F t os = .error ∨ ∃ xs, toElems F t os = .ok xs ∧ reprs F t xs os = true) ∧
  (toArr F t os.length os = .error ∨ ∃ xs, toArr F t os.length os = .ok xs ∧ reprs F t xs os = true) ∧
  (∀ ks : List (List Nat), ks.length = os.length →
    toMap F t ks os = .error ∨ ∃ xs, toMap F t ks os = .ok (ks, xs) ∧ reprs F t xs os = true)

theorem wbase_leaf (F : FOps) (m : Mode) (b : GoTy) (o : Obj) (hne : o ≠ .nil)
    (hn : namedBad b = false) (hw : wfW o = true)
    (hb : toBase F m b o = toLeaf F m b o)
    (hg : ∀ d x, toLeaf F m b o = .ok (some (d, x)) → repr F d x o = true) : BaseGood F m b o := by
  cases hl : toLeaf F m b o with
  | error => left; rw [hb, hl]
  | panic => exact absurd hl (toLeaf_ne_panic F m b o)
  | ok r =>
    cases r with
    | none => exact absurd (toLeaf_none F m b o hl) hne
    | some p =>
      obtain ⟨d, x⟩ := p
      have hr : repr F d x o = true := hg d x hl
      exact base_of_some F m b o d x (by rw [hb, hl]) hne (toLeaf_ty F m b o d x hn hl) hr

theorem sel_structV_inv (m : Mode) (b : GoTy) (h : sel m b = .structV) :
    isStructKind b = true ∧ b ≠ .time :=
  (getSel_inv b).2.2.2.2.1 (sel_ne_byte m b _ h (by simp))

theorem not_structKind_of_under (b u : GoTy) (hu : under b = u) (h : isStructKind u = false)
    : isStructKind b = false := by
  unfold isStructKind at h ⊢
  rw [hu]
  have : under u = u := by rw [← hu, under_idem]
  rwa [this] at h

/-! ### struct values assembled from a map object -/

theorem fieldsOK_nth : ∀ (fs : Fields) (i : Nat) (ft : GoTy), fieldsOK fs = true →
    fs.nth i = some ft → convOK ft = true
  | .nil, _, _, _, h => by simp [Fields.nth] at h
  | .cons t r, 0, ft, hc, h => by
    simp only [fieldsOK, Bool.and_eq_true] at hc
    simp only [Fields.nth, Option.some.injEq] at h
    subst h; exact hc.1
  | .cons t r, i + 1, ft, hc, h => by
    simp only [fieldsOK, Bool.and_eq_true] at hc
    simp only [Fields.nth] at h
    exact fieldsOK_nth r i ft hc.2 h

theorem fieldsOK_fieldsOf (b : GoTy) (hc : convOK b = true) : fieldsOK (fieldsOf b) = true := by
  rw [convOK_under] at hc
  unfold fieldsOf
  cases hu : under b <;> simp [fieldsOK]
  rw [hu] at hc
  simpa [convOK] using hc

/-- what the map → struct loop establishes: per field, the first entry that names it has been
    converted into a value representing it; a field no entry names is not listed -/
def FieldsGood (F : FOps) (fs : Fields) (ks : List (List Nat)) (os : Objs) : Prop :=
  toFieldVals F fs ks os = .error ∨
  ∃ ps, toFieldVals F fs ks os = .ok ps ∧
    ∀ i ft, fs.nth i = some ft →
      match entryFor fs.length i ks os with
      | some o => ∃ x, ps.lookup i = some x ∧ repr F ft x o = true
      | none => ps.lookup i = none

/-- the assembled struct is represented by the map: named fields hold their entries, the others
    are zero -/
theorem place_repr (F : FOps) (n : Nat) (ks : List (List Nat)) (os : Objs) (ps : List (Nat × GoVal)) :
    ∀ (fs : Fields) (j : Nat),
      (∀ i ft, fs.nth i = some ft →
        match entryFor n (j + i) ks os with
        | some o => ∃ x, ps.lookup (j + i) = some x ∧ repr F ft x o = true
        | none => ps.lookup (j + i) = none) →
      reprFields F n j fs (place j fs ps) ks os = true
  | .nil, _, _ => by simp [place, reprFields]
  | .cons ft fs, j, h => by
    have h0 := h 0 ft rfl
    simp only [Nat.add_zero] at h0
    have ih := place_repr F n ks os ps fs (j + 1) (by
      intro i ft' hi
      have := h (i + 1) ft' (by simpa [Fields.nth] using hi)
      rw [show j + (i + 1) = j + 1 + i by omega] at this
      exact this)
    simp only [place, reprFields, ih, Bool.and_true]
    cases he : entryFor n j ks os with
    | none => rw [he] at h0; simp [h0]
    | some o =>
      rw [he] at h0
      obtain ⟨x, hx, hr⟩ := h0
      simp [hx, hr]

theorem fill_repr (F : FOps) (s : GoTy) (hs : isStructKind s = true) (ks : List (List Nat)) (os : Objs)
    (ps : List (Nat × GoVal))
    (h : ∀ i ft, (fieldsOf s).nth i = some ft →
      match entryFor (fieldsOf s).length i ks os with
      | some o => ∃ x, ps.lookup i = some x ∧ repr F ft x o = true
      | none => ps.lookup i = none) :
    repr F s (fillStruct s ps) (.map ks os) = true := by
  rcases isStructKind_cases s hs with ⟨fs, hu⟩ | hu
  · have hf : fieldsOf s = fs := by simp [fieldsOf, hu]
    rw [hf] at h
    have := place_repr F fs.length ks os ps fs 0 (by
      intro i ft hi
      have := h i ft hi
      simpa using this)
    simp [fillStruct, hu, repr, hs, this]
  · have hz : fillStruct s ps = .time 0 := by
      unfold fillStruct
      rw [hu, zero_under, hu]; rfl
    rw [hz]
    simp [repr, hs, isMapObj]

mutual
theorem wbase (F : FOps) : ∀ (o : Obj) (m : Mode) (b : GoTy), (peel b).1 = 0 → convOK b = true →
    tyGuards b = [] → wfW o = true → writeGuards F m b o = [] → BaseGood F m b o
  | .bool v, m, b, hk, _, hg, hw, hwg => by
    apply wbase_leaf F m b _ (by simp) (tyGuards_nil b hg).1 hw rfl
    intro d x hl
    simp only [writeGuards, hk, peel_fst_zero b hk, baseMode, if_true, hl] at hwg
    split at hwg
    · assumption
    · cases hwg
  | .int v, m, b, hk, _, hg, hw, hwg => by
    apply wbase_leaf F m b _ (by simp) (tyGuards_nil b hg).1 hw rfl
    intro d x hl
    simp only [writeGuards, hk, peel_fst_zero b hk, baseMode, if_true, hl] at hwg
    split at hwg
    · assumption
    · cases hwg
  | .float v, m, b, hk, _, hg, hw, hwg => by
    apply wbase_leaf F m b _ (by simp) (tyGuards_nil b hg).1 hw rfl
    intro d x hl
    simp only [writeGuards, hk, peel_fst_zero b hk, baseMode, if_true, hl] at hwg
    split at hwg
    · assumption
    · cases hwg
  | .byte v, m, b, hk, _, hg, hw, hwg => by
    apply wbase_leaf F m b _ (by simp) (tyGuards_nil b hg).1 hw rfl
    intro d x hl
    simp only [writeGuards, hk, peel_fst_zero b hk, baseMode, if_true, hl] at hwg
    split at hwg
    · assumption
    · cases hwg
  | .str v, m, b, hk, _, hg, hw, hwg => by
    apply wbase_leaf F m b _ (by simp) (tyGuards_nil b hg).1 hw rfl
    intro d x hl
    simp only [writeGuards, hk, peel_fst_zero b hk, baseMode, if_true, hl] at hwg
    split at hwg
    · assumption
    · cases hwg
  | .bytes v, m, b, hk, _, hg, hw, hwg => by
    apply wbase_leaf F m b _ (by simp) (tyGuards_nil b hg).1 hw rfl
    intro d x hl
    simp only [writeGuards, hk, peel_fst_zero b hk, baseMode, if_true, hl] at hwg
    split at hwg
    · assumption
    · cases hwg
  | .floats v, m, b, hk, _, hg, hw, hwg => by
    apply wbase_leaf F m b _ (by simp) (tyGuards_nil b hg).1 hw rfl
    intro d x hl
    simp only [writeGuards, hk, peel_fst_zero b hk, baseMode, if_true, hl] at hwg
    split at hwg
    · assumption
    · cases hwg
  | .time v, m, b, hk, _, hg, hw, hwg => by
    apply wbase_leaf F m b _ (by simp) (tyGuards_nil b hg).1 hw rfl
    intro d x hl
    simp only [writeGuards, hk, peel_fst_zero b hk, baseMode, if_true, hl] at hwg
    split at hwg
    · assumption
    · cases hwg
  | .nil, m, b, _, _, _, _, _ => by
    unfold BaseGood baseNil
    cases hs : sel m b <;> simp [toBase, hs]
  | .proxy pty pv, m, b, hk, _, hg, hw, hwg => by
    simp only [wfW, Bool.and_eq_true] at hw
    simp only [writeGuards, hk, peel_fst_zero b hk, baseMode, if_true] at hwg
    cases hs : sel m b with
    | structV =>
      rw [hs] at hwg
      obtain ⟨hsk, hnt⟩ := sel_structV_inv m b hs
      by_cases hc : pty = .ptr b ∧ pv ≠ .nilv
      · obtain ⟨rfl, hpv⟩ := hc
        cases pv with
        | nilv => exact absurd rfl hpv
        | ptr sv =>
          apply base_of_some F m b _ b sv (by simp [toBase, hs]) (by simp) (Or.inl rfl)
          cases sv with
          | struct xs => simp [repr, hsk]
          | time t => simp [repr, hsk, hnt]
          | _ => simp at hw
        | _ => simp at hw
      · simp [hc] at hwg
    | structP =>
      rw [hs] at hwg
      by_cases hc : pty = b
      · subst hc
        exact base_of_some F m _ _ _ pv (by simp [toBase, hs]) (by simp) (Or.inl rfl)
          (proxy_repr F _ _ hw.1)
      · simp [hc] at hwg
    | dyn =>
      have hu := sel_dyn_under m b hs
      exact base_of_some F m b _ pty pv (by simp [toBase, hs]) (by simp)
        (Or.inr (by simp [isIfaceKind, hu])) (proxy_repr F _ _ hw.1)
    | _ => left; simp [toBase, hs]
  | .list os, m, b, hk, hc, hg, hw, hwg => by
    obtain ⟨hn, hpi⟩ := tyGuards_nil b hg
    simp only [wfW] at hw
    simp only [writeGuards, hk, peel_fst_zero b hk, baseMode, if_true] at hwg
    cases hs : sel m b with
    | slice t =>
      rw [hs] at hwg
      have hu := sel_slice_under m b t hs
      have hb : b = .slice t := by
        rw [← hu]; exact (under_self b hn (not_structKind_of_under b _ hu (by simp [isStructKind, under]))
          (by simp [isScalarKind, hu])).symm
      subst hb
      have hct : convOK t = true := by simpa [convOK] using hc
      have hgt : tyGuards t = [] := tyGuards_sub _ t hg (by simp [namedBad]) (by simp [ptrIfaceBad])
      rcases (wbases F os t hct hgt hw hwg).1 with he | ⟨xs, h1, h2⟩
      · left; simp [toBase, hs, he]
      · exact base_of_some F m _ _ (.slice t) (.seq xs) (by simp [toBase, hs, h1]) (by simp) (Or.inl rfl)
          (by simp [repr, under, h2])
    | array n t =>
      rw [hs] at hwg
      have hu := sel_array_under m b n t hs
      have hb : b = .array n t := by
        rw [← hu]; exact (under_self b hn (not_structKind_of_under b _ hu (by simp [isStructKind, under]))
          (by simp [isScalarKind, hu])).symm
      subst hb
      have hct : convOK t = true := by simpa [convOK] using hc
      have hgt : tyGuards t = [] := tyGuards_sub _ t hg (by simp [namedBad]) (by simp [ptrIfaceBad])
      obtain ⟨hlen, hwe⟩ := append_nil' hwg
      have hge : ¬ os.length < n := by
        intro h; simp [h] at hlen
      -- a longer list is rejected before the loop (it used to panic: C08_fixed_array_longer_panicked)
      by_cases hgt' : os.length > n
      · left; simp [toBase, hs, hgt']
      · have hl : os.length = n := by omega
        rcases (wbases F os t hct hgt hw hwe).2.1 with he | ⟨xs, h1, h2⟩
        · left; rw [hl] at he; simp [toBase, hs, he]
        · rw [hl] at h1
          exact base_of_some F m _ _ (.array n t) (.seq xs) (by simp [toBase, hs, h1, hgt']) (by simp) (Or.inl rfl)
            (by simp [repr, under, h2])
    | dyn =>
      have hu := sel_dyn_under m b hs
      have hwo : wfObj (.list os) = true := wfW_wfObj _ (by simpa [wfW] using hw)
      exact base_of_some F m b _ (.slice .iface) (.seq (ifaceElems os)) (by simp [toBase, hs, objIface]) (by simp)
        (Or.inr (by simp [isIfaceKind, hu])) (objIface_repr F (.list os) _ _ hwo (by simp [objIface]))
    | _ => left; simp [toBase, hs]
  | .map ks os, m, b, hk, hc, hg, hw, hwg => by
    obtain ⟨hn, hpi⟩ := tyGuards_nil b hg
    simp only [wfW, Bool.and_eq_true, decide_eq_true_eq] at hw
    simp only [writeGuards, hk, peel_fst_zero b hk, baseMode, if_true] at hwg
    cases hs : sel m b with
    | map t =>
      rw [hs] at hwg
      have hu := sel_map_under m b t hs
      have hb : b = .mapStr t := by
        rw [← hu]; exact (under_self b hn (not_structKind_of_under b _ hu (by simp [isStructKind, under]))
          (by simp [isScalarKind, hu])).symm
      subst hb
      have hct : convOK t = true := by simpa [convOK] using hc
      have hgt : tyGuards t = [] := tyGuards_sub _ t hg (by simp [namedBad]) (by simp [ptrIfaceBad])
      rcases (wbases F os t hct hgt hw.2 hwg).2.2 ks hw.1 with he | ⟨xs, h1, h2⟩
      · left; simp [toBase, hs, he]
      · exact base_of_some F m _ _ (.mapStr t) (.map ks xs) (by simp [toBase, hs, h1]) (by simp) (Or.inl rfl)
          (by simp [repr, under, h2])
    | dyn =>
      have hu := sel_dyn_under m b hs
      have hwo : wfObj (.map ks os) = true := wfW_wfObj _ (by simp [wfW, hw.1, hw.2])
      exact base_of_some F m b _ (.mapStr .iface) (.map ks (ifaceElems os)) (by simp [toBase, hs, objIface]) (by simp)
        (Or.inr (by simp [isIfaceKind, hu])) (objIface_repr F (.map ks os) _ _ hwo (by simp [objIface]))
    | structV =>
      -- a map object for a struct-typed slot: a new struct, the named fields set
      rw [hs] at hwg
      obtain ⟨hsk, _⟩ := sel_structV_inv m b hs
      rcases wfields F os ks (fieldsOf b) (fieldsOK_fieldsOf b hc) hw.2 hwg with he | ⟨ps, h1, h2⟩
      · left; simp [toBase, hs, he]
      · exact base_of_some F m b _ b (fillStruct b ps) (by simp [toBase, hs, h1]) (by simp) (Or.inl rfl)
          (fill_repr F b hsk ks os ps h2)
    | structP =>
      rw [hs] at hwg
      obtain ⟨s, hu, hsk⟩ := (getSel_inv b).2.2.2.2.2.1 (sel_ne_byte m b _ hs (by simp))
      rw [hu] at hwg
      have hcs : convOK s = true := by
        rw [convOK_under, hu] at hc; simpa [convOK] using hc
      rcases wfields F os ks (fieldsOf s) (fieldsOK_fieldsOf s hcs) hw.2 hwg with he | ⟨ps, h1, h2⟩
      · left; simp [toBase, hs, hu, he]
      · exact base_of_some F m b _ b (.ptr (fillStruct s ps)) (by simp [toBase, hs, hu, h1]) (by simp) (Or.inl rfl)
          (by simp [repr, hu, hsk, isMapObj, fill_repr F s hsk ks os ps h2])
    | _ => left; simp [toBase, hs]
theorem wbases (F : FOps) : ∀ (os : Objs) (t : GoTy), convOK t = true → tyGuards t = [] →
    wfWs os = true → elemWriteGuards F t os = [] → ElemsGood F t os
  | .nil, t, _, _, _, _ => by
    refine ⟨Or.inr ⟨.nil, rfl, rfl⟩, Or.inr ⟨.nil, rfl, rfl⟩, ?_⟩
    intro ks hks
    cases ks with
    | nil => exact Or.inr ⟨.nil, rfl, rfl⟩
    | cons k r => simp [Objs.length] at hks
  | .cons o r, t, hc, hg, hw, hwg => by
    simp only [wfWs, Bool.and_eq_true] at hw
    unfold elemWriteGuards at hwg
    obtain ⟨hg12, hg3⟩ := append_nil' hwg
    obtain ⟨hg1, hg2⟩ := append_nil' hg12
    obtain ⟨ih1, ih2, ih3⟩ := wbases F r t hc hg hw.2 hg3
    have hbase := wbase F o (baseMode .create (peel t).1) (peel t).2 (peel_peel t)
      (by rw [convOK_peel]; exact hc) (tyGuards_peel t hg) hw.1
      (by rw [writeGuards_base]; exact hg2)
    have hgood := wlift F o (peel t).1 .create t rfl hc hg hbase
    have hto := toGo_unfold F .create t o hc
    unfold WGood at hgood
    rw [hto] at hgood
    rcases hgood with he | ⟨rfl, _, _, hnt⟩ | ⟨_, d, x, h1, h2, h3⟩
    · refine ⟨Or.inl (by simp [toElems, he]), Or.inl (by simp [toArr, Objs.length, he]), ?_⟩
      intro ks hks
      cases ks with
      | nil => simp [Objs.length] at hks
      | cons k ks' => left; simp [toMap, he]
    · simp [hnt rfl] at hg1
    · have hput : putElem t (some (d, x)) = .ok (store t d x) := by
        simp [putElem, assignable_of t d h2]
      refine ⟨?_, ?_, ?_⟩
      · rcases ih1 with he | ⟨xs, g1, g2⟩
        · left; simp [toElems, h1, hput, he]
        · right; exact ⟨.cons (store t d x) xs, by simp [toElems, h1, hput, g1], by simp [reprs, h3, g2]⟩
      · rcases ih2 with he | ⟨xs, g1, g2⟩
        · left; simp [toArr, Objs.length, h1, hput, he]
        · right; exact ⟨.cons (store t d x) xs, by simp [toArr, Objs.length, h1, hput, g1], by simp [reprs, h3, g2]⟩
      · intro ks hks
        cases ks with
        | nil => simp [Objs.length] at hks
        | cons k ks' =>
          simp only [List.length_cons, Objs.length, Nat.add_right_cancel_iff] at hks
          rcases ih3 ks' hks with he | ⟨xs, g1, g2⟩
          · left; simp [toMap, h1, assignable_of t d h2, he]
          · right
            exact ⟨.cons (store t d x) xs, by simp [toMap, h1, assignable_of t d h2, g1], by simp [reprs, h3, g2]⟩
theorem wfields (F : FOps) : ∀ (os : Objs) (ks : List (List Nat)) (fs : Fields), fieldsOK fs = true →
    wfWs os = true → fieldWriteGuards F fs ks os = [] → FieldsGood F fs ks os
  | .nil, ks, fs, _, _, _ => by
    right
    refine ⟨[], by cases ks <;> simp [toFieldVals], ?_⟩
    intro i ft _
    cases ks <;> simp [entryFor]
  | .cons o r, [], fs, _, _, _ => by
    right
    refine ⟨[], by simp [toFieldVals], ?_⟩
    intro i ft _
    simp [entryFor]
  | .cons o r, k :: ks, fs, hc, hw, hwg => by
    simp only [wfWs, Bool.and_eq_true] at hw
    unfold fieldWriteGuards at hwg
    obtain ⟨hg1, hg2⟩ := append_nil' hwg
    have ih := wfields F r ks fs hc hw.2 hg2
    -- an entry that sets no field: skipped by both the loop and the Spec
    have skip : (∀ i ft, fs.nth i = some ft → fieldIdx fs.length k ≠ some i) →
        toFieldVals F fs (k :: ks) (.cons o r) = toFieldVals F fs ks r →
        FieldsGood F fs (k :: ks) (.cons o r) := by
      intro hne heq
      unfold FieldsGood
      rw [heq]
      rcases ih with he | ⟨ps, h1, h2⟩
      · exact Or.inl he
      · refine Or.inr ⟨ps, h1, ?_⟩
        intro i ft hi
        have hent : entryFor fs.length i (k :: ks) (.cons o r) = entryFor fs.length i ks r := by
          simp [entryFor, hne i ft hi]
        rw [hent]
        exact h2 i ft hi
    cases hidx : fieldIdx fs.length k with
    | none =>
      exact skip (by intro i ft _; simp [hidx]) (by simp [toFieldVals, hidx])
    | some j =>
      cases hnth : fs.nth j with
      | none =>
        refine skip ?_ (by simp [toFieldVals, hidx, hnth])
        intro i ft hi e
        rw [hidx] at e
        simp only [Option.some.injEq] at e
        subst e
        rw [hnth] at hi; cases hi
      | some ft =>
        simp only [hidx, hnth] at hg1
        obtain ⟨hgA, hgw⟩ := append_nil' hg1
        obtain ⟨hgB, hgt⟩ := append_nil' hgA
        obtain ⟨hgnil, hgsk⟩ := append_nil' hgB
        have hne : o ≠ .nil := by
          intro e; simp [e] at hgnil
        have hsk : isStructKind ft = false := by
          cases h : isStructKind ft with
          | false => rfl
          | true => simp [h] at hgsk
        have hft : fieldConvTy ft = ft := by simp [fieldConvTy, hsk]
        rw [hft] at hgt hgw
        have hcf : convOK ft = true := fieldsOK_nth fs j ft hc hnth
        have hbase := wbase F o (baseMode .get (peel ft).1) (peel ft).2 (peel_peel ft)
          (by rw [convOK_peel]; exact hcf) (tyGuards_peel ft hgt) hw.1
          (by rw [writeGuards_base]; exact hgw)
        have hgood := wlift F o (peel ft).1 .get ft rfl hcf hgt hbase
        have hto := toGo_unfold F .get ft o hcf
        unfold WGood at hgood
        rw [hto] at hgood
        rcases hgood with he | ⟨h0, _⟩ | ⟨_, d, x, h1, h2, h3⟩
        · left; simp [toFieldVals, hidx, hnth, hft, he]
        · exact absurd h0 hne
        · have hput : putElem ft (some (d, x)) = .ok (store ft d x) := by
            simp [putElem, assignable_of ft d h2]
          rcases ih with he | ⟨ps, g1, g2⟩
          · left; simp [toFieldVals, hidx, hnth, hft, h1, hput, he]
          · right
            refine ⟨(j, store ft d x) :: ps, by simp [toFieldVals, hidx, hnth, hft, h1, hput, g1], ?_⟩
            intro i ft' hi
            by_cases hij : i = j
            · subst hij
              rw [hnth] at hi
              simp only [Option.some.injEq] at hi
              subst hi
              have hent : entryFor fs.length i (k :: ks) (.cons o r) = some o := by
                simp [entryFor, hidx]
              have hlk : List.lookup i ((i, store ft d x) :: ps) = some (store ft d x) := by
                simp [List.lookup]
              rw [hent, hlk]
              exact ⟨_, rfl, h3⟩
            · have hji : ¬ j = i := fun e => hij e.symm
              have hent : entryFor fs.length i (k :: ks) (.cons o r) = entryFor fs.length i ks r := by
                simp [entryFor, hidx, hji]
              have hb : (i == j) = false := by simp [hij]
              have hlk : List.lookup i ((j, store ft d x) :: ps) = List.lookup i ps := by
                simp [List.lookup, hb]
              rw [hent, hlk]
              exact g2 i ft' hi
end



theorem sel_pointer_inv (m : Mode) (ty t : GoTy) (h : sel m ty = .pointer t) :
    under ty = .ptr t ∧ isStructKind t = false := by
  have hg := sel_ne_byte m ty _ h (by simp)
  unfold getSel at hg
  split at hg <;> try cases hg
  split at hg <;> try cases hg
  split at hg <;> try cases hg
  split at hg <;> try cases hg
  split at hg <;> try cases hg
  rename_i t' hu
  split at hg
  · cases hg
  · rename_i hs
    simp only [Sel.pointer.injEq] at hg
    subst hg
    exact ⟨hu, by simpa using hs⟩

/-! ### the type registry -/

/-- `struct{ C chan int; N int32 }`: rejected with an error the first time; accepted on every later
    attempt (the failed registration stays in `goTypeRegistry`), with a proxy on which not even the
    supported field `N` can be read -/
theorem C08_counterexample_registry (F : FOps) :
    let ty := GoTy.struct (.cons .chan (.cons (.int .w32) .nil))
    let v := GoVal.struct (.cons .nilv (.cons (.int 5) .nil))
    fromGo F .create ty v = .error ∧
    fromGoRetry F .create ty v = .ok (.proxy (.ptr ty) (.ptr v)) ∧
    getAttrRetry F (.ptr ty) (.ptr v) 1 = .error := ⟨rfl, rfl, rfl⟩


/-- the conversion into a slot, when its guards are empty -/
theorem toSlot_good (F : FOps) (m : Mode) (ty : GoTy) (o : Obj) (hw : wfW o = true)
    (hg : writeAllGuards F m ty o = []) :
    toSlot F m ty o = .error ∨ ∃ v, toSlot F m ty o = .ok v ∧ repr F ty v o = true := by
  by_cases hc : convOK ty = true
  · unfold writeAllGuards at hg
    obtain ⟨hgt, hgw⟩ := append_nil' hg
    have hbase := wbase F o (baseMode m (peel ty).1) (peel ty).2 (peel_peel ty)
      (by rw [convOK_peel]; exact hc) (tyGuards_peel ty hgt) hw (by rw [writeGuards_base]; exact hgw)
    rcases wlift F o (peel ty).1 m ty rfl hc hgt hbase with he | ⟨rfl, h1, h2, _⟩ | ⟨_, d, x, h1, h2, h3⟩
    · left; simp [toSlot, he, Outcome.bind]
    · right; exact ⟨zero ty, by simp [toSlot, h1, Outcome.bind, assignField], h2⟩
    · right
      exact ⟨store ty d x, by simp [toSlot, h1, Outcome.bind, assignField, assignable_of ty d h2], h3⟩
  · have hc' : convOK ty = false := by simpa using hc
    left; simp [toSlot, toGo, hc', Outcome.bind]


theorem Vals.nth_set : ∀ (xs : Vals) (i : Nat) (x : GoVal), (xs.nth i).isSome = true →
    (xs.set i x).nth i = some x
  | .nil, _, _, h => by simp [Vals.nth] at h
  | .cons _ _, 0, _, _ => rfl
  | .cons _ r, i + 1, x, h => by
    simp only [Vals.nth] at h
    simpa [Vals.set, Vals.nth] using Vals.nth_set r i x h


/-! ### several arguments (`callArgs`) and reused VMs (`reuseRead`) -/

theorem callArg_eq_convArg (F : FOps) (pt : GoTy) (o : Obj) :
    callArg F pt o = match convArg F pt o with
      | .ok (some x) => .ok x
      | .ok none => .panic
      | .error => .error
      | .panic => .panic := by
  unfold callArg convArg
  by_cases hc : convOK pt = false
  · simp [hc]
  · simp only [hc, if_false]
    cases o <;> simp only <;> first
      | rfl
      | (generalize toGo F .get pt _ = r
         cases r with
         | error => rfl
         | panic => rfl
         | ok d =>
           cases d with
           | none => rfl
           | some p =>
             obtain ⟨d, x⟩ := p
             simp only
             cases ha : assignable pt d <;> simp)

theorem allSome_map_some : ∀ (xs : Vals), allSome (xs.toList.map some) = some xs
  | .nil => rfl
  | .cons x r => by simp [Vals.toList, allSome, allSome_map_some r]

theorem reprArgs_length (F : FOps) : ∀ (pts : Fields) (xs : Vals) (os : Objs),
    reprArgs F pts xs os = true → xs.length = pts.length
  | .nil, .nil, .nil, _ => rfl
  | .nil, .nil, .cons _ _, h => by simp [reprArgs] at h
  | .nil, .cons _ _, _, h => by simp [reprArgs] at h
  | .cons _ _, .nil, _, h => by simp [reprArgs] at h
  | .cons _ _, .cons _ _, .nil, h => by simp [reprArgs] at h
  | .cons _ ts, .cons _ xs, .cons _ os, h => by
    simp only [reprArgs, Bool.and_eq_true] at h
    simp [Vals.length, Fields.length, reprArgs_length F ts xs os h.2]

theorem reprArgs_lengths (F : FOps) : ∀ (pts : Fields) (xs : Vals) (os : Objs),
    reprArgs F pts xs os = true → ¬ pts.length < os.length
  | .nil, .nil, .nil, _ => by simp [Objs.length, Fields.length]
  | .nil, .nil, .cons _ _, h => by simp [reprArgs] at h
  | .nil, .cons _ _, _, h => by simp [reprArgs] at h
  | .cons _ _, .nil, _, h => by simp [reprArgs] at h
  | .cons _ _, .cons _ _, .nil, h => by simp [reprArgs] at h
  | .cons _ ts, .cons _ xs, .cons _ os, h => by
    simp only [reprArgs, Bool.and_eq_true] at h
    have := reprArgs_lengths F ts xs os h.2
    simp [Objs.length, Fields.length]; omega

theorem toList_map_length : ∀ (xs : Vals), (xs.toList.map some).length = xs.length
  | .nil => rfl
  | .cons _ r => by simp [Vals.toList, Vals.length, ← toList_map_length r]

theorem convArgs_good (F : FOps)
    (hpos : ∀ pt o, wfW o = true → callGuards F pt o = [] → specWrite F pt o (callArg F pt o) = true) :
    ∀ (pts : Fields) (os : Objs), wfWs os = true →
    callNGuards F pts os = [] →
    convArgs F pts os = .error ∨ ∃ xs : Vals, convArgs F pts os = .ok (xs.toList.map some) ∧
      (xs.length < pts.length ∨ pts.length < os.length ∨ reprArgs F pts xs os = true)
  | .nil, .nil, _, _ => Or.inr ⟨.nil, rfl, Or.inr (Or.inr rfl)⟩
  | .nil, .cons _ _, _, _ => Or.inr ⟨.nil, rfl, Or.inr (Or.inl (by simp [Objs.length, Fields.length]))⟩
  | .cons _ _, .nil, _, _ => Or.inr ⟨.nil, rfl, Or.inl (by simp [Vals.length, Fields.length])⟩
  | .cons pt pts, .cons o r, hw, hg => by
    simp only [wfWs, Bool.and_eq_true] at hw
    simp only [callNGuards] at hg
    obtain ⟨hg1, hg2⟩ := append_nil' hg
    have h1 := hpos pt o hw.1 hg1
    rw [callArg_eq_convArg] at h1
    unfold convArgs
    cases hc : convArg F pt o with
    | error => left; rfl
    | panic => rw [hc] at h1; simp [specWrite] at h1
    | ok x =>
      rw [hc] at h1
      cases x with
      | none => simp [specWrite] at h1
      | some x =>
        simp only [specWrite] at h1
        rcases convArgs_good F hpos pts r hw.2 hg2 with he | ⟨xs, hx, hr⟩
        · left; simp [Outcome.bind, he, Outcome.map]
        · right
          refine ⟨.cons x xs, by simp [Outcome.bind, hx, Outcome.map, Vals.toList], ?_⟩
          rcases hr with hl | hl | hr
          · left; simp [Vals.length, Fields.length]; omega
          · right; left; simp [Objs.length, Fields.length]; omega
          · right; right; simp [reprArgs, h1, hr]

theorem find_filter_ne (n m : Nat) (hne : (m == n) = false) : ∀ (l : List Binding),
    (l.filter (fun x => x.1 != m)).find? (fun b => b.1 == n) = l.find? (fun b => b.1 == n)
  | [] => rfl
  | b :: r => by
    by_cases hb : b.1 = m
    · have h2 : (b.1 == n) = false := by rw [hb]; exact hne
      simp [List.filter, hb, List.find?, hne, find_filter_ne n m hne r]
    · have h1 : (b.1 != m) = true := by simp [hb]
      simp only [List.filter, h1, List.find?]
      cases hbn : (b.1 == n) with
      | true => rfl
      | false => exact find_filter_ne n m hne r

theorem held_find (n : Nat) : ∀ (hist : List Binding),
    (held hist).find? (fun b => b.1 == n) = hist.find? (fun b => b.1 == n)
  | [] => rfl
  | b :: r => by
    simp only [held, List.find?]
    cases hbn : (b.1 == n) with
    | true => rfl
    | false => simp only; rw [find_filter_ne n b.1 hbn, held_find n r]

theorem convertAll_lookup (F : FOps) (n : Nat) : ∀ (l : List Binding) (gs : List (Nat × Obj)),
    convertAll F l = .ok gs →
    match l.find? (fun b => b.1 == n) with
    | some b => ∃ o, fromGo F .create b.2.1 b.2.2 = .ok o ∧ lookupObj n gs = some o
    | none => lookupObj n gs = none
  | [], gs, h => by
    simp only [convertAll, Outcome.ok.injEq] at h
    subst h
    rfl
  | (m, ty, v) :: r, gs, h => by
    simp only [convertAll] at h
    cases hf : fromGo F .create ty v with
    | error => simp [hf, Outcome.bind] at h
    | panic => simp [hf, Outcome.bind] at h
    | ok o =>
      cases hr : convertAll F r with
      | error => simp [hf, hr, Outcome.bind, Outcome.map] at h
      | panic => simp [hf, hr, Outcome.bind, Outcome.map] at h
      | ok gs' =>
        simp only [hf, hr, Outcome.bind, Outcome.map, Outcome.ok.injEq] at h
        subst h
        simp only [List.find?, lookupObj]
        cases hmn : (m == n) with
        | true => exact ⟨o, hf, by simp⟩
        | false => simpa using convertAll_lookup F n r gs' hr

theorem convertAll_no_panic (F : FOps) : ∀ (l : List Binding),
    (∀ b ∈ l, fromGo F .create b.2.1 b.2.2 ≠ .panic) → convertAll F l ≠ .panic
  | [], _ => by simp [convertAll]
  | (m, ty, v) :: r, h => by
    have h1 := h (m, ty, v) (by simp)
    have h2 := convertAll_no_panic F r (fun b hb => h b (by simp [hb]))
    simp only [convertAll]
    cases hf : fromGo F .create ty v with
    | error => simp [Outcome.bind]
    | panic => exact absurd hf h1
    | ok o =>
      cases hr : convertAll F r with
      | error => simp [Outcome.bind, Outcome.map]
      | panic => exact absurd hr h2
      | ok gs => simp [Outcome.bind, Outcome.map]

theorem heldGuards_mem : ∀ (l : List Binding), heldGuards l = [] →
    ∀ b ∈ l, clean .create b.2.1 b.2.2 = true
  | [], _, b, hb => by simp at hb
  | (m, ty, v) :: r, h, b, hb => by
    simp only [heldGuards] at h
    obtain ⟨h1, h2⟩ := append_nil' h
    simp only [List.mem_cons] at hb
    rcases hb with rfl | hb
    · simp [clean, h1]
    · exact heldGuards_mem r h2 b hb

theorem held_sub : ∀ (hist : List Binding), ∀ b ∈ held hist, b ∈ hist
  | [], b, hb => by simp [held] at hb
  | a :: r, b, hb => by
    simp only [held, List.mem_cons, List.mem_filter] at hb
    rcases hb with rfl | ⟨hb, _⟩
    · simp
    · simp [held_sub r b hb]

/-! ### Go → script alone: the read direction, declared container types included -/

/-- the converter of a type that is not of a basic kind and is none of the exact-type entries:
    selected by the kind of its underlying type, whatever its declared name -/
theorem sel_nonscalar (m : Mode) (ty : GoTy) (hsc : isScalarKind ty = false) (h1 : ty ≠ .time)
    (h2 : ty ≠ .slice (.uint .w8)) (h3 : ty ≠ .slice .f64) :
    sel m ty = match under ty with
      | .struct _ | .time => .structV
      | .ptr t => if isStructKind t then .structP else .pointer t
      | .slice t => .slice t
      | .array n t => .array n t
      | .mapStr t => .map t
      | .iface => .dyn
      | _ => .unsupported := by
  have h8 : ty ≠ .uint .w8 := by intro e; subst e; simp [isScalarKind, under] at hsc
  simp only [sel, getSel, hsc, h1, h2, h3, h8, and_false, if_false, Bool.false_eq_true]
  cases under ty <;> rfl

theorem tyGuards_scalar : ∀ (ty : GoTy), isScalarKind ty = true → tyGuards ty = []
  | .named id u, h => by
    have hu : isScalarKind u = true := by simpa [isScalarKind, under] using h
    have ih := tyGuards_scalar u hu
    obtain ⟨h1, h2⟩ := tyGuards_nil u ih
    simp [tyGuards, namedBad, ptrIfaceBad, hu, h1, h2]
  | .bool, _ | .int _, _ | .uint _, _ | .f32, _ | .f64, _ | .str, _ => by
    simp [tyGuards, namedBad, ptrIfaceBad]
  | .time, h | .iface, h | .chan, h | .ptr _, h | .slice _, h | .array _ _, h | .mapStr _, h
  | .struct _, h => by simp [isScalarKind, under] at h

/-- what the read theorem establishes for one value: `From` is an error, or it gives an object that
    represents the value — and the script's `nil` only for a nil -/
def ReadGood (F : FOps) (m : Mode) (ty : GoTy) (v : GoVal) : Prop :=
  fromGo F m ty v = .error ∨
  ∃ o, fromGo F m ty v = .ok o ∧ repr F ty v o = true ∧ (o = .nil → v = .nilv)

def ReadGoodVals (F : FOps) (t : GoTy) (xs : Vals) : Prop :=
  fromVals F t xs = .error ∨ ∃ os, fromVals F t xs = .ok os ∧ reprs F t xs os = true

theorem good_read (F : FOps) (m : Mode) (ty : GoTy) (v : GoVal) (h : Good F m ty v) :
    ReadGood F m ty v := by
  rcases h with he | ⟨o, h1, _, h2, h3⟩
  · exact Or.inl he
  · refine Or.inr ⟨o, h1, h2, ?_⟩
    rcases h3 with ⟨_, _, hv⟩ | ⟨hne, _⟩
    · exact fun _ => hv
    · exact fun e => absurd e hne

theorem convOK_of_under (ty u : GoTy) (hu : under ty = u) (hc : convOK ty = true) : convOK u = true := by
  rw [convOK_under, hu] at hc; exact hc

theorem not_mem_if_nilElem (c : Bool) :
    Finding.nilCollapse ∉ (if c = true then [Finding.nilElem] else []) := by
  cases c <;> simp

mutual
theorem read_val (F : FOps) (hF : ∀ b, F.narrow (F.widen b) = b) :
    ∀ (v : GoVal) (m : Mode) (ty : GoTy), convOK ty = true → hasTy ty v = true →
      Finding.nilCollapse ∉ valGuards m ty v → ReadGood F m ty v
  | .bool b, m, ty, hc, ht, _ => by
    have hs : isScalarKind ty = true := by
      simp only [hasTy, decide_eq_true_eq] at ht; simp [isScalarKind, ht]
    exact good_read F m ty _ (good_bool F m ty b hc ht (tyGuards_scalar ty hs))
  | .int i, m, ty, hc, ht, _ => by
    have hs : isScalarKind ty = true := by
      unfold hasTy at ht; unfold isScalarKind
      split at ht <;> simp_all
    exact good_read F m ty _ (good_int F m ty i hc ht (tyGuards_scalar ty hs))
  | .float b, m, ty, hc, ht, _ => by
    have hs : isScalarKind ty = true := by
      unfold hasTy at ht; unfold isScalarKind
      split at ht <;> simp_all
    exact good_read F m ty _ (good_float F hF m ty b hc ht (tyGuards_scalar ty hs))
  | .str s, m, ty, hc, ht, _ => by
    have hs : isScalarKind ty = true := by
      simp only [hasTy, decide_eq_true_eq] at ht; simp [isScalarKind, ht]
    exact good_read F m ty _ (good_str F m ty s hc ht (tyGuards_scalar ty hs))
  | .time t, m, ty, hc, ht, _ => good_read F m ty _ (good_time F m ty t hc ht)
  | .struct xs, m, ty, hc, ht, _ => good_read F m ty _ (good_struct F m ty xs hc ht)
  | .nilv, m, ty, hc, ht, _ => by
    unfold hasTy at ht
    cases hu : under ty with
    | ptr t =>
      have hsel := sel_nonscalar m ty (by simp [isScalarKind, hu])
        (by intro e; subst e; simp [under] at hu) (by intro e; subst e; simp [under] at hu)
        (by intro e; subst e; simp [under] at hu)
      rw [hu] at hsel
      by_cases hst : isStructKind t = true
      · simp only [hst, if_true] at hsel
        exact Or.inr ⟨.proxy ty .nilv, by simp [fromGo, hc, hsel], by simp [repr, hu, hst], by simp⟩
      · have hst' : isStructKind t = false := by simpa using hst
        simp only [hst', Bool.false_eq_true, if_false] at hsel
        exact Or.inr ⟨.nil, by simp [fromGo, hc, hsel], by simp [repr, hu, hst'], fun _ => rfl⟩
    | iface =>
      have hsel := sel_nonscalar m ty (by simp [isScalarKind, hu])
        (by intro e; subst e; simp [under] at hu) (by intro e; subst e; simp [under] at hu)
        (by intro e; subst e; simp [under] at hu)
      rw [hu] at hsel
      exact Or.inr ⟨.nil, by simp [fromGo, hc, hsel], by simp [repr, hu], fun _ => rfl⟩
    | chan => have := convOK_of_under ty _ hu hc; simp [convOK] at this
    | _ => simp [hu] at ht
  | .ptr x, m, ty, hc, ht, hv => by
    unfold hasTy at ht
    cases hu : under ty with
    | ptr t =>
      simp only [hu] at ht
      have hsel := sel_nonscalar m ty (by simp [isScalarKind, hu])
        (by intro e; subst e; simp [under] at hu) (by intro e; subst e; simp [under] at hu)
        (by intro e; subst e; simp [under] at hu)
      rw [hu] at hsel
      by_cases hst : isStructKind t = true
      · simp only [hst, if_true] at hsel
        exact Or.inr ⟨.proxy ty (.ptr x), by simp [fromGo, hc, hsel], by simp [repr, hu, hst], by simp⟩
      · have hst' : isStructKind t = false := by simpa using hst
        simp only [hst', Bool.false_eq_true, if_false] at hsel
        have hct : convOK t = true := by
          have := convOK_of_under ty _ hu hc; simpa [convOK] using this
        unfold valGuards at hv
        simp only [hsel, List.mem_append, not_or] at hv
        have ih := read_val F hF x .create t hct ht hv.2
        have hfrom : fromGo F m ty (.ptr x) = fromGo F .create t x := by
          simp [fromGo, hc, hsel]
        rcases ih with he | ⟨o, h1, h2, h3⟩
        · left; rw [hfrom, he]
        · have hne : o ≠ .nil := by
            intro e
            have hx := h3 e
            subst e; subst hx
            have := fromGo_nilv F t h1
            simp [isNil, this] at hv
          exact Or.inr ⟨o, by rw [hfrom, h1], by simp [repr, hu, hst', hne, h2], fun e => absurd e hne⟩
    | _ => simp [hu] at ht
  | .iface d x, m, ty, hc, ht, hv => by
    simp only [hasTy, Bool.and_eq_true, Bool.not_eq_true'] at ht
    obtain ⟨⟨hi, _⟩, htx⟩ := ht
    have hu : under ty = .iface := by
      unfold isIfaceKind at hi
      split at hi
      · assumption
      · cases hi
    have hsel := sel_nonscalar m ty (by simp [isScalarKind, hu])
      (by intro e; subst e; simp [under] at hu) (by intro e; subst e; simp [under] at hu)
      (by intro e; subst e; simp [under] at hu)
    rw [hu] at hsel
    have hfrom : fromGo F m ty (.iface d x) = fromGo F .create d x := by
      simp [fromGo, hc, hsel]
    by_cases hcd : convOK d = true
    · unfold valGuards at hv
      simp only [List.mem_append, not_or] at hv
      have ih := read_val F hF x .create d hcd htx hv.2
      rcases ih with he | ⟨o, h1, h2, h3⟩
      · left; rw [hfrom, he]
      · have hne : o ≠ .nil := by
          intro e
          have hx := h3 e
          subst e; subst hx
          have := fromGo_nilv F d h1
          simp [isNil, this] at hv
        exact Or.inr ⟨o, by rw [hfrom, h1], by simp [repr, hi, hne, h2], fun e => absurd e hne⟩
    · left
      rw [hfrom]
      unfold fromGo
      simp [hcd]
  | .seq xs, m, ty, hc, ht, hv => by
    unfold hasTy at ht
    cases hu : under ty with
    | slice t =>
      simp only [hu] at ht
      have hct : convOK t = true := by
        have := convOK_of_under ty _ hu hc; simpa [convOK] using this
      by_cases h8 : ty = .slice (.uint .w8)
      · subst h8
        simp only [under, GoTy.slice.injEq] at hu
        subst hu
        obtain ⟨ns, hp1, _⟩ := bytes_payload xs ht
        have hsel : sel m (.slice (.uint .w8)) = .bytes := by simp [sel_slice]
        exact Or.inr ⟨.bytes ns, by simp [fromGo, convOK, hsel, hp1], by simp [repr, under, hp1], by simp⟩
      · by_cases h64 : ty = .slice .f64
        · subst h64
          simp only [under, GoTy.slice.injEq] at hu
          subst hu
          obtain ⟨ns, hp1, _⟩ := floats_payload xs ht
          have hsel : sel m (.slice .f64) = .floats := by simp [sel_slice]
          exact Or.inr ⟨.floats ns, by simp [fromGo, convOK, hsel, hp1], by simp [repr, under, hp1], by simp⟩
        · have hsel := sel_nonscalar m ty (by simp [isScalarKind, hu])
            (by intro e; subst e; simp [under] at hu) h8 h64
          rw [hu] at hsel
          unfold valGuards at hv
          simp only [hsel] at hv
          have ih := read_vals F hF xs t hct ht hv
          have hfrom : fromGo F m ty (.seq xs) = (fromVals F t xs).map .list := by
            simp [fromGo, hc, hsel]
          rcases ih with he | ⟨os, h1, h2⟩
          · left; rw [hfrom, he]; rfl
          · exact Or.inr ⟨.list os, by rw [hfrom, h1]; rfl, by simp [repr, hu, h2], by simp⟩
    | array n t =>
      simp only [hu, Bool.and_eq_true, decide_eq_true_eq] at ht
      have hct : convOK t = true := by
        have := convOK_of_under ty _ hu hc; simpa [convOK] using this
      have hsel := sel_nonscalar m ty (by simp [isScalarKind, hu])
        (by intro e; subst e; simp [under] at hu) (by intro e; subst e; simp [under] at hu)
        (by intro e; subst e; simp [under] at hu)
      rw [hu] at hsel
      unfold valGuards at hv
      simp only [hsel] at hv
      have ih := read_vals F hF xs t hct ht.1 hv
      have hfrom : fromGo F m ty (.seq xs) = (fromVals F t xs).map .list := by
        simp [fromGo, hc, hsel]
      rcases ih with he | ⟨os, h1, h2⟩
      · left; rw [hfrom, he]; rfl
      · exact Or.inr ⟨.list os, by rw [hfrom, h1]; rfl, by simp [repr, hu, h2], by simp⟩
    | _ => simp [hu] at ht
  | .map ks xs, m, ty, hc, ht, hv => by
    unfold hasTy at ht
    cases hu : under ty with
    | mapStr t =>
      simp only [hu, Bool.and_eq_true, decide_eq_true_eq] at ht
      have hct : convOK t = true := by
        have := convOK_of_under ty _ hu hc; simpa [convOK] using this
      have hsel := sel_nonscalar m ty (by simp [isScalarKind, hu])
        (by intro e; subst e; simp [under] at hu) (by intro e; subst e; simp [under] at hu)
        (by intro e; subst e; simp [under] at hu)
      rw [hu] at hsel
      unfold valGuards at hv
      simp only [hsel] at hv
      have ih := read_vals F hF xs t hct ht.1.1 hv
      have hfrom : fromGo F m ty (.map ks xs) = (fromVals F t xs).map (.map ks) := by
        simp [fromGo, hc, hsel]
      rcases ih with he | ⟨os, h1, h2⟩
      · left; rw [hfrom, he]; rfl
      · exact Or.inr ⟨.map ks os, by rw [hfrom, h1]; rfl, by simp [repr, hu, h2], by simp⟩
    | _ => simp [hu] at ht
theorem read_vals (F : FOps) (hF : ∀ b, F.narrow (F.widen b) = b) :
    ∀ (xs : Vals) (t : GoTy), convOK t = true → hasTys t xs = true →
      Finding.nilCollapse ∉ elemGuards t xs → ReadGoodVals F t xs
  | .nil, _, _, _, _ => Or.inr ⟨.nil, rfl, rfl⟩
  | .cons x r, t, hc, ht, hv => by
    simp only [hasTys, Bool.and_eq_true] at ht
    unfold elemGuards at hv
    simp only [List.mem_append, not_or] at hv
    have ihx := read_val F hF x .create t hc ht.1 hv.1.2
    have ihr := read_vals F hF r t hc ht.2 hv.2
    rcases ihx with he | ⟨o, h1, h2, _⟩
    · left; simp [fromVals, he]
    · rcases ihr with he | ⟨os, g1, g2⟩
      · left; simp [fromVals, h1, he]
      · exact Or.inr ⟨.cons o os, by simp [fromVals, h1, g1], by simp [reprs, h2, g2]⟩
end

end Risor.C08
