/-
C08 — executable model of risor's host/script value boundary
(object/typeconv.go, object/proxy.go, object/go_type.go, object/go_field.go):

* `GoTy` / `GoVal`   a universe of Go types and values (scalars, time.Time, named types, pointers,
                     slices, arrays, string-keyed maps, structs, `interface{}` values)
* `Obj`              the script-side objects the converters produce and accept
* `sel`              which converter `getTypeConverter` / `createTypeConverter` picks
                     (by reflect.Kind first, then by exact type, then by constructor)
* `fromGo` / `toGo`  `TypeConverter.From` / `.To`, with *panic* as an explicit outcome: the
                     unnamed-type assertions, reflect.Append/Set/SetMapIndex on zero Values,
                     array index overflow, assignability of the converted value
* `getAttr`/`setAttr`/`callEcho`   `Proxy.GetAttr`, `Proxy.SetAttr`, `Proxy.call`
* `repr` and the `spec…` functions   the Spec: what the property demands

The model is of the code AS IT IS (defects included; seven of them were repaired in risor since and
the model follows the repaired code — the `preFix…` definitions keep what it did before).  Float conversions are a parameter
(`FOps`); the oracle instantiates them with the hardware operations, the theorems are stated for
every `FOps`.  Nil and empty slices / maps are identified (`seq .nil`, `map [] .nil`).
Core Lean only.
-/
namespace Risor.C08

/-- integer widths; `w0` is the platform `int` / `uint` (64 bit) -/
inductive W | w0 | w8 | w16 | w32 | w64
  deriving DecidableEq, Repr

def W.bits : W → Nat
  | .w0 => 64 | .w8 => 8 | .w16 => 16 | .w32 => 32 | .w64 => 64

mutual
/-- Go types.  `chan` stands for every unsupported kind (chan, func, complex, non-string-keyed
    maps); `iface` is `interface{}`; `time` is `time.Time`; struct fields are exported and are
    identified by position. -/
inductive GoTy
  | bool | int (w : W) | uint (w : W) | f32 | f64 | str | time | iface | chan
  | named (id : Nat) (u : GoTy)
  | ptr (t : GoTy) | slice (t : GoTy) | array (n : Nat) (t : GoTy) | mapStr (t : GoTy)
  | struct (fs : Fields)
  deriving DecidableEq, Repr
inductive Fields
  | nil | cons (t : GoTy) (rest : Fields)
  deriving DecidableEq, Repr
end

mutual
/-- Go values.  `int` carries the mathematical value of any sized (u)int; `float` carries the
    IEEE bit pattern (32 or 64 bit according to the type); `nilv` is a nil pointer or a nil
    interface; `iface d x` is a non-nil interface value of dynamic type `d`. -/
inductive GoVal
  | bool (b : Bool) | int (i : Int) | float (bits : Nat) | str (s : List Nat) | time (t : Int)
  | nilv | ptr (x : GoVal) | seq (xs : Vals) | map (ks : List (List Nat)) (xs : Vals)
  | struct (xs : Vals) | iface (d : GoTy) (x : GoVal)
  deriving DecidableEq, Repr
inductive Vals
  | nil | cons (x : GoVal) (rest : Vals)
  deriving DecidableEq, Repr
end

mutual
/-- script objects.  A proxy holds the Go pointer it wraps: its pointer type and the pointer
    value (`ptr (struct …)` or `nilv`). -/
inductive Obj
  | nil | bool (b : Bool) | int (i : Int) | float (bits : Nat) | byte (n : Nat)
  | str (s : List Nat) | bytes (bs : List Nat) | floats (fs : List Nat) | time (t : Int)
  | list (os : Objs) | map (ks : List (List Nat)) (os : Objs) | proxy (pty : GoTy) (pv : GoVal)
  deriving DecidableEq, Repr
inductive Objs
  | nil | cons (o : Obj) (rest : Objs)
  deriving DecidableEq, Repr
end

inductive Outcome (α : Type) | ok (a : α) | error | panic
  deriving DecidableEq, Repr

def Outcome.bind {α β} (x : Outcome α) (f : α → Outcome β) : Outcome β :=
  match x with
  | .ok a => f a
  | .error => .error
  | .panic => .panic

def Outcome.map {α β} (f : α → β) (x : Outcome α) : Outcome β :=
  match x with
  | .ok a => .ok (f a)
  | .error => .error
  | .panic => .panic

/-- float conversions, a parameter of the semantics -/
structure FOps where
  /-- float32 bits → float64 bits -/
  widen : Nat → Nat
  /-- float64 bits → float32 bits (rounding) -/
  narrow : Nat → Nat
  /-- int64 → float64 bits -/
  ofInt : Int → Nat
  /-- int64 → float32 bits -/
  ofInt32 : Int → Nat
  /-- float64 bits → integer, toward zero -/
  trunc : Nat → Int
  /-- `some i` when the float64 is exactly the integer `i` -/
  exact : Nat → Option Int

/-- which entry point built the converter: `createTypeConverter` (globals, container elements,
    dynamic values) looks at the exact type first, `getTypeConverter` (struct fields, method
    parameters and results) at the kind first.  They differ on `byte` only. -/
inductive Mode | create | get
  deriving DecidableEq, Repr

/-! ### Types -/

/-- strip named layers: the underlying type -/
def under : GoTy → GoTy
  | .named _ u => under u
  | t => t

def isScalarKind (t : GoTy) : Bool :=
  match under t with
  | .bool | .int _ | .uint _ | .f32 | .f64 | .str => true
  | _ => false

/-- reflect.Kind == Struct (time.Time included) -/
def isStructKind (t : GoTy) : Bool :=
  match under t with
  | .struct _ | .time => true
  | _ => false

def isIfaceKind (t : GoTy) : Bool :=
  match under t with
  | .iface => true
  | _ => false

/-- reflect's `hasName`: predeclared scalar types, time.Time and declared types -/
def hasName : GoTy → Bool
  | .bool | .int _ | .uint _ | .f32 | .f64 | .str | .time | .named _ _ => true
  | _ => false

/-- the converter `getTypeConverter` selects -/
inductive Sel
  | scalar | byte | time | bytes | floats | structV | structP
  | pointer (t : GoTy) | slice (t : GoTy) | array (n : Nat) (t : GoTy) | map (t : GoTy)
  | dyn | unsupported
  deriving DecidableEq, Repr

def getSel (ty : GoTy) : Sel :=
  if isScalarKind ty then .scalar
  else if ty = .time then .time
  else if ty = .slice (.uint .w8) then .bytes
  else if ty = .slice .f64 then .floats
  else match under ty with
    | .struct _ | .time => .structV
    | .ptr t => if isStructKind t then .structP else .pointer t
    | .slice t => .slice t
    | .array n t => .array n t
    | .mapStr t => .map t
    | .iface => .dyn
    | _ => .unsupported

def sel (m : Mode) (ty : GoTy) : Sel :=
  if m = .create ∧ ty = .uint .w8 then .byte else getSel ty

mutual
/-- converter construction succeeds (no unsupported kind anywhere, struct fields included) -/
def convOK : GoTy → Bool
  | .chan => false
  | .named _ u => convOK u
  | .ptr t => convOK t
  | .slice t => convOK t
  | .array _ t => convOK t
  | .mapStr t => convOK t
  | .struct fs => fieldsOK fs
  | _ => true
def fieldsOK : Fields → Bool
  | .nil => true
  | .cons t r => convOK t && fieldsOK r
end

def zeroRep : Nat → GoVal → Vals
  | 0, _ => .nil
  | n + 1, x => .cons x (zeroRep n x)

mutual
def zero : GoTy → GoVal
  | .bool => .bool false
  | .int _ => .int 0
  | .uint _ => .int 0
  | .f32 => .float 0
  | .f64 => .float 0
  | .str => .str []
  | .time => .time 0
  | .iface => .nilv
  | .chan => .nilv
  | .named _ u => zero u
  | .ptr _ => .nilv
  | .slice _ => .seq .nil
  | .array n t => .seq (zeroRep n (zero t))
  | .mapStr _ => .map [] .nil
  | .struct fs => .struct (zeroFields fs)
def zeroFields : Fields → Vals
  | .nil => .nil
  | .cons t r => .cons (zero t) (zeroFields r)
end

/-- reflect assignability of a value of dynamic type `d` to a slot of type `t` (identical types;
    any type to `interface{}`; identical underlying types when at most one side has a name) -/
def assignable (t d : GoTy) : Bool :=
  t = d || isIfaceKind t || (!(hasName t && hasName d) && decide (under t = under d))

/-- what is stored: interface slots keep the dynamic type -/
def store (t d : GoTy) (x : GoVal) : GoVal :=
  if isIfaceKind t then .iface d x else x

/-! ### Value helpers -/

def Vals.toList : Vals → List GoVal
  | .nil => []
  | .cons x r => x :: r.toList

def Vals.ofList : List GoVal → Vals
  | [] => .nil
  | x :: r => .cons x (Vals.ofList r)

def Vals.length : Vals → Nat
  | .nil => 0
  | .cons _ r => r.length + 1

def Objs.length : Objs → Nat
  | .nil => 0
  | .cons _ r => r.length + 1

def Vals.nth : Vals → Nat → Option GoVal
  | .nil, _ => none
  | .cons x _, 0 => some x
  | .cons _ r, n + 1 => r.nth n

def Vals.set : Vals → Nat → GoVal → Vals
  | .nil, _, _ => .nil
  | .cons _ r, 0, y => .cons y r
  | .cons x r, n + 1, y => .cons x (r.set n y)

def Fields.nth : Fields → Nat → Option GoTy
  | .nil, _ => none
  | .cons t _, 0 => some t
  | .cons _ r, n + 1 => r.nth n

/-- the numbers carried by a `[]byte` / `[]float64` value -/
def valsNums : Vals → Option (List Nat)
  | .nil => some []
  | .cons (.int i) r => (valsNums r).map (i.toNat :: ·)
  | .cons (.float b) r => (valsNums r).map (b :: ·)
  | .cons _ _ => none

def intVals : List Nat → Vals
  | [] => .nil
  | n :: r => .cons (.int n) (intVals r)

def floatVals : List Nat → Vals
  | [] => .nil
  | n :: r => .cons (.float n) (floatVals r)

/-! ### Struct fields by name

A script names a struct field by its Go name.  In this universe field `i` is called `F<i>`
(`F0`, `F1`, …, `F10`, …): the names `reflect.StructOf` types and the declared struct types of the
correspondence harness use. -/

def Fields.length : Fields → Nat
  | .nil => 0
  | .cons _ r => r.length + 1

/-- the name of field `i`: the bytes of "F" followed by the decimal digits of `i` -/
def fieldKey (i : Nat) : List Nat := 70 :: (Nat.toDigits 10 i).map Char.toNat

/-- `reflect.Value.FieldByName` on a struct with `n` fields: the index of the field called `k` -/
def fieldIdx (n : Nat) (k : List Nat) : Option Nat := (List.range n).find? (fun i => fieldKey i == k)

/-- the entry of a map object that names field `i` of a struct with `n` fields -/
def entryFor (n i : Nat) : List (List Nat) → Objs → Option Obj
  | k :: ks, .cons o r => if fieldIdx n k = some i then some o else entryFor n i ks r
  | _, _ => none

def isMapObj : Obj → Bool
  | .map _ _ => true
  | _ => false

/-- the exported fields of a struct-kind type (time.Time has none) -/
def fieldsOf (t : GoTy) : Fields :=
  match under t with
  | .struct fs => fs
  | _ => .nil

/-- a struct assembled field by field: field `i` takes the value listed for `i`, every other field
    keeps its zero value -/
def place : Nat → Fields → List (Nat × GoVal) → Vals
  | _, .nil, _ => .nil
  | i, .cons ft fs, ps => .cons ((ps.lookup i).getD (zero ft)) (place (i + 1) fs ps)

/-- the value of a struct-kind type `t` assembled from the listed fields (`goType.New()` + `Set`) -/
def fillStruct (t : GoTy) (ps : List (Nat × GoVal)) : GoVal :=
  match under t with
  | .struct fs => .struct (place 0 fs ps)
  | _ => zero t

def two63 : Int := 9223372036854775808
def two64 : Int := 18446744073709551616

/-- `int64(u)` for an unsigned 64-bit value: wraps at 2^63 (only the pre-fix `From` did this) -/
def wrap64 (i : Int) : Int := if i ≥ two63 then i - two64 else i

/-- conversion to an unsigned integer of `n` bits -/
def wrapU (n : Nat) (i : Int) : Int := i % (2 ^ n : Int)

/-- conversion to a signed integer of `n` bits -/
def wrapS (n : Nat) (i : Int) : Int :=
  let r := i % (2 ^ n : Int)
  if r ≥ (2 ^ (n - 1) : Int) then r - (2 ^ n : Int) else r

def inRangeS (n : Nat) (i : Int) : Bool := decide (-(2 ^ (n - 1) : Int) ≤ i ∧ i < (2 ^ (n - 1) : Int))
def inRangeU (n : Nat) (i : Int) : Bool := decide (0 ≤ i ∧ i < (2 ^ n : Int))

/-! ### Go → script : `TypeConverter.From` -/

/-- the kind converters' `From` on a value whose dynamic type is the unnamed type itself.
    An unsigned value ≥ 2⁶³ has no image in the script's int (an int64): `UintConverter.From` /
    `Uint64Converter.From` reject it with an error (repaired: they used to wrap, `preFixScalarFrom`). -/
def scalarFrom (F : FOps) (ty : GoTy) (v : GoVal) : Outcome Obj :=
  match ty, v with
  | .bool, .bool b => .ok (.bool b)
  | .int _, .int i => .ok (.int i)
  | .uint _, .int i => if i ≥ two63 then .error else .ok (.int i)
  | .f32, .float b => .ok (.float (F.widen b))
  | .f64, .float b => .ok (.float b)
  | .str, .str s => .ok (.str s)
  | _, _ => .error

def byteFrom (v : GoVal) : Outcome Obj :=
  match v with
  | .int i => .ok (.byte i.toNat)
  | _ => .error

def timeFrom (v : GoVal) : Outcome Obj :=
  match v with
  | .time t => .ok (.time t)
  | _ => .error

/-- pre-fix `From` of a kind converter (historical): `obj.(int64)` etc. panics unless the dynamic
    type is the unnamed type itself -/
def preFixFromLeafScalar (F : FOps) (ty : GoTy) (v : GoVal) : Outcome Obj :=
  if ty ≠ under ty then .panic else scalarFrom F ty v

/-- scalars, time and struct values: the non-recursive converters -/
def fromLeaf (F : FOps) (m : Mode) (ty : GoTy) (v : GoVal) : Outcome Obj :=
  match sel m ty with
  | .byte => byteFrom v
  | .scalar =>
    -- a declared type of a basic kind (time.Duration, `type MyInt int`) goes through
    -- `namedConverter`: the value is converted to the basic type, then `obj.(int64)` etc. holds
    -- (repaired: the kind converter used to get the declared type and its assertion panicked,
    -- `preFixFromLeafScalar`)
    scalarFrom F (under ty) v
  | .time => timeFrom v
  | .structV => .ok (.proxy (.ptr ty) (.ptr v))   -- NewProxy copies a struct value behind a pointer
  | _ => .error

mutual
def fromGo (F : FOps) (m : Mode) (ty : GoTy) (v : GoVal) : Outcome Obj :=
  if convOK ty = false then .error else
  match v with
  | .ptr x => match sel m ty with
    | .pointer t => fromGo F .create t x
    | .structP => .ok (.proxy ty (.ptr x))
    | _ => .error
  | .nilv => match sel m ty with
    | .pointer _ => .ok .nil
    | .dyn => .ok .nil
    | .structP => .ok (.proxy ty .nilv)
    | _ => .error
  | .seq xs => match sel m ty with
    | .slice t => (fromVals F t xs).map .list
    | .array _ t => (fromVals F t xs).map .list
    | .bytes => match valsNums xs with
      | some ns => .ok (.bytes ns)
      | none => .error
    | .floats => match valsNums xs with
      | some ns => .ok (.floats ns)
      | none => .error
    | _ => .error
  | .map ks xs => match sel m ty with
    | .map t => (fromVals F t xs).map (.map ks)
    | _ => .error
  | .iface d x => match sel m ty with
    | .dyn => fromGo F .create d x
    | _ => .error
  | .struct xs => fromLeaf F m ty (.struct xs)
  | .bool b => fromLeaf F m ty (.bool b)
  | .int i => fromLeaf F m ty (.int i)
  | .float b => fromLeaf F m ty (.float b)
  | .str s => fromLeaf F m ty (.str s)
  | .time t => fromLeaf F m ty (.time t)
def fromVals (F : FOps) (t : GoTy) : Vals → Outcome Objs
  | .nil => .ok .nil
  | .cons x r => match fromGo F .create t x with
    | .ok o => match fromVals F t r with
      | .ok os => .ok (.cons o os)
      | .error => .error
      | .panic => .panic
    | .error => .error
    | .panic => .panic
end

/-! ### script → Go : `TypeConverter.To` -/

/-- result of `To`: `none` is the untyped nil, otherwise dynamic type and value -/
abbrev Dyn := Option (GoTy × GoVal)

mutual
/-- `Object.Interface()` -/
def objIface : Obj → Dyn
  | .nil => none
  | .bool b => some (.bool, .bool b)
  | .int i => some (.int .w64, .int i)
  | .float b => some (.f64, .float b)
  | .byte n => some (.uint .w8, .int n)
  | .str s => some (.str, .str s)
  | .bytes bs => some (.slice (.uint .w8), .seq (intVals bs))
  | .floats fs => some (.slice .f64, .seq (floatVals fs))
  | .time t => some (.time, .time t)
  | .list os => some (.slice .iface, .seq (ifaceElems os))
  | .map ks os => some (.mapStr .iface, .map ks (ifaceElems os))
  | .proxy pty pv => some (pty, pv)
def ifaceElems : Objs → Vals
  | .nil => .nil
  | .cons o r =>
    .cons (match objIface o with
      | none => .nilv
      | some (d, x) => .iface d x) (ifaceElems r)
end

/-- pointer layers handled by `PointerConverter` (pointers to structs are `StructConverter`'s):
    number of layers and the base type.  Declared pointer types are not modelled. -/
def peel : GoTy → Nat × GoTy
  | .ptr t => if isStructKind t then (0, .ptr t) else ((peel t).1 + 1, (peel t).2)
  | t => (0, t)

def ptrN : Nat → GoVal → GoVal
  | 0, x => x
  | n + 1, x => .ptr (ptrN n x)

def ptrTyN : Nat → GoTy → GoTy
  | 0, t => t
  | n + 1, t => .ptr (ptrTyN n t)

/-- `PointerConverter.To`, `k` layers: nil object → untyped nil; otherwise `reflect.New` of the
    dynamic type of the inner result (a nil inner result makes `reflect.New(nil)` panic) -/
def liftPtr (k : Nat) (o : Obj) (r : Outcome Dyn) : Outcome Dyn :=
  if k = 0 then r
  else match o with
    | .nil => .ok none
    | _ => match r with
      | .ok none => .panic
      | .ok (some (d, x)) => .ok (some (ptrTyN k d, ptrN k x))
      | .error => .error
      | .panic => .panic

def baseMode (m : Mode) (k : Nat) : Mode := if k = 0 then m else .create

/-- the kind converters' `To`.  An integer object (`*Int`, `*Byte`) that the target integer type
    cannot represent is rejected with an error (`narrowInt`; repaired: the conversion used to wrap,
    `preFixScalarTo`).  A `*Float` object is still converted with a plain Go conversion
    (truncation toward zero, then wrap-around).  The value has the slot's own type `b`, also when
    that is a declared type (`namedConverter.To` converts to it; repaired, `preFixNamedTo`). -/
def scalarTo (F : FOps) (b : GoTy) (o : Obj) : Outcome Dyn :=
  match under b with
  | .bool => match o with
    | .bool x => .ok (some (b, .bool x))
    | _ => .error
  | .int w => match o with
    | .int i => if inRangeS w.bits i then .ok (some (b, .int i)) else .error
    | .byte n => if inRangeS w.bits n then .ok (some (b, .int n)) else .error
    | .float f => .ok (some (b, .int (wrapS w.bits (F.trunc f))))
    | _ => .error
  | .uint w => match o with
    | .int i => if inRangeU w.bits i then .ok (some (b, .int i)) else .error
    | .byte n => if inRangeU w.bits n then .ok (some (b, .int n)) else .error
    | .float f => .ok (some (b, .int (wrapU w.bits (F.trunc f))))
    | _ => .error
  | .f32 => match o with
    | .int i => .ok (some (b, .float (F.ofInt32 i)))
    | .byte n => .ok (some (b, .float (F.ofInt32 n)))
    | .float f => .ok (some (b, .float (F.narrow f)))
    | _ => .error
  | .f64 => match o with
    | .int i => .ok (some (b, .float (F.ofInt i)))
    | .byte n => .ok (some (b, .float (F.ofInt n)))
    | .float f => .ok (some (b, .float f))
    | _ => .error
  | .str => match o with
    | .str s => .ok (some (b, .str s))
    | .bytes s => .ok (some (b, .str s))
    | _ => .error
  | _ => .error

/-- pre-fix `To` of a kind converter for a declared type (historical): the value it returned had
    the UNNAMED type of the kind, which reflect.Set / Append / Call refuse for a declared slot -/
def preFixNamedTo (F : FOps) (b : GoTy) (o : Obj) : Outcome Dyn := scalarTo F (under b) o

/-- pre-fix `To` of the integer kind converters (historical): plain Go conversions, which wrap -/
def preFixScalarTo (F : FOps) (b : GoTy) (o : Obj) : Outcome Dyn :=
  match under b, o with
  | .int w, .int i => .ok (some (b, .int (wrapS w.bits i)))
  | .int w, .byte n => .ok (some (b, .int (wrapS w.bits n)))
  | .uint w, .int i => .ok (some (b, .int (wrapU w.bits i)))
  | .uint w, .byte n => .ok (some (b, .int (wrapU w.bits n)))
  | _, _ => scalarTo F b o

/-- the non-recursive converters applied to a leaf object -/
def toLeaf (F : FOps) (m : Mode) (b : GoTy) (o : Obj) : Outcome Dyn :=
  match sel m b with
  | .scalar => scalarTo F b o
  | .byte => scalarTo F (.uint .w8) o
  | .time => match o with
    | .time t => .ok (some (.time, .time t))
    | _ => .error          -- strings are parsed as RFC 3339; not modelled (never generated)
  | .bytes => match o with
    | .bytes bs => .ok (some (.slice (.uint .w8), .seq (intVals bs)))
    | .str s => .ok (some (.slice (.uint .w8), .seq (intVals s)))
    | _ => .error
  | .floats => match o with
    | .floats fs => .ok (some (.slice .f64, .seq (floatVals fs)))
    | _ => .error
  | .dyn => .ok (objIface o)
  | _ => .error

/-- `newGoField`: a struct-typed field is handled through a pointer to it -/
def fieldConvTy (ft : GoTy) : GoTy := if isStructKind ft then .ptr ft else ft

/-- `reflect.Append` / `Value.Set` of a converted element into a slot of type `t` -/
def putElem (t : GoTy) (r : Dyn) : Outcome GoVal :=
  match r with
  | none => .panic                    -- reflect.ValueOf(nil) is the zero Value
  | some (d, x) => if assignable t d then .ok (store t d x) else .panic

mutual
/-- `To` of a converter that is not a `PointerConverter` -/
def toBase (F : FOps) (m : Mode) (b : GoTy) (o : Obj) : Outcome Dyn :=
  match o with
  | .list os => match sel m b with
    | .slice t => match toElems F t os with
      | .ok xs => .ok (some (.slice t, .seq xs))
      | .error => .error
      | .panic => .panic
    | .array n t =>
      -- repaired: a list longer than the array is rejected before the loop (it used to run into
      -- reflect's index panic); a shorter list still leaves the remaining elements zero
      if os.length > n then .error else
      match toArr F t n os with
      | .ok xs => .ok (some (.array n t, .seq xs))
      | .error => .error
      | .panic => .panic
    | .dyn => .ok (objIface (.list os))
    | _ => .error
  | .map ks os => match sel m b with
    | .map t => match toMap F t ks os with
      | .ok (ks', xs) => .ok (some (.mapStr t, .map ks' xs))
      | .error => .error
      | .panic => .panic
    | .dyn => .ok (objIface (.map ks os))
    -- `StructConverter.To`, `case *Map`: a NEW struct (`c.goType.New()`), the fields the map names
    -- are set one by one, every other field keeps its zero value; the struct itself is returned for
    -- a struct-typed slot, the pointer to it for a pointer-typed one
    | .structV => match toFieldVals F (fieldsOf b) ks os with
      | .ok ps => .ok (some (b, fillStruct b ps))
      | .error => .error
      | .panic => .panic
    | .structP => match under b with
      | .ptr s => match toFieldVals F (fieldsOf s) ks os with
        | .ok ps => .ok (some (b, .ptr (fillStruct s ps)))
        | .error => .error
        | .panic => .panic
      | _ => .error
    | _ => .error
  | .nil => match sel m b with
    | .slice _ => .ok none
    | .map _ => .ok none
    | .dyn => .ok none
    | _ => .error
  | .proxy pty pv => match sel m b with
    | .structV => match pty, pv with   -- reflect.ValueOf(p.obj).Elem().Interface(): no type check
      | .ptr s, .ptr sv => .ok (some (s, sv))
      | _, _ => .panic
    | .structP => .ok (some (pty, pv))
    | .dyn => .ok (some (pty, pv))
    | _ => .error
  | .bool x => toLeaf F m b (.bool x)
  | .int i => toLeaf F m b (.int i)
  | .float f => toLeaf F m b (.float f)
  | .byte n => toLeaf F m b (.byte n)
  | .str s => toLeaf F m b (.str s)
  | .bytes s => toLeaf F m b (.bytes s)
  | .floats s => toLeaf F m b (.floats s)
  | .time t => toLeaf F m b (.time t)
/-- `SliceConverter.To`'s loop -/
def toElems (F : FOps) (t : GoTy) : Objs → Outcome Vals
  | .nil => .ok .nil
  | .cons o r =>
    match liftPtr (peel t).1 o (toBase F (baseMode .create (peel t).1) (peel t).2 o) with
    | .error => .error
    | .panic => .panic
    | .ok d => match putElem t d with
      | .ok x => match toElems F t r with
        | .ok xs => .ok (.cons x xs)
        | .error => .error
        | .panic => .panic
      | .error => .error
      | .panic => .panic
/-- `ArrayConverter.To`'s loop; `n` is the remaining capacity.  The `panic` branch (reflect: array
    index out of range) is what the loop does on a list longer than the array: since the repair
    `toBase` rejects such a list before the loop (`C08_array_longer_rejected`) -/
def toArr (F : FOps) (t : GoTy) : Nat → Objs → Outcome Vals
  | n, .nil => .ok (zeroRep n (zero t))
  | n, .cons o r =>
    match liftPtr (peel t).1 o (toBase F (baseMode .create (peel t).1) (peel t).2 o) with
    | .error => .error
    | .panic => .panic
    | .ok d => match n with
      | 0 => .panic                   -- reflect: array index out of range
      | n' + 1 => match putElem t d with
        | .ok x => match toArr F t n' r with
          | .ok xs => .ok (.cons x xs)
          | .error => .error
          | .panic => .panic
        | .error => .error
        | .panic => .panic
/-- `MapConverter.To`'s loop: SetMapIndex with the zero Value deletes the key -/
def toMap (F : FOps) (t : GoTy) : List (List Nat) → Objs → Outcome (List (List Nat) × Vals)
  | k :: ks, .cons o r =>
    match liftPtr (peel t).1 o (toBase F (baseMode .create (peel t).1) (peel t).2 o) with
    | .error => .error
    | .panic => .panic
    | .ok none => toMap F t ks r
    | .ok (some (d, x)) =>
      if assignable t d then
        match toMap F t ks r with
        | .ok (ks', xs) => .ok (k :: ks', .cons (store t d x) xs)
        | .error => .error
        | .panic => .panic
      else .panic
  | _, _ => .ok ([], .nil)
/-- `StructConverter.To`'s loop over the entries of a map object: an entry whose key names no
    (exported) field is skipped (`FieldByName(k).CanSet()`); otherwise the field's converter — the
    one `newGoField` made: for `*S` when the field has struct type `S` — converts the value and
    `f.Set(reflect.ValueOf(attrValue))` stores it, without a nil check and without looking at the
    type (`putElem`).  The result lists (field index, value).  Go walks the map in its own order;
    the model walks the keys as listed (sorted): they can differ only in WHICH failure ends the
    conversion when several entries fail. -/
def toFieldVals (F : FOps) (fs : Fields) : List (List Nat) → Objs → Outcome (List (Nat × GoVal))
  | k :: ks, .cons o r =>
    match fieldIdx fs.length k with
    | none => toFieldVals F fs ks r
    | some i => match fs.nth i with
      | none => toFieldVals F fs ks r
      | some ft =>
        match liftPtr (peel (fieldConvTy ft)).1 o
            (toBase F (baseMode .get (peel (fieldConvTy ft)).1) (peel (fieldConvTy ft)).2 o) with
        | .error => .error
        | .panic => .panic
        | .ok d => match putElem ft d with
          | .ok x => match toFieldVals F fs ks r with
            | .ok ps => .ok ((i, x) :: ps)
            | .error => .error
            | .panic => .panic
          | .error => .error
          | .panic => .panic
  | _, _ => .ok []
end

/-- `TypeConverter.To` for the converter of `ty` -/
def toGo (F : FOps) (m : Mode) (ty : GoTy) (o : Obj) : Outcome Dyn :=
  if convOK ty = false then .error
  else liftPtr (peel ty).1 o (toBase F (baseMode m (peel ty).1) (peel ty).2 o)

/-- `field.Set(reflect.ValueOf(result))`, with `result == nil → field.SetZero()` -/
def assignField (t : GoTy) (r : Dyn) : Outcome GoVal :=
  match r with
  | none => .ok (zero t)
  | some (d, x) => if assignable t d then .ok (store t d x) else .panic

/-- convert a script object and store it in a Go slot of type `ty` -/
def toSlot (F : FOps) (m : Mode) (ty : GoTy) (o : Obj) : Outcome GoVal :=
  (toGo F m ty o).bind (assignField ty)

/-! ### Proxies: `GetAttr`, `SetAttr`, method calls -/

def structFields (t : GoTy) : Option Fields :=
  match under t with
  | .struct fs => some fs
  | .time => some .nil
  | _ => none

/-- the type of field `i` of the struct a proxy of type `pty` points to -/
def proxyField (pty : GoTy) (i : Nat) : Option GoTy :=
  match under pty with
  | .ptr s => match structFields s with
    | some fs => fs.nth i
    | none => none
  | _ => none

def getAttrCore (F : FOps) (pty : GoTy) (pv : GoVal) (i : Nat) : Outcome Obj :=
  match proxyField pty i with
  | none => .error
  | some ft => match pv with
    | .ptr (.struct xs) => match xs.nth i with
      | some x => fromGo F .get (fieldConvTy ft) (if isStructKind ft then .ptr x else x)
      | none => .error
    | _ => .panic                    -- nil pointer: FieldByName on the zero Value

def getAttr (F : FOps) (pty : GoTy) (pv : GoVal) (i : Nat) : Outcome Obj :=
  if convOK pty = false then .error else   -- NewProxy fails when any field has no converter
  getAttrCore F pty pv i

/-! #### goTypeRegistry after a failed registration

`newGoType` puts a struct type into `goTypeRegistry` *before* it looks at the fields and leaves it
there when a field has no converter; the next call finds the half-built description and succeeds.
So the first conversion of such a struct is an error and every later one is accepted, with the
fields from the failing one on missing. -/

/-- index of the first field without a converter -/
def firstBad : Fields → Nat
  | .nil => 0
  | .cons t r => if convOK t then firstBad r + 1 else 0

/-- `From` on the second and later attempts -/
def fromGoRetry (F : FOps) (m : Mode) (ty : GoTy) (v : GoVal) : Outcome Obj :=
  if isStructKind ty && !convOK ty then .ok (.proxy (.ptr ty) (.ptr v)) else fromGo F m ty v

/-- `GetAttr` on the proxy such an attempt produced -/
def getAttrRetry (F : FOps) (pty : GoTy) (pv : GoVal) (i : Nat) : Outcome Obj :=
  match under pty with
  | .ptr s => match structFields s with
    | some fs => if i < firstBad fs then getAttrCore F pty pv i else .error
    | none => .error
  | _ => .error

def setAttr (F : FOps) (pty : GoTy) (pv : GoVal) (i : Nat) (o : Obj) : Outcome GoVal :=
  if convOK pty = false then .error else
  match proxyField pty i with
  | none => .error
  | some ft => match toGo F .get (fieldConvTy ft) o with
    | .error => .error
    | .panic => .panic
    | .ok r => match pv with
      | .ptr (.struct xs) => match assignField ft r with
        | .ok x => .ok (.ptr (.struct (xs.set i x)))
        | .error => .error
        | .panic => .panic
      | _ => .panic

/-- `Proxy.call`, one argument for a parameter of type `pt`: the value the Go method receives -/
def callArg (F : FOps) (pt : GoTy) (o : Obj) : Outcome GoVal :=
  if convOK pt = false then .error
  else match o with
    | .nil => .ok (zero pt)          -- reflect.Zero(paramType) for a nil argument, whatever the type
    | _ => match toGo F .get pt o with
      | .ok none => .panic
      | .ok (some (d, x)) => if assignable pt d then .ok (store pt d x) else .panic
      | .error => .error
      | .panic => .panic

/-- `Proxy.call` on `func (h *Host) Echo(x T) T { h.got = x; return x }`: the value the method
    receives and the object the script gets back -/
def callEcho (F : FOps) (pt : GoTy) (o : Obj) : Outcome (GoVal × Obj) :=
  (callArg F pt o).bind fun x => (fromGo F .get pt x).map fun res => (x, res)

/-- a Go value given to a script as a global: `AsObjects` → `NewTypeConverter(reflect.TypeOf(v))`;
    an untyped nil becomes the script's `nil` (repaired: `reflect.TypeOf(nil)` used to be
    dereferenced, `preFixFromGlobal`) -/
def fromGlobal (F : FOps) (g : Option (GoTy × GoVal)) : Outcome Obj :=
  match g with
  | none => .ok .nil
  | some (ty, v) => fromGo F .create ty v

/-- the same through `risor.Eval(…, WithGlobal(name, v))`: `vm.Run` returns the error that
    `applyOptions` reports for a global without a converter (repaired: it used to build the VM
    with `vm.New`, which panics on that error, `preFixEvalGlobal`) -/
def evalGlobal (F : FOps) (g : Option (GoTy × GoVal)) : Outcome Obj := fromGlobal F g

/-! #### the repaired pieces as they were (historical; used only by the `C08_fixed_…` statements) -/

/-- pre-fix `From` of the unsigned kind converters: `int64(v)` wraps at 2⁶³ -/
def preFixScalarFrom (F : FOps) (ty : GoTy) (v : GoVal) : Outcome Obj :=
  match ty, v with
  | .uint _, .int i => .ok (.int (wrap64 i))
  | _, _ => scalarFrom F ty v

/-- pre-fix `AsObjects` on an untyped nil: nil-pointer dereference in `getTypeConverter` -/
def preFixFromGlobal (F : FOps) (g : Option (GoTy × GoVal)) : Outcome Obj :=
  match g with
  | none => .panic
  | some (ty, v) => fromGo F .create ty v

/-- pre-fix `vm.Run`: `vm.New` panicked on the error of `applyOptions` -/
def preFixEvalGlobal (F : FOps) (g : Option (GoTy × GoVal)) : Outcome Obj :=
  match preFixFromGlobal F g with
  | .error => .panic
  | r => r

/-! ### Spec -/

def numIs (F : FOps) (i : Int) (o : Obj) : Bool :=
  match o with
  | .int j => i == j
  | .byte n => i == (n : Int)
  | .float b => F.exact b == some i
  | _ => false

def f64Is (F : FOps) (bits : Nat) (o : Obj) : Bool :=
  match o with
  | .float b => b == bits
  | .int i => F.ofInt i == bits && F.exact bits == some i
  | .byte n => F.ofInt n == bits && F.exact bits == some (n : Int)
  | _ => false

def f32Is (F : FOps) (bits : Nat) (o : Obj) : Bool :=
  match o with
  | .float b => F.widen bits == b
  | .int i => F.ofInt32 i == bits && F.exact (F.widen bits) == some i
  | .byte n => F.ofInt32 n == bits && F.exact (F.widen bits) == some (n : Int)
  | _ => false

mutual
/-- **contents equal**: the script object `o` represents the Go value `v` of type `ty`
    (numbers by exact numeric value, strings and byte slices by their bytes, nil by nil,
    containers element-wise, structs by a proxy of exactly that struct) -/
def repr (F : FOps) (ty : GoTy) (v : GoVal) (o : Obj) : Bool :=
  match v with
  | .bool b => decide (under ty = .bool) && decide (o = .bool b)
  | .int i => match under ty with
    | .int _ => numIs F i o
    | .uint _ => numIs F i o
    | _ => false
  | .float bits => match under ty with
    | .f64 => f64Is F bits o
    | .f32 => f32Is F bits o
    | _ => false
  | .str s => decide (under ty = .str) && (decide (o = .str s) || decide (o = .bytes s))
  | .time t => (if ty = .time then decide (o = .time t)
                else isStructKind ty && decide (o = .proxy (.ptr ty) (.ptr (.time t))))
               -- a map names none of time.Time's (unexported) fields: the zero time
               || (isStructKind ty && isMapObj o && decide (t = 0))
  | .nilv => match under ty with
    | .ptr t => if isStructKind t then decide (o = .proxy ty .nilv) else decide (o = .nil)
    | .iface => decide (o = .nil)
    | _ => false
  | .ptr x => match under ty with
    | .ptr t => if isStructKind t then decide (o = .proxy ty (.ptr x)) || (isMapObj o && repr F t x o)
                else decide (o ≠ .nil) && repr F t x o
    | _ => false
  | .seq xs => match under ty with
    | .slice t => match o with
      | .list os => reprs F t xs os
      | .bytes bs => decide (t = .uint .w8) && decide (valsNums xs = some bs)
      | .str bs => decide (t = .uint .w8) && decide (valsNums xs = some bs)
      | .floats fs => decide (t = .f64) && decide (valsNums xs = some fs)
      | .nil => decide (xs = .nil)
      | _ => false
    | .array _ t => match o with
      | .list os => reprs F t xs os
      | _ => false
    | _ => false
  | .map ks xs => match under ty with
    | .mapStr t => match o with
      | .map ks' os => decide (ks = ks') && reprs F t xs os
      | .nil => decide (ks = [])
      | _ => false
    | _ => false
  | .struct xs => isStructKind ty && (decide (o = .proxy (.ptr ty) (.ptr (.struct xs))) ||
      -- a map object given where Go wants the struct: see `reprFields`
      (match o, under ty with
        | .map ks os, .struct fs => reprFields F fs.length 0 fs xs ks os
        | _, _ => false))
  | .iface d x => isIfaceKind ty && decide (o ≠ .nil) && repr F d x o
def reprs (F : FOps) (t : GoTy) : Vals → Objs → Bool
  | .nil, .nil => true
  | .cons x r, .cons o os => repr F t x o && reprs F t r os
  | _, _ => false
/-- a map object represents a struct of `n` fields (here: fields `i`, `i+1`, …): every field the
    map names holds a value representing the map's entry of that name, and EVERY OTHER FIELD IS
    ZERO — the script passed nothing for it.  (Keys that name no field are not looked at.) -/
def reprFields (F : FOps) (n : Nat) : Nat → Fields → Vals → List (List Nat) → Objs → Bool
  | i, .cons ft fs, .cons x xs, ks, os =>
    (match entryFor n i ks os with
      | some o => repr F ft x o
      | none => decide (x = zero ft)) && reprFields F n (i + 1) fs xs ks os
  | _, .nil, .nil, _, _ => true
  | _, _, _, _, _ => false
end

/-- the type mentions `interface{}` outside struct fields -/
def mentionsIface : GoTy → Bool
  | .iface => true
  | .named _ u => mentionsIface u
  | .ptr t => mentionsIface t
  | .slice t => mentionsIface t
  | .array _ t => mentionsIface t
  | .mapStr t => mentionsIface t
  | _ => false

/-- Spec of one crossing, evaluated on given results: `o` is what the script got for `v`,
    `back` what Go got when `o` was handed back into a slot of type `ty` -/
def specRoundTrip (F : FOps) (ty : GoTy) (v : GoVal) (res : Outcome (Obj × Outcome GoVal)) : Bool :=
  match res with
  | .panic => false
  | .error => true
  | .ok (o, back) => repr F ty v o && (match back with
    | .ok v' => repr F ty v' o && (mentionsIface ty || decide (v' = v))
    | _ => false)

/-- the Impl's round trip: `From`, then `To` and the assignment into a slot of the same type -/
def implRoundTrip (F : FOps) (m : Mode) (ty : GoTy) (v : GoVal) : Outcome (Obj × Outcome GoVal) :=
  (fromGo F m ty v).map fun o => (o, toSlot F m ty o)

/-- Spec of a write into a Go slot: never a panic; when accepted, Go holds exactly what the
    script passed -/
def specWrite (F : FOps) (ty : GoTy) (o : Obj) (res : Outcome GoVal) : Bool :=
  match res with
  | .panic => false
  | .error => true
  | .ok v => repr F ty v o

/-- Spec of a read from a Go slot -/
def specRead (F : FOps) (ty : GoTy) (v : GoVal) (res : Outcome Obj) : Bool :=
  match res with
  | .panic => false
  | .error => true
  | .ok o => repr F ty v o

/-! ### Well-typed values, and the guards naming what the unchanged code gets wrong -/

def distinct : List (List Nat) → Bool
  | [] => true
  | k :: ks => !ks.contains k && distinct ks

mutual
def hasTy (ty : GoTy) (v : GoVal) : Bool :=
  match v with
  | .bool _ => decide (under ty = .bool)
  | .int i => match under ty with
    | .int w => inRangeS w.bits i
    | .uint w => inRangeU w.bits i
    | _ => false
  | .float b => match under ty with
    | .f32 => decide (b < 2 ^ 32)
    | .f64 => decide (b < 2 ^ 64)
    | _ => false
  | .str _ => decide (under ty = .str)
  | .time _ => decide (under ty = .time)
  | .nilv => match under ty with
    | .ptr _ => true
    | .iface => true
    | .chan => true
    | _ => false
  | .ptr x => match under ty with
    | .ptr t => hasTy t x
    | _ => false
  | .seq xs => match under ty with
    | .slice t => hasTys t xs
    | .array n t => hasTys t xs && decide (xs.length = n)
    | _ => false
  | .map ks xs => match under ty with
    | .mapStr t => hasTys t xs && decide (ks.length = xs.length) && distinct ks
    | _ => false
  | .struct xs => match under ty with
    | .struct fs => hasFields fs xs
    | _ => false
  | .iface d x => isIfaceKind ty && !isIfaceKind d && hasTy d x
def hasTys (t : GoTy) : Vals → Bool
  | .nil => true
  | .cons x r => hasTy t x && hasTys t r
def hasFields : Fields → Vals → Bool
  | .nil, .nil => true
  | .cons t fs, .cons x r => hasTy t x && hasFields fs r
  | _, _ => false
end

/-- the recorded findings.  Repaired since (and therefore no longer a guard of any theorem):
    unsigned values ≥ 2⁶³ wrapping negative, the untyped nil global, the panic of `risor.Eval` on a
    global without a converter, surplus method arguments, integers that do not fit the target
    integer type (what is left of `narrowing` are the float conversions), lists longer than the
    array (what is left of `arrayLen` are the shorter lists), declared types of a basic kind (what
    is left of `namedType` are the declared container types). -/
inductive Finding
  | namedType | nilElem | nilCollapse | narrowing | arrayLen | structField
  | nilArg | proxyType | ptrIface | registry
  deriving DecidableEq, Repr

def Finding.id : Finding → String
  | .namedType => "C08-declared-container-type"
  | .nilElem => "C08-nil-element-panic-or-drop"
  | .nilCollapse => "C08-nil-pointer-collapse"
  | .narrowing => "C08-lossy-float-conversion"
  | .arrayLen => "C08-array-short-list-padded"
  | .structField => "C08-struct-field-set-panics"
  | .nilArg => "C08-nil-argument-zero-value"
  | .proxyType => "C08-proxy-type-unchecked"
  | .ptrIface => "C08-pointer-to-interface-panics"
  | .registry => "C08-registry-keeps-failed-type"

/-- a declared type whose underlying type is neither a struct nor a basic type occurs (outside
    struct fields): a declared slice / array / map / pointer / interface type.  (Declared types of a
    basic kind — time.Duration, `type MyInt int` — were part of this guard until `namedConverter`
    repaired them.) -/
def namedBad : GoTy → Bool
  | .named _ u => (!isStructKind u && !isScalarKind u) || namedBad u
  | .ptr t => namedBad t
  | .slice t => namedBad t
  | .array _ t => namedBad t
  | .mapStr t => namedBad t
  | _ => false

/-- a pointer to an interface type occurs (outside struct fields): `PointerConverter.To` allocates
    a pointer to the *dynamic* type of the converted value, which is never `*interface{}` -/
def ptrIfaceBad : GoTy → Bool
  | .named _ u => ptrIfaceBad u
  | .ptr t => isIfaceKind t || ptrIfaceBad t
  | .slice t => ptrIfaceBad t
  | .array _ t => ptrIfaceBad t
  | .mapStr t => ptrIfaceBad t
  | _ => false

/-- type-level defects -/
def tyGuards (ty : GoTy) : List Finding :=
  (if namedBad ty then [.namedType] else []) ++ (if ptrIfaceBad ty then [.ptrIface] else [])

/-- `From` of a nil of this type gives the script's `nil`, and `To` of `nil` the untyped nil -/
def nilable (t : GoTy) : Bool :=
  match sel .create t with
  | .pointer _ => true
  | .dyn => true
  | _ => false

/-- `To(nil)` is the untyped nil (which reflect.Append / Set / SetMapIndex mishandle) -/
def nilTo (t : GoTy) : Bool :=
  match sel .create t with
  | .pointer _ => true
  | .dyn => true
  | .slice _ => true
  | .map _ => true
  | _ => false

def isNil (v : GoVal) : Bool := decide (v = .nilv)

mutual
/-- defects a Go → script → Go crossing of `v : ty` runs into (value part) -/
def valGuards (m : Mode) (ty : GoTy) (v : GoVal) : List Finding :=
  match v with
  | .ptr x => match sel m ty with
    | .pointer t => (if isNil x && nilable t then [.nilCollapse] else []) ++ valGuards .create t x
    | _ => []
  | .seq xs => match sel m ty with
    | .slice t => elemGuards t xs
    | .array _ t => elemGuards t xs
    | _ => []
  | .map _ xs => match sel m ty with
    | .map t => elemGuards t xs
    | _ => []
  | .iface d x =>
    tyGuards d
      ++ (if isNil x && nilable d then [.nilCollapse] else [])
      ++ valGuards .create d x
  | _ => []
def elemGuards (t : GoTy) : Vals → List Finding
  | .nil => []
  | .cons x r => (if isNil x && nilable t then [.nilElem] else []) ++ valGuards .create t x ++ elemGuards t r
end

/-- all defects of a crossing: the type part and the value part -/
def crossGuards (m : Mode) (ty : GoTy) (v : GoVal) : List Finding :=
  tyGuards ty ++ valGuards m ty v

/-- the decidable guard of the round-trip theorem -/
def clean (m : Mode) (ty : GoTy) (v : GoVal) : Bool := (crossGuards m ty v).isEmpty

/-- proxies wrap pointers to structs -/
def proxyWf (pty : GoTy) (pv : GoVal) : Bool :=
  match under pty with
  | .ptr s => isStructKind s && (match pv with
    | .nilv => true
    | .ptr _ => true
    | _ => false)
  | _ => false

mutual
/-- every proxy inside the object wraps a pointer to a struct -/
def wfObj : Obj → Bool
  | .proxy pty pv => proxyWf pty pv
  | .list os => wfObjs os
  | .map _ os => wfObjs os
  | _ => true
def wfObjs : Objs → Bool
  | .nil => true
  | .cons o r => wfObj o && wfObjs r
end

mutual
/-- script objects as they exist at run time: proxies wrap (possibly nil) pointers to struct or
    time.Time values, maps have one value per key -/
def wfW : Obj → Bool
  | .proxy pty pv => proxyWf pty pv && (match pv with
    | .nilv => true
    | .ptr (.struct _) => true
    | .ptr (.time _) => true
    | _ => false)
  | .list os => wfWs os
  | .map ks os => decide (ks.length = os.length) && wfWs os
  | _ => true
def wfWs : Objs → Bool
  | .nil => true
  | .cons o r => wfW o && wfWs r
end

mutual
/-- defects a script → Go conversion of `o` into a slot of type `ty` runs into -/
def writeGuards (F : FOps) (m : Mode) (ty : GoTy) (o : Obj) : List Finding :=
  match o with
  | .list os => match sel (baseMode m (peel ty).1) (peel ty).2 with
    | .slice t => elemWriteGuards F t os
    | .array n t => (if os.length < n then [.arrayLen] else []) ++ elemWriteGuards F t os
    | _ => []
  | .map ks os => match sel (baseMode m (peel ty).1) (peel ty).2 with
    | .map t => elemWriteGuards F t os
    | .structV => fieldWriteGuards F (fieldsOf (peel ty).2) ks os
    | .structP => match under (peel ty).2 with
      | .ptr s => fieldWriteGuards F (fieldsOf s) ks os
      | _ => []
    | _ => []
  | .proxy pty pv => match sel (baseMode m (peel ty).1) (peel ty).2 with
    | .structV => if pty = .ptr (peel ty).2 ∧ pv ≠ .nilv then [] else [.proxyType]
    | .structP => if pty = (peel ty).2 then [] else [.proxyType]
    | _ => []
  | .nil => []
  | o => match toLeaf F (baseMode m (peel ty).1) (peel ty).2 o with
    | .ok (some (d, x)) => if repr F d x o then [] else [.narrowing]
    | _ => []
def elemWriteGuards (F : FOps) (t : GoTy) : Objs → List Finding
  | .nil => []
  | .cons o r => (if decide (o = .nil) && nilTo t then [.nilElem] else [])
      ++ writeGuards F .create t o ++ elemWriteGuards F t r
/-- a map object given for a struct: per entry that names a field, the defects of writing that
    field (`setGuards` below: a struct-typed field cannot be set, plus the write guards of the
    value) and a `nil` value (stored through `reflect.ValueOf(nil)`, like a nil container element) -/
def fieldWriteGuards (F : FOps) (fs : Fields) : List (List Nat) → Objs → List Finding
  | k :: ks, .cons o r =>
    (match fieldIdx fs.length k with
      | some i => match fs.nth i with
        | some ft => (if decide (o = .nil) then [.nilElem] else [])
            ++ (if isStructKind ft then [.structField] else [])
            ++ tyGuards (fieldConvTy ft) ++ writeGuards F .get (fieldConvTy ft) o
        | none => []
      | none => []) ++ fieldWriteGuards F fs ks r
  | _, _ => []
end

def writeAllGuards (F : FOps) (m : Mode) (ty : GoTy) (o : Obj) : List Finding :=
  tyGuards ty ++ writeGuards F m ty o

def setGuards (F : FOps) (ft : GoTy) (o : Obj) : List Finding :=
  (if isStructKind ft then [.structField] else []) ++ writeAllGuards F .get (fieldConvTy ft) o

def callGuards (F : FOps) (pt : GoTy) (o : Obj) : List Finding :=
  (if decide (o = .nil) && !nilTo pt then [.nilArg] else []) ++ writeAllGuards F .get pt o

/-! ### `Proxy.call` with several parameters: the whole argument loop

`Proxy.call` walks the parameters with a separate index into the script's arguments.  The
conversion phase (`To`, or `reflect.Zero` for a nil argument) runs position by position and stops
at the first error or panic; then too few arguments are rejected ("args error"), and so are too
many (repaired: arguments beyond the last parameter used to be dropped, `preFixCallArgs`); then
`Func.Call` panics on an invalid or wrongly typed input. -/

/-- conversion phase for one argument: what is appended to `inputs`; `none` is an input on
    which `Func.Call` will panic (`reflect.ValueOf(nil)`, or a value of a non-assignable type) -/
def convArg (F : FOps) (pt : GoTy) (o : Obj) : Outcome (Option GoVal) :=
  if convOK pt = false then .error
  else match o with
    | .nil => .ok (some (zero pt))
    | _ => match toGo F .get pt o with
      | .ok none => .ok none
      | .ok (some (d, x)) => if assignable pt d then .ok (some (store pt d x)) else .ok none
      | .error => .error
      | .panic => .panic

/-- the argument loop: parameter `i` takes argument `i`; it ends with the parameters or with the
    arguments, whichever ends first -/
def convArgs (F : FOps) : Fields → Objs → Outcome (List (Option GoVal))
  | .nil, _ => .ok []
  | .cons _ _, .nil => .ok []
  | .cons pt pts, .cons o os => (convArg F pt o).bind fun x => (convArgs F pts os).map (x :: ·)

def allSome : List (Option GoVal) → Option Vals
  | [] => some .nil
  | none :: _ => none
  | some x :: r => (allSome r).map (Vals.cons x)

/-- `Proxy.call`: the values the Go method receives, one per parameter -/
def callArgs (F : FOps) (pts : Fields) (os : Objs) : Outcome Vals :=
  (convArgs F pts os).bind fun xs =>
    if xs.length < pts.length then .error          -- "requires %d arguments, but %d were given"
    else if pts.length < os.length then .error     -- "takes %d arguments, but %d were given"
    else match allSome xs with
      | some vs => .ok vs
      | none => .panic

/-- pre-fix `Proxy.call` (historical): `len(args)` was never compared with the number of parameters
    from above -/
def preFixCallArgs (F : FOps) (pts : Fields) (os : Objs) : Outcome Vals :=
  (convArgs F pts os).bind fun xs =>
    if xs.length < pts.length then .error
    else match allSome xs with
      | some vs => .ok vs
      | none => .panic

/-- the outputs of the call, converted in order (two or more outputs become a list) -/
def retObjs (F : FOps) : Fields → Vals → Outcome Objs
  | .cons t ts, .cons x xs => (fromGo F .get t x).bind fun o => (retObjs F ts xs).map (Objs.cons o)
  | _, _ => .ok .nil

/-- `Proxy.call` on `func (h *Host) M(a A, b B, …) (A, B, …) { h.got = {a, b, …}; return a, b, … }` -/
def callEchoN (F : FOps) (pts : Fields) (os : Objs) : Outcome (Vals × Objs) :=
  (callArgs F pts os).bind fun xs => (retObjs F pts xs).map fun rs => (xs, rs)

/-- position by position: parameter `i` holds a value representing object `i`; the counts agree -/
def reprArgs (F : FOps) : Fields → Vals → Objs → Bool
  | .nil, .nil, .nil => true
  | .cons t ts, .cons x xs, .cons o os => repr F t x o && reprArgs F ts xs os
  | _, _, _ => false

/-- Spec of the argument list: never a panic; when the call is made, the method receives exactly
    the arguments the script passed — each one, in its own position, none missing, none dropped -/
def specArgs (F : FOps) (pts : Fields) (os : Objs) (res : Outcome Vals) : Bool :=
  match res with
  | .panic => false
  | .error => true
  | .ok xs => reprArgs F pts xs os

def callNGuards (F : FOps) : Fields → Objs → List Finding
  | .nil, .nil => []
  | .nil, .cons _ _ => []
  | .cons _ _, .nil => []
  | .cons pt pts, .cons o os => callGuards F pt o ++ callNGuards F pts os

/-! ### A reused VM: globals supplied again (`vm.NewEmpty` + `RunCode(opts…)`, `risor.WithVM`)

`WithGlobals` stores the Go values in `vm.inputGlobals` (a later value for the same name replaces
the earlier one) and `applyOptions` converts ALL of them again on every run.  So a run sees, for
every name, the value supplied last; and a global that has no converter keeps every later run
from starting until it is replaced. -/

/-- a binding in `vm.inputGlobals`: name, Go type, Go value -/
abbrev Binding := Nat × GoTy × GoVal

/-- `vm.inputGlobals` after the supplies `hist` (LATEST FIRST): one binding per name, the latest -/
def held : List Binding → List Binding
  | [] => []
  | b :: r => b :: (held r).filter (fun x => x.1 != b.1)

/-- `object.AsObjects(vm.inputGlobals)` -/
def convertAll (F : FOps) : List Binding → Outcome (List (Nat × Obj))
  | [] => .ok []
  | (n, ty, v) :: r => (fromGo F .create ty v).bind fun o => (convertAll F r).map ((n, o) :: ·)

def lookupObj (n : Nat) : List (Nat × Obj) → Option Obj
  | [] => none
  | (m, o) :: r => if m == n then some o else lookupObj n r

/-- the value last supplied under name `n` (history latest first) -/
def lastSupplied (n : Nat) (hist : List Binding) : Option (GoTy × GoVal) :=
  (hist.find? (fun b => b.1 == n)).map (·.2)

/-- a run on a reused VM after the supplies `hist` (latest first) reads global `n`; the VM was
    made by `vm.NewEmpty`, so an unconvertible global is an error of `RunCode`, not a panic -/
def reuseRead (F : FOps) (hist : List Binding) (n : Nat) : Outcome Obj :=
  (convertAll F (held hist)).bind fun gs =>
    match lookupObj n gs with
    | some o => .ok o
    | none => .error                 -- undefined variable

/-- Spec: the run sees the value supplied last under that name (or is rejected) -/
def specReuse (F : FOps) (hist : List Binding) (n : Nat) (res : Outcome Obj) : Bool :=
  match lastSupplied n hist with
  | some (ty, v) => specRead F ty v res
  | none => decide (res = .error)

def heldGuards : List Binding → List Finding
  | [] => []
  | (_, ty, v) :: r => crossGuards .create ty v ++ heldGuards r

/-! ### Go → script alone (a global, a field read, a method result)

The read direction has ONE recorded defect: a non-nil pointer to a nil pointer / nil interface is
shown as `nil` (`nilCollapse`).  Declared container types (`type Labels []string`), pointers to
interfaces, nil elements — all of which the way BACK mishandles — read faithfully. -/

def readClean (m : Mode) (ty : GoTy) (v : GoVal) : Bool := !(valGuards m ty v).contains .nilCollapse

def readGuards (m : Mode) (ty : GoTy) (v : GoVal) : List Finding :=
  if readClean m ty v then [] else [.nilCollapse]

/-! ### One converter, many conversions

Converters are process-wide: `typeConverters` / `GoType.converter` keep ONE converter per Go type,
and every conversion of that type — by any VM, any `Eval` call, any element of one list — goes
through it.  The code keeps no state in a converter (`converter_state_tie`): `StructConverter.To`
builds the struct it returns from `goType.New()` every time.  So a series of conversions is the
series of the single conversions, each independent of what was converted before. -/

/-- a series of script objects written, one after the other, into slots of type `ty` -/
def toSlotSeq (F : FOps) (m : Mode) (ty : GoTy) (os : List Obj) : List (Outcome GoVal) :=
  os.map (toSlot F m ty)

/-- a series of calls of one Go method `func (h *Host) E(x T) T` -/
def callSeq (F : FOps) (pt : GoTy) (os : List Obj) : List (Outcome (GoVal × Obj)) :=
  os.map (callEcho F pt)

/-- Spec of a series of writes: every single one is faithful or rejected — whatever came before -/
def specWriteSeq (F : FOps) (ty : GoTy) : List Obj → List (Outcome GoVal) → Bool
  | [], [] => true
  | o :: os, r :: rs => specWrite F ty o r && specWriteSeq F ty os rs
  | _, _ => false

/-! #### CONTRAST (not the code): a struct converter that reuses a scratch struct

What `StructConverter.To` would do if it took the struct it fills from a pool and put it back
without resetting it: the fields the current map names are overwritten, every other field keeps
what an EARLIER conversion left there.  Refuted in Props (`pooled_violates_spec`); never compared
with the code. -/

/-- fields listed in `ps` are overwritten, the others keep what `xs` holds -/
def overlay : Nat → Vals → List (Nat × GoVal) → Vals
  | _, .nil, _ => .nil
  | i, .cons x xs, ps => .cons ((ps.lookup i).getD x) (overlay (i + 1) xs ps)

/-- a series of map → struct conversions through ONE scratch struct (`scratch`: what it holds) -/
def pooledSeq (F : FOps) (fs : Fields) : Vals → List (List (List Nat) × Objs) → List (Outcome Vals)
  | _, [] => []
  | scratch, (ks, os) :: rest => match toFieldVals F fs ks os with
    | .ok ps => .ok (overlay 0 scratch ps) :: pooledSeq F fs (overlay 0 scratch ps) rest
    | .error => .error :: pooledSeq F fs scratch rest
    | .panic => .panic :: pooledSeq F fs scratch rest

/-- the same series through the converter as it is: a new struct every time -/
def freshSeq (F : FOps) (fs : Fields) : List (List (List Nat) × Objs) → List (Outcome Vals)
  | [] => []
  | (ks, os) :: rest => (toFieldVals F fs ks os).map (place 0 fs) :: freshSeq F fs rest

end Risor.C08
