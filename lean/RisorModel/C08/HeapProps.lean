import RisorModel.C08.Heap
/-!
C08 — property theorems about HISTORIES over an object graph shared between host and script
(model: `Heap.lean`).  All statements are for every heap, every set of global names (several
names may stand for one Go object), every history of script reads / writes and Go-side mutations
(re-pointed pointer fields, replaced slices / maps / struct values, fresh objects), every path of
any length.
-/
namespace Risor.C08

/-! ## helper lemmas -/

theorem nodeAt_append (n : Node) (q : List Nat) (i : Nat) :
    nodeAt n (q ++ [i]) = (nodeAt n q).bind fun c => child c i := by
  induction q generalizing n with
  | nil =>
    show (child n i).bind (fun c => nodeAt c []) = (some n).bind fun c => child c i
    rw [Option.bind_some]
    cases child n i <;> rfl
  | cons j q ih =>
    show (child n j).bind (fun c => nodeAt c (q ++ [i])) = ((child n j).bind fun c => nodeAt c q).bind fun c => child c i
    cases child n j with
    | none => rfl
    | some c => exact ih c

theorem slotAt_append (h : Heap) (a : Nat) (q : List Nat) (i : Nat) :
    slotAt h ⟨a, q ++ [i]⟩ = (slotAt h ⟨a, q⟩).bind fun c => child c i := by
  unfold slotAt
  cases h[a]? with
  | none => rfl
  | some o => exact nodeAt_append o q i

/-- the invariant between what the script holds and the slot Go's resolution has reached -/
def Corr (h : Heap) : SObj → Loc → Prop
  | .int i, l => slotAt h l = some (.int i)
  | .list xs, l => slotAt h l = some (.seq xs)
  | .px .nilp, l => slotAt h l = some (.ref none)
  | .px (.copy n), l => slotAt h l = some n ∧ ∃ fs, n = .struct fs
  | .px (.at a q), l => (q = [] ∧ slotAt h l = some (.ref (some a))) ∨
      (q ≠ [] ∧ l = ⟨a, q⟩ ∧ ∃ fs, slotAt h l = some (.struct fs))

theorem corr_view {h : Heap} {o : SObj} {l : Loc} (hc : Corr h o l) :
    ∃ n, slotAt h l = some n ∧ view n = sview o := by
  cases o with
  | int i => exact ⟨_, hc, rfl⟩
  | list xs => exact ⟨_, hc, rfl⟩
  | px hd =>
    cases hd with
    | nilp => exact ⟨_, hc, rfl⟩
    | copy n =>
      obtain ⟨h1, fs, h2⟩ := hc
      subst h2
      exact ⟨_, h1, rfl⟩
    | «at» a q =>
      rcases hc with ⟨hq, hs⟩ | ⟨hq, _, fs, hs⟩
      · subst hq; exact ⟨_, hs, rfl⟩
      · refine ⟨_, hs, ?_⟩
        cases q with
        | nil => exact absurd rfl hq
        | cons j q => rfl

theorem corr_fromField (h : Heap) (a : Nat) (q : List Nat) (i : Nat) (c : Node)
    (hs : slotAt h ⟨a, q ++ [i]⟩ = some c) : Corr h (fromField a (q ++ [i]) c) ⟨a, q ++ [i]⟩ := by
  cases c with
  | int v => exact hs
  | ref r =>
    cases r with
    | none => exact hs
    | some b => exact Or.inl ⟨rfl, hs⟩
  | struct fs => exact Or.inr ⟨by simp, rfl, fs, hs⟩
  | seq xs => exact hs

theorem corr_fromElem (h : Heap) (l : Loc) (c : Node) (hs : slotAt h l = some c) :
    Corr h (fromElem c) l := by
  cases c with
  | int v => exact hs
  | ref r =>
    cases r with
    | none => exact hs
    | some b => exact Or.inl ⟨rfl, hs⟩
  | struct fs => exact ⟨hs, fs, rfl⟩
  | seq xs => exact hs

/-- `GetAttr` on a proxy of a Go pointer: it found a struct there NOW and converted its field -/
theorem hGet_at {h : Heap} {a : Nat} {q : List Nat} {i : Nat} {o' : SObj}
    (hg : hGet h (.px (.at a q)) i = .ok o') :
    (∃ fs, slotAt h ⟨a, q⟩ = some (.struct fs)) ∧ Corr h o' ⟨a, q ++ [i]⟩ := by
  simp only [hGet] at hg
  split at hg
  · rename_i fs hs
    split at hg
    · rename_i c hc
      have hslot : slotAt h ⟨a, q ++ [i]⟩ = some c := by
        rw [slotAt_append, hs]; exact hc
      injection hg with hg
      subst hg
      exact ⟨⟨fs, hs⟩, corr_fromField h a q i c hslot⟩
    · cases hg
  · cases hg

/-- where Go's `x.i` lives when the script holds a proxy of a Go pointer for `x` -/
theorem stepLoc_at {h : Heap} {a : Nat} {q : List Nat} {l : Loc}
    (hc : Corr h (.px (.at a q)) l) (i : Nat) : stepLoc h l i = some ⟨a, q ++ [i]⟩ := by
  rcases hc with ⟨hq, hs⟩ | ⟨_, hl, fs, hs⟩
  · subst hq; unfold stepLoc; rw [hs]; rfl
  · unfold stepLoc; rw [hs]; subst hl; rfl

theorem stepLoc_root {h : Heap} {a : Nat} {fs : Nodes} (hs : slotAt h ⟨a, []⟩ = some (.struct fs))
    (i : Nat) : stepLoc h ⟨a, []⟩ i = some ⟨a, [i]⟩ := by
  unfold stepLoc; rw [hs]; rfl

/-- one step: whatever `GetAttr` / indexing hands to the script corresponds to the slot Go's own
    `x.i` reaches -/
theorem hGet_sound {h : Heap} {o o' : SObj} {l : Loc} {i : Nat} (hc : Corr h o l)
    (hg : hGet h o i = .ok o') : ∃ l', stepLoc h l i = some l' ∧ Corr h o' l' := by
  cases o with
  | int v => cases hg
  | list xs =>
    have hs : slotAt h l = some (.seq xs) := hc
    refine ⟨⟨l.a, l.q ++ [i]⟩, by unfold stepLoc; rw [hs], ?_⟩
    simp only [hGet] at hg
    split at hg
    · rename_i c hcx
      injection hg with hg; subst hg
      apply corr_fromElem
      rw [slotAt_append]
      have : slotAt h ⟨l.a, l.q⟩ = some (.seq xs) := hs
      rw [this]; exact hcx
    · cases hg
  | px hd =>
    cases hd with
    | nilp => cases hg
    | copy n =>
      obtain ⟨hs, fs, hn⟩ := hc
      subst hn
      refine ⟨⟨l.a, l.q ++ [i]⟩, by unfold stepLoc; rw [hs], ?_⟩
      simp only [hGet] at hg
      split at hg
      · rename_i c hcx
        injection hg with hg; subst hg
        apply corr_fromElem
        rw [slotAt_append]
        have : slotAt h ⟨l.a, l.q⟩ = some (.struct fs) := hs
        rw [this]; exact hcx
      · cases hg
    | «at» a q => exact ⟨_, stepLoc_at hc i, (hGet_at hg).2⟩

theorem walk_sound {h : Heap} : ∀ (p : List Nat) (o o' : SObj) (l : Loc), Corr h o l →
    walk h o p = .ok o' → ∃ l', locate h l p = some l' ∧ Corr h o' l' := by
  intro p
  induction p with
  | nil =>
    intro o o' l hc hw
    injection hw with hw; subst hw
    exact ⟨l, rfl, hc⟩
  | cons i p ih =>
    intro o o' l hc hw
    unfold walk at hw
    cases hg : hGet h o i with
    | ok o1 =>
      rw [hg] at hw
      obtain ⟨l1, hl1, hc1⟩ := hGet_sound hc hg
      obtain ⟨l', hl', hc'⟩ := ih o1 o' l1 hc1 hw
      exact ⟨l', by unfold locate; rw [hl1]; exact hl', hc'⟩
    | error => rw [hg] at hw; cases hw
    | panic => rw [hg] at hw; cases hw

/-! ## 1. the script's view is the current Go state -/

/-- **Reads, one heap.**  Whatever the script reads through `root.p` — a path of any length
    through `*struct` fields, struct-by-value fields, slices and maps of pointers or of structs —
    is what Go's own resolution of that path holds NOW: the same scalar, the same pointer (the
    identity of the object the proxy wraps, or nil). -/
theorem read_is_current (h : Heap) (a : Nat) (p : List Nat) (o : SObj)
    (hr : implRead h a p = .ok o) : ∃ n, goRead h a p = some n ∧ view n = sview o := by
  cases p with
  | nil =>
    injection hr with hr; subst hr
    exact ⟨_, rfl, rfl⟩
  | cons i p =>
    unfold implRead walk at hr
    cases hg : hGet h (.px (.at a [])) i with
    | ok o1 =>
      rw [hg] at hr
      obtain ⟨⟨fs, hs⟩, hc1⟩ := hGet_at hg
      obtain ⟨l', hl', hc'⟩ := walk_sound p o1 o _ hc1 hr
      obtain ⟨n, hn, hv⟩ := corr_view hc'
      refine ⟨n, ?_, hv⟩
      show (locate h ⟨a, []⟩ (i :: p)).bind (fun l => slotAt h l) = some n
      unfold locate
      rw [stepLoc_root hs i]
      show (locate h ⟨a, [] ++ [i]⟩ p).bind (fun l => slotAt h l) = some n
      rw [hl']; exact hn
    | error => rw [hg] at hr; cases hr
    | panic => rw [hg] at hr; cases hr

/-- **`proxy_view_is_current`.**  After EVERY history (script reads and writes, Go-side stores,
    re-pointed pointer fields, replaced slices / maps, fresh objects; any number of global names
    for one Go object), a script read through any global name and any path that returns a value
    returns what the Go heap holds at that path NOW — the reference machine (which re-resolves the
    whole path on the current heap) gives the same answer on the same heap. -/
theorem proxy_view_is_current (roots : List Nat) (h0 : Heap) (ops : List HOp) (r : Nat)
    (p : List Nat) (v : View) (h' : Heap)
    (hv : implStep roots (runImpl roots h0 ops).1 (.scriptGet r p) = (h', .val v)) :
    specStep roots (runImpl roots h0 ops).1 (.scriptGet r p) = ((runImpl roots h0 ops).1, .val v) := by
  generalize (runImpl roots h0 ops).1 = h at hv ⊢
  cases hr : roots[r]? with
  | none => simp only [implStep, hr] at hv; injection hv with _ hv2; cases hv2
  | some a =>
    simp only [implStep, hr] at hv
    simp only [specStep, hr]
    cases hi : implRead h a p with
    | ok o =>
      rw [hi] at hv
      obtain ⟨n, hn, hvw⟩ := read_is_current h a p o hi
      rw [hn]
      simp only at hv ⊢
      injection hv with _ hv2
      injection hv2 with hv2
      rw [hvw, hv2]
    | error => rw [hi] at hv; simp only at hv; injection hv with _ hv2; cases hv2
    | panic => rw [hi] at hv; simp only at hv; injection hv with _ hv2; cases hv2

/-! ## 2. a script write is Go's write -/

def NotCopy : SObj → Prop
  | .px (.copy _) => False
  | _ => True

theorem fromField_notCopy (a : Nat) (q : List Nat) (c : Node) : NotCopy (fromField a q c) := by
  cases c with
  | ref r => cases r <;> exact True.intro
  | _ => exact True.intro

theorem hGet_at_notCopy {h : Heap} {a : Nat} {q : List Nat} {i : Nat} {o' : SObj}
    (hg : hGet h (.px (.at a q)) i = .ok o') : NotCopy o' := by
  simp only [hGet] at hg
  split at hg
  · split at hg
    · injection hg with hg; subst hg; exact fromField_notCopy _ _ _
    · cases hg
  · cases hg

theorem hGet_sound_nc {h : Heap} {o o' : SObj} {l : Loc} {i : Nat} (hc : Corr h o l)
    (hn : NotCopy o) (hg : hGet h o i = .ok o') :
    ∃ l', stepLoc h l i = some l' ∧ Corr h o' l' ∧ (copyStep h l l' = false → NotCopy o') := by
  obtain ⟨l', hl', hc'⟩ := hGet_sound hc hg
  refine ⟨l', hl', hc', ?_⟩
  cases o with
  | int v => cases hg
  | px hd =>
    cases hd with
    | nilp => cases hg
    | copy n => exact absurd hn id
    | «at» a q => intro _; exact hGet_at_notCopy hg
  | list xs =>
    have hs : slotAt h l = some (.seq xs) := hc
    simp only [hGet] at hg
    split at hg
    · rename_i c hcx
      injection hg with hg; subst hg
      cases c with
      | struct fs =>
        intro hf
        have hs' : slotAt h l' = some (.struct fs) := hc'.1
        unfold copyStep at hf
        rw [hs, hs'] at hf
        cases hf
      | ref r => intro _; cases r <;> exact True.intro
      | int v => intro _; exact True.intro
      | seq ys => intro _; exact True.intro
    · cases hg

theorem setKind_compat {old v : Node} (hk : setKind old v = .ok ()) : compat old v = true := by
  cases old <;> cases v <;> first | rfl | cases hk

/-- `SetAttr` on a proxy of a Go pointer writes the slot `field i` of the struct it finds there NOW -/
theorem hSet_at {h h' : Heap} {a : Nat} {q : List Nat} {i : Nat} {v : Node}
    (hs : hSet h (.px (.at a q)) i v = .ok h') :
    ∃ fs old, slotAt h ⟨a, q⟩ = some (.struct fs) ∧ slotAt h ⟨a, q ++ [i]⟩ = some old ∧
      compat old v = true ∧ setSlot h ⟨a, q ++ [i]⟩ v = some h' := by
  simp only [hSet] at hs
  split at hs
  · rename_i fs hfs
    split at hs
    · rename_i old hold
      split at hs
      · rename_i u hk
        split at hs
        · rename_i h'' hset
          injection hs with hs; subst hs
          refine ⟨fs, old, hfs, ?_, ?_, hset⟩
          · rw [slotAt_append, hfs]; exact hold
          · cases u; exact setKind_compat hk
        · cases hs
      · cases hs
      · cases hs
    · cases hs
  · cases hs

theorem goWrite_of_locate {h h' : Heap} {a : Nat} {i : Nat} {p : List Nat} {v old : Node} {l : Loc}
    (hl : locate h ⟨a, []⟩ (i :: p) = some l) (ho : slotAt h l = some old)
    (hc : compat old v = true) (hs : setSlot h l v = some h') : goWrite h a (i :: p) v = some h' := by
  show (locate h ⟨a, []⟩ (i :: p)).bind _ = some h'
  rw [hl]
  show (match slotAt h l with
    | some old => if compat old v then setSlot h l v else none
    | none => none) = some h'
  rw [ho]
  simp only [hc, if_true]
  exact hs

theorem walkSet_sound {h : Heap} : ∀ (p : List Nat) (o : SObj) (l : Loc) (v : Node) (h' : Heap),
    Corr h o l → NotCopy o → copyOnPath h l p = false → walkSet h o p v = .ok h' →
    ∃ l' old, locate h l p = some l' ∧ slotAt h l' = some old ∧ compat old v = true ∧
      setSlot h l' v = some h' := by
  intro p
  induction p with
  | nil => intro o l v h' _ _ _ hw; cases hw
  | cons i p ih =>
    intro o l v h' hc hn hcp hw
    cases p with
    | nil =>
      simp only [walkSet] at hw
      cases o with
      | int x => cases hw
      | list xs => cases hw
      | px hd =>
        cases hd with
        | nilp => cases hw
        | copy n => exact absurd hn id
        | «at» a q =>
          obtain ⟨fs, old, _, hold, hcm, hset⟩ := hSet_at hw
          refine ⟨⟨a, q ++ [i]⟩, old, ?_, hold, hcm, hset⟩
          unfold locate
          rw [stepLoc_at hc i]
          rfl
    | cons j p =>
      simp only [walkSet] at hw
      cases hg : hGet h o i with
      | ok o1 =>
        rw [hg] at hw
        obtain ⟨l1, hl1, hc1, hnc1⟩ := hGet_sound_nc hc hn hg
        unfold copyOnPath at hcp
        rw [hl1] at hcp
        simp only [Bool.or_eq_false_iff] at hcp
        obtain ⟨l', old, hl', hold, hcm, hset⟩ := ih o1 l1 v h' hc1 (hnc1 hcp.1) hcp.2 hw
        refine ⟨l', old, ?_, hold, hcm, hset⟩
        unfold locate
        rw [hl1]
        exact hl'
      | error => rw [hg] at hw; cases hw
      | panic => rw [hg] at hw; cases hw

/-- **Writes, one heap.**  When the script's `root.p = v` is accepted, the heap afterwards is
    exactly the heap after Go's own `root.p = v`: the write landed in the slot that Go's
    resolution of the path designates NOW, nowhere else — unless the path enters a struct held by
    value inside a slice / map (`copyOnPath`, finding C08-slice-element-write-lost). -/
theorem write_is_go_write (h : Heap) (a : Nat) (p : List Nat) (v : Node) (h' : Heap)
    (hg : copyOnPath h ⟨a, []⟩ p = false) (hw : implWrite h a p v = .ok h') :
    goWrite h a p v = some h' := by
  unfold implWrite at hw
  cases p with
  | nil => cases hw
  | cons i p =>
    cases p with
    | nil =>
      simp only [walkSet] at hw
      obtain ⟨fs, old, hfs, hold, hcm, hset⟩ := hSet_at hw
      refine goWrite_of_locate ?_ hold hcm hset
      unfold locate
      rw [stepLoc_root hfs i]
      rfl
    | cons j p =>
      simp only [walkSet] at hw
      cases hgi : hGet h (.px (.at a [])) i with
      | ok o1 =>
        rw [hgi] at hw
        obtain ⟨⟨fs, hfs⟩, hc1⟩ := hGet_at hgi
        unfold copyOnPath at hg
        rw [stepLoc_root hfs i] at hg
        simp only [Bool.or_eq_false_iff] at hg
        obtain ⟨l', old, hl', hold, hcm, hset⟩ :=
          walkSet_sound (j :: p) o1 ⟨a, [] ++ [i]⟩ v h' hc1 (hGet_at_notCopy hgi) hg.2 hw
        refine goWrite_of_locate ?_ hold hcm hset
        unfold locate
        rw [stepLoc_root hfs i]
        exact hl'
      | error => rw [hgi] at hw; cases hw
      | panic => rw [hgi] at hw; cases hw

/-- **`script_write_visible`.**  After EVERY history, a scalar write the script makes through any
    global name and any path, when accepted, is in the Go heap afterwards: the heap the unchanged
    code leaves is the heap the reference machine (Go's own `root.p = i` on the current heap)
    leaves.  Guard: the path does not enter a struct held by value inside a slice / map. -/
theorem script_write_visible (roots : List Nat) (h0 : Heap) (ops : List HOp) (r : Nat)
    (p : List Nat) (i : Int) (h' : Heap)
    (hg : ∀ a, roots[r]? = some a → copyOnPath (runImpl roots h0 ops).1 ⟨a, []⟩ p = false)
    (hw : implStep roots (runImpl roots h0 ops).1 (.scriptSet r p i) = (h', .done)) :
    specStep roots (runImpl roots h0 ops).1 (.scriptSet r p i) = (h', .done) := by
  generalize (runImpl roots h0 ops).1 = h at hg hw ⊢
  cases hr : roots[r]? with
  | none => simp only [implStep, hr] at hw; injection hw with _ hw2; cases hw2
  | some a =>
    simp only [implStep, hr] at hw
    simp only [specStep, hr]
    cases hi : implWrite h a p (.int i) with
    | ok h'' =>
      rw [hi] at hw
      simp only [ofOutcome] at hw
      injection hw with hw1 _
      subst hw1
      rw [write_is_go_write h a p (.int i) h'' (hg a hr) hi]
      rfl
    | error => rw [hi] at hw; simp only [ofOutcome] at hw; injection hw with _ hw2; cases hw2
    | panic => rw [hi] at hw; simp only [ofOutcome] at hw; injection hw with _ hw2; cases hw2

/-- the same for a pointer the script stores (`g.p = g'.p'`, `g.p = {…}`): an accepted store is
    Go's store — `write_is_go_write` is for every value `v`. -/
theorem script_link_visible (h : Heap) (a : Nat) (p : List Nat) (t : Option Nat) (h' : Heap)
    (hg : copyOnPath h ⟨a, []⟩ p = false) (hw : implWrite h a p (.ref t) = .ok h') :
    goWrite h a p (.ref t) = some h' := write_is_go_write h a p (.ref t) h' hg hw

/-- **Full statement for writes** (no guard) -/
def C08_full_write_visible : Prop :=
  ∀ (h : Heap) (a : Nat) (p : List Nat) (v : Node) (h' : Heap),
    implWrite h a p v = .ok h' → goWrite h a p v = some h'

/-- `g.Vs[0].X = 5` with `Vs []Leaf`: the script gets a proxy of a private copy of the element
    (`NewProxy`: "create a pointer to a copy of the struct"), the write is accepted and Go never
    sees it. -/
def lostWriteHeap : Heap :=
  [.struct (.cons (.seq (.cons (.struct (.cons (.int 1) .nil)) .nil)) .nil)]

theorem C08_counterexample_slice_element_write :
    implWrite lostWriteHeap 0 [0, 0, 0] (.int 5) = .ok lostWriteHeap ∧
    goWrite lostWriteHeap 0 [0, 0, 0] (.int 5)
      = some [.struct (.cons (.seq (.cons (.struct (.cons (.int 5) .nil)) .nil)) .nil)] ∧
    copyOnPath lostWriteHeap ⟨0, []⟩ [0, 0, 0] = true := by decide

theorem C08_counterexample_write_visible : ¬ C08_full_write_visible := by
  intro hf
  have h1 := hf lostWriteHeap 0 [0, 0, 0] (.int 5) lostWriteHeap C08_counterexample_slice_element_write.1
  rw [C08_counterexample_slice_element_write.2.1] at h1
  exact absurd h1 (by decide)

/-! ## 3. no panics, and whole histories against the judge -/

theorem hGet_panic {h : Heap} {o : SObj} {i : Nat} (hp : hGet h o i = .panic) : o = .px .nilp := by
  cases o with
  | int v => cases hp
  | list xs => simp only [hGet] at hp; split at hp <;> cases hp
  | px hd =>
    cases hd with
    | nilp => rfl
    | copy n =>
      cases n with
      | struct fs => simp only [hGet] at hp; split at hp <;> cases hp
      | int v => cases hp
      | ref r => cases hp
      | seq xs => cases hp
    | «at» a q =>
      simp only [hGet] at hp
      split at hp
      · split at hp <;> cases hp
      · cases hp

theorem nilOnPath_here {h : Heap} {l : Loc} {i : Nat} {p : List Nat}
    (hs : slotAt h l = some (.ref none)) : nilOnPath h l (i :: p) = true := by
  unfold nilOnPath; rw [hs]; rfl

theorem nilOnPath_later {h : Heap} {l l' : Loc} {i : Nat} {p : List Nat}
    (hl : stepLoc h l i = some l') (hn : nilOnPath h l' p = true) : nilOnPath h l (i :: p) = true := by
  unfold nilOnPath; rw [hl]; simp only [hn, Bool.or_true]

theorem walk_panic {h : Heap} : ∀ (p : List Nat) (o : SObj) (l : Loc), Corr h o l →
    walk h o p = .panic → nilOnPath h l p = true := by
  intro p
  induction p with
  | nil => intro o l _ hw; cases hw
  | cons i p ih =>
    intro o l hc hw
    unfold walk at hw
    cases hg : hGet h o i with
    | ok o1 =>
      rw [hg] at hw
      obtain ⟨l1, hl1, hc1⟩ := hGet_sound hc hg
      exact nilOnPath_later hl1 (ih o1 l1 hc1 hw)
    | error => rw [hg] at hw; cases hw
    | panic =>
      have ho := hGet_panic hg
      subst ho
      exact nilOnPath_here hc

/-- a script read panics only when Go's own evaluation of the path would dereference nil -/
theorem read_no_panic (h : Heap) (a : Nat) (p : List Nat)
    (hn : nilOnPath h ⟨a, []⟩ p = false) : implRead h a p ≠ .panic := by
  intro hp
  cases p with
  | nil => cases hp
  | cons i p =>
    unfold implRead walk at hp
    cases hg : hGet h (.px (.at a [])) i with
    | ok o1 =>
      rw [hg] at hp
      obtain ⟨⟨fs, hfs⟩, hc1⟩ := hGet_at hg
      have := nilOnPath_later (stepLoc_root hfs i) (walk_panic p o1 _ hc1 hp)
      rw [this] at hn; cases hn
    | error => rw [hg] at hp; cases hp
    | panic => cases hGet_panic hg

theorem hSet_int_panic {h : Heap} {o : SObj} {i : Nat} {x : Int} (hp : hSet h o i (.int x) = .panic) :
    o = .px .nilp := by
  cases o with
  | int v => cases hp
  | list xs => cases hp
  | px hd =>
    cases hd with
    | nilp => rfl
    | copy n =>
      cases n with
      | struct fs =>
        simp only [hSet] at hp
        split at hp
        · rename_i old _
          cases old <;> simp only [setKind] at hp <;> cases hp
        · cases hp
      | int v => cases hp
      | ref r => cases hp
      | seq xs => cases hp
    | «at» a q =>
      simp only [hSet] at hp
      split at hp
      · split at hp
        · rename_i old _
          cases old <;> simp only [setKind] at hp
          · split at hp <;> cases hp
          all_goals cases hp
        · cases hp
      · cases hp

theorem walkSet_int_panic {h : Heap} {x : Int} : ∀ (p : List Nat) (o : SObj) (l : Loc), Corr h o l →
    walkSet h o p (.int x) = .panic → nilOnPath h l p = true := by
  intro p
  induction p with
  | nil => intro o l _ hw; cases hw
  | cons i p ih =>
    intro o l hc hw
    cases p with
    | nil =>
      simp only [walkSet] at hw
      have ho := hSet_int_panic hw
      subst ho
      exact nilOnPath_here hc
    | cons j p =>
      simp only [walkSet] at hw
      cases hg : hGet h o i with
      | ok o1 =>
        rw [hg] at hw
        obtain ⟨l1, hl1, hc1⟩ := hGet_sound hc hg
        exact nilOnPath_later hl1 (ih o1 l1 hc1 hw)
      | error => rw [hg] at hw; cases hw
      | panic =>
        have ho := hGet_panic hg
        subst ho
        exact nilOnPath_here hc

/-- a scalar write panics only when Go's own evaluation of the path would dereference nil -/
theorem write_no_panic (h : Heap) (a : Nat) (p : List Nat) (x : Int)
    (hn : nilOnPath h ⟨a, []⟩ p = false) : implWrite h a p (.int x) ≠ .panic := by
  intro hp
  unfold implWrite at hp
  cases p with
  | nil => cases hp
  | cons i p =>
    cases p with
    | nil =>
      simp only [walkSet] at hp
      cases hSet_int_panic hp
    | cons j p =>
      simp only [walkSet] at hp
      cases hg : hGet h (.px (.at a [])) i with
      | ok o1 =>
        rw [hg] at hp
        obtain ⟨⟨fs, hfs⟩, hc1⟩ := hGet_at hg
        have := nilOnPath_later (stepLoc_root hfs i) (walkSet_int_panic (j :: p) o1 _ hc1 hp)
        rw [this] at hn; cases hn
      | error => rw [hg] at hp; cases hp
      | panic => cases hGet_panic hg

/-- one step of the unchanged code is accepted by the judge, under the step's guard -/
theorem step_accepted (roots : List Nat) (h : Heap) (op : HOp) (hb : basicOp op = true)
    (hg : stepGuard roots h op = false) : stepOK roots h op (implStep roots h op) = true := by
  cases op with
  | scriptLink r p r' p' => cases hb
  | scriptNew r p b => cases hb
  | goSet r p i => simp [stepOK, implStep, isScriptOp, heapEq]
  | goRepoint r p t => simp [stepOK, implStep, isScriptOp, heapEq]
  | goReplace r p v => simp [stepOK, implStep, isScriptOp, heapEq]
  | goNew b => simp [stepOK, implStep, isScriptOp, heapEq]
  | scriptGet r p =>
    cases hr : roots[r]? with
    | none => simp [stepOK, implStep, isScriptOp, heapEq, hr]
    | some a =>
      simp only [stepGuard, hr] at hg
      cases hi : implRead h a p with
      | ok o =>
        obtain ⟨n, hn, hvw⟩ := read_is_current h a p o hi
        simp [stepOK, implStep, specStep, isScriptOp, heapEq, hr, hi, hn, hvw]
      | error => simp [stepOK, implStep, isScriptOp, heapEq, hr, hi]
      | panic => exact absurd hi (read_no_panic h a p hg)
  | scriptSet r p x =>
    cases hr : roots[r]? with
    | none => simp [stepOK, implStep, isScriptOp, heapEq, hr]
    | some a =>
      simp only [stepGuard, hr, Bool.or_eq_false_iff] at hg
      cases hi : implWrite h a p (.int x) with
      | ok h' =>
        have hw := write_is_go_write h a p (.int x) h' hg.2 hi
        simp [stepOK, implStep, specStep, isScriptOp, heapEq, hr, hi, hw, ofOutcome, ofWrite]
      | error => simp [stepOK, implStep, isScriptOp, heapEq, hr, hi, ofOutcome]
      | panic => exact absurd hi (write_no_panic h a p x hg.1)

/-- **Full statement for histories**: the judge accepts every trace of the unchanged code -/
def C08_full_history : Prop :=
  ∀ (roots : List Nat) (h : Heap) (ops : List HOp), histOK roots h ops (traceImpl roots h ops) = true

/-- `g.Q.X` with `g.Q == nil`: the proxy of the nil pointer panics in reflect -/
theorem C08_counterexample_nil_on_path :
    implStep [0] [.struct (.cons (.ref none) .nil)] (.scriptGet 0 [0, 0])
      = ([.struct (.cons (.ref none) .nil)], .panic) := by decide

theorem C08_counterexample_history : ¬ C08_full_history := by
  intro hf
  exact absurd (hf [0] [.struct (.cons (.ref none) .nil)] [.scriptGet 0 [0, 0]]) (by decide)

/-- **`C08_partial_history`.**  Every history of script reads, script scalar writes and Go-side
    steps (stores, re-pointed pointers, replaced slices / maps / struct values, fresh objects),
    over any heap and any global names: when no step falls under a guard (`histGuarded`: no nil
    pointer on a script path, no write through a by-value slice element), the judge accepts the
    whole trace of the unchanged code — every read answered with what Go holds at that moment or
    rejected, every accepted write exactly Go's write, never a panic. -/
theorem C08_partial_history (roots : List Nat) : ∀ (ops : List HOp) (h : Heap),
    histGuarded roots h ops = true → histOK roots h ops (traceImpl roots h ops) = true := by
  intro ops
  induction ops with
  | nil => intro h _; rfl
  | cons op ops ih =>
    intro h hg
    simp only [histGuarded, Bool.and_eq_true, Bool.not_eq_true'] at hg
    obtain ⟨⟨hb, hs⟩, hrest⟩ := hg
    show (stepOK roots h op (implStep roots h op) && histOK roots (implStep roots h op).1 ops
      (traceImpl roots (implStep roots h op).1 ops)) = true
    rw [step_accepted roots h op hb hs, ih _ hrest]
    rfl

/-! ## 4. CONTRAST: a proxy that caches its struct-typed children -/

/-- object 0 = {X: 0, P: &object 1}, object 1 = {X: 1}, object 2 = {X: 7} -/
def staleHeap : Heap :=
  [.struct (.cons (.int 0) (.cons (.ref (some 1)) .nil)),
   .struct (.cons (.int 1) (.cons (.ref none) .nil)),
   .struct (.cons (.int 7) (.cons (.ref none) .nil))]

/-- `g.P.X` ; Go: `g.P = &object2` ; `g.P.X` ; `g.P.X = 42` ; Go reads `g.P.X` -/
def staleHist : List HOp :=
  [.scriptGet 0 [1, 0], .goRepoint 0 [1] (some 2), .scriptGet 0 [1, 0], .scriptSet 0 [1, 0] 42]

/-- the unchanged code follows the re-pointed field: the second read gives 7, the write lands in
    object 2 -/
theorem uncached_follows_repoint :
    runImpl [0] staleHeap staleHist =
      ([.struct (.cons (.int 0) (.cons (.ref (some 2)) .nil)),
        .struct (.cons (.int 1) (.cons (.ref none) .nil)),
        .struct (.cons (.int 42) (.cons (.ref none) .nil))],
       [.val (.int 1), .done, .val (.int 7), .done]) := by decide

/-- the caching proxy keeps reading the OLD pointee (1 instead of 7) and writes into it
    (object 1 gets the 42, Go's `g.P.X` is still 7) -/
theorem cached_view_is_stale :
    ((runCached [0] ⟨staleHeap, []⟩ staleHist).1.heap, (runCached [0] ⟨staleHeap, []⟩ staleHist).2) =
      ([.struct (.cons (.int 0) (.cons (.ref (some 2)) .nil)),
        .struct (.cons (.int 42) (.cons (.ref none) .nil)),
        .struct (.cons (.int 7) (.cons (.ref none) .nil))],
       [.val (.int 1), .done, .val (.int 1), .done]) := by decide

/-- `proxy_view_is_current` stated for the caching machine -/
def cached_view_is_current : Prop :=
  ∀ (roots : List Nat) (h0 : Heap) (ops : List HOp) (r : Nat) (p : List Nat) (v : View),
    (cRead roots (runCached roots ⟨h0, []⟩ ops).1 r p).2 = .val v →
    (specStep roots (runCached roots ⟨h0, []⟩ ops).1.heap (.scriptGet r p)).2 = .val v

theorem cached_counterexample : ¬ cached_view_is_current := by
  intro hf
  have h1 := hf [0] staleHeap [.scriptGet 0 [1, 0], .goRepoint 0 [1] (some 2)] 0 [1, 0] (.int 1)
    (by decide)
  exact absurd h1 (by decide)

example : histGuarded [0] staleHeap staleHist = true := by decide

/-- the judge refuses the caching machine's trace and accepts the unchanged code's -/
example : histOK [0] staleHeap staleHist (traceImpl [0] staleHeap staleHist) = true := by decide

def demoHeap : Heap :=
  [.struct (.cons (.int 0) (.cons (.ref (some 1)) (.cons (.struct (.cons (.int 3) (.cons (.ref (some 1)) .nil)))
     (.cons (.seq (.cons (.ref (some 1)) .nil)) .nil)))),
   .struct (.cons (.int 1) (.cons (.ref none) (.cons (.struct (.cons (.int 0) (.cons (.ref none) .nil))) (.cons (.seq .nil) .nil))))]

def demoHist : List HOp :=
  [.scriptGet 0 [2, 1, 0], .scriptSet 1 [3, 0, 0] 9, .scriptGet 2 [0], .goNew (.struct (.cons (.int 5) .nil)),
   .goRepoint 0 [2, 1] (some 2), .scriptGet 1 [2, 1, 0], .scriptLink 0 [1] 1 [2, 1], .scriptGet 0 [1, 0]]

/-- non-vacuity: a history through a by-value struct, a slice of pointers and two global names
    for one object; every step is accepted by the judge and the reads see 1, 9, 5, 5 -/
example : histOK [0, 0, 1] demoHeap demoHist (traceImpl [0, 0, 1] demoHeap demoHist) = true := by decide
example : (runImpl [0, 0, 1] demoHeap demoHist).2 =
    [.val (.int 1), .done, .val (.int 9), .done, .done, .val (.int 5), .done, .val (.int 5)] := by decide

end Risor.C08
