/-!
C08 — FIRST USE of a Go type, racing with other uses of it (object/go_type.go `NewGoType` /
`newGoType`, object/proxy.go `goTypeRegistry`, `goTypeMutex`).

A Go value of struct / pointer type crosses the boundary as a proxy whose fields and methods are
looked up in the `*GoType` that describes its type.  The description is built ONCE per type, by
the first goroutine that hands a value of the type to a script, and kept in the process-wide
`goTypeRegistry`.  `newGoType` puts the new, still EMPTY description into the registry *before* it
discovers the fields and methods (recursive types must terminate) and fills it in afterwards, one
attribute at a time.  Evaluations on separate VMs run concurrently, so a second goroutine can ask
for the same type while the first is still describing it.

* `St`, `Ev`, `stepLocked`, `run`   the **Impl**: the code as it is.  Every lookup takes
                     `goTypeMutex`, which the describing goroutine holds until the description is
                     complete: a caller that arrives in between waits.
* `viewOf`           what a goroutine was handed: the attributes its `*GoType` had at the moment
                     it was handed out (the earliest moment the goroutine can look one up)
* the **Spec** (RegProps.lean): in every interleaving every goroutine is handed the COMPLETE
                     description, so the field / method lookup of a concurrent first use is the
                     lookup of a sequential use (`Model.getAttr`, `callEcho`)
* `stepFast`, `runFast`   CONTRAST: a lock-free fast path "known types need no lock" in front of
                     the mutex (seeded change C08-r5m1); refuted in RegProps.lean, never compared
                     with code

Types and attributes are numbers; `full t` lists the attributes (exported fields, then methods)
of type `t` in the order `newGoType` discovers them.  Modelled simplification: describing `t`
publishes `t` only (the code also publishes the indirect type `*t` / `t` and, for struct-typed
fields, the field's type, all under the same lock; the harness races those too).  Core Lean only.
-/
namespace Risor.C08.Reg

/-- `goTypeRegistry`: for a registered type the attributes its description has so far -/
abbrev Registry := Nat → Option (List Nat)

def setReg (r : Registry) (t : Nat) (v : List Nat) : Registry :=
  fun u => if u = t then some v else r u

/-- one step of some goroutine, as the scheduler interleaves them -/
inductive Ev where
  /-- goroutine `thread` calls `NewGoType(type)` (from `NewProxy`, a converter, a global …) -/
  | use (thread type : Nat)
  /-- the goroutine that is inside `newGoType` makes its next step -/
  | work
  deriving DecidableEq, Repr

structure St where
  reg : Registry
  /-- the goroutine inside `newGoType` (it holds `goTypeMutex`): (goroutine, type, attributes
  still to be discovered) -/
  building : Option (Nat × Nat × List Nat)
  /-- latest first: (goroutine, type, attributes of the description when it was handed out) -/
  views : List (Nat × Nat × List Nat)

def init : St := ⟨fun _ => none, none, []⟩

/-- the builder's next step: add one attribute, or finish (unlock, return the description) -/
def workStep (s : St) : St :=
  match s.building with
  | none => s
  | some (i, t, a :: rest) =>
    { s with reg := setReg s.reg t ((s.reg t).getD [] ++ [a]), building := some (i, t, rest) }
  | some (i, t, []) =>
    { s with building := none, views := (i, t, (s.reg t).getD []) :: s.views }

/-- **Impl**: `NewGoType` as it is — `goTypeMutex.Lock()` first.  While another goroutine is
inside `newGoType` the caller waits (no change; the schedule lets it ask again). -/
def stepLocked (full : Nat → List Nat) (s : St) : Ev → St
  | .use i t =>
    match s.building with
    | some _ => s
    | none =>
      match s.reg t with
      | some v => { s with views := (i, t, v) :: s.views }
      | none => { s with reg := setReg s.reg t [], building := some (i, t, full t) }
  | .work => workStep s

/-- CONTRAST: a lock-free lookup in front of the mutex — a registered type is returned at once -/
def stepFast (full : Nat → List Nat) (s : St) : Ev → St
  | .use i t =>
    match s.reg t with
    | some v => { s with views := (i, t, v) :: s.views }
    | none => stepLocked full s (.use i t)
  | .work => workStep s

def run (full : Nat → List Nat) (s : St) (evs : List Ev) : St := evs.foldl (stepLocked full) s
def runFast (full : Nat → List Nat) (s : St) (evs : List Ev) : St := evs.foldl (stepFast full) s

/-- what goroutine `i` was handed (its first use) -/
def viewOf (s : St) (i : Nat) : Option (Nat × List Nat) :=
  match s.views.reverse.find? (fun e => e.1 == i) with
  | some e => some e.2
  | none => none

/-- goroutine `i` looks attribute `a` up in the description it was handed: `found` when the
description has it, `missing` ("attribute not found") otherwise; `none`: never served -/
def lookup {α : Type} (s : St) (i a : Nat) (found missing : α) : Option α :=
  match viewOf s i with
  | none => none
  | some (_, v) => some (if v.contains a then found else missing)

/-- the invariant of the locked registry: every description a goroutine holds and every
registered description is complete — except the one the holder of the mutex is filling in, which
lacks exactly the attributes still to be discovered -/
def Inv (full : Nat → List Nat) (s : St) : Prop :=
  (∀ e ∈ s.views, e.2.2 = full e.2.1) ∧
  match s.building with
  | none => ∀ u v, s.reg u = some v → v = full u
  | some (_, t, rest) =>
    (∃ v, s.reg t = some v ∧ v ++ rest = full t) ∧ ∀ u v, u ≠ t → s.reg u = some v → v = full u

end Risor.C08.Reg
