import RisorModel.C08.Model
/-!
C08 — a HEAP of Go objects shared between host and script, and HISTORIES over it.

`Model.lean` converts one value at a time.  Here the Go side is an object graph with identities
(structs with scalar fields, `*struct` fields, struct-by-value fields, slices / string-keyed maps
of `*struct` and of structs) that the host keeps mutating while the script reads and writes it
through proxies (object/proxy.go `GetAttr` / `SetAttr`, object/typeconv.go `StructConverter`,
`SliceConverter`, `MapConverter`, `NewProxy`).

* `Node`, `Heap`, `Loc`     Go values with identities: object `a` is `heap[a]`, a slot is an object
                            plus a path of by-value steps inside it
* `locate` / `goRead` / `goWrite`   the **Spec**: Go's own meaning of `root.f.g[k].h` — every
                            access re-resolves the whole path on the heap as it is NOW
* `Handle`, `SObj`, `hGet`, `hSet`, `walk`   the **Impl**: the chain of proxies the script walks.
                            The unchanged code keeps no state in a proxy but the Go pointer it
                            wraps and re-reads the field on every `GetAttr`
* `HOp`, `specStep`, `implStep`, `runImpl`   the history machine: script reads / writes and Go-side
                            mutations interleaved, several global names for one Go object
* `cGet` …, `runCached`     CONTRAST: a proxy that caches the child proxies it handed out for
                            struct-typed fields (seeded change C08-r3m1); refuted in Props.lean

Modelled simplifications: scalars are `Int`s; a map is a sequence (the generator uses the keys
`k0`, `k1`, … so that key `k<i>` is present iff `i <` length); pointers point to heap objects
only (no interior pointers: a script assignment of a by-value struct's proxy to a pointer field is
answered `error` and never generated).  Core Lean only.
-/
namespace Risor.C08

mutual
/-- a Go value inside the object graph -/
inductive Node
  | int (i : Int)              -- a scalar field
  | ref (a : Option Nat)       -- a `*struct`: nil or the address of a heap object
  | struct (fs : Nodes)        -- a struct held BY VALUE (and the body of every heap object)
  | seq (xs : Nodes)           -- a slice or a string-keyed map, entries in index / key order
  deriving DecidableEq, Repr
inductive Nodes
  | nil | cons (n : Node) (rest : Nodes)
  deriving DecidableEq, Repr
end

def Nodes.get? : Nodes → Nat → Option Node
  | .nil, _ => none
  | .cons n _, 0 => some n
  | .cons _ r, i + 1 => r.get? i

def Nodes.set : Nodes → Nat → Node → Nodes
  | .nil, _, _ => .nil
  | .cons _ r, 0, v => .cons v r
  | .cons n r, i + 1, v => .cons n (r.set i v)

def Nodes.length : Nodes → Nat
  | .nil => 0
  | .cons _ r => r.length + 1

def Nodes.ofList : List Node → Nodes
  | [] => .nil
  | n :: r => .cons n (Nodes.ofList r)

/-- object `a` is `heap[a]`; objects are never freed, `goNew` / `scriptNew` append -/
abbrev Heap := List Node

def child : Node → Nat → Option Node
  | .struct fs, i => fs.get? i
  | .seq xs, i => xs.get? i
  | _, _ => none

/-- descend by-value steps inside one object -/
def nodeAt : Node → List Nat → Option Node
  | n, [] => some n
  | n, i :: q => (child n i).bind fun c => nodeAt c q

def setChild : Node → Nat → Node → Option Node
  | .struct fs, i, v => if i < fs.length then some (.struct (fs.set i v)) else none
  | .seq xs, i, v => if i < xs.length then some (.seq (xs.set i v)) else none
  | _, _, _ => none

def nodeSet : Node → List Nat → Node → Option Node
  | _, [], v => some v
  | n, i :: q, v => (child n i).bind fun c => (nodeSet c q v).bind fun c' => setChild n i c'

/-- a slot: object `a`, then the by-value path `q` inside it -/
structure Loc where
  a : Nat
  q : List Nat
  deriving Repr

def slotAt (h : Heap) (l : Loc) : Option Node := h[l.a]?.bind fun o => nodeAt o l.q

def setSlot (h : Heap) (l : Loc) (v : Node) : Option Heap :=
  h[l.a]?.bind fun o => (nodeSet o l.q v).map fun o' => h.set l.a o'

/-! ### Spec: Go's meaning of a path -/

/-- Go's `x.f` / `x[k]` where `x` lives in slot `l`: a pointer is followed into the object it
    points to NOW, a struct / slice / map held by value is entered in place -/
def stepLoc (h : Heap) (l : Loc) (i : Nat) : Option Loc :=
  match slotAt h l with
  | some (.ref (some b)) => some ⟨b, [i]⟩
  | some (.struct _) => some ⟨l.a, l.q ++ [i]⟩
  | some (.seq _) => some ⟨l.a, l.q ++ [i]⟩
  | _ => none

def locate (h : Heap) : Loc → List Nat → Option Loc
  | l, [] => some l
  | l, i :: p => (stepLoc h l i).bind fun l' => locate h l' p

/-- what Go holds at `root.p` NOW (`root` = the object at address `a`; the empty path is the
    pointer to it) -/
def goRead (h : Heap) (a : Nat) : List Nat → Option Node
  | [] => some (.ref (some a))
  | i :: p => (locate h ⟨a, []⟩ (i :: p)).bind fun l => slotAt h l

/-- Go's static types: a slot keeps its kind -/
def compat : Node → Node → Bool
  | .int _, .int _ => true
  | .ref _, .ref _ => true
  | .struct _, .struct _ => true
  | .seq _, .seq _ => true
  | _, _ => false

/-- Go's `root.p = v` -/
def goWrite (h : Heap) (a : Nat) (p : List Nat) (v : Node) : Option Heap :=
  match p with
  | [] => none
  | i :: p => (locate h ⟨a, []⟩ (i :: p)).bind fun l =>
    match slotAt h l with
    | some old => if compat old v then setSlot h l v else none
    | none => none

/-- what a read is compared by: a scalar's value, a pointer's identity -/
inductive View
  | int (i : Int) | ptr (a : Option Nat) | agg
  deriving DecidableEq, Repr

def view : Node → View
  | .int i => .int i
  | .ref a => .ptr a
  | _ => .agg

/-! ### Impl: proxies -/

/-- what a proxy wraps -/
inductive Handle
  | at (a : Nat) (q : List Nat)   -- a Go pointer: to object `a` (`q = []`) or to the by-value struct at `q` inside it (`value.Addr()`)
  | nilp                          -- a nil `*struct`
  | copy (n : Node)               -- a pointer to a private COPY of a struct value (`NewProxy` of a struct value: slice / map elements)
  deriving Repr

/-- what the script holds -/
inductive SObj
  | int (i : Int)
  | px (hd : Handle)
  | list (xs : Nodes)         -- a list / map made by `SliceConverter.From` / `MapConverter.From`: a snapshot, elements converted on indexing
  deriving Repr

/-- `conv.From(value)` for the field `c` found at by-value path `q` of object `a` (addressable) -/
def fromField (a : Nat) (q : List Nat) : Node → SObj
  | .int i => .int i
  | .ref (some b) => .px (.at b [])
  | .ref none => .px .nilp
  | .struct _ => .px (.at a q)
  | .seq xs => .list xs

/-- the same for an element of a converted slice / map and for a field of a private copy:
    a struct value is copied (`NewProxy`: "create a pointer to a copy of the struct") -/
def fromElem : Node → SObj
  | .int i => .int i
  | .ref (some b) => .px (.at b [])
  | .ref none => .px .nilp
  | .struct fs => .px (.copy (.struct fs))
  | .seq xs => .list xs

/-- `Proxy.GetAttr` / list index / map index on the heap as it is NOW -/
def hGet (h : Heap) : SObj → Nat → Outcome SObj
  | .px (.at a q), i => match slotAt h ⟨a, q⟩ with
    | some (.struct fs) => match fs.get? i with
      | some c => .ok (fromField a (q ++ [i]) c)
      | none => .error
    | _ => .error
  | .px .nilp, _ => .panic            -- reflect: FieldByName on the zero Value
  | .px (.copy (.struct fs)), i => match fs.get? i with
    | some c => .ok (fromElem c)
    | none => .error
  | .px (.copy _), _ => .error
  | .list xs, k => match xs.get? k with
    | some c => .ok (fromElem c)
    | none => .error                  -- index error / key error
  | .int _, _ => .error

def walk (h : Heap) : SObj → List Nat → Outcome SObj
  | o, [] => .ok o
  | o, i :: p => (hGet h o i).bind fun o' => walk h o' p

def sview : SObj → View
  | .int i => .int i
  | .px (.at b []) => .ptr (some b)
  | .px .nilp => .ptr none
  | _ => .agg

/-- the script evaluates `root.p` (root: a global whose proxy wraps the pointer to object `a`) -/
def implRead (h : Heap) (a : Nat) (p : List Nat) : Outcome SObj := walk h (.px (.at a [])) p

/-- `conv.To` + `field.Set` outcome by kinds: a struct-typed field takes the `*S` converter, so
    `Set` panics (C08-struct-field-set-panics) -/
def setKind : Node → Node → Outcome Unit
  | .int _, .int _ => .ok ()
  | .ref _, .ref _ => .ok ()
  | .struct _, .ref _ => .panic
  | _, _ => .error

/-- `Proxy.SetAttr(field i, v)` -/
def hSet (h : Heap) : SObj → Nat → Node → Outcome Heap
  | .px (.at a q), i, v => match slotAt h ⟨a, q⟩ with
    | some (.struct fs) => match fs.get? i with
      | some old => match setKind old v with
        | .ok _ => (match setSlot h ⟨a, q ++ [i]⟩ v with
          | some h' => .ok h'
          | none => .error)
        | .error => .error
        | .panic => .panic
      | none => .error
    | _ => .error
  | .px .nilp, _, _ => .panic
  | .px (.copy (.struct fs)), i, v => match fs.get? i with
    | some old => match setKind old v with
      | .ok _ => .ok h                -- accepted: the write lands in the private copy
      | .error => .error
      | .panic => .panic
    | none => .error
  | _, _, _ => .error                 -- lists, maps, ints have no attributes to set

/-- the script executes `root.p = v`: `GetAttr` along the path, `SetAttr` at the end -/
def walkSet (h : Heap) : SObj → List Nat → Node → Outcome Heap
  | _, [], _ => .error
  | o, [i], v => hSet h o i v
  | o, i :: j :: p, v => (hGet h o i).bind fun o' => walkSet h o' (j :: p) v

def implWrite (h : Heap) (a : Nat) (p : List Nat) (v : Node) : Outcome Heap :=
  walkSet h (.px (.at a [])) p v

/-- `StructConverter.To(proxy)`: the pointer the proxy wraps -/
def handleRef : SObj → Outcome Node
  | .px (.at b []) => .ok (.ref (some b))
  | .px .nilp => .ok (.ref none)
  | _ => .error

/-! ### Histories -/

/-- one step of a history.  `r` is a global NAME: `roots[r]` is the address its proxy wraps
    (several names may stand for one object). -/
inductive HOp
  | scriptGet (r : Nat) (p : List Nat)                                -- x := g_r.p
  | scriptSet (r : Nat) (p : List Nat) (i : Int)                      -- g_r.p = i
  | scriptLink (r : Nat) (p : List Nat) (r' : Nat) (p' : List Nat)    -- g_r.p = g_r'.p'   (a pointer)
  | scriptNew (r : Nat) (p : List Nat) (body : Node)                  -- g_r.p = {X: …}    (a fresh struct)
  | goSet (r : Nat) (p : List Nat) (i : Int)                          -- Go: root.p = i
  | goRepoint (r : Nat) (p : List Nat) (t : Option Nat)               -- Go: root.p = &object t / nil
  | goReplace (r : Nat) (p : List Nat) (v : Node)                     -- Go: root.p = a new slice / map / struct value
  | goNew (body : Node)                                               -- Go: allocate an object
  deriving Repr

inductive Res
  | val (v : View) | done | error | panic
  deriving DecidableEq, Repr

def ofWrite (h : Heap) : Option Heap → Heap × Res
  | some h' => (h', .done)
  | none => (h, .error)

/-- the reference machine: every access resolves its path on the current heap -/
def specStep (roots : List Nat) (h : Heap) : HOp → Heap × Res
  | .goNew body => (h ++ [body], .done)
  | .scriptGet r p => match roots[r]? with
    | some a => (match goRead h a p with
      | some n => (h, .val (view n))
      | none => (h, .error))
    | none => (h, .error)
  | .scriptSet r p i => match roots[r]? with
    | some a => ofWrite h (goWrite h a p (.int i))
    | none => (h, .error)
  | .goSet r p i => match roots[r]? with
    | some a => ofWrite h (goWrite h a p (.int i))
    | none => (h, .error)
  | .goRepoint r p t => match roots[r]? with
    | some a => ofWrite h (goWrite h a p (.ref t))
    | none => (h, .error)
  | .goReplace r p v => match roots[r]? with
    | some a => ofWrite h (goWrite h a p v)
    | none => (h, .error)
  | .scriptNew r p body => match roots[r]? with
    | some a => ofWrite h (goWrite (h ++ [body]) a p (.ref (some h.length)))
    | none => (h, .error)
  | .scriptLink r p r' p' => match roots[r]?, roots[r']? with
    | some a, some a' => (match goRead h a' p' with
      | some (.ref t) => ofWrite h (goWrite h a p (.ref t))
      | _ => (h, .error))
    | _, _ => (h, .error)

def ofOutcome (h : Heap) : Outcome Heap → Heap × Res
  | .ok h' => (h', .done)
  | .error => (h, .error)
  | .panic => (h, .panic)

/-- the machine of the unchanged code: the script's steps walk proxies, Go's steps are Go's -/
def implStep (roots : List Nat) (h : Heap) : HOp → Heap × Res
  | .scriptGet r p => match roots[r]? with
    | some a => (match implRead h a p with
      | .ok o => (h, .val (sview o))
      | .error => (h, .error)
      | .panic => (h, .panic))
    | none => (h, .error)
  | .scriptSet r p i => match roots[r]? with
    | some a => ofOutcome h (implWrite h a p (.int i))
    | none => (h, .error)
  | .scriptNew r p body => match roots[r]? with
    | some a => (match implWrite (h ++ [body]) a p (.ref (some h.length)) with
      | .ok h' => if h' = h ++ [body] then (h, .done)   -- stored into a private copy: the new struct is garbage
        else (h', .done)
      | .error => (h, .error)
      | .panic => (h, .panic))
    | none => (h, .error)
  | .scriptLink r p r' p' => match roots[r]?, roots[r']? with
    | some a, some a' => (match (implRead h a' p').bind handleRef with
      | .ok v => ofOutcome h (implWrite h a p v)
      | .error => (h, .error)
      | .panic => (h, .panic))
    | _, _ => (h, .error)
  | op => specStep roots h op

def runImpl (roots : List Nat) : Heap → List HOp → Heap × List Res
  | h, [] => (h, [])
  | h, op :: ops =>
    let (h', r) := implStep roots h op
    let (h'', rs) := runImpl roots h' ops
    (h'', r :: rs)

/-- the heap after every step (what the harness compares with the Go side) -/
def traceImpl (roots : List Nat) : Heap → List HOp → List (Heap × Res)
  | _, [] => []
  | h, op :: ops =>
    let s := implStep roots h op
    s :: traceImpl roots s.1 ops

/-! ### guards -/

/-- a proper prefix of the path ends in a nil pointer (Go itself would panic on `x.f`):
    the proxy of a nil pointer panics in `reflect` instead of rejecting (C08-proxy-type-unchecked) -/
def nilOnPath (h : Heap) : Loc → List Nat → Bool
  | _, [] => false
  | l, i :: p => (match slotAt h l with
      | some (.ref none) => true
      | _ => false) || (match stepLoc h l i with
      | some l' => nilOnPath h l' p
      | none => false)

/-- the path enters a struct held by value inside a slice / map: the script gets a proxy of a
    private copy, a write through it is accepted and lost -/
def copyStep (h : Heap) (l l' : Loc) : Bool :=
  match slotAt h l, slotAt h l' with
  | some (.seq _), some (.struct _) => true
  | _, _ => false

def copyOnPath (h : Heap) : Loc → List Nat → Bool
  | _, [] => false
  | l, i :: p => match stepLoc h l i with
    | some l' => copyStep h l l' || copyOnPath h l' p
    | none => false

/-- the guard of one step on heap `h`: a script read / scalar write whose path runs through a nil
    pointer (C08-proxy-type-unchecked) or, for a write, through a by-value element of a slice /
    map (C08-slice-element-write-lost) -/
def stepGuard (roots : List Nat) (h : Heap) : HOp → Bool
  | .scriptGet r p => match roots[r]? with
    | some a => nilOnPath h ⟨a, []⟩ p
    | none => false
  | .scriptSet r p _ => match roots[r]? with
    | some a => nilOnPath h ⟨a, []⟩ p || copyOnPath h ⟨a, []⟩ p
    | none => false
  | _ => false

/-- the operations `C08_partial_history` covers: reads, scalar writes and every Go-side step
    (pointer stores from the script are covered by `write_is_go_write` and the correspondence) -/
def basicOp : HOp → Bool
  | .scriptLink .. | .scriptNew .. => false
  | _ => true

def isScriptOp : HOp → Bool
  | .scriptGet .. | .scriptSet .. | .scriptLink .. | .scriptNew .. => true
  | _ => false

/-! ### Spec as a judge of results (evaluated on the real code's results too) -/

def heapEq (h h' : Heap) : Bool := decide (h = h')

/-- is `(h', res)` an acceptable answer to `op` on heap `h`?  A script step may be REJECTED (an
    error, the heap untouched) but never panic, never answer with anything but what Go holds now,
    and an accepted write must be exactly Go's write.  Go's own steps are the reference. -/
def stepOK (roots : List Nat) (h : Heap) (op : HOp) (out : Heap × Res) : Bool :=
  let ref := specStep roots h op
  if isScriptOp op then
    match out.2 with
    | .panic => false
    | .error => heapEq out.1 h
    | r => decide (r = ref.2) && heapEq out.1 ref.1
  else decide (out.2 = ref.2) && heapEq out.1 ref.1

/-- the judge over a whole trace: every step against the heap reported for the step before -/
def histOK (roots : List Nat) : Heap → List HOp → List (Heap × Res) → Bool
  | _, [], [] => true
  | h, op :: ops, out :: outs => stepOK roots h op out && histOK roots out.1 ops outs
  | _, _, _ => false

/-- no step of the history, executed by the unchanged code, falls under a guard -/
def histGuarded (roots : List Nat) : Heap → List HOp → Bool
  | _, [] => true
  | h, op :: ops => basicOp op && !stepGuard roots h op && histGuarded roots (implStep roots h op).1 ops

/-- index of the first step the judge refuses -/
def firstRefused (roots : List Nat) : Heap → List HOp → List (Heap × Res) → Nat → Option Nat
  | h, op :: ops, out :: outs, k =>
    if stepOK roots h op out then firstRefused roots out.1 ops outs (k + 1) else some k
  | _, [], [], _ => none
  | _, _, _, k => some k

/-! ### CONTRAST: a proxy that caches its struct-typed children (seeded change C08-r3m1)

A proxy OBJECT that persists is named by the global it was reached from and the fields walked:
`(r, fields)`.  Proxies made for list / map elements are fresh on every evaluation (no key). -/

abbrev CKey := Nat × List Nat

structure CSt where
  heap : Heap
  cache : List (CKey × Handle)

def cacheFind (c : List (CKey × Handle)) (k : CKey) : Option Handle :=
  match c.find? (fun e => e.1.1 == k.1 && e.1.2 == k.2) with
  | some e => some e.2
  | none => none

def isStructTyped : Node → Bool
  | .ref _ => true
  | .struct _ => true
  | _ => false

/-- the node of field `i` as the proxy sees it -/
def fieldNode (h : Heap) : SObj → Nat → Option Node
  | .px (.at a q), i => (slotAt h ⟨a, q⟩).bind fun s => child s i
  | .px (.copy n), i => child n i
  | _, _ => none

/-- `GetAttr` with the per-proxy cache: for a struct-typed field return the child proxy handed
    out before, else compute it and remember it -/
def cGet (s : CSt) (key : Option CKey) (o : SObj) (i : Nat) : Outcome (SObj × Option CKey) × List (CKey × Handle) :=
  match key, fieldNode s.heap o i with
  | some k, some c =>
    if isStructTyped c then
      let k' : CKey := (k.1, k.2 ++ [i])
      match cacheFind s.cache k' with
      | some hd => (.ok (.px hd, some k'), s.cache)
      | none => match hGet s.heap o i with
        | .ok (.px hd) => (.ok (.px hd, some k'), (k', hd) :: s.cache)
        | .ok o' => (.ok (o', none), s.cache)
        | .error => (.error, s.cache)
        | .panic => (.panic, s.cache)
    else ((hGet s.heap o i).map fun o' => (o', none), s.cache)
  | _, _ => ((hGet s.heap o i).map fun o' => (o', none), s.cache)

def cWalk (s : CSt) : Option CKey → SObj → List Nat → Outcome SObj × List (CKey × Handle)
  | _, o, [] => (.ok o, s.cache)
  | key, o, i :: p => match cGet s key o i with
    | (.ok (o', key'), c) => cWalk ⟨s.heap, c⟩ key' o' p
    | (.error, c) => (.error, c)
    | (.panic, c) => (.panic, c)

/-- the cached machine reads `g_r.p` -/
def cRead (roots : List Nat) (s : CSt) (r : Nat) (p : List Nat) : CSt × Res :=
  match roots[r]? with
  | some a => match cWalk s (some (r, [])) (.px (.at a [])) p with
    | (.ok o, c) => (⟨s.heap, c⟩, .val (sview o))
    | (.error, c) => (⟨s.heap, c⟩, .error)
    | (.panic, c) => (⟨s.heap, c⟩, .panic)
  | none => (s, .error)

/-- `SetAttr` through the proxy named `k` drops the child remembered for field `i` (and with the
    child object everything it remembered) -/
def cacheDrop (c : List (CKey × Handle)) (k : CKey) : List (CKey × Handle) :=
  c.filter fun e => !(e.1.1 == k.1 && k.2.isPrefixOf e.1.2)

/-- walk to the parent with the cache, then `SetAttr` -/
def cWalkSet (s : CSt) : Option CKey → SObj → List Nat → Node → Outcome Heap × List (CKey × Handle)
  | _, _, [], _ => (.error, s.cache)
  | key, o, [i], v =>
    (hSet s.heap o i v, match key with
      | some k => cacheDrop s.cache (k.1, k.2 ++ [i])
      | none => s.cache)
  | key, o, i :: j :: p, v => match cGet s key o i with
    | (.ok (o', key'), c) => cWalkSet ⟨s.heap, c⟩ key' o' (j :: p) v
    | (.error, c) => (.error, c)
    | (.panic, c) => (.panic, c)

def cStep (roots : List Nat) (s : CSt) : HOp → CSt × Res
  | .scriptGet r p => cRead roots s r p
  | .scriptSet r p i => match roots[r]? with
    | some a => match cWalkSet s (some (r, [])) (.px (.at a [])) p (.int i) with
      | (.ok h', c) => (⟨h', c⟩, .done)
      | (.error, c) => (⟨s.heap, c⟩, .error)
      | (.panic, c) => (⟨s.heap, c⟩, .panic)
    | none => (s, .error)
  | op =>   -- Go's steps never touch a proxy; scriptLink / scriptNew are not needed for the contrast
    let (h', r) := specStep roots s.heap op
    (⟨h', s.cache⟩, r)

def runCached (roots : List Nat) : CSt → List HOp → CSt × List Res
  | s, [] => (s, [])
  | s, op :: ops =>
    let (s', r) := cStep roots s op
    let (s'', rs) := runCached roots s' ops
    (s'', r :: rs)

end Risor.C08
