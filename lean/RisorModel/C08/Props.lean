import RisorModel.C08.Lemmas
/-!
C08 — property theorems: Go values cross the host/script boundary faithfully or are rejected
cleanly.  Everything is for ALL Go types of the universe `GoTy` (any nesting depth), all values,
both converter entry points and every float semantics `F`.

The unchanged code violates the property in several ways; for each the full statement is kept as
a `def … : Prop`, refuted by a concrete witness, and the strongest true part is proved under a
decidable guard (`clean`, `setGuards`, `callGuards`, all lists of named findings).

Seven of the recorded defects were repaired in risor since (uint64 ≥ 2⁶³ wrapping negative, the
untyped nil global, `risor.Eval` panicking on a global without a converter, surplus method
arguments, integers that do not fit the target integer type, lists longer than the array,
declared types of a basic kind such as time.Duration).  For
each the model follows the repaired code, its disjunct is gone from the guards (the partial
theorems are stronger), the counterexample is replaced by the positive statement
(`C08_uint_from_exact`, `C08_nil_global`, `C08_global_error_is_error`, `C08_surplus_rejected`,
`C08_int_write_exact`, `C08_array_longer_rejected`, `C08_named_scalar_unguarded`), and what the code did before is kept as a
`preFix…` definition with a checked `C08_fixed_…` statement.
-/
namespace Risor.C08

/-- trivial float operations, used only to evaluate closed witnesses -/
def F0 : FOps := ⟨id, id, fun _ => 0, fun _ => 0, fun _ => 0, fun _ => none⟩

/-! ## 1. Go → script → Go -/

/-- **Full statement, crossing a value.**  For every Go type and every value of it, through
    either converter entry point: `From` does not panic; if it is not an error, the object it
    gives represents the value (`repr`: contents equal) and handing that object back to Go
    (`To` + assignment into a slot of the same type) neither panics nor errs and yields a value
    with the same representation, the identical value when no `interface{}` is involved. -/
def C08_full_roundtrip : Prop :=
  ∀ (F : FOps) (m : Mode) (ty : GoTy) (v : GoVal), hasTy ty v = true →
    specRoundTrip F ty v (implRoundTrip F m ty v) = true

/-- **Repaired (C08-named-type-panic, declared types of a basic kind).**  A declared type whose
    underlying type is a basic type — `time.Duration`, `type MyInt int`, `type Name string`, at any
    nesting of declarations — carries no type-level guard any more: it crosses like its basic type
    (`C08_partial_roundtrip`, `C08_partial_write`, … apply to it). -/
theorem C08_named_scalar_unguarded : ∀ (ty : GoTy), isScalarKind ty = true → tyGuards ty = []
  | .named id u, h => by
    have hu : isScalarKind u = true := by simpa [isScalarKind, under] using h
    have ih := C08_named_scalar_unguarded u hu
    obtain ⟨h1, h2⟩ := tyGuards_nil u ih
    simp [tyGuards, namedBad, ptrIfaceBad, hu, h1, h2]
  | .bool, _ | .int _, _ | .uint _, _ | .f32, _ | .f64, _ | .str, _ => by
    simp [tyGuards, namedBad, ptrIfaceBad]
  | .time, h | .iface, h | .chan, h | .ptr _, h | .slice _, h | .array _ _, h | .mapStr _, h
  | .struct _, h => by simp [isScalarKind, under] at h

/-- `WithGlobal("x", time.Second)`: the script sees 1000000000, and handing it back gives Go a
    `time.Duration` of that value — for every float semantics. -/
theorem C08_named_duration (F : FOps) :
    fromGlobal F (some (.named 1 (.int .w64), .int 1000000000)) = .ok (.int 1000000000) ∧
    implRoundTrip F .create (.named 1 (.int .w64)) (.int 1000000000)
      = .ok (.int 1000000000, .ok (.int 1000000000)) := ⟨rfl, rfl⟩

/-- historical: before the repair the kind converter was handed the `time.Duration` itself and its
    `obj.(int64)` panicked; and `To` returned an `int64`, which reflect refuses to store in a
    `time.Duration` slot -/
theorem C08_fixed_named_duration_panicked (F : FOps) :
    preFixFromLeafScalar F (.named 1 (.int .w64)) (.int 1000000000) = .panic ∧
    (preFixNamedTo F (.named 1 (.int .w64)) (.int 3)).bind (assignField (.named 1 (.int .w64))) = .panic :=
  ⟨rfl, rfl⟩

/-- what is left of that finding: a pointer to a declared slice type never converts back (`To`
    allocates a `*[]int`, which is not a `*IDs`) -/
theorem C08_counterexample_declared_container (F : FOps) :
    implRoundTrip F .create (.ptr (.named 10 (.slice (.int .w0)))) (.ptr (.seq (.cons (.int 1) .nil)))
      = .ok (.list (.cons (.int 1) .nil), .panic) := rfl

/-- **Repaired (C08-uint64-wraps-negative).**  An unsigned value crosses as the integer it is, or
    is rejected: for every width, both entry points and every well-typed value, `From` gives the
    script exactly `i` when `i < 2⁶³` (a byte object for `byte` through `createTypeConverter`) and
    an error otherwise — never a different number. -/
theorem C08_uint_from_exact (F : FOps) (m : Mode) (w : W) (i : Int)
    (ht : hasTy (.uint w) (.int i) = true) :
    fromGo F m (.uint w) (.int i) =
      if m = .create ∧ w = .w8 then .ok (.byte i.toNat)
      else if i ≥ two63 then .error else .ok (.int i) := by
  by_cases hb : m = .create ∧ w = .w8
  · obtain ⟨rfl, rfl⟩ := hb
    simp [fromGo, convOK, fromLeaf, sel, byteFrom]
  · have hsel : sel m (.uint w) = .scalar := by
      unfold sel
      simp [getSel, isScalarKind, under]
      exact fun h1 h2 => hb ⟨h1, h2⟩
    simp [fromGo, convOK, fromLeaf, hsel, under, scalarFrom, hb]

/-- `uint64(1) << 63` is now rejected -/
theorem C08_uint64_top_bit_rejected (F : FOps) :
    fromGo F .create (.uint .w64) (.int 9223372036854775808) = .error := rfl

/-- historical: before the repair `From` did `int64(v)`, and `uint64(1) << 63` reached the script
    as −9223372036854775808 -/
theorem C08_fixed_uint64_wrapped (F : FOps) :
    preFixScalarFrom F (.uint .w64) (.int 9223372036854775808) = .ok (.int (-9223372036854775808)) := rfl

/-- `[]*int{nil}`: the script sees `[nil]`, and handing that list back panics -/
theorem C08_counterexample_nil_element (F : FOps) :
    implRoundTrip F .create (.slice (.ptr (.int .w0))) (.seq (.cons .nilv .nil))
      = .ok (.list (.cons .nil .nil), .panic) := rfl

/-- `map[string]any{"a": nil}` comes back as the empty map -/
theorem C08_counterexample_nil_map_entry (F : FOps) :
    implRoundTrip F .create (.mapStr .iface) (.map [[97]] (.cons .nilv .nil))
      = .ok (.map [[97]] (.cons .nil .nil), .ok (.map [] .nil)) := rfl

/-- a non-nil `**int` pointing to a nil `*int` becomes `nil` -/
theorem C08_counterexample_nil_collapse (F : FOps) :
    implRoundTrip F .create (.ptr (.ptr (.int .w0))) (.ptr .nilv) = .ok (.nil, .ok .nilv) := rfl

/-- a `*interface{}` never converts back: `To` allocates a `*int64` -/
theorem C08_counterexample_ptr_iface (F : FOps) :
    implRoundTrip F .create (.ptr .iface) (.ptr (.iface (.int .w64) (.int 5)))
      = .ok (.int 5, .panic) := rfl

/-- **Repaired (C08-nil-global-panic).**  `WithGlobal("x", nil)` gives the script `nil`. -/
theorem C08_nil_global (F : FOps) : fromGlobal F none = .ok .nil ∧ evalGlobal F none = .ok .nil :=
  ⟨rfl, rfl⟩

/-- **Repaired (C08-global-error-panics).**  `risor.Eval` with a global reports exactly what the
    conversion of that global reports — in particular a global without a converter is an error
    of `Eval`, not a panic. -/
theorem C08_global_error_is_error (F : FOps) (g : Option (GoTy × GoVal)) :
    evalGlobal F g = fromGlobal F g ∧ (fromGlobal F g = .error → evalGlobal F g = .error) :=
  ⟨rfl, fun h => h⟩
theorem C08_chan_global_rejected (F : FOps) : evalGlobal F (some (.chan, .nilv)) = .error := rfl

/-- historical: before the repairs `AsObjects` dereferenced the nil type of an untyped nil, and
    `vm.Run` built its VM with `vm.New`, which panics on the error of `applyOptions` -/
theorem C08_fixed_nil_global_panicked (F : FOps) : preFixFromGlobal F none = .panic := rfl
theorem C08_fixed_global_error_panicked (F : FOps) :
    preFixFromGlobal F (some (.chan, .nilv)) = .error ∧ preFixEvalGlobal F (some (.chan, .nilv)) = .panic :=
  ⟨rfl, rfl⟩

/-- the unchanged code violates the full statement -/
theorem C08_counterexample_roundtrip : ¬ C08_full_roundtrip := by
  intro h
  have := h F0 .create (.slice (.ptr (.int .w0))) (.seq (.cons .nilv .nil)) (by decide)
  revert this
  decide

/-- **Partial statement (round trip).**  Under the guard `clean` — no declared container type
    (declared types of a basic kind and declared struct types are fine),
    no pointer to an interface type, no nil pointer / nil interface as a
    container element, no non-nil pointer to a nil pointer / interface — the full statement holds,
    for all types of any depth, all values, both entry points, and every float semantics in which
    widening a float32 and narrowing it again is the identity. -/
theorem C08_partial_roundtrip (F : FOps) (hF : ∀ b, F.narrow (F.widen b) = b)
    (m : Mode) (ty : GoTy) (v : GoVal) (ht : hasTy ty v = true) (hclean : clean m ty v = true) :
    specRoundTrip F ty v (implRoundTrip F m ty v) = true := by
  by_cases hc : convOK ty = true
  · have hcg : crossGuards m ty v = [] := by
      unfold clean at hclean
      cases h : crossGuards m ty v with
      | nil => rfl
      | cons a b => rw [h] at hclean; cases hclean
    unfold crossGuards at hcg
    obtain ⟨hg, hv⟩ := append_nil' hcg
    rcases good_val F hF v m ty hc ht hg hv with he | ⟨o, h1, _, h2, h3⟩
    · simp [implRoundTrip, he, Outcome.map, specRoundTrip]
    · rcases h3 with ⟨rfl, h4, rfl⟩ | ⟨_, d, x, h4, h5, h6, h7⟩
      · have hz : zero ty = .nilv := by
          rw [zero_under]
          unfold hasTy at ht
          split at ht <;> simp_all [zero]
        simp [implRoundTrip, h1, Outcome.map, specRoundTrip, toSlot, h4, Outcome.bind, assignField, hz, h2]
      · simp only [implRoundTrip, h1, Outcome.map, specRoundTrip, toSlot, h4, Outcome.bind, assignField,
          assignable_of ty d h5, if_true, h2, h6, Bool.true_and]
        cases hm : mentionsIface ty with
        | true => simp
        | false => simp [h7 hm]
  · have hc' : convOK ty = false := by simpa using hc
    have : fromGo F m ty v = .error := by unfold fromGo; simp [hc']
    simp [implRoundTrip, this, Outcome.map, specRoundTrip]

/-- In particular conversion never panics under the guard, in either direction of the round trip. -/
theorem C08_partial_no_panic (F : FOps) (hF : ∀ b, F.narrow (F.widen b) = b)
    (m : Mode) (ty : GoTy) (v : GoVal) (ht : hasTy ty v = true) (hclean : clean m ty v = true) :
    fromGo F m ty v ≠ .panic ∧ ∀ o, fromGo F m ty v = .ok o → toSlot F m ty o ≠ .panic := by
  have h := C08_partial_roundtrip F hF m ty v ht hclean
  unfold implRoundTrip at h
  constructor
  · intro hp; simp [hp, Outcome.map, specRoundTrip] at h
  · intro o ho hp; simp [ho, Outcome.map, specRoundTrip, hp] at h

/-- **Globals through `risor.Eval` (repaired: C08-nil-global-panic, C08-global-error-panics).**
    For the untyped nil, and for every well-typed value of every type under the guard `clean`:
    `risor.Eval(…, WithGlobal(name, v))` does not panic; the script sees `nil` for nil, and
    otherwise either `Eval` returns an error or the script sees an object representing `v`.  No
    guard is left for the untyped nil or for types without a converter. -/
theorem C08_partial_global (F : FOps) (hF : ∀ b, F.narrow (F.widen b) = b)
    (g : Option (GoTy × GoVal)) :
    match g with
    | none => evalGlobal F g = .ok .nil
    | some (ty, v) => hasTy ty v = true → clean .create ty v = true →
        specRead F ty v (evalGlobal F g) = true := by
  cases g with
  | none => rfl
  | some p =>
    obtain ⟨ty, v⟩ := p
    intro ht hcl
    have h := C08_partial_roundtrip F hF .create ty v ht hcl
    unfold implRoundTrip at h
    show specRead F ty v (fromGo F .create ty v) = true
    cases hfg : fromGo F .create ty v with
    | error => rfl
    | panic => simp [hfg, Outcome.map, specRoundTrip] at h
    | ok o' =>
      simp only [hfg, Outcome.map, specRoundTrip, Bool.and_eq_true] at h
      simpa [specRead] using h.1

/-! ### Non-vacuity -/

-- a depth-3 type with a declared struct, a pointer, a map and a slice, and a value of it
example : clean .create
    (.mapStr (.slice (.ptr (.named 13 (.struct (.cons (.int .w0) (.cons .str .nil)))))))
    (.map [[97]] (.cons (.seq (.cons (.ptr (.struct (.cons (.int 7) (.cons (.str [104]) .nil)))) (.cons .nilv .nil))) .nil))
    = true := by decide
example : hasTy
    (.mapStr (.slice (.ptr (.named 13 (.struct (.cons (.int .w0) (.cons .str .nil)))))))
    (.map [[97]] (.cons (.seq (.cons (.ptr (.struct (.cons (.int 7) (.cons (.str [104]) .nil)))) (.cons .nilv .nil))) .nil))
    = true := by decide
example : clean .get (.array 2 (.uint .w8)) (.seq (.cons (.int 255) (.cons (.int 0) .nil))) = true := by decide
example : clean .create (.slice .iface) (.seq (.cons (.iface (.int .w32) (.int (-5))) .nil)) = true := by decide
-- the guard is violated by the witnesses
-- a declared type of a basic kind is no longer excluded; a declared slice type is
example : clean .create (.named 1 (.int .w64)) (.int 1) = true := by decide
example : clean .create (.ptr (.named 10 (.slice (.int .w0)))) (.ptr (.seq .nil)) = false := by decide
-- unsigned values ≥ 2⁶³ are no longer excluded: they are rejected with an error
example : clean .create (.uint .w64) (.int 9223372036854775808) = true := by decide
example : clean .create (.slice (.ptr (.int .w0))) (.seq (.cons .nilv .nil)) = false := by decide


/-! ## 2. script → Go: field writes and method arguments -/

/-- **Full statement, writing into Go.**  For every slot type and every script object: the
    conversion (`To` + assignment) never panics, and when it is accepted the Go value stored
    represents exactly the object the script passed. -/
def C08_full_write : Prop :=
  ∀ (F : FOps) (m : Mode) (ty : GoTy) (o : Obj), wfW o = true →
    specWrite F ty o (toSlot F m ty o) = true

/-- 2.7 written to an `int` slot is stored as 2 (a float object is still converted with a plain Go
    conversion; here for the float semantics `F0'` in which `trunc` of that float is 2) -/
theorem C08_counterexample_narrowing :
    toSlot ⟨id, id, fun _ => 0, fun _ => 0, fun _ => 2, fun _ => none⟩ .get (.int .w0) (.float 4613262278296967578)
      = .ok (.int 2) := rfl

/-- **Repaired (C08-lossy-narrowing, the integer part).**  An integer object written into an
    integer slot of any width, through either entry point, for every float semantics: Go holds
    exactly that integer when the type can represent it, and the write is rejected with an error
    otherwise — never a wrapped value. -/
theorem C08_int_write_exact (F : FOps) (m : Mode) (w : W) (i : Int) :
    toSlot F m (.int w) (.int i) = (if inRangeS w.bits i then .ok (.int i) else .error) ∧
    toSlot F m (.uint w) (.int i) = (if inRangeU w.bits i then .ok (.int i) else .error) := by
  constructor
  · cases hr : inRangeS w.bits i <;> cases m <;>
      simp [toSlot, toGo, convOK, peel, liftPtr, baseMode, toBase, toLeaf, sel, getSel, isScalarKind,
        under, scalarTo, hr, Outcome.bind, assignField, assignable, store, isIfaceKind]
  · by_cases hb : m = .create ∧ w = .w8
    · obtain ⟨rfl, rfl⟩ := hb
      cases hr : inRangeU W.w8.bits i <;>
        simp [toSlot, toGo, convOK, peel, liftPtr, baseMode, toBase, toLeaf, sel,
          under, scalarTo, hr, Outcome.bind, assignField, assignable, store, isIfaceKind]
    · have hsel : sel m (.uint w) = .scalar := by
        unfold sel
        simp [getSel, isScalarKind, under]
        exact fun h1 h2 => hb ⟨h1, h2⟩
      cases hr : inRangeU w.bits i <;>
        simp [toSlot, toGo, convOK, peel, liftPtr, baseMode, toBase, toLeaf, hsel,
          under, scalarTo, hr, Outcome.bind, assignField, assignable, store, isIfaceKind]

/-- 300 into an `int8` slot and −1 into a `uint64` slot are now rejected -/
theorem C08_int_out_of_range_rejected (F : FOps) :
    toSlot F .get (.int .w8) (.int 300) = .error ∧ toSlot F .get (.uint .w64) (.int (-1)) = .error :=
  ⟨rfl, rfl⟩

/-- an integer object never falls under the narrowing guard of an integer slot any more -/
theorem C08_int_narrowing_gone (F : FOps) (m : Mode) (w : W) (i : Int) :
    writeGuards F m (.int w) (.int i) = [] ∧ writeGuards F m (.uint w) (.int i) = [] := by
  constructor
  · cases hr : inRangeS w.bits i <;> cases m <;>
      simp [writeGuards, peel, baseMode, toLeaf, sel, getSel, isScalarKind, under, scalarTo, hr, repr, numIs]
  · by_cases hb : m = .create ∧ w = .w8
    · obtain ⟨rfl, rfl⟩ := hb
      cases hr : inRangeU W.w8.bits i <;>
        simp [writeGuards, peel, baseMode, toLeaf, sel, under, scalarTo, hr, repr, numIs]
    · have hsel : sel m (.uint w) = .scalar := by
        unfold sel
        simp [getSel, isScalarKind, under]
        exact fun h1 h2 => hb ⟨h1, h2⟩
      cases hr : inRangeU w.bits i <;>
        simp [writeGuards, peel, baseMode, toLeaf, hsel, under, scalarTo, hr, repr, numIs]

/-- historical: before the repair `To` used plain Go conversions — 300 written to an `int8` slot
    was stored as 44, −1 to a `uint64` slot as 2⁶⁴−1 (for every float semantics) -/
theorem C08_fixed_int_narrowing_wrapped (F : FOps) :
    preFixScalarTo F (.int .w8) (.int 300) = .ok (some (.int .w8, .int 44)) ∧
    preFixScalarTo F (.uint .w64) (.int (-1)) = .ok (some (.uint .w64, .int 18446744073709551615)) := by
  constructor <;> rfl

/-- a one-element list written to a `[2]int` slot is zero-padded (kept: risor's own
    `TestArrayConverterInt` expects it) -/
theorem C08_counterexample_array_length (F : FOps) :
    toSlot F .get (.array 2 (.int .w0)) (.list (.cons (.int 1) .nil)) = .ok (.seq (.cons (.int 1) (.cons (.int 0) .nil))) := by
  rfl

/-- **Repaired (C08-array-length-unchecked, the panic half).**  A list with more items than the
    array has elements is rejected with an error, whatever the element type, the items, the entry
    point and the float semantics — no element is converted, nothing panics. -/
theorem C08_array_longer_rejected (F : FOps) (m : Mode) (b : GoTy) (n : Nat) (t : GoTy) (os : Objs)
    (hs : sel m b = .array n t) (hl : os.length > n) : toBase F m b (.list os) = .error := by
  simp [toBase, hs, hl]

theorem C08_array_longer_rejected_slot (F : FOps) :
    toSlot F .get (.array 2 (.int .w0)) (.list (.cons (.int 1) (.cons (.int 2) (.cons (.int 3) .nil)))) = .error := rfl

/-- historical: before the repair `ArrayConverter.To` entered its loop without comparing the
    lengths, and the loop runs into reflect's "array index out of range" on the third item -/
theorem C08_fixed_array_longer_panicked (F : FOps) :
    toArr F (.int .w0) 2 (.cons (.int 1) (.cons (.int 2) (.cons (.int 3) .nil))) = .panic := rfl

/-- a proxy of another struct type is accepted by `To` and the assignment panics -/
theorem C08_counterexample_proxy_type (F : FOps) :
    toSlot F .get (.named 13 (.struct (.cons (.int .w0) .nil)))
      (.proxy (.ptr (.named 14 (.struct .nil))) (.ptr (.struct .nil))) = .panic := rfl

theorem C08_counterexample_write : ¬ C08_full_write := by
  intro h
  have := h F0 .get (.array 2 (.int .w0)) (.list (.cons (.int 1) .nil)) (by decide)
  revert this
  decide

/-- **Partial statement (writes).**  Under the guard `writeAllGuards … = []` — no declared
    non-struct type and no pointer to an interface in the slot type; float objects exactly
    representable in the target type and integers exactly representable in a float target (an
    integer that does not fit an integer target is rejected, no guard needed); no nil element for
    pointer / interface / slice / map element types; lists not shorter than the array (a longer
    one is rejected, no guard needed); proxies of exactly the target struct type — the conversion of
    ANY script object into a slot of ANY type never panics, and when accepted Go holds exactly
    what the script passed. -/
theorem C08_partial_write (F : FOps) (m : Mode) (ty : GoTy) (o : Obj) (hw : wfW o = true)
    (hg : writeAllGuards F m ty o = []) : specWrite F ty o (toSlot F m ty o) = true := by
  rcases toSlot_good F m ty o hw hg with he | ⟨v, h1, h2⟩
  · simp [he, specWrite]
  · simp [h1, specWrite, h2]

/-! ### struct fields through a proxy -/

/-- **Full statement, field write.**  Writing any script object to any field of a proxied struct
    never panics; when accepted, that field of the Go struct holds what was written and the other
    fields are unchanged. -/
def C08_full_setattr : Prop :=
  ∀ (F : FOps) (pty : GoTy) (xs : Vals) (i : Nat) (ft : GoTy) (o : Obj),
    proxyField pty i = some ft → wfW o = true →
    match setAttr F pty (.ptr (.struct xs)) i o with
    | .panic => False
    | .error => True
    | .ok pv' => ∃ x, pv' = .ptr (.struct (xs.set i x)) ∧ repr F ft x o = true

/-- a struct-typed field cannot be written at all: assigning a proxy of exactly the field's
    struct type panics (the field's converter is the one for `*S`) -/
theorem C08_counterexample_struct_field (F : FOps) :
    setAttr F (.ptr (.struct (.cons (.named 13 (.struct (.cons (.int .w0) .nil))) .nil)))
      (.ptr (.struct (.cons (.struct (.cons (.int 0) .nil)) .nil))) 0
      (.proxy (.ptr (.named 13 (.struct (.cons (.int .w0) .nil)))) (.ptr (.struct (.cons (.int 2) .nil))))
    = .panic := rfl

theorem C08_counterexample_setattr : ¬ C08_full_setattr := by
  intro h
  -- a float object written to an `int8` field is truncated (in `F0` every float truncates to 0)
  have := h F0 (.ptr (.struct (.cons (.int .w8) .nil))) (.cons (.int 7) .nil) 0 (.int .w8) (.float 300) rfl rfl
  have hs : setAttr F0 (.ptr (.struct (.cons (.int .w8) .nil))) (.ptr (.struct (.cons (.int 7) .nil))) 0 (.float 300)
      = .ok (.ptr (.struct (.cons (.int 0) .nil))) := by decide
  rw [hs] at this
  obtain ⟨x, hx, hr⟩ := this
  simp only [Vals.set, GoVal.ptr.injEq, GoVal.struct.injEq, Vals.cons.injEq, and_true] at hx
  subst hx
  revert hr
  decide

/-- **Partial statement (field write).**  Under `setGuards … = []` (the field is not of struct
    kind, plus the write guards above) `SetAttr` never panics; when it succeeds exactly field `i`
    changes and its new Go value represents the object written. -/
theorem C08_partial_setattr (F : FOps) (pty : GoTy) (xs : Vals) (i : Nat) (ft : GoTy) (o : Obj)
    (hpf : proxyField pty i = some ft) (hw : wfW o = true) (hg : setGuards F ft o = []) :
    setAttr F pty (.ptr (.struct xs)) i o = .error ∨
    ∃ x, setAttr F pty (.ptr (.struct xs)) i o = .ok (.ptr (.struct (xs.set i x))) ∧
      repr F ft x o = true := by
  unfold setGuards at hg
  obtain ⟨hs, hgw⟩ := append_nil' hg
  have hsk : isStructKind ft = false := by
    cases h : isStructKind ft with
    | false => rfl
    | true => simp [h] at hs
  have hft : fieldConvTy ft = ft := by simp [fieldConvTy, hsk]
  rw [hft] at hgw
  unfold setAttr
  by_cases hc : convOK pty = false
  · left; simp [hc]
  · simp only [hc, if_false, hpf, hft]
    have hts := toSlot_good F .get ft o hw hgw
    unfold toSlot at hts
    cases hto : toGo F .get ft o with
    | error => left; rfl
    | panic => rw [hto] at hts; simp [Outcome.bind] at hts
    | ok r =>
      rw [hto] at hts
      simp only [Outcome.bind] at hts
      rcases hts with he | ⟨v, h1, h2⟩
      · left; simp [he]
      · right; exact ⟨v, by simp [h1], h2⟩

/-- **A field written from a script reads back as the value written.**  After a successful
    `SetAttr` of field `i`, `GetAttr` of the same field converts exactly the Go value just stored
    (nothing else intervenes); so whenever that value is one the Go → script direction handles
    (`clean`), the script reads back an object representing the value Go holds, which by
    `C08_partial_setattr` represents what was written. -/
theorem C08_partial_setattr_getattr (F : FOps) (hF : ∀ b, F.narrow (F.widen b) = b)
    (pty : GoTy) (xs : Vals) (i : Nat) (ft : GoTy) (o : Obj) (x : GoVal)
    (hpf : proxyField pty i = some ft) (hi : (xs.nth i).isSome = true)
    (hsk : isStructKind ft = false)
    (hset : setAttr F pty (.ptr (.struct xs)) i o = .ok (.ptr (.struct (xs.set i x))))
    (htx : hasTy ft x = true) (hcl : clean .get ft x = true) :
    specRead F ft x (getAttr F pty (.ptr (.struct (xs.set i x))) i) = true := by
  have hc : convOK pty = true := by
    cases h : convOK pty with
    | true => rfl
    | false => unfold setAttr at hset; simp [h] at hset
  have hft : fieldConvTy ft = ft := by simp [fieldConvTy, hsk]
  have hget : getAttr F pty (.ptr (.struct (xs.set i x))) i = fromGo F .get ft x := by
    unfold getAttr getAttrCore
    simp [hc, hpf, Vals.nth_set xs i x hi, hft, hsk]
  rw [hget]
  have h := C08_partial_roundtrip F hF .get ft x htx hcl
  unfold implRoundTrip at h
  cases hfg : fromGo F .get ft x with
  | error => rfl
  | panic => simp [hfg, Outcome.map, specRoundTrip] at h
  | ok o' =>
    simp only [hfg, Outcome.map, specRoundTrip, Bool.and_eq_true] at h
    simpa [specRead] using h.1

/-! ### method arguments -/

/-- **Full statement, method call.**  A Go method receives exactly the argument the script
    passed, or the call is rejected with an error; never a panic. -/
def C08_full_call : Prop :=
  ∀ (F : FOps) (pt : GoTy) (o : Obj), wfW o = true → specWrite F pt o (callArg F pt o) = true

/-- `h.TakeInt(nil)`: the method is called with 0 -/
theorem C08_counterexample_nil_argument (F : FOps) : callArg F (.int .w0) .nil = .ok (.int 0) := rfl

theorem C08_counterexample_call : ¬ C08_full_call := by
  intro h
  have := h F0 (.int .w0) .nil rfl
  revert this
  decide

/-- **Partial statement (method arguments).**  Under `callGuards … = []` (a nil argument only
    for a pointer / interface / slice / map parameter, plus the write guards) `Proxy.call` never
    panics while converting the argument, and the method receives exactly what the script passed. -/
theorem C08_partial_call (F : FOps) (pt : GoTy) (o : Obj) (hw : wfW o = true)
    (hg : callGuards F pt o = []) : specWrite F pt o (callArg F pt o) = true := by
  unfold callGuards at hg
  obtain ⟨hnil, hgw⟩ := append_nil' hg
  by_cases hc : convOK pt = true
  · unfold writeAllGuards at hgw
    obtain ⟨hgt, hgw'⟩ := append_nil' hgw
    have hbase := wbase F o (baseMode .get (peel pt).1) (peel pt).2 (peel_peel pt)
      (by rw [convOK_peel]; exact hc) (tyGuards_peel pt hgt) hw (by rw [writeGuards_base]; exact hgw')
    have hgood := wlift F o (peel pt).1 .get pt rfl hc hgt hbase
    by_cases ho : o = .nil
    · subst ho
      rcases hgood with he | ⟨_, _, h2, _⟩ | ⟨hne, _⟩
      · -- `To(nil)` is an error for this type, yet the call passes the zero value: excluded by nilArg
        have hnt : nilTo pt = true := by
          cases h : nilTo pt with
          | true => rfl
          | false => simp [h] at hnil
        -- nilTo: the converter accepts nil
        exfalso
        unfold toGo at he
        simp only [hc, Bool.true_eq_false, if_false] at he
        unfold nilTo at hnt
        cases hk : (peel pt).1 with
        | zero =>
          have h2 := peel_fst_zero pt hk
          rw [hk, h2] at he
          simp only [liftPtr, baseMode, if_true] at he
          have hsel : sel .get pt = sel .create pt ∨ pt = .uint .w8 := by
            unfold sel; by_cases h8 : pt = .uint .w8 <;> simp [h8]
          rcases hsel with hsel | h8
          · cases hs : sel .create pt <;> simp [hs] at hnt <;> simp [toBase, hsel, hs] at he
            -- a pointer converter at the base: only a declared pointer type, excluded by the guard
            rename_i t
            obtain ⟨hu, hst⟩ := sel_pointer_inv .create pt t hs
            have hpt := under_self pt (tyGuards_nil pt hgt).1
              (not_structKind_of_under pt _ hu (by simp [isStructKind, under]))
              (by simp [isScalarKind, hu])
            rw [hu] at hpt
            rw [← hpt, peel_ptr_other t hst] at hk
            simp at hk
          · subst h8; simp [sel] at hnt
        | succ k => rw [hk] at he; simp [liftPtr] at he
      · simp [callArg, hc, specWrite, h2]
      · exact absurd rfl hne
    · rcases hgood with he | ⟨h0, _⟩ | ⟨_, d, x, h1, h2, h3⟩
      · have : callArg F pt o = .error := by
          unfold callArg; cases o <;> simp_all
        simp [this, specWrite]
      · exact absurd h0 ho
      · have : callArg F pt o = .ok (store pt d x) := by
          unfold callArg; cases o <;> simp_all [assignable_of pt d h2]
        simp [this, specWrite, h3]
  · have hc' : convOK pt = false := by simpa using hc
    simp [callArg, hc', specWrite]

/-! ### every argument position -/

/-- **Full statement, argument list.**  For every parameter list and every argument list: the
    call never panics, and when the method is invoked it receives exactly the arguments the
    script passed — argument `i` in parameter `i`, none missing, none dropped. -/
def C08_full_call_args : Prop :=
  ∀ (F : FOps) (pts : Fields) (os : Objs), wfWs os = true →
    specArgs F pts os (callArgs F pts os) = true

/-- **Repaired (C08-surplus-arguments-dropped).**  A call with more arguments than the method has
    parameters never reaches the Go method: for parameter and argument lists of any length, any
    types and objects, `Proxy.call` does not return normally (it reports the args error — or the
    failure of an earlier argument's conversion). -/
theorem C08_surplus_rejected (F : FOps) (pts : Fields) (os : Objs) (h : pts.length < os.length)
    (vs : Vals) : callArgs F pts os ≠ .ok vs := by
  unfold callArgs
  cases hc : convArgs F pts os with
  | error => simp [Outcome.bind]
  | panic => simp [Outcome.bind]
  | ok xs =>
    simp only [Outcome.bind]
    split
    · simp
    · simp [h]

/-- `h.TakeInt(1, 2)` is an args error -/
theorem C08_surplus_argument_rejected :
    callArgs F0 (.cons (.int .w0) .nil) (.cons (.int 1) (.cons (.int 2) .nil)) = .error := by decide

/-- historical: before the repair `h.TakeInt(1, 2)` made the call with `1` and silently dropped
    the second argument -/
theorem C08_fixed_surplus_was_dropped :
    preFixCallArgs F0 (.cons (.int .w0) .nil) (.cons (.int 1) (.cons (.int 2) .nil))
      = .ok (.cons (.int 1) .nil) := by decide

/-- the full statement still fails: `h.TakeInt(nil)` calls the method with 0 -/
theorem C08_counterexample_call_args : ¬ C08_full_call_args := by
  intro h
  have := h F0 (.cons (.int .w0) .nil) (.cons .nil .nil) rfl
  revert this
  decide

/-- too few arguments are rejected, also after a nil argument (`rec.Record(nil)` for a method
    with three parameters) -/
theorem C08_too_few_rejected (F : FOps) :
    callArgs F (.cons .iface (.cons .str (.cons (.int .w0) .nil))) (.cons .nil .nil) = .error := rfl

/-- **Partial statement (every argument position).**  For parameter lists and argument lists of
    ANY length: under `callNGuards … = []` (in every position the guards of `C08_partial_call`;
    nothing is demanded of the NUMBER of arguments any more) `Proxy.call` never panics, too few and
    too many arguments are rejected, and when the
    method is invoked each parameter holds a Go value representing the argument the script passed
    in that same position. -/
theorem C08_partial_call_args (F : FOps) (pts : Fields) (os : Objs) (hw : wfWs os = true)
    (hg : callNGuards F pts os = []) : specArgs F pts os (callArgs F pts os) = true := by
  unfold callArgs
  rcases convArgs_good F (C08_partial_call F) pts os hw hg with he | ⟨xs, hx, hr⟩
  · simp [he, Outcome.bind, specArgs]
  · simp only [hx, Outcome.bind, toList_map_length]
    rcases hr with hl | hl | hr
    · simp [hl, specArgs]
    · by_cases hl' : xs.length < pts.length
      · simp [hl', specArgs]
      · simp [hl', hl, specArgs]
    · have := reprArgs_length F pts xs os hr
      have hlo := reprArgs_lengths F pts xs os hr
      simp [this, hlo, allSome_map_some, specArgs, hr]

example : callNGuards F0 (.cons (.ptr (.int .w0)) (.cons .str (.cons (.int .w0) .nil)))
    (.cons .nil (.cons (.str [97]) (.cons (.int 3) .nil))) = [] := by decide
example : callArgs F0 (.cons (.ptr (.int .w0)) (.cons .str (.cons (.int .w0) .nil)))
    (.cons .nil (.cons (.str [97]) (.cons (.int 3) .nil)))
    = .ok (.cons .nilv (.cons (.str [97]) (.cons (.int 3) .nil))) := by decide
-- a surplus argument is no longer excluded by the guard: the call is rejected
example : callNGuards F0 (.cons (.int .w0) .nil) (.cons (.int 1) (.cons (.int 2) .nil)) = [] := by decide
example : callNGuards F0 (.cons (.int .w0) .nil) (.cons .nil .nil) ≠ [] := by decide


/-! ### Non-vacuity for the write direction -/

example : writeAllGuards F0 .get (.slice (.ptr (.int .w16)))
    (.list (.cons (.int 5) (.cons (.int (-7)) .nil))) = [] := by decide
example : setGuards F0 (.mapStr .str) (.map [[97]] (.cons (.str [120]) .nil)) = [] := by decide
example : callGuards F0 (.ptr (.int .w0)) .nil = [] := by decide
example : callGuards F0 (.int .w0) .nil ≠ [] := by decide
-- an integer that does not fit is no longer excluded by the guard (it is rejected); a float is
example : setGuards F0 (.int .w8) (.int 300) = [] := by decide
example : setGuards F0 (.int .w8) (.float 300) ≠ [] := by decide
-- a list longer than the array is no longer excluded either; a shorter one is
example : setGuards F0 (.array 1 (.int .w0)) (.list (.cons (.int 1) (.cons (.int 2) .nil))) = [] := by decide
example : setGuards F0 (.array 2 (.int .w0)) (.list (.cons (.int 1) .nil)) ≠ [] := by decide

/-! ## 3. A reused VM: globals supplied again -/

/-- **A run on a reused VM sees, under every name, the value supplied last.**  For every history
    of `WithGlobal(s)` supplies on one VM (any length, any names, any types and values; latest
    first) and every name: if the run reads an object at all, that object is the conversion of the
    value supplied LAST under that name — never of an earlier one, never of another name's. -/
theorem C08_reuse_sees_latest (F : FOps) (hist : List Binding) (n : Nat) (o : Obj)
    (h : reuseRead F hist n = .ok o) :
    ∃ ty v, lastSupplied n hist = some (ty, v) ∧ fromGo F .create ty v = .ok o := by
  unfold reuseRead at h
  cases hc : convertAll F (held hist) with
  | error => simp [hc, Outcome.bind] at h
  | panic => simp [hc, Outcome.bind] at h
  | ok gs =>
    have hl := convertAll_lookup F n (held hist) gs hc
    rw [held_find] at hl
    simp only [hc, Outcome.bind] at h
    unfold lastSupplied
    cases hf : hist.find? (fun b => b.1 == n) with
    | none => rw [hf] at hl; simp [hl] at h
    | some b =>
      rw [hf] at hl
      obtain ⟨o', h1, h2⟩ := hl
      simp only [h2, Outcome.ok.injEq] at h
      subst h
      exact ⟨b.2.1, b.2.2, rfl, h1⟩

/-- **Partial statement (reused VM).**  For every history of supplies of well-typed values in
    which the values the VM currently holds satisfy the guard of `C08_partial_roundtrip`
    (`heldGuards (held hist) = []`; values that were replaced since do not matter), and every
    name: the run does not panic and either is rejected or reads an object representing the Go
    value supplied last under that name. -/
theorem C08_partial_reuse (F : FOps) (hF : ∀ b, F.narrow (F.widen b) = b)
    (hist : List Binding) (n : Nat)
    (ht : ∀ b ∈ hist, hasTy b.2.1 b.2.2 = true)
    (hg : heldGuards (held hist) = []) :
    specReuse F hist n (reuseRead F hist n) = true := by
  have hcl := heldGuards_mem (held hist) hg
  have hnp : convertAll F (held hist) ≠ .panic :=
    convertAll_no_panic F (held hist) fun b hb =>
      (C08_partial_no_panic F hF .create b.2.1 b.2.2 (ht b (held_sub hist b hb)) (hcl b hb)).1
  have hE : specReuse F hist n .error = true := by
    unfold specReuse; cases lastSupplied n hist <;> simp [specRead]
  unfold reuseRead
  cases hc : convertAll F (held hist) with
  | error => simpa [Outcome.bind] using hE
  | panic => exact absurd hc hnp
  | ok gs =>
    have hl := convertAll_lookup F n (held hist) gs hc
    simp only [Outcome.bind]
    cases hf : (held hist).find? (fun b => b.1 == n) with
    | none => rw [hf] at hl; simpa [hl] using hE
    | some b =>
      rw [hf] at hl
      obtain ⟨o, h1, h2⟩ := hl
      have hb : b ∈ held hist := List.mem_of_find?_eq_some hf
      have hrt := C08_partial_roundtrip F hF .create b.2.1 b.2.2 (ht b (held_sub hist b hb)) (hcl b hb)
      simp only [implRoundTrip, h1, Outcome.map, specRoundTrip, Bool.and_eq_true] at hrt
      rw [held_find] at hf
      simp [h2, specReuse, lastSupplied, hf, specRead, hrt.1]

-- the second request's value is seen, not the first's; a replaced unconvertible global no longer
-- keeps the run from starting, one that is still held does (an error, not a panic)
example : reuseRead F0 [(0, .int .w0, .int 2), (0, .int .w0, .int 1)] 0 = .ok (.int 2) := by decide
example : reuseRead F0 [(1, .str, .str [97]), (0, .int .w0, .int 2), (0, .chan, .nilv)] 0 = .ok (.int 2) := by decide
example : reuseRead F0 [(1, .str, .str [97]), (0, .chan, .nilv)] 1 = .error := by decide
example : heldGuards (held [(0, .int .w0, .int 2), (0, .named 1 (.int .w64), .int 1)]) = [] := by decide

/-! ## 4. Go → script alone: globals, field reads, method results

The round-trip theorems above carry the guards of BOTH directions.  Reading alone needs one: a
non-nil pointer to a nil pointer / nil interface (`nilCollapse`).  In particular every DECLARED
container type — `type Labels []string`, `type IDs []int`, `type Env map[string]string`,
`type Pair [2]int16`, at any nesting — reads faithfully, although the way back mishandles pointers
to them (C08-declared-container-type). -/

/-- **Full statement, reading.**  For every Go type, every value of it and both converter entry
    points: `From` never panics, and the object it gives represents the value. -/
def C08_full_read : Prop :=
  ∀ (F : FOps) (m : Mode) (ty : GoTy) (v : GoVal), hasTy ty v = true →
    specRead F ty v (fromGo F m ty v) = true

/-- a non-nil `**int` pointing to a nil `*int` reads as `nil` -/
theorem C08_counterexample_read : ¬ C08_full_read := by
  intro h
  have := h F0 .create (.ptr (.ptr (.int .w0))) (.ptr .nilv) (by decide)
  revert this
  decide

/-- **Partial statement (reading).**  For ALL types of any depth — declared slice / array / map /
    pointer types and pointers to interfaces included —, all well-typed values, both entry points:
    under `readClean` (no non-nil pointer / interface holding a nil pointer / nil interface on the
    way) `From` does not panic and either rejects the value or gives an object representing it. -/
theorem C08_partial_read (F : FOps) (hF : ∀ b, F.narrow (F.widen b) = b)
    (m : Mode) (ty : GoTy) (v : GoVal) (ht : hasTy ty v = true) (hcl : readClean m ty v = true) :
    specRead F ty v (fromGo F m ty v) = true := by
  by_cases hc : convOK ty = true
  · have hv : Finding.nilCollapse ∉ valGuards m ty v := by
      unfold readClean at hcl
      intro hm
      simp at hcl
      exact hcl hm
    rcases read_val F hF v m ty hc ht hv with he | ⟨o, h1, h2, _⟩
    · simp [he, specRead]
    · simp [h1, specRead, h2]
  · have hc' : convOK ty = false := by simpa using hc
    have : fromGo F m ty v = .error := by unfold fromGo; simp [hc']
    simp [this, specRead]

/-- the same for a global of `risor.Eval` -/
theorem C08_partial_read_global (F : FOps) (hF : ∀ b, F.narrow (F.widen b) = b)
    (ty : GoTy) (v : GoVal) (ht : hasTy ty v = true) (hcl : readClean .create ty v = true) :
    specRead F ty v (evalGlobal F (some (ty, v))) = true :=
  C08_partial_read F hF .create ty v ht hcl

/-- the same for a field read through a proxy (`Proxy.GetAttr`): the script reads an object
    representing what the field holds (a struct-typed field: a proxy of a pointer to it) -/
theorem C08_partial_getattr (F : FOps) (hF : ∀ b, F.narrow (F.widen b) = b)
    (pty : GoTy) (xs : Vals) (i : Nat) (ft : GoTy) (x : GoVal)
    (hpf : proxyField pty i = some ft) (hx : xs.nth i = some x) (ht : hasTy ft x = true)
    (hcl : readClean .get (fieldConvTy ft) (if isStructKind ft then .ptr x else x) = true) :
    specRead F (fieldConvTy ft) (if isStructKind ft then .ptr x else x)
      (getAttr F pty (.ptr (.struct xs)) i) = true := by
  unfold getAttr
  by_cases hc : convOK pty = false
  · simp [hc, specRead]
  · simp only [hc, getAttrCore, hpf, hx]
    apply C08_partial_read F hF .get _ _ _ hcl
    cases hs : isStructKind ft with
    | true => simpa [fieldConvTy, hs, hasTy, under] using ht
    | false => simpa [fieldConvTy, hs] using ht

/-- the guard of the read direction is weaker than the guard of the round trip -/
theorem clean_readClean (m : Mode) (ty : GoTy) (v : GoVal) (h : clean m ty v = true) :
    readClean m ty v = true := by
  unfold clean crossGuards at h
  have hv : valGuards m ty v = [] := by
    cases h1 : tyGuards ty <;> cases h2 : valGuards m ty v <;> simp_all
  simp [readClean, hv]

def strVals : List (List Nat) → Vals
  | [] => .nil
  | s :: r => .cons (.str s) (strVals r)

def strObjs : List (List Nat) → Objs
  | [] => .nil
  | s :: r => .cons (.str s) (strObjs r)

theorem fromVals_strs (F : FOps) : ∀ ss : List (List Nat), fromVals F .str (strVals ss) = .ok (strObjs ss)
  | [] => rfl
  | s :: r => by
    have ih := fromVals_strs F r
    have h1 : fromGo F .create .str (.str s) = .ok (.str s) := rfl
    simp [strVals, strObjs, fromVals, h1, ih]

/-- **`type Labels []string`.**  A value of ANY declared type over `[]string` — whatever its name,
    through either entry point, of any length — reaches the script as the list of its strings: no
    panic, no error, nothing lost. -/
theorem C08_named_string_slice (F : FOps) (m : Mode) (id : Nat) (ss : List (List Nat)) :
    fromGo F m (.named id (.slice .str)) (.seq (strVals ss)) = .ok (.list (strObjs ss)) := by
  have hsel : sel m (.named id (.slice .str)) = .slice .str := by
    cases m <;> simp [sel, getSel, isScalarKind, under]
  simp [fromGo, convOK, hsel, fromVals_strs, Outcome.map]

/-- the same value nested: `[]Labels`, `map[string]Labels`, a `Labels` struct field -/
example : fromGo F0 .create (.slice (.named 16 (.slice .str))) (.seq (.cons (.seq (.cons (.str [97]) .nil)) .nil))
    = .ok (.list (.cons (.list (.cons (.str [97]) .nil)) .nil)) := by decide
example : getAttr F0 (.ptr (.struct (.cons (.named 16 (.slice .str)) .nil)))
    (.ptr (.struct (.cons (.seq (.cons (.str [97]) (.cons (.str [98]) .nil))) .nil))) 0
    = .ok (.list (.cons (.str [97]) (.cons (.str [98]) .nil))) := by decide
-- declared container types satisfy the read guard, not the round-trip guard
example : readClean .create (.named 16 (.slice .str)) (.seq (.cons (.str [97]) .nil)) = true := by decide
example : clean .create (.named 16 (.slice .str)) (.seq (.cons (.str [97]) .nil)) = false := by decide
example : readClean .create (.ptr (.named 10 (.slice (.int .w0)))) (.ptr (.seq .nil)) = true := by decide
example : readClean .create (.slice (.ptr (.int .w0))) (.seq (.cons .nilv .nil)) = true := by decide
example : readClean .create (.ptr (.ptr (.int .w0))) (.ptr .nilv) = false := by decide

/-! ## 5. A map where Go wants a struct; one converter, many conversions

A script may pass a map where a Go method parameter, a slice / array / map element or a field has
a struct type: `StructConverter.To` makes a NEW struct, sets the fields the map names and leaves
every other field zero.  The write theorems of section 2 cover this (`repr` of a struct by a map:
`reprFields`); the statements below spell out what they say about it, and that a converter —
ONE per Go type for the whole process — keeps nothing from one conversion to the next. -/

theorem place_nth (ps : List (Nat × GoVal)) : ∀ (fs : Fields) (j i : Nat) (ft : GoTy),
    fs.nth i = some ft → (place j fs ps).nth i = some ((ps.lookup (j + i)).getD (zero ft))
  | .nil, _, _, _, h => by simp [Fields.nth] at h
  | .cons t r, j, 0, ft, h => by
    simp only [Fields.nth, Option.some.injEq] at h
    subst h; simp [place, Vals.nth]
  | .cons t r, j, i + 1, ft, h => by
    simp only [Fields.nth] at h
    have := place_nth ps r (j + 1) i ft h
    rw [show j + 1 + i = j + (i + 1) by omega] at this
    simpa [place, Vals.nth] using this

theorem toFieldVals_unnamed (F : FOps) (fs : Fields) (i : Nat) : ∀ (os : Objs) (ks : List (List Nat))
    (ps : List (Nat × GoVal)), toFieldVals F fs ks os = .ok ps →
    entryFor fs.length i ks os = none → ps.lookup i = none
  | .nil, ks, ps, h, _ => by
    cases ks <;> simp [toFieldVals] at h <;> subst h <;> rfl
  | .cons o r, [], ps, h, _ => by
    simp [toFieldVals] at h; subst h; rfl
  | .cons o r, k :: ks, ps, h, he => by
    have hne : fieldIdx fs.length k ≠ some i := by
      intro e; simp [entryFor, e] at he
    have he' : entryFor fs.length i ks r = none := by
      simpa [entryFor, hne] using he
    unfold toFieldVals at h
    split at h
    · exact toFieldVals_unnamed F fs i r ks ps h he'
    · rename_i j hj
      split at h
      · exact toFieldVals_unnamed F fs i r ks ps h he'
      · split at h
        · cases h
        · cases h
        · split at h
          · split at h
            · rename_i ps' hps
              simp only [Outcome.ok.injEq] at h
              subst h
              have hij : (i == j) = false := by
                have : ¬ i = j := fun e => hne (by rw [hj, e])
                simp [this]
              simp [List.lookup, hij, toFieldVals_unnamed F fs i r ks ps' hps he']
            · cases h
            · cases h
          · cases h
          · cases h

/-- **Fields the map does not name are zero.**  For every struct type, every map object and every
    float semantics, WITHOUT any guard: when `StructConverter.To` accepts a map, each field that no
    key of the map names holds its zero value in the struct Go receives — whatever the converter
    converted before. -/
theorem C08_map_struct_unnamed_zero (F : FOps) (m : Mode) (b : GoTy) (fs : Fields)
    (ks : List (List Nat)) (os : Objs) (d : GoTy) (v : GoVal)
    (hsel : sel m b = .structV) (hu : under b = .struct fs)
    (h : toBase F m b (.map ks os) = .ok (some (d, v))) :
    d = b ∧ ∃ xs, v = .struct xs ∧
      ∀ i ft, fs.nth i = some ft → entryFor fs.length i ks os = none → xs.nth i = some (zero ft) := by
  have hf : fieldsOf b = fs := by simp [fieldsOf, hu]
  simp only [toBase, hsel, hf] at h
  cases hp : toFieldVals F fs ks os with
  | error => simp [hp] at h
  | panic => simp [hp] at h
  | ok ps =>
    simp only [hp, Outcome.ok.injEq, Option.some.injEq, Prod.mk.injEq] at h
    refine ⟨h.1.symm, place 0 fs ps, by rw [← h.2]; simp [fillStruct, hu], ?_⟩
    intro i ft hi he
    have := place_nth ps fs 0 i ft hi
    simpa [toFieldVals_unnamed F fs i os ks ps hp he] using this

/-- **Partial statement (a map for a struct).**  For every struct-typed slot (declared or not),
    every map object with well-formed values: under `fieldWriteGuards … = []` (per entry that names
    a field: the guards of writing that field, and no `nil` value) the conversion does not panic,
    and when it is accepted the struct Go receives is represented by the map — every named field
    holds what the map gives for it, every other field is zero. -/
theorem C08_partial_map_struct (F : FOps) (m : Mode) (b : GoTy) (ks : List (List Nat)) (os : Objs)
    (hsel : sel m b = .structV) (hc : convOK b = true) (hw : wfWs os = true)
    (hg : fieldWriteGuards F (fieldsOf b) ks os = []) :
    toBase F m b (.map ks os) = .error ∨
    ∃ v, toBase F m b (.map ks os) = .ok (some (b, v)) ∧ repr F b v (.map ks os) = true := by
  obtain ⟨hsk, _⟩ := sel_structV_inv m b hsel
  rcases wfields F os ks (fieldsOf b) (fieldsOK_fieldsOf b hc) hw hg with he | ⟨ps, h1, h2⟩
  · left; simp [toBase, hsel, he]
  · exact Or.inr ⟨fillStruct b ps, by simp [toBase, hsel, h1], fill_repr F b hsk ks os ps h2⟩

/-- **A conversion does not depend on earlier conversions.**  For every series of script objects
    written through the converter of one type: result `k` is the result of converting object `k`
    alone. -/
theorem C08_seq_independent (F : FOps) (m : Mode) (ty : GoTy) (os : List Obj) (k : Nat) :
    (toSlotSeq F m ty os)[k]? = (os[k]?).map (toSlot F m ty) := by
  simp [toSlotSeq]

theorem C08_call_seq_independent (F : FOps) (pt : GoTy) (os : List Obj) (k : Nat) :
    (callSeq F pt os)[k]? = (os[k]?).map (callEcho F pt) := by
  simp [callSeq]

/-- **Partial statement (series).**  For every series of any length in which every object is
    well-formed and within the write guards: every single write of the series is faithful or
    rejected (`specWriteSeq`), whatever was converted before it. -/
theorem C08_partial_seq (F : FOps) (m : Mode) (ty : GoTy) : ∀ (os : List Obj),
    (∀ o ∈ os, wfW o = true ∧ writeAllGuards F m ty o = []) →
    specWriteSeq F ty os (toSlotSeq F m ty os) = true
  | [], _ => rfl
  | o :: r, h => by
    have h0 := h o (by simp)
    have ih := C08_partial_seq F m ty r (fun o' ho' => h o' (by simp [ho']))
    have := C08_partial_write F m ty o h0.1 h0.2
    simp only [toSlotSeq, List.map_cons, specWriteSeq, this, Bool.true_and]
    exact ih

/-! ### the contrast: a scratch struct that is reused -/

theorem overlay_zero (ps : List (Nat × GoVal)) : ∀ (fs : Fields) (j : Nat),
    overlay j (zeroFields fs) ps = place j fs ps
  | .nil, _ => rfl
  | .cons t r, j => by simp [zeroFields, overlay, place, overlay_zero ps r (j + 1)]

/-- the FIRST conversion through a fresh scratch struct is the code's -/
theorem pooled_first_is_fresh (F : FOps) (fs : Fields) (ks : List (List Nat)) (os : Objs) :
    pooledSeq F fs (zeroFields fs) [(ks, os)] = freshSeq F fs [(ks, os)] := by
  cases h : toFieldVals F fs ks os <;> simp [pooledSeq, freshSeq, h, Outcome.map, overlay_zero]

theorem overlay_nth (ps : List (Nat × GoVal)) : ∀ (xs : Vals) (j i : Nat) (x : GoVal),
    xs.nth i = some x → ps.lookup (j + i) = none → (overlay j xs ps).nth i = some x
  | .nil, _, _, _, h, _ => by simp [Vals.nth] at h
  | .cons y r, j, 0, x, h, hl => by
    simp only [Vals.nth, Option.some.injEq] at h
    subst h
    simp only [Nat.add_zero] at hl
    simp [overlay, Vals.nth, hl]
  | .cons y r, j, i + 1, x, h, hl => by
    simp only [Vals.nth] at h
    rw [show j + (i + 1) = j + 1 + i by omega] at hl
    simpa [overlay, Vals.nth] using overlay_nth ps r (j + 1) i x h hl

/-- **what a reused scratch struct does**: after any conversion through it, a field that the
    current map does not name still holds what the scratch struct held before — the value an
    EARLIER conversion wrote -/
theorem pooled_leaks (F : FOps) (fs : Fields) (scratch : Vals) (ks : List (List Nat)) (os : Objs)
    (rest : List (List (List Nat) × Objs)) (xs : Vals) (i : Nat) (x : GoVal)
    (h : (pooledSeq F fs scratch ((ks, os) :: rest))[0]? = some (.ok xs))
    (hx : scratch.nth i = some x) (he : entryFor fs.length i ks os = none) :
    xs.nth i = some x := by
  cases hp : toFieldVals F fs ks os with
  | error => simp [pooledSeq, hp] at h
  | panic => simp [pooledSeq, hp] at h
  | ok ps =>
    simp only [pooledSeq, hp, List.getElem?_cons_zero, Option.some.injEq, Outcome.ok.injEq] at h
    subst h
    exact overlay_nth ps scratch 0 i x hx (by simpa using toFieldVals_unnamed F fs i os ks ps hp he)

/-- `E(p Point)` called with `{F0: 3, F1: "x"}` and then with `{F1: "y"}`: the code passes
    `{0 "y"}` the second time; through a reused scratch struct the method would receive `{3 "y"}` —
    an argument the script never passed -/
theorem pooled_counterexample :
    let fs := Fields.cons (.int .w0) (.cons .str .nil)
    let m1 : List (List Nat) × Objs := ([[70, 48], [70, 49]], .cons (.int 3) (.cons (.str [120]) .nil))
    let m2 : List (List Nat) × Objs := ([[70, 49]], .cons (.str [121]) .nil)
    freshSeq F0 fs [m1, m2] =
      [.ok (.cons (.int 3) (.cons (.str [120]) .nil)), .ok (.cons (.int 0) (.cons (.str [121]) .nil))] ∧
    pooledSeq F0 fs (zeroFields fs) [m1, m2] =
      [.ok (.cons (.int 3) (.cons (.str [120]) .nil)), .ok (.cons (.int 3) (.cons (.str [121]) .nil))] ∧
    reprFields F0 2 0 fs (.cons (.int 0) (.cons (.str [121]) .nil)) m2.1 m2.2 = true ∧
    reprFields F0 2 0 fs (.cons (.int 3) (.cons (.str [121]) .nil)) m2.1 m2.2 = false := by
  decide

/-- the code's conversion of that second map, as a method argument: `{0 "y"}` -/
theorem C08_struct_arg_from_map :
    callArg F0 (.named 13 (.struct (.cons (.int .w0) (.cons .str .nil))))
      (.map [[70, 49]] (.cons (.str [121]) .nil)) = .ok (.struct (.cons (.int 0) (.cons (.str [121]) .nil))) := by
  decide

-- non-vacuity: a map for a struct inside a list, within the guards; a nil entry and a struct-typed
-- field are outside them
example : writeAllGuards F0 .get (.slice (.named 13 (.struct (.cons (.int .w0) (.cons .str .nil)))))
    (.list (.cons (.map [[70, 48]] (.cons (.int 5) .nil)) (.cons (.map [[70, 49], [122]] (.cons (.str [97]) (.cons (.int 1) .nil))) .nil))) = [] := by
  decide
example : toSlot F0 .get (.slice (.named 13 (.struct (.cons (.int .w0) (.cons .str .nil)))))
    (.list (.cons (.map [[70, 48]] (.cons (.int 5) .nil)) (.cons (.map [[70, 49], [122]] (.cons (.str [97]) (.cons (.int 1) .nil))) .nil)))
    = .ok (.seq (.cons (.struct (.cons (.int 5) (.cons (.str []) .nil))) (.cons (.struct (.cons (.int 0) (.cons (.str [97]) .nil))) .nil))) := by
  decide
example : fieldWriteGuards F0 (.cons (.ptr (.int .w0)) .nil) [[70, 48]] (.cons .nil .nil) ≠ [] := by decide
example : toBase F0 .get (.struct (.cons (.ptr (.int .w0)) .nil)) (.map [[70, 48]] (.cons .nil .nil)) = .panic := by decide

end Risor.C08
