import RisorModel.Util
import RisorModel.C08.Model
import RisorModel.C08.Heap
import RisorModel.C08.Reg
/-!
Line-protocol front end of the C08 model (requests after the leading `C08` field).

Text forms (S-expressions, single spaces):
  type   bool | (int W) | (uint W) | f32 | f64 | str | time | iface | chan | (named ID T)
         | (ptr T) | (slice T) | (array N T) | (map T) | (struct T*)            W ∈ 0 8 16 32 64
  value  (b 0|1) | (i N) | (f BITS) | (s HEX) | (t N) | nil | (p V) | (seq V*) | (m (HEX V)*)
         | (st V*) | (if T V)
  object nil | (b 0|1) | (i N) | (f BITS) | (y N) | (s HEX) | (bs HEX) | (fs BITS*) | (t N)
         | (l O*) | (m (HEX O)*) | (px T V)
  result panic | error | (ok …)

Requests (reply: impl-result TAB spec-on-go TAB spec-on-impl TAB guard-ids):
  rt MODE T V GO        GO = panic | error | (ok O BACK), BACK = panic | error | (ok V)
  global GO             the untyped nil global
  evalglobal T V GO     risor.Eval("x", WithGlobal("x", v));  GO = panic | error | (ok O)
  get PT PV I GO        GO = panic | error | (ok O)
  set PT PV I O GO      GO = panic | error | (ok PV' READ), READ = panic | error | (ok O)
  call T O GO           GO = panic | error | (ok V O)
  retry T V I GO        a struct whose first conversion failed, converted again; GO = (ok PV READ)
  calln PTS OS GO       a method with parameters PTS = (struct T*) called with OS = (l O*);
                        GO = panic | error | (ok (st V*) (l O*))   received values, returned objects
  reuse HIST N GO       one VM, the supplies HIST = (h (NAME T V)*) in the order they were made,
                        then a run that reads global NAME = N;  GO = panic | error | (ok O)
  seq MODE T OS GO      a series of objects OS = (l O*) written, one after the other, through the ONE
                        converter of T into fresh slots;  GO = (seq R*), R = panic | error | (ok V)
  callseq T OS GO       a series of calls of one method `func (h *Host) E(x T) T`, one per object of
                        OS = (l O*);  GO = (seq R*), R = panic | error | (ok V O)
  firstuse SCHED I N A REQ…   the inner request REQ (a complete `get` or `call` request: its fields
                        follow) made by goroutine I while other goroutines use the SAME, never
                        seen Go type: SCHED = u<k> | w, comma separated, is the interleaving the
                        harness aimed at (u<k>: goroutine k calls NewGoType, w: a step of the
                        goroutine inside newGoType), N the number of attributes of the type, A the
                        attribute REQ looks up.  The locked registry machine of Reg.lean runs on
                        SCHED; goroutine I's lookup of A in the description it is handed decides
                        between REQ's own reply and `error` ("attribute not found").
  hist ROOTS HEAP OPS GO   a history over an object graph (Heap.lean).
                        ROOTS = (roots A*)  the object each global name g0, g1, … stands for
                        HEAP  = (heap NODE*), NODE = (i N) | (r A) | (r -) | (st NODE*) | (seq NODE*)
                        OPS   = (ops OP*), OP = (get R PATH) | (set R PATH N) | (link R PATH R PATH)
                                | (new R PATH NODE) | (gset R PATH N) | (gpoint R PATH A|-)
                                | (grepl R PATH NODE) | (gnew NODE),  PATH = (p N*)
                        GO    = (res STEP*), STEP = (OUT =) | (OUT (heap NODE*))   "=": heap as before
                                OUT = (v (i N)) | (v (r A)) | (v (r -)) | (v agg) | done | error | panic
                        reply: impl-trace TAB spec-on-go TAB spec-on-impl TAB guard-ids TAB first refused step of GO
-/
namespace Risor.C08
open Risor.Util

/-- hardware float operations (opaque to the kernel; used by the oracle only) -/
def nativeF : FOps where
  widen b := (Float32.ofBits b.toUInt32).toFloat.toBits.toNat
  narrow b := (Float.ofBits b.toUInt64).toFloat32.toBits.toNat
  ofInt i := (Float.ofInt i).toBits.toNat
  ofInt32 i := (Float32.ofInt i).toBits.toNat
  trunc b :=
    let f := Float.ofBits b.toUInt64
    if f.isNaN || f >= 9223372036854775808.0 || f < -9223372036854775808.0 then -9223372036854775808
    else f.toInt64.toInt
  exact b :=
    let f := Float.ofBits b.toUInt64
    if f.isFinite && f.floor == f && f < 9223372036854775808.0 && f >= -9223372036854775808.0
    then some f.toInt64.toInt else none

/-! ### printing -/

def showW : W → String
  | .w0 => "0" | .w8 => "8" | .w16 => "16" | .w32 => "32" | .w64 => "64"

mutual
def showTy : GoTy → String
  | .bool => "bool" | .f32 => "f32" | .f64 => "f64" | .str => "str" | .time => "time"
  | .iface => "iface" | .chan => "chan"
  | .int w => "(int " ++ showW w ++ ")"
  | .uint w => "(uint " ++ showW w ++ ")"
  | .named id u => "(named " ++ toString id ++ " " ++ showTy u ++ ")"
  | .ptr t => "(ptr " ++ showTy t ++ ")"
  | .slice t => "(slice " ++ showTy t ++ ")"
  | .array n t => "(array " ++ toString n ++ " " ++ showTy t ++ ")"
  | .mapStr t => "(map " ++ showTy t ++ ")"
  | .struct fs => "(struct" ++ showFields fs ++ ")"
def showFields : Fields → String
  | .nil => ""
  | .cons t r => " " ++ showTy t ++ showFields r
end

def showHex (bs : List Nat) : String := toHexField bs

def showKey (k : List Nat) : String := toHexField k

mutual
def showVal : GoVal → String
  | .bool b => if b then "(b 1)" else "(b 0)"
  | .int i => "(i " ++ toString i ++ ")"
  | .float b => "(f " ++ toString b ++ ")"
  | .str s => "(s " ++ showHex s ++ ")"
  | .time t => "(t " ++ toString t ++ ")"
  | .nilv => "nil"
  | .ptr x => "(p " ++ showVal x ++ ")"
  | .seq xs => "(seq" ++ showVals xs ++ ")"
  | .map ks xs => "(m" ++ showKVs ks xs ++ ")"
  | .struct xs => "(st" ++ showVals xs ++ ")"
  | .iface d x => "(if " ++ showTy d ++ " " ++ showVal x ++ ")"
def showVals : Vals → String
  | .nil => ""
  | .cons x r => " " ++ showVal x ++ showVals r
def showKVs : List (List Nat) → Vals → String
  | k :: ks, .cons x r => " (" ++ showKey k ++ " " ++ showVal x ++ ")" ++ showKVs ks r
  | _, _ => ""
end

def showNums : List Nat → String
  | [] => ""
  | n :: r => " " ++ toString n ++ showNums r

mutual
def showObj : Obj → String
  | .nil => "nil"
  | .bool b => if b then "(b 1)" else "(b 0)"
  | .int i => "(i " ++ toString i ++ ")"
  | .float b => "(f " ++ toString b ++ ")"
  | .byte n => "(y " ++ toString n ++ ")"
  | .str s => "(s " ++ showHex s ++ ")"
  | .bytes s => "(bs " ++ showHex s ++ ")"
  | .floats fs => "(fs" ++ showNums fs ++ ")"
  | .time t => "(t " ++ toString t ++ ")"
  | .list os => "(l" ++ showObjs os ++ ")"
  | .map ks os => "(m" ++ showKOs ks os ++ ")"
  | .proxy pty pv => "(px " ++ showTy pty ++ " " ++ showVal pv ++ ")"
def showObjs : Objs → String
  | .nil => ""
  | .cons o r => " " ++ showObj o ++ showObjs r
def showKOs : List (List Nat) → Objs → String
  | k :: ks, .cons o r => " (" ++ showKey k ++ " " ++ showObj o ++ ")" ++ showKOs ks r
  | _, _ => ""
end

def showOutcome {α} (f : α → String) : Outcome α → String
  | .ok a => "(ok " ++ f a ++ ")"
  | .error => "error"
  | .panic => "panic"

/-! ### parsing (recursive descent over tokens, with fuel) -/

def tokenize (s : String) : List String :=
  let step := fun (st : List String × String) (c : Char) =>
    let (acc, cur) := st
    let flush := if cur.isEmpty then acc else cur :: acc
    if c = '(' then ("(" :: flush, "")
    else if c = ')' then (")" :: flush, "")
    else if c = ' ' then (flush, "")
    else (acc, cur.push c)
  let (acc, cur) := s.toList.foldl step ([], "")
  (if cur.isEmpty then acc else cur :: acc).reverse

abbrev P (α : Type) := List String → Option (α × List String)

def pW : P W
  | "0" :: r => some (.w0, r) | "8" :: r => some (.w8, r) | "16" :: r => some (.w16, r)
  | "32" :: r => some (.w32, r) | "64" :: r => some (.w64, r)
  | _ => none

def close {α} (x : α) : List String → Option (α × List String)
  | ")" :: r => some (x, r)
  | _ => none

mutual
def pTy : Nat → P GoTy
  | 0, _ => none
  | _ + 1, "bool" :: r => some (.bool, r)
  | _ + 1, "f32" :: r => some (.f32, r)
  | _ + 1, "f64" :: r => some (.f64, r)
  | _ + 1, "str" :: r => some (.str, r)
  | _ + 1, "time" :: r => some (.time, r)
  | _ + 1, "iface" :: r => some (.iface, r)
  | _ + 1, "chan" :: r => some (.chan, r)
  | _ + 1, "(" :: "int" :: r => do let (w, r) ← pW r; close (.int w) r
  | _ + 1, "(" :: "uint" :: r => do let (w, r) ← pW r; close (.uint w) r
  | n + 1, "(" :: "named" :: id :: r => do let (t, r) ← pTy n r; close (.named (← id.toNat?) t) r
  | n + 1, "(" :: "ptr" :: r => do let (t, r) ← pTy n r; close (.ptr t) r
  | n + 1, "(" :: "slice" :: r => do let (t, r) ← pTy n r; close (.slice t) r
  | n + 1, "(" :: "array" :: k :: r => do let (t, r) ← pTy n r; close (.array (← k.toNat?) t) r
  | n + 1, "(" :: "map" :: r => do let (t, r) ← pTy n r; close (.mapStr t) r
  | n + 1, "(" :: "struct" :: r => do let (fs, r) ← pFields n r; some (.struct fs, r)
  | _, _ => none
def pFields : Nat → P Fields
  | 0, _ => none
  | _ + 1, ")" :: r => some (.nil, r)
  | n + 1, r => do let (t, r) ← pTy n r; let (fs, r) ← pFields n r; some (.cons t fs, r)
end

def pHex (s : String) : Option (List Nat) := fromHex s

mutual
def pVal : Nat → P GoVal
  | 0, _ => none
  | _ + 1, "nil" :: r => some (.nilv, r)
  | _ + 1, "(" :: "b" :: "1" :: ")" :: r => some (.bool true, r)
  | _ + 1, "(" :: "b" :: "0" :: ")" :: r => some (.bool false, r)
  | _ + 1, "(" :: "i" :: x :: ")" :: r => do some (.int (← x.toInt?), r)
  | _ + 1, "(" :: "f" :: x :: ")" :: r => do some (.float (← x.toNat?), r)
  | _ + 1, "(" :: "s" :: x :: ")" :: r => do some (.str (← pHex x), r)
  | _ + 1, "(" :: "t" :: x :: ")" :: r => do some (.time (← x.toInt?), r)
  | n + 1, "(" :: "p" :: r => do let (x, r) ← pVal n r; close (.ptr x) r
  | n + 1, "(" :: "seq" :: r => do let (xs, r) ← pVals n r; some (.seq xs, r)
  | n + 1, "(" :: "st" :: r => do let (xs, r) ← pVals n r; some (.struct xs, r)
  | n + 1, "(" :: "m" :: r => do let ((ks, xs), r) ← pKVs n r; some (.map ks xs, r)
  | n + 1, "(" :: "if" :: r => do
    let (d, r) ← pTy (n + 1) r
    let (x, r) ← pVal n r
    close (.iface d x) r
  | _, _ => none
def pVals : Nat → P Vals
  | 0, _ => none
  | _ + 1, ")" :: r => some (.nil, r)
  | n + 1, r => do let (x, r) ← pVal n r; let (xs, r) ← pVals n r; some (.cons x xs, r)
def pKVs : Nat → P (List (List Nat) × Vals)
  | 0, _ => none
  | _ + 1, ")" :: r => some (([], .nil), r)
  | n + 1, "(" :: k :: r => do
    let k ← pHex k
    let (x, r) ← pVal n r
    let (_, r) ← close () r
    let ((ks, xs), r) ← pKVs n r
    some ((k :: ks, .cons x xs), r)
  | _, _ => none
end

def pNums : Nat → P (List Nat)
  | 0, _ => none
  | _ + 1, ")" :: r => some ([], r)
  | n + 1, x :: r => do let v ← x.toNat?; let (vs, r) ← pNums n r; some (v :: vs, r)
  | _, _ => none

mutual
def pObj : Nat → P Obj
  | 0, _ => none
  | _ + 1, "nil" :: r => some (.nil, r)
  | _ + 1, "(" :: "b" :: "1" :: ")" :: r => some (.bool true, r)
  | _ + 1, "(" :: "b" :: "0" :: ")" :: r => some (.bool false, r)
  | _ + 1, "(" :: "i" :: x :: ")" :: r => do some (.int (← x.toInt?), r)
  | _ + 1, "(" :: "f" :: x :: ")" :: r => do some (.float (← x.toNat?), r)
  | _ + 1, "(" :: "y" :: x :: ")" :: r => do some (.byte (← x.toNat?), r)
  | _ + 1, "(" :: "s" :: x :: ")" :: r => do some (.str (← pHex x), r)
  | _ + 1, "(" :: "bs" :: x :: ")" :: r => do some (.bytes (← pHex x), r)
  | _ + 1, "(" :: "t" :: x :: ")" :: r => do some (.time (← x.toInt?), r)
  | n + 1, "(" :: "fs" :: r => do let (ns, r) ← pNums n r; some (.floats ns, r)
  | n + 1, "(" :: "l" :: r => do let (os, r) ← pObjs n r; some (.list os, r)
  | n + 1, "(" :: "m" :: r => do let ((ks, os), r) ← pKOs n r; some (.map ks os, r)
  | n + 1, "(" :: "px" :: r => do
    let (t, r) ← pTy (n + 1) r
    let (v, r) ← pVal (n + 1) r
    close (.proxy t v) r
  | _, _ => none
def pObjs : Nat → P Objs
  | 0, _ => none
  | _ + 1, ")" :: r => some (.nil, r)
  | n + 1, r => do let (o, r) ← pObj n r; let (os, r) ← pObjs n r; some (.cons o os, r)
def pKOs : Nat → P (List (List Nat) × Objs)
  | 0, _ => none
  | _ + 1, ")" :: r => some (([], .nil), r)
  | n + 1, "(" :: k :: r => do
    let k ← pHex k
    let (o, r) ← pObj n r
    let (_, r) ← close () r
    let ((ks, os), r) ← pKOs n r
    some ((k :: ks, .cons o os), r)
  | _, _ => none
end

def parseAll {α} (p : Nat → P α) (s : String) : Option α :=
  let ts := tokenize s
  match p (ts.length + 2) ts with
  | some (x, []) => some x
  | _ => none

/-- `panic | error | (ok A…)` where the payload parser consumes up to the closing paren -/
def pOutcome {α} (p : Nat → P α) : Nat → P (Outcome α)
  | _, "panic" :: r => some (.panic, r)
  | _, "error" :: r => some (.error, r)
  | n, "(" :: "ok" :: r => do let (x, r) ← p n r; close (.ok x) r
  | _, _ => none

def pRtPayload : Nat → P (Obj × Outcome GoVal)
  | n, r => do
    let (o, r) ← pObj n r
    let (b, r) ← pOutcome pVal n r
    some ((o, b), r)

def pSetPayload : Nat → P (GoVal × Outcome Obj)
  | n, r => do
    let (v, r) ← pVal n r
    let (b, r) ← pOutcome pObj n r
    some ((v, b), r)

def pCallPayload : Nat → P (GoVal × Obj)
  | n, r => do
    let (v, r) ← pVal n r
    let (o, r) ← pObj n r
    some ((v, o), r)

def pCallNPayload : Nat → P (Vals × Objs)
  | n, r => do
    let (v, r) ← pVal n r
    let (o, r) ← pObj n r
    match v, o with
    | .struct xs, .list rs => some ((xs, rs), r)
    | _, _ => none

def pBindings : Nat → P (List Binding)
  | 0, _ => none
  | _ + 1, ")" :: r => some ([], r)
  | n + 1, "(" :: name :: r => do
    let name ← name.toNat?
    let (t, r) ← pTy (n + 1) r
    let (v, r) ← pVal (n + 1) r
    let (_, r) ← close () r
    let (bs, r) ← pBindings n r
    some ((name, t, v) :: bs, r)
  | _, _ => none

/-- `(seq R*)` -/
def pOutcomes {α} (p : Nat → P α) : Nat → P (List (Outcome α))
  | 0, _ => none
  | _ + 1, ")" :: r => some ([], r)
  | n + 1, r => do let (x, r) ← pOutcome p n r; let (xs, r) ← pOutcomes p n r; some (x :: xs, r)

def pSeq {α} (p : Nat → P α) : Nat → P (List (Outcome α))
  | n, "(" :: "seq" :: r => pOutcomes p n r
  | _, _ => none

def objsToList : Objs → List Obj
  | .nil => []
  | .cons o r => o :: objsToList r

def showSeq {α} (f : α → String) (rs : List (Outcome α)) : String :=
  "(seq" ++ rs.foldl (fun s r => s ++ " " ++ showOutcome f r) "" ++ ")"

def specCallSeq (F : FOps) (pt : GoTy) : List Obj → List (Outcome (GoVal × Obj)) → Bool
  | [], [] => true
  | o :: os, r :: rs => (match r with
      | .panic => false
      | .error => true
      | .ok (x, res) => repr F pt x o && repr F pt x res) && specCallSeq F pt os rs
  | _, _ => false

def pHist : Nat → P (List Binding)
  | n, "(" :: "h" :: r => pBindings n r
  | _, _ => none

def showCallN (r : Outcome (Vals × Objs)) : String :=
  showOutcome (fun p => "(st" ++ showVals p.1 ++ ") (l" ++ showObjs p.2 ++ ")") r

def specCallN (F : FOps) (pts : Fields) (os : Objs) (res : Outcome (Vals × Objs)) : Bool :=
  match res with
  | .panic => false
  | .error => true
  | .ok (xs, rs) => reprArgs F pts xs os && reprArgs F pts xs rs

def retGuards : Fields → Vals → List Finding
  | .cons t ts, .cons x xs => readGuards .get t x ++ retGuards ts xs
  | _, _ => []

def showRt (r : Outcome (Obj × Outcome GoVal)) : String :=
  showOutcome (fun p => showObj p.1 ++ " " ++ showOutcome showVal p.2) r

def showSet (r : Outcome (GoVal × Outcome Obj)) : String :=
  showOutcome (fun p => showVal p.1 ++ " " ++ showOutcome showObj p.2) r

def showCall (r : Outcome (GoVal × Obj)) : String :=
  showOutcome (fun p => showVal p.1 ++ " " ++ showObj p.2) r

def showGuards (gs : List Finding) : String :=
  match gs.eraseDups with
  | [] => "-"
  | g :: r => r.foldl (fun s x => s ++ "," ++ x.id) g.id

def verdict (b : Bool) : String := if b then "ok" else "viol"

def reply (impl : String) (specGo specImpl : Bool) (gs : List Finding) : String :=
  impl ++ "\t" ++ verdict specGo ++ "\t" ++ verdict specImpl ++ "\t" ++ showGuards gs

def pMode : String → Option Mode
  | "create" => some .create
  | "get" => some .get
  | _ => none

/-- Spec of a field write evaluated on results: the field holds what was written, the other
    fields are untouched, and reading the field back gives a representation of that same value -/
def specSet (F : FOps) (pv : GoVal) (i : Nat) (ft : GoTy) (o : Obj)
    (res : Outcome (GoVal × Outcome Obj)) : Bool :=
  match res with
  | .panic => false
  | .error => true
  | .ok (pv', rd) => match pv, pv' with
    | .ptr (.struct xs), .ptr (.struct xs') => match xs'.nth i with
      | some x => repr F ft x o && decide (xs' = xs.set i x) && specRead F (fieldConvTy ft)
          (if isStructKind ft then .ptr x else x) rd && (match rd with
            | .ok _ => true
            | _ => false)
      | none => false
    | _, _ => false

def implSet (F : FOps) (pty : GoTy) (pv : GoVal) (i : Nat) (o : Obj) : Outcome (GoVal × Outcome Obj) :=
  (setAttr F pty pv i o).map fun pv' => (pv', getAttr F pty pv' i)

def specCall (F : FOps) (pt : GoTy) (o : Obj) (res : Outcome (GoVal × Obj)) : Bool :=
  match res with
  | .panic => false
  | .error => true
  | .ok (x, r) => repr F pt x o && repr F pt x r

/-! ### histories over an object graph (Heap.lean) -/

mutual
def showNode : Node → String
  | .int i => "(i " ++ toString i ++ ")"
  | .ref none => "(r -)"
  | .ref (some a) => "(r " ++ toString a ++ ")"
  | .struct fs => "(st" ++ showNodes fs ++ ")"
  | .seq xs => "(seq" ++ showNodes xs ++ ")"
def showNodes : Nodes → String
  | .nil => ""
  | .cons n r => " " ++ showNode n ++ showNodes r
end

def showHeap (h : Heap) : String := "(heap" ++ h.foldl (fun s n => s ++ " " ++ showNode n) "" ++ ")"

def showRes : Res → String
  | .val (.int i) => "(v (i " ++ toString i ++ "))"
  | .val (.ptr none) => "(v (r -))"
  | .val (.ptr (some a)) => "(v (r " ++ toString a ++ "))"
  | .val .agg => "(v agg)"
  | .done => "done"
  | .error => "error"
  | .panic => "panic"

def showTrace : Heap → List (Heap × Res) → String
  | _, [] => ""
  | h, (h', r) :: rest =>
    " (" ++ showRes r ++ " " ++ (if heapEq h h' then "=" else showHeap h') ++ ")" ++ showTrace h' rest

mutual
def pNode : Nat → P Node
  | 0, _ => none
  | _ + 1, "(" :: "i" :: x :: ")" :: r => do some (.int (← x.toInt?), r)
  | _ + 1, "(" :: "r" :: "-" :: ")" :: r => some (.ref none, r)
  | _ + 1, "(" :: "r" :: x :: ")" :: r => do some (.ref (some (← x.toNat?)), r)
  | n + 1, "(" :: "st" :: r => do let (xs, r) ← pNodes n r; some (.struct xs, r)
  | n + 1, "(" :: "seq" :: r => do let (xs, r) ← pNodes n r; some (.seq xs, r)
  | _, _ => none
def pNodes : Nat → P Nodes
  | 0, _ => none
  | _ + 1, ")" :: r => some (.nil, r)
  | n + 1, r => do let (x, r) ← pNode n r; let (xs, r) ← pNodes n r; some (.cons x xs, r)
end

def nodesToList : Nodes → List Node
  | .nil => []
  | .cons n r => n :: nodesToList r

def pHeap : Nat → P Heap
  | n, "(" :: "heap" :: r => do let (xs, r) ← pNodes n r; some (nodesToList xs, r)
  | _, _ => none

def pRoots : Nat → P (List Nat)
  | n, "(" :: "roots" :: r => pNums n r
  | _, _ => none

def pPath : Nat → P (List Nat)
  | n, "(" :: "p" :: r => pNums n r
  | _, _ => none

def pOptNat : P (Option Nat)
  | "-" :: r => some (none, r)
  | x :: r => do some (some (← x.toNat?), r)
  | _ => none

def pHOp : Nat → P HOp
  | n, "(" :: "get" :: x :: r => do let (p, r) ← pPath n r; close (.scriptGet (← x.toNat?) p) r
  | n, "(" :: "set" :: x :: r => do
    let (p, r) ← pPath n r
    match r with
    | v :: r => close (.scriptSet (← x.toNat?) p (← v.toInt?)) r
    | _ => none
  | n, "(" :: "link" :: x :: r => do
    let (p, r) ← pPath n r
    match r with
    | y :: r => do let (p', r) ← pPath n r; close (.scriptLink (← x.toNat?) p (← y.toNat?) p') r
    | _ => none
  | n, "(" :: "new" :: x :: r => do
    let (p, r) ← pPath n r; let (b, r) ← pNode n r; close (.scriptNew (← x.toNat?) p b) r
  | n, "(" :: "gset" :: x :: r => do
    let (p, r) ← pPath n r
    match r with
    | v :: r => close (.goSet (← x.toNat?) p (← v.toInt?)) r
    | _ => none
  | n, "(" :: "gpoint" :: x :: r => do
    let (p, r) ← pPath n r; let (t, r) ← pOptNat r; close (.goRepoint (← x.toNat?) p t) r
  | n, "(" :: "grepl" :: x :: r => do
    let (p, r) ← pPath n r; let (b, r) ← pNode n r; close (.goReplace (← x.toNat?) p b) r
  | n, "(" :: "gnew" :: r => do let (b, r) ← pNode n r; close (.goNew b) r
  | _, _ => none

def pHOps : Nat → P (List HOp)
  | 0, _ => none
  | _ + 1, ")" :: r => some ([], r)
  | n + 1, r => do let (o, r) ← pHOp n r; let (os, r) ← pHOps n r; some (o :: os, r)

def pOpsList : Nat → P (List HOp)
  | n, "(" :: "ops" :: r => pHOps n r
  | _, _ => none

def pRes : P Res
  | "(" :: "v" :: "(" :: "i" :: x :: ")" :: ")" :: r => do some (.val (.int (← x.toInt?)), r)
  | "(" :: "v" :: "(" :: "r" :: "-" :: ")" :: ")" :: r => some (.val (.ptr none), r)
  | "(" :: "v" :: "(" :: "r" :: x :: ")" :: ")" :: r => do some (.val (.ptr (some (← x.toNat?))), r)
  | "(" :: "v" :: "agg" :: ")" :: r => some (.val .agg, r)
  | "done" :: r => some (.done, r)
  | "error" :: r => some (.error, r)
  | "panic" :: r => some (.panic, r)
  | _ => none

/-- the reported trace; `=` stands for the heap before the step -/
def pSteps : Nat → Heap → P (List (Heap × Res))
  | 0, _, _ => none
  | _ + 1, _, ")" :: r => some ([], r)
  | n + 1, h, "(" :: r => do
    let (res, r) ← pRes r
    let (h', r) ← (match r with
      | "=" :: r => some (h, r)
      | r => pHeap n r)
    let (_, r) ← close () r
    let (rest, r) ← pSteps n h' r
    some ((h', res) :: rest, r)
  | _, _, _ => none

def pTrace (h : Heap) : Nat → P (List (Heap × Res))
  | n, "(" :: "res" :: r => pSteps n h r
  | _, _ => none

/-- the recorded findings a script step falls under on heap `h` -/
def stepGuards (roots : List Nat) (h : Heap) : HOp → List String
  | .scriptGet r p => match roots[r]? with
    | some a => if nilOnPath h ⟨a, []⟩ p then ["C08-proxy-type-unchecked"] else []
    | none => []
  | .scriptSet r p _ => match roots[r]? with
    | some a => (if nilOnPath h ⟨a, []⟩ p then ["C08-proxy-type-unchecked"] else [])
        ++ (if copyOnPath h ⟨a, []⟩ p then ["C08-slice-element-write-lost"] else [])
    | none => []
  | .scriptNew r p _ => match roots[r]? with
    | some a => (if nilOnPath h ⟨a, []⟩ p then ["C08-proxy-type-unchecked"] else [])
        ++ (if copyOnPath h ⟨a, []⟩ p then ["C08-slice-element-write-lost"] else [])
        ++ (match goRead h a p with
          | some (.struct _) => ["C08-struct-field-set-panics"]
          | _ => [])
    | none => []
  | .scriptLink r p r' p' => match roots[r]?, roots[r']? with
    | some a, some a' => (if nilOnPath h ⟨a, []⟩ p || nilOnPath h ⟨a', []⟩ p' then ["C08-proxy-type-unchecked"] else [])
        ++ (if copyOnPath h ⟨a, []⟩ p then ["C08-slice-element-write-lost"] else [])
        ++ (match goRead h a p with
          | some (.struct _) => ["C08-struct-field-set-panics"]
          | _ => [])
    | _, _ => []
  | _ => []

/-- all steps the judge refuses, each with its guards -/
def refused (roots : List Nat) : Heap → List HOp → List (Heap × Res) → Nat → List (Nat × List String)
  | h, op :: ops, out :: outs, k =>
    (if stepOK roots h op out then [] else [(k, stepGuards roots h op)]) ++ refused roots out.1 ops outs (k + 1)
  | _, [], [], _ => []
  | _, _, _, k => [(k, [])]

def histReply (roots : List Nat) (h : Heap) (ops : List HOp) (go : List (Heap × Res)) : String :=
  let impl := traceImpl roots h ops
  let rg := refused roots h ops go 0
  let ri := refused roots h ops impl 0
  let gs : List String := if rg.all (fun e => !e.2.isEmpty) then (rg.map (·.2)).flatten.eraseDups else []
  "(res" ++ showTrace h impl ++ ")\t" ++ verdict rg.isEmpty ++ "\t" ++ verdict ri.isEmpty ++ "\t"
    ++ (match gs with
      | [] => "-"
      | g :: r => r.foldl (fun s x => s ++ "," ++ x) g)
    ++ "\t" ++ (match rg with
      | [] => "-"
      | e :: _ => toString e.1)

def handleBase : List String → String
  | ["hist", roots, heap, ops, go] =>
    match parseAll pRoots roots, parseAll pHeap heap, parseAll pOpsList ops with
    | some roots, some heap, some ops =>
      match parseAll (pTrace heap) go with
      | some go => histReply roots heap ops go
      | none => "error\tbad-trace"
    | _, _, _ => "error\tbad-request"
  | ["rt", m, ty, v, go] =>
    match pMode m, parseAll pTy ty, parseAll pVal v, parseAll (pOutcome pRtPayload) go with
    | some m, some ty, some v, some go =>
      let impl := implRoundTrip nativeF m ty v
      reply (showRt impl) (specRoundTrip nativeF ty v go) (specRoundTrip nativeF ty v impl)
        (crossGuards m ty v) ++ "\t" ++ (if hasTy ty v then "typed" else "illtyped")
    | _, _, _, _ => "error\tbad-request"
  | ["global", go] =>
    match parseAll (pOutcome pObj) go with
    | some go =>
      -- the untyped nil global: the script must see `nil` (or Eval returns an error); no finding
      -- covers this case any more (C08-nil-global-panic is repaired)
      let impl := evalGlobal nativeF none
      let spec := fun (r : Outcome Obj) => decide (r = .ok .nil) || decide (r = .error)
      reply (showOutcome showObj impl) (spec go) (spec impl) []
    | none => "error\tbad-request"
  | ["evalglobal", ty, v, go] =>
    match parseAll pTy ty, parseAll pVal v, parseAll (pOutcome pObj) go with
    | some ty, some v, some go =>
      let impl := evalGlobal nativeF (some (ty, v))
      reply (showOutcome showObj impl) (specRead nativeF ty v go) (specRead nativeF ty v impl)
        (readGuards .create ty v)
    | _, _, _ => "error\tbad-request"
  | ["retry", ty, v, i, go] =>
    -- second conversion of a struct whose first registration failed, then a field read
    match parseAll pTy ty, parseAll pVal v, i.toNat?, parseAll (pOutcome pSetPayload) go with
    | some ty, some v, some i, some go =>
      let impl : Outcome (GoVal × Outcome Obj) :=
        (fromGoRetry nativeF .create ty v).map fun o => match o with
          | .proxy pty pv => (pv, getAttrRetry nativeF pty pv i)
          | _ => (.nilv, .error)
      let spec := fun (r : Outcome (GoVal × Outcome Obj)) => match r with
        | .panic => false
        | .error => true
        | .ok (_, .ok _) => true
        | .ok _ => false        -- accepted, but the field cannot be read
      reply (showSet impl) (spec go) (spec impl) [.registry]
    | _, _, _, _ => "error\tbad-request"
  | ["get", pty, pv, i, go] =>
    match parseAll pTy pty, parseAll pVal pv, i.toNat?, parseAll (pOutcome pObj) go with
    | some pty, some pv, some i, some go =>
      let impl := getAttr nativeF pty pv i
      match proxyField pty i, pv with
      | some ft, .ptr (.struct xs) =>
        match xs.nth i with
        | some x =>
          let cty := fieldConvTy ft
          let cv := if isStructKind ft then GoVal.ptr x else x
          reply (showOutcome showObj impl) (specRead nativeF cty cv go) (specRead nativeF cty cv impl)
            (readGuards .get cty cv)
        | none => "error\tbad-field"
      | _, _ => reply (showOutcome showObj impl) (decide (go ≠ .panic)) (decide (impl ≠ .panic)) [.proxyType]
    | _, _, _, _ => "error\tbad-request"
  | ["set", pty, pv, i, o, go] =>
    match parseAll pTy pty, parseAll pVal pv, i.toNat?, parseAll pObj o, parseAll (pOutcome pSetPayload) go with
    | some pty, some pv, some i, some o, some go =>
      let impl := implSet nativeF pty pv i o
      match proxyField pty i with
      | some ft =>
        let rdGuards := match impl with
          | .ok (.ptr (.struct xs'), _) => match xs'.nth i with
            | some x => readGuards .get (fieldConvTy ft) (if isStructKind ft then .ptr x else x)
            | none => []
          | _ => []
        reply (showSet impl) (specSet nativeF pv i ft o go) (specSet nativeF pv i ft o impl)
          (setGuards nativeF ft o ++ (if proxyWf pty pv && pv ≠ .nilv then [] else [.proxyType]) ++ rdGuards)
      | none => "error\tbad-field"
    | _, _, _, _, _ => "error\tbad-request"
  | ["call", pt, o, go] =>
    match parseAll pTy pt, parseAll pObj o, parseAll (pOutcome pCallPayload) go with
    | some pt, some o, some go =>
      let impl := callEcho nativeF pt o
      let rdGuards := match impl with
        | .ok (x, _) => readGuards .get pt x
        | _ => []
      reply (showCall impl) (specCall nativeF pt o go) (specCall nativeF pt o impl)
        (callGuards nativeF pt o ++ rdGuards)
    | _, _, _ => "error\tbad-request"
  | ["calln", pts, os, go] =>
    match parseAll pTy pts, parseAll pObj os, parseAll (pOutcome pCallNPayload) go with
    | some (.struct pts), some (.list os), some go =>
      let impl := callEchoN nativeF pts os
      let rdGuards := match callArgs nativeF pts os with
        | .ok xs => retGuards pts xs
        | _ => []
      reply (showCallN impl) (specCallN nativeF pts os go) (specCallN nativeF pts os impl)
        (callNGuards nativeF pts os ++ rdGuards)
    | _, _, _ => "error\tbad-request"
  | ["seq", m, ty, os, go] =>
    match pMode m, parseAll pTy ty, parseAll pObj os, parseAll (pSeq pVal) go with
    | some m, some ty, some (.list os), some go =>
      let os := objsToList os
      let impl := toSlotSeq nativeF m ty os
      reply (showSeq showVal impl) (specWriteSeq nativeF ty os go) (specWriteSeq nativeF ty os impl)
        (os.map (writeAllGuards nativeF m ty)).flatten
    | _, _, _, _ => "error\tbad-request"
  | ["callseq", pt, os, go] =>
    match parseAll pTy pt, parseAll pObj os, parseAll (pSeq pCallPayload) go with
    | some pt, some (.list os), some go =>
      let os := objsToList os
      let impl := callSeq nativeF pt os
      let rdGuards := (impl.map fun r => match r with
        | .ok (x, _) => readGuards .get pt x
        | _ => []).flatten
      reply (showSeq (fun p => showVal p.1 ++ " " ++ showObj p.2) impl) (specCallSeq nativeF pt os go)
        (specCallSeq nativeF pt os impl) ((os.map (callGuards nativeF pt)).flatten ++ rdGuards)
    | _, _, _ => "error\tbad-request"
  | ["reuse", hist, n, go] =>
    match parseAll pHist hist, n.toNat?, parseAll (pOutcome pObj) go with
    | some hist, some n, some go =>
      let hist := hist.reverse            -- the model takes the latest supply first
      let impl := reuseRead nativeF hist n
      let own := match lastSupplied n hist with
        | some (ty, v) => readGuards .create ty v
        | none => []
      reply (showOutcome showObj impl) (specReuse nativeF hist n go) (specReuse nativeF hist n impl)
        (own ++ heldGuards (held hist)) ++ "\t" ++
        (if hist.all (fun b => hasTy b.2.1 b.2.2) then "typed" else "illtyped")
    | _, _, _ => "error\tbad-request"
  | _ => "error\tunknown-request"

def pEv (s : String) : Option Reg.Ev :=
  if s == "w" then some .work
  else if s.startsWith "u" then (s.drop 1).toNat?.map (fun k => Reg.Ev.use k 0)
  else none

def pSched (s : String) : Option (List Reg.Ev) := (s.splitOn ",").mapM pEv

def handle : List String → String
  | "firstuse" :: sched :: i :: n :: a :: inner =>
    match pSched sched, i.toNat?, n.toNat?, a.toNat? with
    | some evs, some i, some n, some a =>
      -- the type under first use is type 0 with the attributes 0 … n-1
      match Reg.lookup (Reg.run (fun _ => List.range n) Reg.init evs) i a true false with
      | none => "error\tgoroutine-never-served"
      | some true => handleBase inner
      | some false => "error\tviol\tviol\t-"     -- the attribute is "not found"
    | _, _, _, _ => "error\tbad-request"
  | req => handleBase req

end Risor.C08
