import RisorModel.Util
/-! Line-protocol front end of the C08 model (stub until the model exists). -/
namespace Risor.C08

def handle : List String → String
  | _ => "error\tnot-implemented"

end Risor.C08
