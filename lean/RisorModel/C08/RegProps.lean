import RisorModel.C08.Reg
/-!
C08 — first use of a Go type racing with other uses of it: the property theorems.

The property (a Go value crosses the boundary faithfully or is rejected) must hold for EVERY
goroutine that hands a value to a script, also when two evaluations meet at a type risor has never
seen.  The statements quantify over all attribute tables `full`, all schedules (any number of
goroutines, any number of types, any interleaving of lookups and of the describing goroutine's
steps) — no bound.
-/
namespace Risor.C08.Reg

theorem inv_init (full : Nat → List Nat) : Inv full init := by
  refine ⟨?_, ?_⟩
  · intro e he; cases he
  · intro u v h; cases h

theorem inv_work (full : Nat → List Nat) (s : St) (h : Inv full s) : Inv full (workStep s) := by
  obtain ⟨hv, hb⟩ := h
  unfold workStep
  cases hbd : s.building with
  | none => simp only; exact ⟨hv, by rw [hbd]; rw [hbd] at hb; exact hb⟩
  | some b =>
    obtain ⟨i, t, rest⟩ := b
    rw [hbd] at hb
    obtain ⟨⟨v, hreg, hfull⟩, hothers⟩ := hb
    cases rest with
    | nil =>
      simp only
      refine ⟨?_, ?_⟩
      · intro e he
        simp only [List.mem_cons] at he
        rcases he with he | he
        · subst he; simp only [hreg, Option.getD_some]; simpa using hfull
        · exact hv e he
      · intro u w hu
        by_cases hut : u = t
        · subst hut; rw [hreg] at hu; cases hu; simpa using hfull
        · exact hothers u w hut hu
    | cons a rest =>
      simp only
      refine ⟨hv, ⟨v ++ [a], ?_, ?_⟩, ?_⟩
      · simp [setReg, hreg]
      · simpa using hfull
      · intro u w hut hu
        simp only [setReg, hut, if_false] at hu
        exact hothers u w hut hu

theorem inv_step (full : Nat → List Nat) (s : St) (ev : Ev) (h : Inv full s) :
    Inv full (stepLocked full s ev) := by
  cases ev with
  | work => exact inv_work full s h
  | use i t =>
    unfold stepLocked
    cases hbd : s.building with
    | some b => simp only; exact h
    | none =>
      obtain ⟨hv, hb⟩ := h
      rw [hbd] at hb
      simp only
      cases hreg : s.reg t with
      | some v =>
        simp only
        refine ⟨?_, hb⟩
        intro e he
        simp only [List.mem_cons] at he
        rcases he with he | he
        · subst he; exact hb t v hreg
        · exact hv e he
      | none =>
        simp only
        refine ⟨hv, ⟨[], ?_, ?_⟩, ?_⟩
        · simp [setReg]
        · simp
        · intro u w hut hu
          simp only [setReg, hut, if_false] at hu
          exact hb u w hu

theorem inv_run (full : Nat → List Nat) (evs : List Ev) (s : St) (h : Inv full s) :
    Inv full (run full s evs) := by
  induction evs generalizing s with
  | nil => exact h
  | cons ev evs ih => exact ih _ (inv_step full s ev h)

/-- **Every goroutine is handed the complete description.**  For every attribute table, every
schedule of any number of goroutines over any number of types (first uses, later uses, the
describing goroutine's steps, in any interleaving): whatever description a goroutine was handed
by `NewGoType` as it is (lookup under `goTypeMutex`) has ALL attributes of its type. -/
theorem locked_views_complete (full : Nat → List Nat) (evs : List Ev) :
    ∀ e ∈ (run full init evs).views, e.2.2 = full e.2.1 :=
  (inv_run full evs init (inv_init full)).1

/-- the same for the description goroutine `i` was handed first -/
theorem first_view_complete (full : Nat → List Nat) (evs : List Ev) (i t : Nat) (v : List Nat)
    (h : viewOf (run full init evs) i = some (t, v)) : v = full t := by
  unfold viewOf at h
  split at h
  · rename_i e he
    have hm := List.mem_of_find?_eq_some he
    have := locked_views_complete full evs e (by simpa using hm)
    have h2 : e.2 = (t, v) := by injection h
    rw [h2] at this
    exact this
  · cases h

/-- **A concurrent first use is a plain use.**  In every schedule, a goroutine that was served
finds every attribute its type has: its field read / method call is the one of a sequential use
(`found`: `Model.getAttr`, `callEcho`), never "attribute not found". -/
theorem C08_first_use_is_plain_use {α : Type} (full : Nat → List Nat) (evs : List Ev) (i t a : Nat)
    (v : List Nat) (found missing : α)
    (hserved : viewOf (run full init evs) i = some (t, v)) (ha : a ∈ full t) :
    lookup (run full init evs) i a found missing = some found := by
  have hv := first_view_complete full evs i t v hserved
  unfold lookup
  rw [hserved]
  simp only
  have : v.contains a = true := by
    rw [hv]; simpa using ha
  rw [this]; rfl

/-- and every registered description is complete whenever nobody is inside `newGoType` -/
theorem registry_complete_when_idle (full : Nat → List Nat) (evs : List Ev) (u : Nat) (v : List Nat)
    (hidle : (run full init evs).building = none) (h : (run full init evs).reg u = some v) :
    v = full u := by
  have hi := (inv_run full evs init (inv_init full)).2
  rw [hidle] at hi
  exact hi u v h

/-! ### non-vacuity: goroutines do get served, also when they arrive in the middle -/

/-- type 7 has three attributes -/
def full3 : Nat → List Nat := fun t => if t = 7 then [0, 1, 2] else []

/-- goroutine 0 starts describing type 7, goroutine 1 arrives after the first attribute (and
waits), the description is completed, goroutine 1 asks again -/
def midSchedule : List Ev := [.use 0 7, .work, .use 1 7, .work, .work, .work, .use 1 7]

example : viewOf (run full3 init midSchedule) 0 = some (7, [0, 1, 2]) := by decide
example : viewOf (run full3 init midSchedule) 1 = some (7, [0, 1, 2]) := by decide
example : lookup (run full3 init midSchedule) 1 2 "value" "not found" = some "value" := by decide

/-! ### the contrast: a lock-free fast path in front of the mutex -/

/-- the full statement for the fast-path registry -/
def fast_views_complete : Prop :=
  ∀ (full : Nat → List Nat) (evs : List Ev), ∀ e ∈ (runFast full init evs).views, e.2.2 = full e.2.1

/-- With the fast path goroutine 1, arriving after the first attribute, is handed a description
with one of three attributes … -/
theorem fast_hands_out_half_built :
    viewOf (runFast full3 init midSchedule) 1 = some (7, [0]) := by decide

/-- … so the Go value it passes to its script has "no attribute" 2 although its type has one,
while goroutine 0 reads the same field of the same value faithfully -/
theorem fast_lookup_fails :
    lookup (runFast full3 init midSchedule) 1 2 "value" "not found" = some "not found" ∧
    lookup (runFast full3 init midSchedule) 0 2 "value" "not found" = some "value" := by decide

theorem fast_counterexample : ¬ fast_views_complete := by
  intro h
  have := h full3 midSchedule (1, 7, [0]) (by decide)
  revert this
  decide

/-- sequentially (no lookup while somebody is inside `newGoType`) the fast path returns what the
locked path returns — why no sequential test tells the two apart: one step of each from a state
in which nobody is building gives the same state -/
theorem fast_eq_locked_when_idle (full : Nat → List Nat) (s : St) (ev : Ev) (h : s.building = none) :
    stepFast full s ev = stepLocked full s ev := by
  cases ev with
  | work => rfl
  | use i t =>
    unfold stepFast stepLocked
    rw [h]
    cases hr : s.reg t <;> simp [hr]

end Risor.C08.Reg
