import RisorModel.C14.Model
import RisorModel.Generated.C14
/-!
C14 ties: the facts regenerated from the sources on this run (extract/c14.go) equal the
hand-written expectations the model in `Model.lean` was transcribed from, and satisfy the
side conditions of the theorems in `Props.lean`.
-/
namespace Risor.C14
open Risor.Generated.C14

/-- the regular expressions the recogniser `matchesPathRegex` / `isIdent` transcribe -/
def expectedRegexes : List String :=
  ["^([a-zA-Z_][a-zA-Z0-9_]*)(\\/[a-zA-Z_][a-zA-Z0-9_]*)*$", "^[a-zA-Z_][a-zA-Z0-9_]*$"]

/-- E11: `validateImportPath` still uses exactly these regular expressions -/
theorem import_regex_matches : importPathRegexes = expectedRegexes := by decide

/-- the only rewriting before the match is `strings.Trim(path, "\"")` (`trimQuotes`) -/
theorem path_rewrites_tie : pathRewrites = ["strings.Trim \""] := by decide

/-- both import statements still validate their path (one call each) -/
theorem validate_calls_tie : validateCalls = 2 := by decide

/-- the extensions the importers try contain no '/' (hypothesis `47 ∉ ext` of
    `valid_import_confined`), for the importer's default and for `WithLocalImporter` -/
theorem extensions_sepfree : ∀ e ∈ defaultExtensions ++ configExtensions, 47 ∉ e := by decide

/-- every extension the importers try starts with '.' (hypothesis `dottedExt` of
    `accepted_names_resolve_injectively`, `same_file_same_module`, `import_runs_once_per_file`:
    together with `accepted_names_dotfree` it makes `name ++ ext` split in one way only) -/
theorem extensions_dotted : ∀ e ∈ defaultExtensions ++ configExtensions, dottedExt e = true := by decide

/-- and they are the lists the correspondence harness runs the model with -/
theorem extensions_tie :
    defaultExtensions = [[46, 114, 105, 115, 111, 114], [46, 114, 115, 114]] ∧
    configExtensions = defaultExtensions := by decide

/-- the file name expressions `fileName` (LocalImporter) and `name ++ ext` (FSImporter) transcribe -/
theorem file_expr_tie :
    localFileExpr = "filepath.Join(dir, name + ext)" ∧ fsFileExpr = "name + ext" := by decide

/-- `vm.MaxFrameDepth`, the `Env.limit` the harness runs the model with -/
theorem frame_limit_tie : maxFrameDepth = 1024 := by decide

/-- `vm.importModule` looks the module up and stores it under the requested name, and hands
    that same name to the importer -/
theorem module_cache_key_tie :
    moduleCacheLookupKeys = ["name"] ∧ moduleCacheStoreKeys = ["name"] ∧ importerArgs = ["name"] := by decide

/-- `op.FromImport` asks for `parent/name`, then for `parent` (`requestedNames`, `fromLoop`) -/
theorem from_import_names_tie :
    fromImportNames = ["filepath.Join(filepath.Join(from...), name)", "filepath.Join(from...)"] := by decide

/-- `compileImport` loads the validated path text itself as the module name -/
theorem compile_import_name_tie : compileImportName = "node.Path().Value()" := by decide

/-- the code object an importer hands out is the one its BY-NAME cache holds or the result of a
    fresh `parseAndCompile` of that module's file — nothing else (the model's `LocalImporter`:
    `Env.reuse = none`, hypothesis of `importer_distinct_paths_distinct_code`) -/
theorem importer_code_sources_tie :
    localImporterCodeSources = ["i.codeCache[name]", "parseAndCompile(ctx, source, fullPath, i.globalNames)"] ∧
    fsImporterCodeSources = localImporterCodeSources := by decide

end Risor.C14
