import RisorModel.C14.Model
import RisorModel.Generated.C14
/-!
C14 ties: the facts regenerated from the sources on this run (extract/c14.go) equal the
hand-written expectations the model in `Model.lean` was transcribed from, and satisfy the
side conditions of the theorems in `Props.lean`.
-/
namespace Risor.C14
open Risor.Generated.C14

/-- the regular expressions the recogniser `matchesPathRegex` / `isIdent` transcribe -/
def expectedRegexes : List String :=
  ["^([a-zA-Z_][a-zA-Z0-9_]*)(\\/[a-zA-Z_][a-zA-Z0-9_]*)*$", "^[a-zA-Z_][a-zA-Z0-9_]*$"]

/-- E11: `validateImportPath` still uses exactly these regular expressions -/
theorem import_regex_matches : importPathRegexes = expectedRegexes := by decide

/-- the only rewriting before the match is `strings.Trim(path, "\"")` (`trimQuotes`) -/
theorem path_rewrites_tie : pathRewrites = ["strings.Trim \""] := by decide

/-- both import statements still validate their path (one call each) -/
theorem validate_calls_tie : validateCalls = 2 := by decide

/-- the extensions the importers try contain no '/' (hypothesis `47 ∉ ext` of
    `valid_import_confined`), for the importer's default and for `WithLocalImporter` -/
theorem extensions_sepfree : ∀ e ∈ defaultExtensions ++ configExtensions, 47 ∉ e := by decide

/-- every extension the importers try starts with '.' (hypothesis `dottedExt` of
    `accepted_names_resolve_injectively`, `same_file_same_module`, `import_runs_once_per_file`:
    together with `accepted_names_dotfree` it makes `name ++ ext` split in one way only) -/
theorem extensions_dotted : ∀ e ∈ defaultExtensions ++ configExtensions, dottedExt e = true := by decide

/-- and they are the lists the correspondence harness runs the model with -/
theorem extensions_tie :
    defaultExtensions = [[46, 114, 105, 115, 111, 114], [46, 114, 115, 114]] ∧
    configExtensions = defaultExtensions := by decide

/-- the file name expressions `fileName` (LocalImporter) and `name ++ ext` (FSImporter) transcribe -/
theorem file_expr_tie :
    localFileExpr = "filepath.Join(dir, name + ext)" ∧ fsFileExpr = "name + ext" := by decide

/-- `vm.MaxFrameDepth`, the `Env.limit` the harness runs the model with -/
theorem frame_limit_tie : maxFrameDepth = 1024 := by decide

/-- `vm.importModule` looks the module up and stores it under the requested name, and hands
    that same name to the importer -/
theorem module_cache_key_tie :
    moduleCacheLookupKeys = ["name"] ∧ moduleCacheStoreKeys = ["name"] ∧ importerArgs = ["name"] := by decide

/-- the steps of the repaired `vm.importModule` in source order, as `C14.importModule` has them:
    cache lookup, then the cyclic-import guard BEFORE the importer is called (a refused import
    opens no file), the module pushed on `vm.importing` before its code is evaluated, after it the
    module object the importer returned is bound to the globals of the code THIS VM loaded
    (`St.enter` records the binding `(name, gid)`; `St.rebind` in `importModuleMC`), then the store
    into `vm.modules` -/
theorem import_module_steps_tie :
    importModuleSteps = ["lookup", "cyclic-guard", "importer.Import", "push", "eval",
      "bind module.UseGlobals(code.Globals)", "store"] := by decide

/-- the guard: a module found in `vm.importing` is refused with an import error (`St.refuse`,
    outcome `.err`) -/
theorem cyclic_import_guard_tie :
    cyclicImportGuard = ["range vm.importing", "if importing == name",
      "return nil, fmt.Errorf(\"import error: cyclic import of module %q\", name)"] := by decide

/-- `vm.importing` is written in two places only, both in `importModule`: the push (`St.enter`)
    and the pop of the deferred restore (`St.leave`); `vm.Clone` builds its struct literal
    without the field (a clone starts with nothing being imported: `execStmt` `.spawnImp`) -/
theorem importing_writes_tie :
    importingWrites = ["vm.importing = append(vm.importing, name)",
      "vm.importing = vm.importing[:len(vm.importing)-1]"] := by decide

/-- the deferred frame restore of `importModule`: pop `vm.importing`, resume the importer's
    frame, then drop everything above the importer's stack pointer — on success and on failure
    (why `IRes` carries no residue and `fromLoop` pushes exactly one value per name) -/
theorem import_restore_tie :
    importDeferredRestore = ["vm.importing = vm.importing[:len(vm.importing)-1]",
      "vm.resumeFrame(baseFP, baseIP, baseSP)", "for vm.sp > baseSP { vm.pop() }"] := by decide

/-- `op.FromImport` asks for `parent/name`, then for `parent` (`requestedNames`, `fromLoop`) -/
theorem from_import_names_tie :
    fromImportNames = ["filepath.Join(filepath.Join(from...), name)", "filepath.Join(from...)"] := by decide

/-- `compileImport` loads the validated path text itself as the module name -/
theorem compile_import_name_tie : compileImportName = "node.Path().Value()" := by decide

/-- the code object an importer hands out is the one its BY-NAME cache holds or the result of a
    fresh `parseAndCompile` of that module's file — nothing else (the model's `LocalImporter`:
    `Env.reuse = none`, hypothesis of `importer_distinct_paths_distinct_code`) -/
theorem importer_code_sources_tie :
    localImporterCodeSources = ["i.codeCache[name]", "parseAndCompile(ctx, source, fullPath, i.globalNames)"] ∧
    fsImporterCodeSources = localImporterCodeSources := by decide

/-- **the module object an importer hands out is a NEW one on every successful `Import` call**
    (`object.NewModule(name, code)` on the cache-hit path and on the compile path, of both
    importers; `NewModule` returns a fresh composite literal) and the importers cache nothing but
    compiled code: the model's `St.enter` appends a new object per body run — the hypothesis the
    session theorems (`module_objects_never_rebound`, `module_views_agree`,
    `evaluations_share_nothing`, `other_evaluations_untouched`) rest on;
    `fresh_module_objects_needed` is what happens otherwise -/
theorem importer_module_sources_tie :
    localImporterModuleSources = ["object.NewModule(name, code)", "object.NewModule(name, code)"] ∧
    fsImporterModuleSources = localImporterModuleSources ∧
    newModuleReturns = ["&Module{...}"] ∧
    localImporterCaches = ["codeCache map[string]*compiler.Code"] ∧ fsImporterCaches = localImporterCaches := by
  decide

/-- `Module.UseGlobals` makes the module object read the slice it is given (the attribute view,
    `St.attrArray`), and a function call runs on the code the CALLING VM has loaded for the
    function's code (`vm.loadCode(fn.Code())`: the function view, `St.fnArray`) -/
theorem module_views_tie :
    useGlobalsStmts = ["if len(globals) != len(m.globals) { panic }", "m.globals = globals"] ∧
    activateFunctionLoads = ["vm.loadCode(fn.Code())"] := by decide

end Risor.C14
