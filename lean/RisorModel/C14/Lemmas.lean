import RisorModel.C14.Model
import RisorModel.C13.Props
/-!
Helper lemmas for C14.

Part B first: a generic "every step of the import machinery respects the relation R"
theorem (`execStmts_rel`, `importModule_rel`) that the invariants of `Props.lean` instantiate.
-/
namespace Risor.C14
open Risor.C13 (Path split joinSep cleanStr join2 isAbs)

/-! ## Part B: relational induction over the state machine -/

/-- what a relation between the state before and after must satisfy at statement level -/
structure RelOK (R : St → St → Prop) : Prop where
  refl : ∀ st, R st st
  trans : ∀ {a b c}, R a b → R b c → R a c
  store : ∀ st g k v, R st (st.store g k v)
  spawn : ∀ st st1 : St, R { st with spawns := st.spawns + 1, importing := [] } st1 →
    R st { st1 with cache := st.cache, loaded := st.loaded, importing := st.importing }

variable {R : St → St → Prop}

theorem bindItems_rel (hR : RelOK R) (all : List (Path × Path)) (g : Nat) :
    ∀ (items : List (Path × Path)) (ps : List Val) (st : St),
      R st (bindItems all g items ps st).1 := by
  intro items
  induction items with
  | nil => intro ps st; simp only [bindItems]; exact hR.refl st
  | cons it rest ih =>
    intro ps st
    cases ps with
    | nil => simp only [bindItems]; exact hR.refl st
    | cons v ps =>
      obtain ⟨nm, al⟩ := it
      simp only [bindItems]
      exact hR.trans (hR.store st g _ v) (ih ps _)

theorem fromOne_rel (hR : RelOK R) (imp : ImpFn) (himp : ∀ d st n, R st (imp d st n).2)
    (env : Env) (depth : Nat) (parent nm : Path) (st : St) :
    R st (fromOne imp env depth parent nm st).2 := by
  simp only [fromOne]
  have h1 := himp depth st (parent ++ 47 :: nm)
  split
  · exact h1
  · exact h1
  · have h2 := himp depth (imp depth st (parent ++ 47 :: nm)).2 parent
    split
    · split
      · exact hR.trans h1 h2
      · exact hR.trans h1 h2
    · exact hR.trans h1 h2

theorem fromLoop_rel (hR : RelOK R) (imp : ImpFn) (himp : ∀ d st n, R st (imp d st n).2)
    (env : Env) (depth : Nat) (parent : Path) :
    ∀ (names : List Path) (st : St) (ps : List Val),
      R st (fromLoop imp env depth parent names st ps).2 := by
  intro names
  induction names with
  | nil => intro st ps; simp only [fromLoop]; exact hR.refl st
  | cons nm rest ih =>
    intro st ps
    simp only [fromLoop]
    have h1 := fromOne_rel hR imp himp env depth parent nm st
    split
    · exact hR.trans h1 (ih _ _)
    · exact h1

theorem execStmt_rel (hR : RelOK R) (imp : ImpFn) (himp : ∀ d st n, R st (imp d st n).2)
    (env : Env) (g depth : Nat) (st : St) (s : Stmt) :
    R st (execStmt imp env g depth st s).2 := by
  cases s with
  | imp name alias =>
    simp only [execStmt]
    split
    · exact hR.trans (himp depth st name) (hR.store _ g alias _)
    · exact himp depth st name
  | fromImp parent items =>
    simp only [execStmt]
    have hl := fromLoop_rel hR imp himp env depth parent (items.map (·.1)).reverse st []
    split
    · exact hR.trans hl (bindItems_rel hR items g items _ _)
    · exact hl
  | set var val => simp only [execStmt]; exact hR.store st g var _
  | setVia alias var val =>
    simp only [execStmt]
    split
    · split
      · exact hR.store st _ var _
      · exact hR.refl st
    · exact hR.refl st
  | addVia alias var k =>
    simp only [execStmt]
    split
    · split
      · split
        · exact hR.store st _ var _
        · exact hR.refl st
      · exact hR.refl st
    · exact hR.refl st
  | newList var => simp only [execStmt]; exact hR.store st g var _
  | pushVia alias var v =>
    simp only [execStmt]
    split
    · split
      · split
        · exact hR.store st _ var _
        · exact hR.refl st
      · exact hR.refl st
    · exact hR.refl st
  | tryImp name =>
    simp only [execStmt]
    split
    · exact hR.refl st
    · split <;> exact himp (depth + 1) st name
  | spawnImp name =>
    simp only [execStmt]
    have h := hR.spawn st _ (himp 1 { st with spawns := st.spawns + 1, importing := [] } name)
    split <;> exact h
  | fail => simp only [execStmt]; exact hR.refl st

theorem execStmts_rel (hR : RelOK R) (imp : ImpFn) (himp : ∀ d st n, R st (imp d st n).2)
    (env : Env) (g depth : Nat) :
    ∀ (ss : List Stmt) (st : St), R st (execStmts imp env g depth ss st).2 := by
  intro ss
  induction ss with
  | nil => intro st; simp only [execStmts]; exact hR.refl st
  | cons s rest ih =>
    intro st
    simp only [execStmts]
    have h := execStmt_rel hR imp himp env g depth st s
    split
    · exact hR.trans h (ih _)
    · exact h

/-- what a relation must satisfy at the steps of `vm.importModule` (for the importer
    configured in `env`) -/
structure ImpOK (env : Env) (R : St → St → Prop) : Prop where
  rel : RelOK R
  nofuel : ∀ (st : St) name, R st (({ st with nofuel := true } : St).fail name)
  refuse : ∀ (st : St) name, R st (st.refuse name)
  opens : ∀ (st : St) name, R st (st.noteOpens env name)
  compiled : ∀ (st : St) name, R st (st.noteCompiled env name)
  load : ∀ (st : St) c, R st (st.loadCode c)
  overflow : ∀ (st : St) name, R st (st.fail name)
  /-- the body: entered from `st3` (where `name` is neither cached nor being imported, the
      importer returned the code object `c` for it and that code is loaded with the globals
      array `gid`), evaluated, left, then cached -/
  bodyOk : ∀ (st3 st5 : St) name gid, st3.cache.lookup name = none → name ∉ st3.importing →
    (∃ c, (name, c) ∈ st3.compiled ∧ (c, gid) ∈ st3.loaded) →
    R (st3.enter name gid) st5 →
    R st3 (st5.leave.cacheAdd name st3.objs.length)
  bodyFail : ∀ (st3 st5 : St) name gid, st3.cache.lookup name = none → name ∉ st3.importing →
    (∃ c, (name, c) ∈ st3.compiled ∧ (c, gid) ∈ st3.loaded) →
    R (st3.enter name gid) st5 →
    R st3 (st5.leave.fail name)

theorem noteOpens_cache (st : St) (env : Env) (n : Path) : (st.noteOpens env n).cache = st.cache := by
  unfold St.noteOpens; split <;> rfl
theorem noteCompiled_cache (st : St) (env : Env) (n : Path) : (st.noteCompiled env n).cache = st.cache := by
  unfold St.noteCompiled; split
  · rfl
  · split <;> rfl
theorem loadCode_cache (st : St) (c : Nat) : (st.loadCode c).cache = st.cache := by
  unfold St.loadCode; split <;> rfl
theorem loadCode_compiled (st : St) (c : Nat) : (st.loadCode c).compiled = st.compiled := by
  unfold St.loadCode; split <;> rfl
theorem noteOpens_importing (st : St) (env : Env) (n : Path) : (st.noteOpens env n).importing = st.importing := by
  unfold St.noteOpens; split <;> rfl
theorem noteCompiled_importing (st : St) (env : Env) (n : Path) :
    (st.noteCompiled env n).importing = st.importing := by
  unfold St.noteCompiled; split
  · rfl
  · split <;> rfl
theorem loadCode_importing (st : St) (c : Nat) : (st.loadCode c).importing = st.importing := by
  unfold St.loadCode; split <;> rfl

theorem lookup_mem {κ α : Type} [BEq κ] [LawfulBEq κ] (l : List (κ × α)) (k : κ) (v : α)
    (h : l.lookup k = some v) : (k, v) ∈ l := by
  induction l with
  | nil => simp [List.lookup] at h
  | cons p t ih =>
    obtain ⟨k', v'⟩ := p
    simp only [List.lookup] at h
    split at h
    · rename_i heq
      have : k = k' := by simpa using heq
      simp only [Option.some.injEq] at h
      subst this; subst h; simp
    · exact List.mem_cons_of_mem _ (ih h)

theorem loadCode_mem (st : St) (c : Nat) : (c, st.gidOf c) ∈ (st.loadCode c).loaded := by
  unfold St.loadCode St.gidOf
  split
  · rename_i g hg
    simp only [hg, Option.getD_some]
    exact lookup_mem _ _ _ hg
  · rename_i hg
    simp [hg]

/-- after `importer.Import(name)` compiled (or found) the module, the code object it returns
    is the one its by-name cache holds -/
theorem noteCompiled_mem (st : St) (env : Env) (n : Path) :
    (n, (st.noteCompiled env n).codeOf n) ∈ (st.noteCompiled env n).compiled := by
  unfold St.noteCompiled
  split
  · rename_i c hc
    simp only [St.codeOf, hc, Option.getD_some]
    exact lookup_mem _ _ _ hc
  · split <;> simp [St.codeOf, List.lookup]

theorem importModule_rel {R : St → St → Prop} (env : Env) (hR : ImpOK env R) :
    ∀ (fuel : Nat) (depth : Nat) (st : St) (name : Path),
      R st (importModule env fuel depth st name).2 := by
  intro fuel
  induction fuel with
  | zero => intro depth st name; simp only [importModule]; exact hR.nofuel st name
  | succ fuel ih =>
    intro depth st name
    have hrel := hR.rel
    simp only [importModule]
    split
    · exact hrel.refl st
    · rename_i hmiss
      split
      · exact hR.refuse st name
      · rename_i hnotin
        have hni : name ∉ st.importing := by simpa using hnotin
        have h1 := hR.opens st name
        split
        · exact h1
        · rename_i body hbody
          have h2 := hR.compiled (st.noteOpens env name) name
          have h3 := hR.load ((st.noteOpens env name).noteCompiled env name)
            (((st.noteOpens env name).noteCompiled env name).codeOf name)
          have h13 := hrel.trans h1 (hrel.trans h2 h3)
          split
          · exact hrel.trans h13 (hR.overflow _ name)
          · have hc : (((st.noteOpens env name).noteCompiled env name).loadCode
                (((st.noteOpens env name).noteCompiled env name).codeOf name)).cache.lookup name = none := by
              rw [loadCode_cache, noteCompiled_cache, noteOpens_cache]; exact hmiss
            have hi : name ∉ (((st.noteOpens env name).noteCompiled env name).loadCode
                (((st.noteOpens env name).noteCompiled env name).codeOf name)).importing := by
              rw [loadCode_importing, noteCompiled_importing, noteOpens_importing]; exact hni
            have hm : ∃ c, (name, c) ∈ (((st.noteOpens env name).noteCompiled env name).loadCode
                  (((st.noteOpens env name).noteCompiled env name).codeOf name)).compiled ∧
                (c, ((st.noteOpens env name).noteCompiled env name).gidOf
                  (((st.noteOpens env name).noteCompiled env name).codeOf name)) ∈
                (((st.noteOpens env name).noteCompiled env name).loadCode
                  (((st.noteOpens env name).noteCompiled env name).codeOf name)).loaded :=
              ⟨_, by rw [loadCode_compiled]; exact noteCompiled_mem _ env name, loadCode_mem _ _⟩
            have hb := execStmts_rel hR.rel (importModule env fuel)
              (fun d s n => ih d s n) env
              (((st.noteOpens env name).noteCompiled env name).gidOf
                (((st.noteOpens env name).noteCompiled env name).codeOf name)) (depth + 1) body
              ((((st.noteOpens env name).noteCompiled env name).loadCode
                (((st.noteOpens env name).noteCompiled env name).codeOf name)).enter name
                (((st.noteOpens env name).noteCompiled env name).gidOf
                  (((st.noteOpens env name).noteCompiled env name).codeOf name)))
            split
            · exact hrel.trans h13 (hR.bodyOk _ _ name _ hc hi hm hb)
            · exact hrel.trans h13 (hR.bodyFail _ _ name _ hc hi hm hb)

/-- a whole evaluation: the script's statements with the real import function -/
theorem run_rel {R : St → St → Prop} (env : Env) (hR : ImpOK env R) (fuel : Nat)
    (main : List Stmt) : R St.init (run env fuel main).2 := by
  unfold run
  exact execStmts_rel hR.rel _ (fun d s n => importModule_rel env hR fuel d s n) env 0 0 main St.init

end Risor.C14

namespace Risor.C14
open Risor.C13 (Path)

/-! ### Instance 1: run-once.  Every executed body is cached or is being imported. -/

def J (st : St) : Prop :=
  (∀ n ∈ st.ticks, n ∈ st.cache.map (·.1) ∨ n ∈ st.importing) ∧ st.ticks.Nodup

/-- `vm.importing` is a stack (every step leaves it as it found it), the guard is monotone, and
    under the guard the invariant `J` is kept -/
def R2 (st st' : St) : Prop :=
  st'.importing = st.importing ∧ (Clean st' → Clean st) ∧ (Clean st' → J st → J st')

theorem lookup_none_not_mem {α : Type} (l : List (Path × α)) (k : Path) (h : l.lookup k = none) :
    k ∉ l.map (·.1) := by
  induction l with
  | nil => simp
  | cons p t ih =>
    obtain ⟨k', v'⟩ := p
    simp only [List.lookup] at h
    split at h
    · cases h
    · rename_i hne
      have hk : k ≠ k' := by simpa using hne
      simp only [List.map_cons, List.mem_cons, not_or]
      exact ⟨hk, ih h⟩

theorem not_clean_fail (st : St) (n : Path) : ¬ Clean (st.fail n) := by
  intro h
  have := h.1
  simp [St.fail] at this

theorem R2_relOK : RelOK R2 where
  refl := fun _ => ⟨rfl, fun h => h, fun _ h => h⟩
  trans := fun h1 h2 => ⟨h2.1.trans h1.1, fun hc => h1.2.1 (h2.2.1 hc),
    fun hc hj => h2.2.2 hc (h1.2.2 (h2.2.1 hc) hj)⟩
  store := fun _ _ _ _ => ⟨rfl, fun h => h, fun _ h => h⟩
  spawn := by
    intro st st1 h
    have hfalse : Clean { st1 with cache := st.cache, loaded := st.loaded, importing := st.importing } → False := by
      intro hc
      have := (h.2.1 hc).2
      simp at this
    exact ⟨rfl, fun hc => (hfalse hc).elim, fun hc => (hfalse hc).elim⟩

theorem R2_impOK (env : Env) : ImpOK env R2 where
  rel := R2_relOK
  nofuel := fun st n => ⟨rfl, fun h => (not_clean_fail _ n h).elim, fun h => (not_clean_fail _ n h).elim⟩
  refuse := fun _ _ => ⟨rfl, fun h => h, fun _ h => h⟩
  opens := by
    intro st n
    unfold St.noteOpens
    split
    · exact ⟨rfl, fun h => h, fun _ h => h⟩
    · exact ⟨rfl, fun h => h, fun _ h => h⟩
  compiled := by
    intro st n
    unfold St.noteCompiled
    split
    · exact ⟨rfl, fun h => h, fun _ h => h⟩
    · split
      · exact ⟨rfl, fun h => h, fun _ h => h⟩
      · exact ⟨rfl, fun h => h, fun _ h => h⟩
  load := by
    intro st n
    unfold St.loadCode
    split
    · exact ⟨rfl, fun h => h, fun _ h => h⟩
    · exact ⟨rfl, fun h => h, fun _ h => h⟩
  overflow := fun st n => ⟨rfl, fun h => (not_clean_fail _ n h).elim, fun h => (not_clean_fail _ n h).elim⟩
  bodyFail := by
    intro st3 st5 n gid _ _ _ hb
    refine ⟨?_, fun h => (not_clean_fail _ n h).elim, fun h => (not_clean_fail _ n h).elim⟩
    show st5.importing.tail = st3.importing
    rw [hb.1]; rfl
  bodyOk := by
    intro st3 st5 name gid hmiss hni _ hb
    have himp5 : st5.importing = name :: st3.importing := hb.1
    have hc4 : Clean (st5.leave.cacheAdd name st3.objs.length) → Clean (st3.enter name gid) := fun hc => hb.2.1 hc
    have hc3 : Clean (st3.enter name gid) → Clean st3 := fun hc => hc
    refine ⟨?_, fun hc => hc3 (hc4 hc), ?_⟩
    · show st5.importing.tail = st3.importing
      rw [himp5]; rfl
    intro hc hj
    have hcE := hc4 hc
    have hnc : name ∉ st3.cache.map (·.1) := lookup_none_not_mem _ _ hmiss
    have hnt : name ∉ st3.ticks := by
      intro hin
      rcases hj.1 name hin with h | h
      · exact hnc h
      · exact hni h
    have hjE : J (st3.enter name gid) := by
      refine ⟨?_, ?_⟩
      · intro n hin
        simp only [St.enter, List.mem_append, List.mem_singleton] at hin
        rcases hin with hin | rfl
        · rcases hj.1 n hin with h | h
          · exact Or.inl h
          · exact Or.inr (List.mem_cons_of_mem _ h)
        · exact Or.inr (by simp [St.enter])
      · simp only [St.enter]
        rw [List.nodup_append]
        refine ⟨hj.2, by simp, ?_⟩
        intro a ha b hb'
        simp only [List.mem_singleton] at hb'
        subst hb'
        intro e; subst e; exact hnt ha
    have hj5 := hb.2.2 hc hjE
    refine ⟨?_, hj5.2⟩
    intro n hin
    have hin5 : n ∈ st5.ticks := hin
    rcases hj5.1 n hin5 with h | h
    · left; simp only [St.cacheAdd, St.leave, List.map_cons, List.mem_cons]; exact Or.inr h
    · rw [himp5] at h
      simp only [List.mem_cons] at h
      rcases h with rfl | h
      · left; simp [St.cacheAdd]
      · right
        show n ∈ st5.importing.tail
        rw [himp5]; exact h

/-! ### Instance 2: every globals array belongs to one code object; objects = body runs. -/

/-- globals-array ownership (the VM's side, whatever the importer does): arrays created by
    `loadCode` are never the script's (index 0) and exist, no array serves two code objects,
    every loaded code is recorded, and the array of every module object is the array of the
    code object the importer returned for the module's name -/
def K (st : St) : Prop :=
  (∀ p ∈ st.owner, 0 < p.2 ∧ p.2 < st.heap.length) ∧
  (∀ p ∈ st.owner, ∀ q ∈ st.owner, p.2 = q.2 → p.1 = q.1) ∧
  (∀ p ∈ st.loaded, p ∈ st.owner) ∧
  (∀ o ∈ st.objs, ∃ c, (o.1, c) ∈ st.compiled ∧ (c, o.2) ∈ st.owner) ∧
  0 < st.heap.length

/-- one module object per body execution, in the same order -/
def OT (st : St) : Prop := st.objs.map (·.1) = st.ticks

def R3 (st st' : St) : Prop :=
  (∀ p ∈ st.owner, p ∈ st'.owner) ∧ (K st → K st') ∧ (OT st → OT st')

theorem length_modifyAt {α : Type} (f : α → α) (n : Nat) (l : List α) :
    (modifyAt f n l).length = l.length := by
  induction l generalizing n with
  | nil => cases n <;> rfl
  | cons x xs ih => cases n <;> simp [modifyAt, ih]

theorem K_store (st : St) (g : Nat) (k : Path) (v : Val) (h : K st) : K (st.store g k v) := by
  obtain ⟨h1, h2, h3, h4, h5⟩ := h
  refine ⟨?_, h2, h3, h4, ?_⟩
  · intro p hp
    have := h1 p hp
    simpa [St.store, length_modifyAt] using this
  · simpa [St.store, length_modifyAt] using h5

theorem K_noteCompiled (st : St) (env : Env) (n : Path) (h : K st) : K (st.noteCompiled env n) := by
  obtain ⟨h1, h2, h3, h4, h5⟩ := h
  unfold St.noteCompiled
  split
  · exact ⟨h1, h2, h3, h4, h5⟩
  · split
    · refine ⟨h1, h2, h3, ?_, h5⟩
      intro o ho
      obtain ⟨c, hc1, hc2⟩ := h4 o ho
      exact ⟨c, List.mem_cons_of_mem _ hc1, hc2⟩
    · refine ⟨h1, h2, h3, ?_, h5⟩
      intro o ho
      obtain ⟨c, hc1, hc2⟩ := h4 o ho
      exact ⟨c, List.mem_cons_of_mem _ hc1, hc2⟩

theorem K_loadCode (st : St) (c : Nat) (h : K st) : K (st.loadCode c) := by
  unfold St.loadCode
  split
  · exact h
  · obtain ⟨h1, h2, h3, h4, h5⟩ := h
    refine ⟨?_, ?_, ?_, ?_, ?_⟩
    · intro p hp
      simp only [List.mem_cons, List.length_append, List.length_cons, List.length_nil] at hp ⊢
      rcases hp with rfl | hp
      · simp only; omega
      · have := h1 p hp; omega
    · intro p hp q hq hpq
      simp only [List.mem_cons] at hp hq
      rcases hp with rfl | hp <;> rcases hq with rfl | hq
      · rfl
      · have := (h1 q hq).2; simp only at hpq; omega
      · have := (h1 p hp).2; simp only at hpq; omega
      · exact h2 p hp q hq hpq
    · intro p hp
      simp only [List.mem_cons] at hp ⊢
      rcases hp with rfl | hp
      · exact Or.inl rfl
      · exact Or.inr (h3 p hp)
    · intro o ho
      obtain ⟨c', hc1, hc2⟩ := h4 o ho
      exact ⟨c', hc1, List.mem_cons_of_mem _ hc2⟩
    · simp only [List.length_append]; omega

theorem K_enter (st : St) (n : Path) (g : Nat)
    (hm : ∃ c, (n, c) ∈ st.compiled ∧ (c, g) ∈ st.loaded) (h : K st) :
    K (st.enter n g) := by
  obtain ⟨h1, h2, h3, h4, h5⟩ := h
  refine ⟨h1, h2, h3, ?_, h5⟩
  intro o ho
  simp only [St.enter, List.mem_append, List.mem_singleton] at ho
  rcases ho with ho | rfl
  · exact h4 o ho
  · obtain ⟨c, hc1, hc2⟩ := hm
    exact ⟨c, hc1, h3 _ hc2⟩

theorem R3_relOK : RelOK R3 where
  refl := fun _ => ⟨fun _ h => h, fun h => h, fun h => h⟩
  trans := fun h1 h2 => ⟨fun p hp => h2.1 p (h1.1 p hp), fun h => h2.2.1 (h1.2.1 h), fun h => h2.2.2 (h1.2.2 h)⟩
  store := fun st g k v => ⟨fun _ h => h, K_store st g k v, fun h => h⟩
  spawn := by
    intro st st1 h
    refine ⟨fun p hp => h.1 p hp, ?_, fun ho => h.2.2 ho⟩
    intro hk
    obtain ⟨k1, k2, k3, k4, k5⟩ := h.2.1 hk
    exact ⟨k1, k2, fun p hp => h.1 p (hk.2.2.1 p hp), k4, k5⟩

theorem R3_impOK (env : Env) : ImpOK env R3 where
  rel := R3_relOK
  nofuel := fun _ _ => ⟨fun _ h => h, fun h => h, fun h => h⟩
  refuse := fun _ _ => ⟨fun _ h => h, fun h => h, fun h => h⟩
  opens := by
    intro st n
    unfold St.noteOpens
    split <;> exact ⟨fun _ h => h, fun h => h, fun h => h⟩
  compiled := by
    intro st n
    refine ⟨?_, K_noteCompiled st env n, ?_⟩
    · unfold St.noteCompiled
      split
      · exact fun _ h => h
      · split <;> exact fun _ h => h
    · unfold St.noteCompiled
      split
      · exact fun h => h
      · split <;> exact fun h => h
  load := by
    intro st c
    refine ⟨?_, K_loadCode st c, ?_⟩
    · intro p hp
      unfold St.loadCode
      split
      · exact hp
      · exact List.mem_cons_of_mem _ hp
    · unfold St.loadCode
      split <;> exact fun h => h
  overflow := fun _ _ => ⟨fun _ h => h, fun h => h, fun h => h⟩
  bodyOk := by
    intro st3 st5 name gid _ _ hm hb
    refine ⟨fun p hp => hb.1 p hp, fun hk => hb.2.1 (K_enter st3 name gid hm hk), ?_⟩
    intro ho
    have : OT (st3.enter name gid) := by
      simp only [OT, St.enter, List.map_append, List.map_cons, List.map_nil]
      rw [ho]
    exact hb.2.2 this
  bodyFail := by
    intro st3 st5 name gid _ _ hm hb
    refine ⟨fun p hp => hb.1 p hp, fun hk => hb.2.1 (K_enter st3 name gid hm hk), ?_⟩
    intro ho
    have : OT (st3.enter name gid) := by
      simp only [OT, St.enter, List.map_append, List.map_cons, List.map_nil]
      rw [ho]
    exact hb.2.2 this

/-! ### Instance 3: the importer.  With separate compilation of every module path
    (`LocalImporter`), distinct paths never get the same code object. -/

/-- the importer's invariant: the by-name cache is injective on code identities and every
    identity in it was handed out by `parseAndCompile` (is below the allocation counter) -/
def ImporterInv (st : St) : Prop :=
  CodeInj st ∧ ∀ p ∈ st.compiled, p.2 < st.ncode

theorem lookup_none_not_mem' {α : Type} (l : List (Path × α)) (k : Path) (h : l.lookup k = none) :
    ∀ v, (k, v) ∉ l := by
  induction l with
  | nil => simp
  | cons p t ih =>
    obtain ⟨k', v'⟩ := p
    simp only [List.lookup] at h
    split at h
    · cases h
    · rename_i hne
      have hk : k ≠ k' := by simpa using hne
      intro v hv
      simp only [List.mem_cons, Prod.mk.injEq] at hv
      rcases hv with ⟨e, _⟩ | hv
      · exact hk e
      · exact ih h v hv

/-- one `Import` call of an importer that compiles every path separately keeps the invariant -/
theorem ImporterInv_noteCompiled (st : St) (env : Env) (hl : LocalImporter env) (n : Path)
    (h : ImporterInv st) : ImporterInv (st.noteCompiled env n) := by
  unfold St.noteCompiled
  split
  · exact h
  · rename_i hmiss
    rw [hl st.compiled n]
    obtain ⟨hi, hb⟩ := h
    refine ⟨?_, ?_⟩
    · intro p hp q hq hpq
      simp only [List.mem_cons] at hp hq
      rcases hp with rfl | hp <;> rcases hq with rfl | hq
      · rfl
      · have := hb q hq; simp only at hpq; omega
      · have := hb p hp; simp only at hpq; omega
      · exact hi p hp q hq hpq
    · intro p hp
      simp only [List.mem_cons] at hp
      rcases hp with rfl | hp
      · simp
      · have := hb p hp; simp only; omega

theorem ImporterInv_noteOpens (st : St) (env : Env) (n : Path) (h : ImporterInv st) :
    ImporterInv (st.noteOpens env n) := by
  unfold St.noteOpens; split <;> exact h

def R4 (st st' : St) : Prop := ImporterInv st → ImporterInv st'

theorem R4_relOK : RelOK R4 where
  refl := fun _ h => h
  trans := fun h1 h2 h => h2 (h1 h)
  store := fun _ _ _ _ h => h
  spawn := fun _ _ h hi => h hi

theorem R4_impOK (env : Env) (hl : LocalImporter env) : ImpOK env R4 where
  rel := R4_relOK
  nofuel := fun _ _ h => h
  refuse := fun _ _ h => h
  opens := fun st n h => ImporterInv_noteOpens st env n h
  compiled := fun st n h => ImporterInv_noteCompiled st env hl n h
  load := by
    intro st c h
    unfold St.loadCode
    split <;> exact h
  overflow := fun _ _ h => h
  bodyOk := fun _ _ _ _ _ _ _ hb h => hb h
  bodyFail := fun _ _ _ _ _ _ _ hb h => hb h

end Risor.C14

namespace Risor.C14
open Risor.C13

/-! ## Part A: path texts -/

theorem okFrom_append (a rest : Path) :
    ∀ s, okFrom s a = true → okFrom s (a ++ rest) = okFrom false rest := by
  induction a with
  | nil => intro s h; cases s <;> simp_all [okFrom]
  | cons c cs ih =>
    intro s h
    cases s with
    | true =>
      simp only [okFrom, Bool.and_eq_true] at h
      simp only [List.cons_append, okFrom, h.1.1, h.1.2, Bool.true_and]
      exact ih false h.2
    | false =>
      simp only [okFrom] at h
      simp only [List.cons_append, okFrom]
      split
      · rename_i hc; rw [if_pos hc] at h; exact ih true h
      · rename_i hc; rw [if_neg hc] at h; exact ih false h

theorem okFrom_false_sepfree (q : Path) (h : 47 ∉ q) : okFrom false q = true := by
  induction q with
  | nil => rfl
  | cons c cs ih =>
    simp only [List.mem_cons, not_or] at h
    have hc : c ≠ 47 := fun e => h.1 e.symm
    simp only [okFrom, hc, ↓reduceIte]
    exact ih h.2

theorem okFrom_true_false (p : Path) (h : okFrom true p = true) : okFrom false p = true := by
  cases p with
  | nil => simp [okFrom] at h
  | cons c cs =>
    simp only [okFrom, Bool.and_eq_true, bne_iff_ne, ne_eq] at h
    simp only [okFrom, h.1.1, ↓reduceIte]
    exact h.2

/-- a component that starts a file or directory name: non-empty, not starting with '.' -/
def PlainStart (c : Path) : Prop := c ≠ [] ∧ c.head? ≠ some 46

theorem plainStart_plain (c : Path) (h : PlainStart c) : plain c = true := by
  obtain ⟨h1, h2⟩ := h
  cases c with
  | nil => exact absurd rfl h1
  | cons x xs =>
    have hx : x ≠ 46 := by simpa using h2
    rw [plain_iff]
    refine ⟨by simp, ?_, ?_⟩
    · intro e; simp only [List.cons.injEq] at e; exact hx e.1
    · intro e; simp only [dotdot, List.cons.injEq] at e; exact hx e.1

theorem okFrom_split (p : Path) :
    (okFrom true p = true → ∀ c ∈ split p, PlainStart c) ∧
    (okFrom false p = true → ∀ c ∈ (split p).tail, PlainStart c) := by
  induction p with
  | nil => simp [okFrom, split]
  | cons x xs ih =>
    by_cases hx : x = 47
    · subst hx
      refine ⟨by simp [okFrom], ?_⟩
      intro h
      simp only [okFrom, ↓reduceIte] at h
      simpa [split] using ih.1 h
    · cases hs : split xs with
      | nil => exact absurd hs (split_ne_nil xs)
      | cons hd tl =>
        have hsp : split (x :: xs) = (x :: hd) :: tl := by
          rw [split]; simp only [hx, ↓reduceIte, hs]
        rw [hsp]
        rw [hs] at ih
        refine ⟨?_, ?_⟩
        · intro h
          simp only [okFrom, Bool.and_eq_true, bne_iff_ne, ne_eq] at h
          intro c hc
          simp only [List.mem_cons] at hc
          rcases hc with rfl | hc
          · exact ⟨by simp, by simpa using h.1.2⟩
          · exact ih.2 h.2 c (by simpa using hc)
        · intro h
          simp only [okFrom, hx, ↓reduceIte] at h
          simpa using ih.2 h

theorem nameOK_good (p : Path) (h : nameOK p = true) : Good (split p) := by
  intro c hc
  exact ⟨plainStart_plain c ((okFrom_split p).1 h c hc), split_sepfree p c hc⟩

theorem joinSep_split (p : Path) : joinSep (split p) = p := by
  induction p with
  | nil => simp [split, joinSep]
  | cons x xs ih =>
    cases hs : split xs with
    | nil => exact absurd hs (split_ne_nil xs)
    | cons hd tl =>
      rw [hs] at ih
      by_cases hx : x = 47
      · subst hx
        simp only [split, ↓reduceIte, hs, joinSep, List.nil_append, ih]
      · have hsp : split (x :: xs) = (x :: hd) :: tl := by
          rw [split]; simp only [hx, ↓reduceIte, hs]
        rw [hsp]
        cases tl with
        | nil => simp only [joinSep] at ih ⊢; rw [ih]
        | cons d r => simp only [joinSep] at ih ⊢; rw [← ih]; simp

theorem isAbs_append (root rest : Path) (h : root ≠ []) : isAbs (root ++ rest) = isAbs root := by
  cases root with
  | nil => exact absurd rfl h
  | cons x xs =>
    by_cases hx : x = 47
    · subst hx; simp [isAbs]
    · rw [List.cons_append, isAbs_cons_ne x _ hx, isAbs_cons_ne x _ hx]

theorem cleanStr_nonempty (root : Path) (h : root ≠ []) :
    cleanStr root = render (isAbs root) (cleanComps (isAbs root) (split root)) := by
  cases root with
  | nil => exact absurd rfl h
  | cons x xs => simp [cleanStr]

/-- `Clean(root + "/" + p)` when every component of `p` is a plain name: nothing of `p` can
    cancel or leave a component of the root, for ANY root string. -/
theorem cleanStr_root_join (root p : Path) (hr : root ≠ []) (hg : Good (split p)) :
    cleanStr (root ++ 47 :: p) =
      render (isAbs root) (cleanComps (isAbs root) (split root) ++ split p) := by
  have hne : root ++ 47 :: p ≠ [] := by simp
  rw [cleanStr_nonempty _ hne, isAbs_append root _ hr, split_append_sep]
  simp only [cleanComps, List.foldl_append]
  rw [foldl_push_plain _ _ _ (fun c hc => (hg c hc).1)]
  simp

theorem nameOK_ne_nil (p : Path) (h : nameOK p = true) : p ≠ [] := by
  intro e; subst e; simp [nameOK, okFrom] at h

theorem nameOK_append_ext (name ext : Path) (h : nameOK name = true) (he : 47 ∉ ext) :
    nameOK (name ++ ext) = true := by
  unfold nameOK at *
  rw [okFrom_append name ext true h]
  exact okFrom_false_sepfree ext he

theorem nameOK_join (a b : Path) (ha : nameOK a = true) (hb : nameOK b = true) :
    nameOK (a ++ 47 :: b) = true := by
  unfold nameOK at *
  rw [okFrom_append a _ true ha]
  simpa [okFrom] using hb

theorem nameOK_not_abs (p : Path) (h : nameOK p = true) : isAbs p = false := by
  cases p with
  | nil => rfl
  | cons x xs =>
    simp only [nameOK, okFrom, Bool.and_eq_true, bne_iff_ne, ne_eq] at h
    exact isAbs_cons_ne x xs h.1.1

/-- `filepath.Clean` leaves a well-formed module name unchanged -/
theorem cleanStr_nameOK (p : Path) (h : nameOK p = true) : cleanStr p = p := by
  have hne := nameOK_ne_nil p h
  have hg := nameOK_good p h
  rw [cleanStr_nonempty p hne, nameOK_not_abs p h]
  simp only [cleanComps]
  rw [foldl_push_plain _ _ _ (fun c hc => (hg c hc).1)]
  simp only [List.append_nil, List.reverse_reverse, render, Bool.false_eq_true, ↓reduceIte]
  cases hs : split p with
  | nil => exact absurd hs (split_ne_nil p)
  | cons hd tl => simp only [List.isEmpty_cons, Bool.false_eq_true, ↓reduceIte]; rw [← hs, joinSep_split]

theorem join2_nameOK (a b : Path) (ha : nameOK a = true) (hb : nameOK b = true) :
    join2 a b = a ++ 47 :: b := by
  have h1 := nameOK_ne_nil a ha
  have h2 := nameOK_ne_nil b hb
  have e1 : a.isEmpty = false := by cases a <;> simp_all
  have e2 : b.isEmpty = false := by cases b <;> simp_all
  simp only [join2, e1, e2, Bool.and_self, Bool.false_eq_true, ↓reduceIte]
  exact cleanStr_nameOK _ (nameOK_join a b ha hb)

/-! ### the recogniser -/

theorem isIdStart_ne (c : Nat) (h : isIdStart c = true) : c ≠ 47 ∧ c ≠ 46 ∧ c ≠ 34 := by
  simp only [isIdStart, isLetter, Bool.or_eq_true, Bool.and_eq_true, decide_eq_true_eq, beq_iff_eq] at h
  omega

theorem isIdChar_ne (c : Nat) (h : isIdChar c = true) : c ≠ 47 ∧ c ≠ 46 := by
  simp only [isIdChar, isIdStart, isLetter, isDigit, Bool.or_eq_true, Bool.and_eq_true,
    decide_eq_true_eq, beq_iff_eq] at h
  omega

theorem regex_okFrom (t : Path) :
    ((∀ c ∈ split t, isIdent c = true) → okFrom true t = true) ∧
    ((∀ b ∈ (split t).headD [], isIdChar b = true) → (∀ c ∈ (split t).tail, isIdent c = true) →
      okFrom false t = true) := by
  induction t with
  | nil => simp [split, isIdent, okFrom]
  | cons x xs ih =>
    by_cases hx : x = 47
    · subst hx
      refine ⟨?_, ?_⟩
      · intro h
        have := h [] (by simp [split])
        simp [isIdent] at this
      · intro _ h2
        simp only [okFrom, ↓reduceIte]
        exact ih.1 (by simpa [split] using h2)
    · cases hs : split xs with
      | nil => exact absurd hs (split_ne_nil xs)
      | cons hd tl =>
        have hsp : split (x :: xs) = (x :: hd) :: tl := by
          rw [split]; simp only [hx, ↓reduceIte, hs]
        rw [hsp]
        rw [hs] at ih
        refine ⟨?_, ?_⟩
        · intro h
          have h0 := h (x :: hd) (by simp)
          simp only [isIdent, Bool.and_eq_true, List.all_eq_true] at h0
          have hn := isIdStart_ne x h0.1
          simp only [okFrom, Bool.and_eq_true, bne_iff_ne, ne_eq]
          refine ⟨⟨hn.1, hn.2.1⟩, ?_⟩
          exact ih.2 (by simpa using h0.2) (fun c hc => h c (by simp at hc ⊢; exact Or.inr hc))
        · intro h1 h2
          simp only [okFrom, hx, ↓reduceIte]
          refine ih.2 ?_ (by simpa using h2)
          intro b hb
          exact h1 b (by simp at hb ⊢; exact Or.inr hb)

theorem regex_nameOK (t : Path) (h : matchesPathRegex t = true) : nameOK t = true := by
  simp only [matchesPathRegex, List.all_eq_true] at h
  exact (regex_okFrom t).1 h

theorem dropQ_spec (p : Path) : ∃ l, (∀ b ∈ l, b = 34) ∧ p = l ++ dropQ p := by
  induction p with
  | nil => exact ⟨[], by simp, by simp [dropQ]⟩
  | cons c cs ih =>
    by_cases hc : c = 34
    · obtain ⟨l, hl, he⟩ := ih
      refine ⟨34 :: l, ?_, ?_⟩
      · intro b hb; simp only [List.mem_cons] at hb; rcases hb with rfl | hb; rfl; exact hl b hb
      · subst hc; simp only [dropQ, ↓reduceIte, List.cons_append]; rw [← he]
    · exact ⟨[], by simp, by simp [dropQ, hc]⟩

theorem trimQuotes_spec (p : Path) :
    ∃ l r, (∀ b ∈ l, b = 34) ∧ (∀ b ∈ r, b = 34) ∧ p = l ++ trimQuotes p ++ r := by
  obtain ⟨l, hl, he⟩ := dropQ_spec p
  obtain ⟨l2, hl2, he2⟩ := dropQ_spec (dropQ p).reverse
  refine ⟨l, l2.reverse, hl, ?_, ?_⟩
  · intro b hb; exact hl2 b (by simpa using hb)
  · have : dropQ p = (dropQ (dropQ p).reverse).reverse ++ l2.reverse := by
      have := congrArg List.reverse he2
      simpa using this
    unfold trimQuotes
    rw [List.append_assoc, ← this, ← he]

theorem okFrom_false_quotes (l s : Path) (hl : ∀ b ∈ l, b = 34) :
    okFrom false (l ++ s) = okFrom false s := by
  induction l with
  | nil => rfl
  | cons c cs ih =>
    have hc : c = 34 := hl c (by simp)
    subst hc
    simp only [List.cons_append, okFrom]
    exact ih (fun b hb => hl b (by simp [hb]))

/-- **every text `validateImportPath` accepts is a well-formed module name** (the quote
    characters it trims before matching stay in the name, but they are ordinary bytes) -/
theorem validImportPath_nameOK (p : Path) (h : validImportPath p = true) : nameOK p = true := by
  have ht := regex_nameOK _ h
  obtain ⟨l, r, hl, hr, he⟩ := trimQuotes_spec p
  have hr47 : 47 ∉ r := fun hm => by have := hr 47 hm; omega
  have h1 : okFrom true (trimQuotes p ++ r) = true := by
    rw [okFrom_append _ r true ht]; exact okFrom_false_sepfree r hr47
  rw [he, List.append_assoc]
  unfold nameOK
  cases l with
  | nil => simpa using h1
  | cons c cs =>
    have hc : c = 34 := hl c (by simp)
    subst hc
    simp only [List.cons_append, okFrom]
    rw [okFrom_false_quotes cs _ (fun b hb => hl b (by simp [hb]))]
    simpa using okFrom_true_false _ h1

theorem isLexIdentByte_ne (b : Nat) (h : isLexIdentByte b = true) : b ≠ 47 ∧ b ≠ 46 := by
  simp only [isLexIdentByte, isIdChar, isIdStart, isLetter, isDigit, Bool.or_eq_true, Bool.and_eq_true,
    decide_eq_true_eq, beq_iff_eq] at h
  omega

/-- every identifier the lexer can produce is a well-formed (single-component) module name -/
theorem isLexIdent_nameOK (p : Path) (h : isLexIdent p = true) : nameOK p = true := by
  simp only [isLexIdent, Bool.and_eq_true, Bool.not_eq_true', List.all_eq_true] at h
  cases p with
  | nil => simp at h
  | cons c cs =>
    have hc := isLexIdentByte_ne c (h.2 c (by simp))
    simp only [nameOK, okFrom, Bool.and_eq_true, bne_iff_ne, ne_eq]
    refine ⟨⟨hc.1, hc.2⟩, okFrom_false_sepfree cs ?_⟩
    intro hm
    exact (isLexIdentByte_ne 47 (h.2 47 (by simp [hm]))).1 rfl

theorem joinSep_nameOK (ps : List Path) (hne : ps ≠ []) (h : ∀ p ∈ ps, nameOK p = true) :
    nameOK (joinSep ps) = true := by
  induction ps with
  | nil => exact absurd rfl hne
  | cons p rest ih =>
    cases rest with
    | nil => simpa [joinSep] using h p (by simp)
    | cons q rest =>
      simp only [joinSep]
      exact nameOK_join p _ (h p (by simp)) (ih (by simp) (fun x hx => h x (by simp [hx])))

end Risor.C14
