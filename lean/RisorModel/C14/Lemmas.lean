import RisorModel.C14.Model
import RisorModel.C13.Props
/-!
Helper lemmas for C14.

Part B first: a generic "every step of the import machinery respects the relation R"
theorem (`execStmts_rel`, `importModule_rel`) that the invariants of `Props.lean` instantiate.
-/
namespace Risor.C14
open Risor.C13 (Path split joinSep cleanStr join2 isAbs)

/-! ## Part B: relational induction over the state machine -/

/-- what a relation between the state before and after must satisfy at statement level.
    `Own st g`: "the executing VM may store into globals array `g`" — the array of the frame that
    executes the statements and the arrays the VM has loaded (what a module function stores into,
    `St.fnArray`); relations that do not care take `fun _ _ => True` (`anyArray`). -/
structure RelOK (Own : St → Nat → Prop) (R : St → St → Prop) : Prop where
  refl : ∀ st, R st st
  trans : ∀ {a b c}, R a b → R b c → R a c
  store : ∀ st g k v, Own st g → R st (st.store g k v)
  spawn : ∀ st st1 : St, R { st with spawns := st.spawns + 1, importing := [] } st1 →
    R st { st1 with cache := st.cache, loaded := st.loaded, importing := st.importing }
  own_mono : ∀ {st st' : St} (g : Nat), R st st' → Own st g → Own st' g
  own_fn : ∀ (st : St) (o g : Nat), st.fnArray o = some g → Own st g

def anyArray : St → Nat → Prop := fun _ _ => True

variable {R : St → St → Prop} {Own : St → Nat → Prop}

theorem bindItems_rel (hR : RelOK Own R) (all : List (Path × Path)) (g : Nat) :
    ∀ (items : List (Path × Path)) (ps : List Val) (st : St), Own st g →
      R st (bindItems all g items ps st).1 := by
  intro items
  induction items with
  | nil => intro ps st _; simp only [bindItems]; exact hR.refl st
  | cons it rest ih =>
    intro ps st hg
    cases ps with
    | nil => simp only [bindItems]; exact hR.refl st
    | cons v ps =>
      obtain ⟨nm, al⟩ := it
      simp only [bindItems]
      have h1 := hR.store st g (aliasOf all nm) v hg
      exact hR.trans h1 (ih ps _ (hR.own_mono g h1 hg))

theorem fromOne_rel (hR : RelOK Own R) (imp : ImpFn) (himp : ∀ d st n, R st (imp d st n).2)
    (env : Env) (depth : Nat) (parent nm : Path) (st : St) :
    R st (fromOne imp env depth parent nm st).2 := by
  simp only [fromOne]
  have h1 := himp depth st (parent ++ 47 :: nm)
  split
  · exact h1
  · exact h1
  · have h2 := himp depth (imp depth st (parent ++ 47 :: nm)).2 parent
    split
    · split
      · exact hR.trans h1 h2
      · exact hR.trans h1 h2
    · exact hR.trans h1 h2

theorem fromLoop_rel (hR : RelOK Own R) (imp : ImpFn) (himp : ∀ d st n, R st (imp d st n).2)
    (env : Env) (depth : Nat) (parent : Path) :
    ∀ (names : List Path) (st : St) (ps : List Val),
      R st (fromLoop imp env depth parent names st ps).2 := by
  intro names
  induction names with
  | nil => intro st ps; simp only [fromLoop]; exact hR.refl st
  | cons nm rest ih =>
    intro st ps
    simp only [fromLoop]
    have h1 := fromOne_rel hR imp himp env depth parent nm st
    split
    · exact hR.trans h1 (ih _ _)
    · exact h1

theorem execStmt_rel (hR : RelOK Own R) (imp : ImpFn) (himp : ∀ d st n, R st (imp d st n).2)
    (env : Env) (g depth : Nat) (st : St) (s : Stmt) (hg : Own st g) :
    R st (execStmt imp env g depth st s).2 := by
  cases s with
  | imp name alias =>
    simp only [execStmt]
    split
    · exact hR.trans (himp depth st name) (hR.store _ g alias _ (hR.own_mono g (himp depth st name) hg))
    · exact himp depth st name
  | fromImp parent items =>
    simp only [execStmt]
    have hl := fromLoop_rel hR imp himp env depth parent (items.map (·.1)).reverse st []
    split
    · exact hR.trans hl (bindItems_rel hR items g items _ _ (hR.own_mono g hl hg))
    · exact hl
  | set var val => simp only [execStmt]; exact hR.store st g var _ hg
  | setVia alias var val =>
    simp only [execStmt]
    split
    · split
      · rename_i hf; exact hR.store st _ var _ (hR.own_fn st _ _ hf)
      · exact hR.refl st
    · exact hR.refl st
  | addVia alias var k =>
    simp only [execStmt]
    split
    · split
      · rename_i hf
        split
        · exact hR.store st _ var _ (hR.own_fn st _ _ hf)
        · exact hR.refl st
      · exact hR.refl st
    · exact hR.refl st
  | newList var => simp only [execStmt]; exact hR.store st g var _ hg
  | pushVia alias var v =>
    simp only [execStmt]
    split
    · split
      · rename_i hf
        split
        · exact hR.store st _ var _ (hR.own_fn st _ _ hf)
        · exact hR.refl st
      · exact hR.refl st
    · exact hR.refl st
  | tryImp name =>
    simp only [execStmt]
    split
    · exact hR.refl st
    · split <;> exact himp (depth + 1) st name
  | spawnImp name =>
    simp only [execStmt]
    have h := hR.spawn st _ (himp 1 { st with spawns := st.spawns + 1, importing := [] } name)
    split <;> exact h
  | fail => simp only [execStmt]; exact hR.refl st

theorem execStmts_rel (hR : RelOK Own R) (imp : ImpFn) (himp : ∀ d st n, R st (imp d st n).2)
    (env : Env) (g depth : Nat) :
    ∀ (ss : List Stmt) (st : St), Own st g → R st (execStmts imp env g depth ss st).2 := by
  intro ss
  induction ss with
  | nil => intro st _; simp only [execStmts]; exact hR.refl st
  | cons s rest ih =>
    intro st hg
    simp only [execStmts]
    have h := execStmt_rel hR imp himp env g depth st s hg
    split
    · exact hR.trans h (ih _ (hR.own_mono g h hg))
    · exact h

/-- what a relation must satisfy at the steps of `vm.importModule` (for the importer
    configured in `env`) -/
structure ImpOK (env : Env) (Own : St → Nat → Prop) (R : St → St → Prop) : Prop where
  rel : RelOK Own R
  /-- a module body may store into the array its code is loaded with (the fields `St.enter`
      changes — logs, `objs`, `importing` — do not matter) -/
  own_body : ∀ (st : St) name c g, (c, g) ∈ st.loaded → Own (st.enter name g) g
  nofuel : ∀ (st : St) name, R st (({ st with nofuel := true } : St).fail name)
  refuse : ∀ (st : St) name, R st (st.refuse name)
  opens : ∀ (st : St) name, R st (st.noteOpens env name)
  compiled : ∀ (st : St) name, R st (st.noteCompiled env name)
  load : ∀ (st : St) c, R st (st.loadCode c)
  overflow : ∀ (st : St) name, R st (st.fail name)
  /-- the body: entered from `st3` (where `name` is neither cached nor being imported, the
      importer returned the code object `c` for it and that code is loaded with the globals
      array `gid`), evaluated, left, then cached -/
  bodyOk : ∀ (st3 st5 : St) name gid, st3.cache.lookup name = none → name ∉ st3.importing →
    (∃ c, (name, c) ∈ st3.compiled ∧ (c, gid) ∈ st3.loaded) →
    (∃ c, st3.loaded.lookup c = some gid) →
    R (st3.enter name gid) st5 →
    R st3 (st5.leave.cacheAdd name st3.objs.length)
  bodyFail : ∀ (st3 st5 : St) name gid, st3.cache.lookup name = none → name ∉ st3.importing →
    (∃ c, (name, c) ∈ st3.compiled ∧ (c, gid) ∈ st3.loaded) →
    (∃ c, st3.loaded.lookup c = some gid) →
    R (st3.enter name gid) st5 →
    R st3 (st5.leave.fail name)

theorem noteOpens_cache (st : St) (env : Env) (n : Path) : (st.noteOpens env n).cache = st.cache := by
  unfold St.noteOpens; split <;> rfl
theorem noteCompiled_cache (st : St) (env : Env) (n : Path) : (st.noteCompiled env n).cache = st.cache := by
  unfold St.noteCompiled; split
  · rfl
  · split <;> rfl
theorem loadCode_cache (st : St) (c : Nat) : (st.loadCode c).cache = st.cache := by
  unfold St.loadCode; split <;> rfl
theorem loadCode_compiled (st : St) (c : Nat) : (st.loadCode c).compiled = st.compiled := by
  unfold St.loadCode; split <;> rfl
theorem noteOpens_importing (st : St) (env : Env) (n : Path) : (st.noteOpens env n).importing = st.importing := by
  unfold St.noteOpens; split <;> rfl
theorem noteCompiled_importing (st : St) (env : Env) (n : Path) :
    (st.noteCompiled env n).importing = st.importing := by
  unfold St.noteCompiled; split
  · rfl
  · split <;> rfl
theorem loadCode_importing (st : St) (c : Nat) : (st.loadCode c).importing = st.importing := by
  unfold St.loadCode; split <;> rfl

theorem lookup_mem {κ α : Type} [BEq κ] [LawfulBEq κ] (l : List (κ × α)) (k : κ) (v : α)
    (h : l.lookup k = some v) : (k, v) ∈ l := by
  induction l with
  | nil => simp [List.lookup] at h
  | cons p t ih =>
    obtain ⟨k', v'⟩ := p
    simp only [List.lookup] at h
    split at h
    · rename_i heq
      have : k = k' := by simpa using heq
      simp only [Option.some.injEq] at h
      subst this; subst h; simp
    · exact List.mem_cons_of_mem _ (ih h)

theorem loadCode_lookup (st : St) (c : Nat) : (st.loadCode c).loaded.lookup c = some (st.gidOf c) := by
  unfold St.loadCode St.gidOf
  split
  · rename_i g hg
    simp only [hg, Option.getD_some]
  · rename_i hg
    simp [hg, List.lookup]

theorem loadCode_mem (st : St) (c : Nat) : (c, st.gidOf c) ∈ (st.loadCode c).loaded := by
  unfold St.loadCode St.gidOf
  split
  · rename_i g hg
    simp only [hg, Option.getD_some]
    exact lookup_mem _ _ _ hg
  · rename_i hg
    simp [hg]

/-- after `importer.Import(name)` compiled (or found) the module, the code object it returns
    is the one its by-name cache holds -/
theorem noteCompiled_mem (st : St) (env : Env) (n : Path) :
    (n, (st.noteCompiled env n).codeOf n) ∈ (st.noteCompiled env n).compiled := by
  unfold St.noteCompiled
  split
  · rename_i c hc
    simp only [St.codeOf, hc, Option.getD_some]
    exact lookup_mem _ _ _ hc
  · split <;> simp [St.codeOf, List.lookup]

theorem importModule_rel {R : St → St → Prop} {Own : St → Nat → Prop} (env : Env) (hR : ImpOK env Own R) :
    ∀ (fuel : Nat) (depth : Nat) (st : St) (name : Path),
      R st (importModule env fuel depth st name).2 := by
  intro fuel
  induction fuel with
  | zero => intro depth st name; simp only [importModule]; exact hR.nofuel st name
  | succ fuel ih =>
    intro depth st name
    have hrel := hR.rel
    simp only [importModule]
    split
    · exact hrel.refl st
    · rename_i hmiss
      split
      · exact hR.refuse st name
      · rename_i hnotin
        have hni : name ∉ st.importing := by simpa using hnotin
        have h1 := hR.opens st name
        split
        · exact h1
        · rename_i body hbody
          have h2 := hR.compiled (st.noteOpens env name) name
          have h3 := hR.load ((st.noteOpens env name).noteCompiled env name)
            (((st.noteOpens env name).noteCompiled env name).codeOf name)
          have h13 := hrel.trans h1 (hrel.trans h2 h3)
          split
          · exact hrel.trans h13 (hR.overflow _ name)
          · have hc : (((st.noteOpens env name).noteCompiled env name).loadCode
                (((st.noteOpens env name).noteCompiled env name).codeOf name)).cache.lookup name = none := by
              rw [loadCode_cache, noteCompiled_cache, noteOpens_cache]; exact hmiss
            have hi : name ∉ (((st.noteOpens env name).noteCompiled env name).loadCode
                (((st.noteOpens env name).noteCompiled env name).codeOf name)).importing := by
              rw [loadCode_importing, noteCompiled_importing, noteOpens_importing]; exact hni
            have hm : ∃ c, (name, c) ∈ (((st.noteOpens env name).noteCompiled env name).loadCode
                  (((st.noteOpens env name).noteCompiled env name).codeOf name)).compiled ∧
                (c, ((st.noteOpens env name).noteCompiled env name).gidOf
                  (((st.noteOpens env name).noteCompiled env name).codeOf name)) ∈
                (((st.noteOpens env name).noteCompiled env name).loadCode
                  (((st.noteOpens env name).noteCompiled env name).codeOf name)).loaded :=
              ⟨_, by rw [loadCode_compiled]; exact noteCompiled_mem _ env name, loadCode_mem _ _⟩
            have hlk : ∃ c, (((st.noteOpens env name).noteCompiled env name).loadCode
                  (((st.noteOpens env name).noteCompiled env name).codeOf name)).loaded.lookup c =
                some (((st.noteOpens env name).noteCompiled env name).gidOf
                  (((st.noteOpens env name).noteCompiled env name).codeOf name)) :=
              ⟨_, loadCode_lookup _ _⟩
            have hb := execStmts_rel hR.rel (importModule env fuel)
              (fun d s n => ih d s n) env
              (((st.noteOpens env name).noteCompiled env name).gidOf
                (((st.noteOpens env name).noteCompiled env name).codeOf name)) (depth + 1) body
              ((((st.noteOpens env name).noteCompiled env name).loadCode
                (((st.noteOpens env name).noteCompiled env name).codeOf name)).enter name
                (((st.noteOpens env name).noteCompiled env name).gidOf
                  (((st.noteOpens env name).noteCompiled env name).codeOf name)))
              (hR.own_body _ name _ _ (loadCode_mem _ _))
            split
            · exact hrel.trans h13 (hR.bodyOk _ _ name _ hc hi hm hlk hb)
            · exact hrel.trans h13 (hR.bodyFail _ _ name _ hc hi hm hlk hb)

/-- a whole evaluation: the script's statements with the real import function -/
theorem run_rel {R : St → St → Prop} {Own : St → Nat → Prop} (env : Env) (hR : ImpOK env Own R) (fuel : Nat)
    (main : List Stmt) (h0 : Own St.init 0) : R St.init (run env fuel main).2 := by
  unfold run
  exact execStmts_rel hR.rel _ (fun d s n => importModule_rel env hR fuel d s n) env 0 0 main St.init h0

end Risor.C14

namespace Risor.C14
open Risor.C13 (Path)

/-! ### Instance 1: run-once.  Every executed body is cached or is being imported. -/

def J (st : St) : Prop :=
  (∀ n ∈ st.ticks, n ∈ st.cache.map (·.1) ∨ n ∈ st.importing) ∧ st.ticks.Nodup

/-- `vm.importing` is a stack (every step leaves it as it found it), the guard is monotone, and
    under the guard the invariant `J` is kept -/
def R2 (st st' : St) : Prop :=
  st'.importing = st.importing ∧ (Clean st' → Clean st) ∧ (Clean st' → J st → J st')

theorem lookup_none_not_mem {α : Type} (l : List (Path × α)) (k : Path) (h : l.lookup k = none) :
    k ∉ l.map (·.1) := by
  induction l with
  | nil => simp
  | cons p t ih =>
    obtain ⟨k', v'⟩ := p
    simp only [List.lookup] at h
    split at h
    · cases h
    · rename_i hne
      have hk : k ≠ k' := by simpa using hne
      simp only [List.map_cons, List.mem_cons, not_or]
      exact ⟨hk, ih h⟩

theorem not_clean_fail (st : St) (n : Path) : ¬ Clean (st.fail n) := by
  intro h
  have := h.1
  simp [St.fail] at this

theorem R2_relOK : RelOK anyArray R2 where
  own_mono := fun _ _ _ => trivial
  own_fn := fun _ _ _ _ => trivial
  refl := fun _ => ⟨rfl, fun h => h, fun _ h => h⟩
  trans := fun h1 h2 => ⟨h2.1.trans h1.1, fun hc => h1.2.1 (h2.2.1 hc),
    fun hc hj => h2.2.2 hc (h1.2.2 (h2.2.1 hc) hj)⟩
  store := fun _ _ _ _ _ => ⟨rfl, fun h => h, fun _ h => h⟩
  spawn := by
    intro st st1 h
    have hfalse : Clean { st1 with cache := st.cache, loaded := st.loaded, importing := st.importing } → False := by
      intro hc
      have := (h.2.1 hc).2
      simp at this
    exact ⟨rfl, fun hc => (hfalse hc).elim, fun hc => (hfalse hc).elim⟩

theorem R2_impOK (env : Env) : ImpOK env anyArray R2 where
  rel := R2_relOK
  own_body := fun _ _ _ _ _ => trivial
  nofuel := fun st n => ⟨rfl, fun h => (not_clean_fail _ n h).elim, fun h => (not_clean_fail _ n h).elim⟩
  refuse := fun _ _ => ⟨rfl, fun h => h, fun _ h => h⟩
  opens := by
    intro st n
    unfold St.noteOpens
    split
    · exact ⟨rfl, fun h => h, fun _ h => h⟩
    · exact ⟨rfl, fun h => h, fun _ h => h⟩
  compiled := by
    intro st n
    unfold St.noteCompiled
    split
    · exact ⟨rfl, fun h => h, fun _ h => h⟩
    · split
      · exact ⟨rfl, fun h => h, fun _ h => h⟩
      · exact ⟨rfl, fun h => h, fun _ h => h⟩
  load := by
    intro st n
    unfold St.loadCode
    split
    · exact ⟨rfl, fun h => h, fun _ h => h⟩
    · exact ⟨rfl, fun h => h, fun _ h => h⟩
  overflow := fun st n => ⟨rfl, fun h => (not_clean_fail _ n h).elim, fun h => (not_clean_fail _ n h).elim⟩
  bodyFail := by
    intro st3 st5 n gid _ _ _ _ hb
    refine ⟨?_, fun h => (not_clean_fail _ n h).elim, fun h => (not_clean_fail _ n h).elim⟩
    show st5.importing.tail = st3.importing
    rw [hb.1]; rfl
  bodyOk := by
    intro st3 st5 name gid hmiss hni _ _ hb
    have himp5 : st5.importing = name :: st3.importing := hb.1
    have hc4 : Clean (st5.leave.cacheAdd name st3.objs.length) → Clean (st3.enter name gid) := fun hc => hb.2.1 hc
    have hc3 : Clean (st3.enter name gid) → Clean st3 := fun hc => hc
    refine ⟨?_, fun hc => hc3 (hc4 hc), ?_⟩
    · show st5.importing.tail = st3.importing
      rw [himp5]; rfl
    intro hc hj
    have hcE := hc4 hc
    have hnc : name ∉ st3.cache.map (·.1) := lookup_none_not_mem _ _ hmiss
    have hnt : name ∉ st3.ticks := by
      intro hin
      rcases hj.1 name hin with h | h
      · exact hnc h
      · exact hni h
    have hjE : J (st3.enter name gid) := by
      refine ⟨?_, ?_⟩
      · intro n hin
        simp only [St.enter, List.mem_append, List.mem_singleton] at hin
        rcases hin with hin | rfl
        · rcases hj.1 n hin with h | h
          · exact Or.inl h
          · exact Or.inr (List.mem_cons_of_mem _ h)
        · exact Or.inr (by simp [St.enter])
      · simp only [St.enter]
        rw [List.nodup_append]
        refine ⟨hj.2, by simp, ?_⟩
        intro a ha b hb'
        simp only [List.mem_singleton] at hb'
        subst hb'
        intro e; subst e; exact hnt ha
    have hj5 := hb.2.2 hc hjE
    refine ⟨?_, hj5.2⟩
    intro n hin
    have hin5 : n ∈ st5.ticks := hin
    rcases hj5.1 n hin5 with h | h
    · left; simp only [St.cacheAdd, St.leave, List.map_cons, List.mem_cons]; exact Or.inr h
    · rw [himp5] at h
      simp only [List.mem_cons] at h
      rcases h with rfl | h
      · left; simp [St.cacheAdd]
      · right
        show n ∈ st5.importing.tail
        rw [himp5]; exact h

/-! ### Instance 2: every globals array belongs to one code object; objects = body runs. -/

/-- globals-array ownership (the VM's side, whatever the importer does): arrays created by
    `loadCode` are never the script's (index 0) and exist, no array serves two code objects,
    every loaded code is recorded, and the array of every module object is the array of the
    code object the importer returned for the module's name -/
def K (st : St) : Prop :=
  (∀ p ∈ st.owner, 0 < p.2 ∧ p.2 < st.heap.length) ∧
  (∀ p ∈ st.owner, ∀ q ∈ st.owner, p.2 = q.2 → p.1 = q.1) ∧
  (∀ p ∈ st.loaded, p ∈ st.owner) ∧
  (∀ o ∈ st.objs, ∃ c, (o.1, c) ∈ st.compiled ∧ (c, o.2) ∈ st.owner) ∧
  0 < st.heap.length

/-- one module object per body execution, in the same order -/
def OT (st : St) : Prop := st.objs.map (·.1) = st.ticks

def R3 (st st' : St) : Prop :=
  (∀ p ∈ st.owner, p ∈ st'.owner) ∧ (K st → K st') ∧ (OT st → OT st')

theorem length_modifyAt {α : Type} (f : α → α) (n : Nat) (l : List α) :
    (modifyAt f n l).length = l.length := by
  induction l generalizing n with
  | nil => cases n <;> rfl
  | cons x xs ih => cases n <;> simp [modifyAt, ih]

theorem K_store (st : St) (g : Nat) (k : Path) (v : Val) (h : K st) : K (st.store g k v) := by
  obtain ⟨h1, h2, h3, h4, h5⟩ := h
  refine ⟨?_, h2, h3, h4, ?_⟩
  · intro p hp
    have := h1 p hp
    simpa [St.store, length_modifyAt] using this
  · simpa [St.store, length_modifyAt] using h5

theorem K_noteCompiled (st : St) (env : Env) (n : Path) (h : K st) : K (st.noteCompiled env n) := by
  obtain ⟨h1, h2, h3, h4, h5⟩ := h
  unfold St.noteCompiled
  split
  · exact ⟨h1, h2, h3, h4, h5⟩
  · split
    · refine ⟨h1, h2, h3, ?_, h5⟩
      intro o ho
      obtain ⟨c, hc1, hc2⟩ := h4 o ho
      exact ⟨c, List.mem_cons_of_mem _ hc1, hc2⟩
    · refine ⟨h1, h2, h3, ?_, h5⟩
      intro o ho
      obtain ⟨c, hc1, hc2⟩ := h4 o ho
      exact ⟨c, List.mem_cons_of_mem _ hc1, hc2⟩

theorem K_loadCode (st : St) (c : Nat) (h : K st) : K (st.loadCode c) := by
  unfold St.loadCode
  split
  · exact h
  · obtain ⟨h1, h2, h3, h4, h5⟩ := h
    refine ⟨?_, ?_, ?_, ?_, ?_⟩
    · intro p hp
      simp only [List.mem_cons, List.length_append, List.length_cons, List.length_nil] at hp ⊢
      rcases hp with rfl | hp
      · simp only; omega
      · have := h1 p hp; omega
    · intro p hp q hq hpq
      simp only [List.mem_cons] at hp hq
      rcases hp with rfl | hp <;> rcases hq with rfl | hq
      · rfl
      · have := (h1 q hq).2; simp only at hpq; omega
      · have := (h1 p hp).2; simp only at hpq; omega
      · exact h2 p hp q hq hpq
    · intro p hp
      simp only [List.mem_cons] at hp ⊢
      rcases hp with rfl | hp
      · exact Or.inl rfl
      · exact Or.inr (h3 p hp)
    · intro o ho
      obtain ⟨c', hc1, hc2⟩ := h4 o ho
      exact ⟨c', hc1, List.mem_cons_of_mem _ hc2⟩
    · simp only [List.length_append]; omega

theorem K_enter (st : St) (n : Path) (g : Nat)
    (hm : ∃ c, (n, c) ∈ st.compiled ∧ (c, g) ∈ st.loaded) (h : K st) :
    K (st.enter n g) := by
  obtain ⟨h1, h2, h3, h4, h5⟩ := h
  refine ⟨h1, h2, h3, ?_, h5⟩
  intro o ho
  simp only [St.enter, List.mem_append, List.mem_singleton] at ho
  rcases ho with ho | rfl
  · exact h4 o ho
  · obtain ⟨c, hc1, hc2⟩ := hm
    exact ⟨c, hc1, h3 _ hc2⟩

theorem R3_relOK : RelOK anyArray R3 where
  own_mono := fun _ _ _ => trivial
  own_fn := fun _ _ _ _ => trivial
  refl := fun _ => ⟨fun _ h => h, fun h => h, fun h => h⟩
  trans := fun h1 h2 => ⟨fun p hp => h2.1 p (h1.1 p hp), fun h => h2.2.1 (h1.2.1 h), fun h => h2.2.2 (h1.2.2 h)⟩
  store := fun st g k v _ => ⟨fun _ h => h, K_store st g k v, fun h => h⟩
  spawn := by
    intro st st1 h
    refine ⟨fun p hp => h.1 p hp, ?_, fun ho => h.2.2 ho⟩
    intro hk
    obtain ⟨k1, k2, k3, k4, k5⟩ := h.2.1 hk
    exact ⟨k1, k2, fun p hp => h.1 p (hk.2.2.1 p hp), k4, k5⟩

theorem R3_impOK (env : Env) : ImpOK env anyArray R3 where
  rel := R3_relOK
  own_body := fun _ _ _ _ _ => trivial
  nofuel := fun _ _ => ⟨fun _ h => h, fun h => h, fun h => h⟩
  refuse := fun _ _ => ⟨fun _ h => h, fun h => h, fun h => h⟩
  opens := by
    intro st n
    unfold St.noteOpens
    split <;> exact ⟨fun _ h => h, fun h => h, fun h => h⟩
  compiled := by
    intro st n
    refine ⟨?_, K_noteCompiled st env n, ?_⟩
    · unfold St.noteCompiled
      split
      · exact fun _ h => h
      · split <;> exact fun _ h => h
    · unfold St.noteCompiled
      split
      · exact fun h => h
      · split <;> exact fun h => h
  load := by
    intro st c
    refine ⟨?_, K_loadCode st c, ?_⟩
    · intro p hp
      unfold St.loadCode
      split
      · exact hp
      · exact List.mem_cons_of_mem _ hp
    · unfold St.loadCode
      split <;> exact fun h => h
  overflow := fun _ _ => ⟨fun _ h => h, fun h => h, fun h => h⟩
  bodyOk := by
    intro st3 st5 name gid _ _ hm _ hb
    refine ⟨fun p hp => hb.1 p hp, fun hk => hb.2.1 (K_enter st3 name gid hm hk), ?_⟩
    intro ho
    have : OT (st3.enter name gid) := by
      simp only [OT, St.enter, List.map_append, List.map_cons, List.map_nil]
      rw [ho]
    exact hb.2.2 this
  bodyFail := by
    intro st3 st5 name gid _ _ hm _ hb
    refine ⟨fun p hp => hb.1 p hp, fun hk => hb.2.1 (K_enter st3 name gid hm hk), ?_⟩
    intro ho
    have : OT (st3.enter name gid) := by
      simp only [OT, St.enter, List.map_append, List.map_cons, List.map_nil]
      rw [ho]
    exact hb.2.2 this

/-! ### Instance 3: the importer.  With separate compilation of every module path
    (`LocalImporter`), distinct paths never get the same code object. -/

/-- the importer's invariant: the by-name cache is injective on code identities and every
    identity in it was handed out by `parseAndCompile` (is below the allocation counter) -/
def ImporterInv (st : St) : Prop :=
  CodeInj st ∧ ∀ p ∈ st.compiled, p.2 < st.ncode

theorem lookup_none_not_mem' {α : Type} (l : List (Path × α)) (k : Path) (h : l.lookup k = none) :
    ∀ v, (k, v) ∉ l := by
  induction l with
  | nil => simp
  | cons p t ih =>
    obtain ⟨k', v'⟩ := p
    simp only [List.lookup] at h
    split at h
    · cases h
    · rename_i hne
      have hk : k ≠ k' := by simpa using hne
      intro v hv
      simp only [List.mem_cons, Prod.mk.injEq] at hv
      rcases hv with ⟨e, _⟩ | hv
      · exact hk e
      · exact ih h v hv

/-- one `Import` call of an importer that compiles every path separately keeps the invariant -/
theorem ImporterInv_noteCompiled (st : St) (env : Env) (hl : LocalImporter env) (n : Path)
    (h : ImporterInv st) : ImporterInv (st.noteCompiled env n) := by
  unfold St.noteCompiled
  split
  · exact h
  · rename_i hmiss
    rw [hl st.compiled n]
    obtain ⟨hi, hb⟩ := h
    refine ⟨?_, ?_⟩
    · intro p hp q hq hpq
      simp only [List.mem_cons] at hp hq
      rcases hp with rfl | hp <;> rcases hq with rfl | hq
      · rfl
      · have := hb q hq; simp only at hpq; omega
      · have := hb p hp; simp only at hpq; omega
      · exact hi p hp q hq hpq
    · intro p hp
      simp only [List.mem_cons] at hp
      rcases hp with rfl | hp
      · simp
      · have := hb p hp; simp only; omega

theorem ImporterInv_noteOpens (st : St) (env : Env) (n : Path) (h : ImporterInv st) :
    ImporterInv (st.noteOpens env n) := by
  unfold St.noteOpens; split <;> exact h

def R4 (st st' : St) : Prop := ImporterInv st → ImporterInv st'

theorem R4_relOK : RelOK anyArray R4 where
  own_mono := fun _ _ _ => trivial
  own_fn := fun _ _ _ _ => trivial
  refl := fun _ h => h
  trans := fun h1 h2 h => h2 (h1 h)
  store := fun _ _ _ _ _ h => h
  spawn := fun _ _ h hi => h hi

theorem R4_impOK (env : Env) (hl : LocalImporter env) : ImpOK env anyArray R4 where
  rel := R4_relOK
  own_body := fun _ _ _ _ _ => trivial
  nofuel := fun _ _ h => h
  refuse := fun _ _ h => h
  opens := fun st n h => ImporterInv_noteOpens st env n h
  compiled := fun st n h => ImporterInv_noteCompiled st env hl n h
  load := by
    intro st c h
    unfold St.loadCode
    split <;> exact h
  overflow := fun _ _ h => h
  bodyOk := fun _ _ _ _ _ _ _ _ hb h => hb h
  bodyFail := fun _ _ _ _ _ _ _ _ hb h => hb h

end Risor.C14

namespace Risor.C14
open Risor.C13 (Path)

theorem getElem?_modifyAt_ne {α : Type} (f : α → α) (n m : Nat) (l : List α) (h : m ≠ n) :
    (modifyAt f n l)[m]? = l[m]? := by
  induction l generalizing n m with
  | nil => cases n <;> rfl
  | cons x xs ih =>
    cases n with
    | zero =>
      cases m with
      | zero => exact absurd rfl h
      | succ m => simp [modifyAt]
    | succ n =>
      cases m with
      | zero => simp [modifyAt]
      | succ m => simp only [modifyAt, List.getElem?_cons_succ]; exact ih n m (by omega)

/-! ### Instance 4: sessions — what one VM's step does to the shared state -/

/-- the arrays a VM may store into: its script's array `m` and the arrays it has loaded -/
def OwnM (m : Nat) (st : St) (g : Nat) : Prop := g = m ∨ ∃ c, (c, g) ∈ st.loaded

/-- the invariant of one VM (registers loaded into `st`) over the shared state: every array any VM
    created exists; the VM's loaded arrays are recorded with their code; for every module the VM
    has imported, the array the module object is bound to is the array the VM has loaded for the
    module's code (attribute view = function view) -/
def W (st : St) : Prop :=
  (∀ p ∈ st.owner, p.2 < st.heap.length) ∧
  (∀ p ∈ st.loaded, p ∈ st.owner) ∧
  (∀ c g, st.loaded.lookup c = some g → st.codeOfGid g = some c) ∧
  (∀ p ∈ st.cache, ∃ nm g c, st.objs[p.2]? = some (nm, g) ∧ st.loaded.lookup c = some g)

structure R5 (m : Nat) (st st' : St) : Prop where
  objs : ∃ ext, st'.objs = st.objs ++ ext
  heap : st.heap.length ≤ st'.heap.length
  keep : ∀ c g, st.loaded.lookup c = some g → st'.loaded.lookup c = some g
  keepm : ∀ p ∈ st.loaded, p ∈ st'.loaded
  fresh : ∀ p ∈ st'.loaded, p ∈ st.loaded ∨ st.heap.length ≤ p.2
  newc : ∀ p ∈ st'.cache, p ∈ st.cache ∨ st.objs.length ≤ p.2
  own : ∀ p ∈ st.owner, p ∈ st'.owner
  stable : ∀ g, g < st.heap.length → st'.codeOfGid g = st.codeOfGid g
  w : W st → W st'
  frame : ∀ g, g < st.heap.length → ¬ OwnM m st g → st'.globals g = st.globals g

theorem W_congr {a b : St} (h1 : b.owner = a.owner) (h2 : b.heap.length = a.heap.length)
    (h3 : b.loaded = a.loaded) (h4 : b.cache = a.cache) (h5 : b.objs = a.objs) (h : W a) : W b := by
  unfold W St.codeOfGid at *
  rw [h1, h2, h3, h4, h5]
  exact h

/-- a step that changes neither objects, arrays, registers nor the ownership log -/
theorem R5_same (m : Nat) {a b : St} (h1 : b.owner = a.owner) (h2 : b.heap = a.heap)
    (h3 : b.loaded = a.loaded) (h4 : b.cache = a.cache) (h5 : b.objs = a.objs) : R5 m a b where
  objs := ⟨[], by simp [h5]⟩
  heap := by rw [h2]; exact Nat.le_refl _
  keep := by intro c g h; rw [h3]; exact h
  keepm := by intro p h; rw [h3]; exact h
  fresh := by intro p h; rw [h3] at h; exact Or.inl h
  newc := by intro p h; rw [h4] at h; exact Or.inl h
  own := by intro p h; rw [h1]; exact h
  stable := by intro g _; unfold St.codeOfGid; rw [h1]
  w := W_congr h1 (by rw [h2]) h3 h4 h5
  frame := by intro g _ _; unfold St.globals; rw [h2]

theorem R5_refl (m : Nat) (st : St) : R5 m st st := R5_same m rfl rfl rfl rfl rfl

theorem R5_trans (m : Nat) {a b c : St} (h1 : R5 m a b) (h2 : R5 m b c) : R5 m a c where
  objs := by
    obtain ⟨e1, he1⟩ := h1.objs
    obtain ⟨e2, he2⟩ := h2.objs
    exact ⟨e1 ++ e2, by rw [he2, he1, List.append_assoc]⟩
  heap := Nat.le_trans h1.heap h2.heap
  keep := fun c g h => h2.keep c g (h1.keep c g h)
  keepm := fun p h => h2.keepm p (h1.keepm p h)
  fresh := by
    intro p hp
    rcases h2.fresh p hp with h | h
    · exact h1.fresh p h
    · exact Or.inr (Nat.le_trans h1.heap h)
  newc := by
    intro p hp
    rcases h2.newc p hp with h | h
    · exact h1.newc p h
    · right
      obtain ⟨e1, he1⟩ := h1.objs
      have : a.objs.length ≤ b.objs.length := by rw [he1]; simp
      omega
  own := fun p h => h2.own p (h1.own p h)
  stable := by
    intro g hg
    rw [h2.stable g (Nat.lt_of_lt_of_le hg h1.heap), h1.stable g hg]
  w := fun h => h2.w (h1.w h)
  frame := by
    intro g hg hno
    have hb : ¬ OwnM m b g := by
      intro ho
      rcases ho with ho | ⟨c', hc'⟩
      · exact hno (Or.inl ho)
      · rcases h1.fresh _ hc' with h | h
        · exact hno (Or.inr ⟨c', h⟩)
        · simp only at h; omega
    rw [h2.frame g (Nat.lt_of_lt_of_le hg h1.heap) hb, h1.frame g hg hno]

theorem W_store (st : St) (g : Nat) (k : Path) (v : Val) (h : W st) : W (st.store g k v) :=
  W_congr (a := st) (b := st.store g k v) rfl (by simp [St.store, length_modifyAt]) rfl rfl rfl h

theorem R5_store (m : Nat) (st : St) (g : Nat) (k : Path) (v : Val) (hg : OwnM m st g) :
    R5 m st (st.store g k v) where
  objs := ⟨[], by simp [St.store]⟩
  heap := by simp [St.store, length_modifyAt]
  keep := fun _ _ h => h
  keepm := fun _ h => h
  fresh := fun _ h => Or.inl h
  newc := fun _ h => Or.inl h
  own := fun _ h => h
  stable := fun _ _ => rfl
  w := W_store st g k v
  frame := by
    intro g' _ hno
    have hne : g' ≠ g := by intro e; subst e; exact hno hg
    simp only [St.store, St.globals]
    rw [getElem?_modifyAt_ne _ _ _ _ hne]

theorem lookup_mem_nat {α : Type} (l : List (Nat × α)) (k : Nat) (v : α)
    (h : l.lookup k = some v) : (k, v) ∈ l := lookup_mem l k v h

theorem fnArray_loaded (st : St) (o g : Nat) (h : st.fnArray o = some g) : ∃ c, (c, g) ∈ st.loaded := by
  unfold St.fnArray at h
  split at h
  · split at h
    · rename_i c _
      exact ⟨c, lookup_mem _ _ _ h⟩
    · cases h
  · cases h

theorem R5_spawn (m : Nat) (st st1 : St)
    (h : R5 m { st with spawns := st.spawns + 1, importing := [] } st1) :
    R5 m st { st1 with cache := st.cache, loaded := st.loaded, importing := st.importing } where
  objs := h.objs
  heap := h.heap
  keep := fun _ _ hl => hl
  keepm := fun _ hl => hl
  fresh := fun _ hl => Or.inl hl
  newc := fun _ hl => Or.inl hl
  own := h.own
  stable := h.stable
  w := by
    intro hw
    have hw0 : W { st with spawns := st.spawns + 1, importing := [] } := hw
    obtain ⟨b1, _, _, _⟩ := h.w hw0
    obtain ⟨b0, l0, v0, c0⟩ := hw
    refine ⟨b1, ?_, ?_, ?_⟩
    · intro p hp; exact h.own p (l0 p hp)
    · intro c g hl
      have hg : g < st.heap.length := b0 _ (l0 _ (lookup_mem _ _ _ hl))
      show st1.codeOfGid g = some c
      rw [h.stable g hg]
      exact v0 c g hl
    · intro p hp
      obtain ⟨nm, g, c, ho, hl⟩ := c0 p hp
      obtain ⟨ext, he⟩ := h.objs
      refine ⟨nm, g, c, ?_, hl⟩
      show st1.objs[p.2]? = some (nm, g)
      rw [he, List.getElem?_append_left (by
        have := List.getElem?_eq_some_iff.1 ho
        obtain ⟨hlt, _⟩ := this
        exact hlt)]
      exact ho
  frame := h.frame

theorem R5_relOK (m : Nat) : RelOK (OwnM m) (R5 m) where
  refl := R5_refl m
  trans := fun h1 h2 => R5_trans m h1 h2
  store := fun st g k v hg => R5_store m st g k v hg
  spawn := R5_spawn m
  own_mono := by
    intro st st' g h ho
    rcases ho with ho | ⟨c, hc⟩
    · exact Or.inl ho
    · exact Or.inr ⟨c, h.keepm _ hc⟩
  own_fn := fun st o g h => Or.inr (fnArray_loaded st o g h)

theorem getElem?_lt_of_some {α : Type} {l : List α} {i : Nat} {a : α} (h : l[i]? = some a) : i < l.length :=
  (List.getElem?_eq_some_iff.1 h).1

theorem lookup_cons_ne {α : Type} (l : List (Nat × α)) (k k' : Nat) (v : α) (h : k ≠ k') :
    ((k', v) :: l).lookup k = l.lookup k := by
  have : (k == k') = false := by simpa using h
  simp [List.lookup, this]

theorem codeOfGid_cons_ne (st : St) (c g g' : Nat) (h : g' ≠ g) :
    ({ st with owner := (c, g) :: st.owner } : St).codeOfGid g' = st.codeOfGid g' := by
  unfold St.codeOfGid
  have : ((c, g).2 == g') = false := by simp; exact fun e => h e.symm
  simp [List.find?, this]

theorem W_loadCode (st : St) (c : Nat) (h : W st) : W (st.loadCode c) := by
  unfold St.loadCode
  split
  · exact h
  · rename_i hmiss
    obtain ⟨b, l, v, ca⟩ := h
    refine ⟨?_, ?_, ?_, ?_⟩
    · intro p hp
      simp only [List.mem_cons, List.length_append, List.length_cons, List.length_nil] at hp ⊢
      rcases hp with rfl | hp
      · simp
      · have := b p hp; omega
    · intro p hp
      simp only [List.mem_cons] at hp ⊢
      rcases hp with rfl | hp
      · exact Or.inl rfl
      · exact Or.inr (l p hp)
    · intro c' g hl
      by_cases hc : c' = c
      · subst hc
        simp only [List.lookup, beq_self_eq_true] at hl
        cases hl
        simp [St.codeOfGid, List.find?]
      · rw [lookup_cons_ne _ _ _ _ hc] at hl
        have hg : g < st.heap.length := b _ (l _ (lookup_mem _ _ _ hl))
        have := codeOfGid_cons_ne st c st.heap.length g (by omega)
        simp only [St.codeOfGid] at this ⊢
        rw [this]
        exact v c' g hl
    · intro p hp
      obtain ⟨nm, g, c', ho, hl⟩ := ca p hp
      refine ⟨nm, g, c', ho, ?_⟩
      have hc : c' ≠ c := by intro e; subst e; rw [hmiss] at hl; cases hl
      show ((c, st.heap.length) :: st.loaded).lookup c' = some g
      rw [lookup_cons_ne _ _ _ _ hc]; exact hl

theorem R5_loadCode (m : Nat) (st : St) (c : Nat) : R5 m st (st.loadCode c) := by
  by_cases hl : st.loaded.lookup c = none
  · have e : st.loadCode c = ({ st with loaded := (c, st.heap.length) :: st.loaded, owner := (c, st.heap.length) :: st.owner, heap := st.heap ++ [[]] } : St) := by
      unfold St.loadCode; rw [hl]
    refine ⟨?_, ?_, ?_, ?_, ?_, ?_, ?_, ?_, W_loadCode st c, ?_⟩
    · exact ⟨[], by rw [e]; simp⟩
    · rw [e]; simp
    · intro c' g h
      rw [e]
      have hc : c' ≠ c := by intro e'; subst e'; rw [hl] at h; cases h
      show ((c, st.heap.length) :: st.loaded).lookup c' = some g
      rw [lookup_cons_ne _ _ _ _ hc]; exact h
    · intro p hp; rw [e]; exact List.mem_cons_of_mem _ hp
    · intro p hp
      rw [e] at hp
      simp only [List.mem_cons] at hp
      rcases hp with rfl | hp
      · exact Or.inr (Nat.le_refl _)
      · exact Or.inl hp
    · intro p hp; rw [e] at hp; exact Or.inl hp
    · intro p hp; rw [e]; exact List.mem_cons_of_mem _ hp
    · intro g hg
      rw [e]
      have := codeOfGid_cons_ne st c st.heap.length g (by omega)
      simp only [St.codeOfGid] at this ⊢
      exact this
    · intro g hg _
      rw [e]
      simp only [St.globals]
      rw [List.getElem?_append_left hg]
  · have e : st.loadCode c = st := by
      unfold St.loadCode
      cases h : st.loaded.lookup c with
      | none => exact absurd h hl
      | some g => rfl
    rw [e]; exact R5_refl m st

theorem W_enter (st : St) (name : Path) (gid : Nat) (h : W st) : W (st.enter name gid) := by
  obtain ⟨b, l, v, ca⟩ := h
  refine ⟨b, l, v, ?_⟩
  intro p hp
  obtain ⟨nm, g, c, ho, hl⟩ := ca p hp
  refine ⟨nm, g, c, ?_, hl⟩
  show (st.objs ++ [(name, gid)])[p.2]? = some (nm, g)
  rw [List.getElem?_append_left (getElem?_lt_of_some ho)]; exact ho

/-- after the body: the deferred restore, then `vm.modules[name] = module` / the failure log -/
theorem R5_body (m : Nat) (st3 st5 : St) (name : Path) (gid : Nat) (cacheIt : Bool)
    (hlk : ∃ c, st3.loaded.lookup c = some gid) (hb : R5 m (st3.enter name gid) st5) :
    R5 m st3 (if cacheIt then st5.leave.cacheAdd name st3.objs.length else st5.leave.fail name) := by
  obtain ⟨ext, he⟩ := hb.objs
  have he' : st5.objs = st3.objs ++ ((name, gid) :: ext) := by
    rw [he]; show (st3.objs ++ [(name, gid)]) ++ ext = _; simp
  have hidx : st5.objs[st3.objs.length]? = some (name, gid) := by rw [he']; simp
  have hw5 : W st3 → W st5 := fun hw => hb.w (W_enter st3 name gid hw)
  cases cacheIt with
  | false =>
    simp only [Bool.false_eq_true, ↓reduceIte]
    refine ⟨⟨_, he'⟩, hb.heap, hb.keep, hb.keepm, hb.fresh, ?_, hb.own, hb.stable, ?_, hb.frame⟩
    · intro p hp
      rcases hb.newc p hp with h | h
      · exact Or.inl h
      · right
        have : (st3.enter name gid).objs.length = st3.objs.length + 1 := by simp [St.enter]
        omega
    · intro hw
      exact W_congr (a := st5) (b := st5.leave.fail name) rfl rfl rfl rfl rfl (hw5 hw)
  | true =>
    simp only [↓reduceIte]
    refine ⟨⟨_, he'⟩, hb.heap, hb.keep, hb.keepm, hb.fresh, ?_, hb.own, hb.stable, ?_, hb.frame⟩
    · intro p hp
      simp only [St.cacheAdd, St.leave, List.mem_cons] at hp
      rcases hp with rfl | hp
      · exact Or.inr (Nat.le_refl _)
      · rcases hb.newc p hp with h | h
        · exact Or.inl h
        · right
          have : (st3.enter name gid).objs.length = st3.objs.length + 1 := by simp [St.enter]
          omega
    · intro hw
      obtain ⟨b, l, v, ca⟩ := hw5 hw
      refine ⟨b, l, v, ?_⟩
      intro p hp
      simp only [St.cacheAdd, St.leave, List.mem_cons] at hp
      rcases hp with rfl | hp
      · obtain ⟨c, hc⟩ := hlk
        exact ⟨name, gid, c, hidx, hb.keep c gid hc⟩
      · exact ca p hp

theorem R5_impOK (env : Env) (m : Nat) : ImpOK env (OwnM m) (R5 m) where
  rel := R5_relOK m
  own_body := fun _ _ c _ h => Or.inr ⟨c, h⟩
  nofuel := fun _ _ => R5_same m rfl rfl rfl rfl rfl
  refuse := fun _ _ => R5_same m rfl rfl rfl rfl rfl
  opens := by
    intro st n
    unfold St.noteOpens
    split <;> exact R5_same m rfl rfl rfl rfl rfl
  compiled := by
    intro st n
    unfold St.noteCompiled
    split
    · exact R5_refl m st
    · split <;> exact R5_same m rfl rfl rfl rfl rfl
  load := R5_loadCode m
  overflow := fun _ _ => R5_same m rfl rfl rfl rfl rfl
  bodyOk := fun st3 st5 name gid _ _ _ hlk hb => R5_body m st3 st5 name gid true hlk hb
  bodyFail := fun st3 st5 name gid _ _ _ hlk hb => R5_body m st3 st5 name gid false hlk hb

/-! ### sessions: the invariant over all VMs -/

structure SInv (n : Nat) (s : Sess) : Prop where
  len : s.vms.length = n
  heap : n ≤ s.sh.heap.length
  main : ∀ (i : Nat) (v : VM), s.vms[i]? = some v → v.main = i
  w : ∀ v ∈ s.vms, W (s.sh.withVM v)
  low : ∀ v ∈ s.vms, ∀ p ∈ v.loaded, n ≤ p.2
  disj : ∀ (i j : Nat) (vi vj : VM), i ≠ j → s.vms[i]? = some vi → s.vms[j]? = some vj →
    (∀ p ∈ vi.loaded, ∀ q ∈ vj.loaded, p.2 ≠ q.2) ∧ (∀ p ∈ vi.cache, ∀ q ∈ vj.cache, p.2 ≠ q.2)

theorem SInv_init (n : Nat) : SInv n (Sess.init n) where
  len := by simp [Sess.init]
  heap := by simp [Sess.init]
  main := by
    intro i v h
    simp only [Sess.init, List.getElem?_map] at h
    cases hr : (List.range n)[i]? with
    | none => simp [hr] at h
    | some e =>
      simp only [hr, Option.map_some, Option.some.injEq] at h
      have := List.getElem?_eq_some_iff.1 hr
      obtain ⟨_, he⟩ := this
      simp at he
      subst h; exact he.symm
  w := by
    intro v hv
    simp only [Sess.init, List.mem_map] at hv
    obtain ⟨e, _, rfl⟩ := hv
    refine ⟨?_, ?_, ?_, ?_⟩ <;> simp [Sess.init, St.withVM, St.init]
  low := by
    intro v hv
    simp only [Sess.init, List.mem_map] at hv
    obtain ⟨e, _, rfl⟩ := hv
    simp
  disj := by
    intro i j vi vj _ hi hj
    have hi' := List.mem_of_getElem? hi
    have hj' := List.mem_of_getElem? hj
    simp only [Sess.init, List.mem_map] at hi' hj'
    obtain ⟨_, _, rfl⟩ := hi'
    obtain ⟨_, _, rfl⟩ := hj'
    simp

/-- another VM's invariant survives a step of the executing VM -/
theorem W_other (m : Nat) (st0 st' : St) (hR : R5 m st0 st') (hw0 : W st0) (u : VM)
    (hu : W (st0.withVM u)) : W (st'.withVM u) := by
  obtain ⟨b', _, _, _⟩ := hR.w hw0
  obtain ⟨b, l, v, ca⟩ := hu
  refine ⟨b', ?_, ?_, ?_⟩
  · intro p hp; exact hR.own p (l p hp)
  · intro c g hl
    have hg : g < st0.heap.length := b _ (l _ (lookup_mem _ _ _ hl))
    show st'.codeOfGid g = some c
    rw [hR.stable g hg]
    exact v c g hl
  · intro p hp
    obtain ⟨nm, g, c, ho, hl⟩ := ca p hp
    obtain ⟨ext, he⟩ := hR.objs
    have ho' : st0.objs[p.2]? = some (nm, g) := ho
    refine ⟨nm, g, c, ?_, hl⟩
    show st'.objs[p.2]? = some (nm, g)
    rw [he, List.getElem?_append_left (getElem?_lt_of_some ho')]
    exact ho'

/-- one step of a session keeps the invariant, for any import function that respects `R5` -/
theorem SInv_step (imp : ImpFn) (himp : ∀ m d st nm, R5 m st (imp d st nm).2) (env : Env) (n : Nat)
    (s : Sess) (e : Nat) (stmt : Stmt) (h : SInv n s) : SInv n (sessStep imp env s e stmt) := by
  unfold sessStep
  split
  · exact h
  · rename_i v hv
    split
    · have hvm : v ∈ s.vms := List.mem_of_getElem? hv
      have hR : R5 v.main (s.sh.withVM v) (execStmt imp env v.main 0 (s.sh.withVM v) stmt).2 :=
        execStmt_rel (R5_relOK v.main) imp (himp v.main) env v.main 0 _ stmt (Or.inl rfl)
      generalize (execStmt imp env v.main 0 (s.sh.withVM v) stmt) = r at hR
      have hw0 : W (s.sh.withVM v) := h.w v hvm
      have hw' : W r.2 := hR.w hw0
      have hlt : e < s.vms.length := getElem?_lt_of_some hv
      refine ⟨?_, ?_, ?_, ?_, ?_, ?_⟩
      · simp [h.len]
      · exact Nat.le_trans h.heap hR.heap
      · intro i u hu
        by_cases hie : e = i
        · subst hie
          rw [List.getElem?_set_self hlt] at hu
          cases hu
          exact h.main e v hv
        · rw [List.getElem?_set_ne hie] at hu
          exact h.main i u hu
      · intro u hu
        rcases List.mem_or_eq_of_mem_set hu with hu | rfl
        · exact W_other v.main _ _ hR hw0 u (h.w u hu)
        · exact W_congr (a := r.2) rfl rfl rfl rfl rfl hw'
      · intro u hu p hp
        rcases List.mem_or_eq_of_mem_set hu with hu | rfl
        · exact h.low u hu p hp
        · rcases hR.fresh p hp with hp | hp
          · exact h.low v hvm p hp
          · exact Nat.le_trans h.heap hp
      · -- the executing VM against another one
        have one : ∀ j vj, e ≠ j → s.vms[j]? = some vj →
            (∀ p ∈ r.2.loaded, ∀ q ∈ vj.loaded, p.2 ≠ q.2) ∧ (∀ p ∈ r.2.cache, ∀ q ∈ vj.cache, p.2 ≠ q.2) := by
          intro j vj hej hj
          have hd := h.disj e j v vj hej hv hj
          obtain ⟨bj, lj, _, cj⟩ := h.w vj (List.mem_of_getElem? hj)
          refine ⟨?_, ?_⟩
          · intro p hp q hq
            rcases hR.fresh p hp with hp | hp
            · exact hd.1 p hp q hq
            · have : q.2 < s.sh.heap.length := bj q (lj q hq)
              have hp' : s.sh.heap.length ≤ p.2 := hp
              omega
          · intro p hp q hq
            rcases hR.newc p hp with hp | hp
            · exact hd.2 p hp q hq
            · obtain ⟨_, _, _, ho, _⟩ := cj q hq
              have : q.2 < s.sh.objs.length := getElem?_lt_of_some ho
              have hp' : s.sh.objs.length ≤ p.2 := hp
              omega
        intro i j vi vj hij hi hj
        by_cases hie : e = i
        · subst hie
          rw [List.getElem?_set_self hlt] at hi
          cases hi
          rw [List.getElem?_set_ne hij] at hj
          exact one j vj hij hj
        · rw [List.getElem?_set_ne hie] at hi
          by_cases hje : e = j
          · subst hje
            rw [List.getElem?_set_self hlt] at hj
            cases hj
            have := one i vi hie hi
            exact ⟨fun p hp q hq => (this.1 q hq p hp).symm, fun p hp q hq => (this.2 q hq p hp).symm⟩
          · rw [List.getElem?_set_ne hje] at hj
            exact h.disj i j vi vj hij hi hj
    · exact h

theorem SInv_run (imp : ImpFn) (himp : ∀ m d st nm, R5 m st (imp d st nm).2) (env : Env) (n : Nat)
    (sched : List (Nat × Stmt)) : SInv n (sessRun imp env n sched) := by
  unfold sessRun
  have key : ∀ (sched : List (Nat × Stmt)) (s : Sess), SInv n s →
      SInv n (sched.foldl (fun s p => sessStep imp env s p.1 p.2) s) := by
    intro sched
    induction sched with
    | nil => intro s h; exact h
    | cons p rest ih => intro s h; exact ih _ (SInv_step imp himp env n s p.1 p.2 h)
  exact key sched _ (SInv_init n)

end Risor.C14

namespace Risor.C14
open Risor.C13

/-! ## Part A: path texts -/

theorem okFrom_append (a rest : Path) :
    ∀ s, okFrom s a = true → okFrom s (a ++ rest) = okFrom false rest := by
  induction a with
  | nil => intro s h; cases s <;> simp_all [okFrom]
  | cons c cs ih =>
    intro s h
    cases s with
    | true =>
      simp only [okFrom, Bool.and_eq_true] at h
      simp only [List.cons_append, okFrom, h.1.1, h.1.2, Bool.true_and]
      exact ih false h.2
    | false =>
      simp only [okFrom] at h
      simp only [List.cons_append, okFrom]
      split
      · rename_i hc; rw [if_pos hc] at h; exact ih true h
      · rename_i hc; rw [if_neg hc] at h; exact ih false h

theorem okFrom_false_sepfree (q : Path) (h : 47 ∉ q) : okFrom false q = true := by
  induction q with
  | nil => rfl
  | cons c cs ih =>
    simp only [List.mem_cons, not_or] at h
    have hc : c ≠ 47 := fun e => h.1 e.symm
    simp only [okFrom, hc, ↓reduceIte]
    exact ih h.2

theorem okFrom_true_false (p : Path) (h : okFrom true p = true) : okFrom false p = true := by
  cases p with
  | nil => simp [okFrom] at h
  | cons c cs =>
    simp only [okFrom, Bool.and_eq_true, bne_iff_ne, ne_eq] at h
    simp only [okFrom, h.1.1, ↓reduceIte]
    exact h.2

/-- a component that starts a file or directory name: non-empty, not starting with '.' -/
def PlainStart (c : Path) : Prop := c ≠ [] ∧ c.head? ≠ some 46

theorem plainStart_plain (c : Path) (h : PlainStart c) : plain c = true := by
  obtain ⟨h1, h2⟩ := h
  cases c with
  | nil => exact absurd rfl h1
  | cons x xs =>
    have hx : x ≠ 46 := by simpa using h2
    rw [plain_iff]
    refine ⟨by simp, ?_, ?_⟩
    · intro e; simp only [List.cons.injEq] at e; exact hx e.1
    · intro e; simp only [dotdot, List.cons.injEq] at e; exact hx e.1

theorem okFrom_split (p : Path) :
    (okFrom true p = true → ∀ c ∈ split p, PlainStart c) ∧
    (okFrom false p = true → ∀ c ∈ (split p).tail, PlainStart c) := by
  induction p with
  | nil => simp [okFrom, split]
  | cons x xs ih =>
    by_cases hx : x = 47
    · subst hx
      refine ⟨by simp [okFrom], ?_⟩
      intro h
      simp only [okFrom, ↓reduceIte] at h
      simpa [split] using ih.1 h
    · cases hs : split xs with
      | nil => exact absurd hs (split_ne_nil xs)
      | cons hd tl =>
        have hsp : split (x :: xs) = (x :: hd) :: tl := by
          rw [split]; simp only [hx, ↓reduceIte, hs]
        rw [hsp]
        rw [hs] at ih
        refine ⟨?_, ?_⟩
        · intro h
          simp only [okFrom, Bool.and_eq_true, bne_iff_ne, ne_eq] at h
          intro c hc
          simp only [List.mem_cons] at hc
          rcases hc with rfl | hc
          · exact ⟨by simp, by simpa using h.1.2⟩
          · exact ih.2 h.2 c (by simpa using hc)
        · intro h
          simp only [okFrom, hx, ↓reduceIte] at h
          simpa using ih.2 h

theorem nameOK_good (p : Path) (h : nameOK p = true) : Good (split p) := by
  intro c hc
  exact ⟨plainStart_plain c ((okFrom_split p).1 h c hc), split_sepfree p c hc⟩

theorem joinSep_split (p : Path) : joinSep (split p) = p := by
  induction p with
  | nil => simp [split, joinSep]
  | cons x xs ih =>
    cases hs : split xs with
    | nil => exact absurd hs (split_ne_nil xs)
    | cons hd tl =>
      rw [hs] at ih
      by_cases hx : x = 47
      · subst hx
        simp only [split, ↓reduceIte, hs, joinSep, List.nil_append, ih]
      · have hsp : split (x :: xs) = (x :: hd) :: tl := by
          rw [split]; simp only [hx, ↓reduceIte, hs]
        rw [hsp]
        cases tl with
        | nil => simp only [joinSep] at ih ⊢; rw [ih]
        | cons d r => simp only [joinSep] at ih ⊢; rw [← ih]; simp

theorem isAbs_append (root rest : Path) (h : root ≠ []) : isAbs (root ++ rest) = isAbs root := by
  cases root with
  | nil => exact absurd rfl h
  | cons x xs =>
    by_cases hx : x = 47
    · subst hx; simp [isAbs]
    · rw [List.cons_append, isAbs_cons_ne x _ hx, isAbs_cons_ne x _ hx]

theorem cleanStr_nonempty (root : Path) (h : root ≠ []) :
    cleanStr root = render (isAbs root) (cleanComps (isAbs root) (split root)) := by
  cases root with
  | nil => exact absurd rfl h
  | cons x xs => simp [cleanStr]

/-- `Clean(root + "/" + p)` when every component of `p` is a plain name: nothing of `p` can
    cancel or leave a component of the root, for ANY root string. -/
theorem cleanStr_root_join (root p : Path) (hr : root ≠ []) (hg : Good (split p)) :
    cleanStr (root ++ 47 :: p) =
      render (isAbs root) (cleanComps (isAbs root) (split root) ++ split p) := by
  have hne : root ++ 47 :: p ≠ [] := by simp
  rw [cleanStr_nonempty _ hne, isAbs_append root _ hr, split_append_sep]
  simp only [cleanComps, List.foldl_append]
  rw [foldl_push_plain _ _ _ (fun c hc => (hg c hc).1)]
  simp

theorem nameOK_ne_nil (p : Path) (h : nameOK p = true) : p ≠ [] := by
  intro e; subst e; simp [nameOK, okFrom] at h

theorem nameOK_append_ext (name ext : Path) (h : nameOK name = true) (he : 47 ∉ ext) :
    nameOK (name ++ ext) = true := by
  unfold nameOK at *
  rw [okFrom_append name ext true h]
  exact okFrom_false_sepfree ext he

theorem nameOK_join (a b : Path) (ha : nameOK a = true) (hb : nameOK b = true) :
    nameOK (a ++ 47 :: b) = true := by
  unfold nameOK at *
  rw [okFrom_append a _ true ha]
  simpa [okFrom] using hb

theorem nameOK_not_abs (p : Path) (h : nameOK p = true) : isAbs p = false := by
  cases p with
  | nil => rfl
  | cons x xs =>
    simp only [nameOK, okFrom, Bool.and_eq_true, bne_iff_ne, ne_eq] at h
    exact isAbs_cons_ne x xs h.1.1

/-- `filepath.Clean` leaves a well-formed module name unchanged -/
theorem cleanStr_nameOK (p : Path) (h : nameOK p = true) : cleanStr p = p := by
  have hne := nameOK_ne_nil p h
  have hg := nameOK_good p h
  rw [cleanStr_nonempty p hne, nameOK_not_abs p h]
  simp only [cleanComps]
  rw [foldl_push_plain _ _ _ (fun c hc => (hg c hc).1)]
  simp only [List.append_nil, List.reverse_reverse, render, Bool.false_eq_true, ↓reduceIte]
  cases hs : split p with
  | nil => exact absurd hs (split_ne_nil p)
  | cons hd tl => simp only [List.isEmpty_cons, Bool.false_eq_true, ↓reduceIte]; rw [← hs, joinSep_split]

theorem join2_nameOK (a b : Path) (ha : nameOK a = true) (hb : nameOK b = true) :
    join2 a b = a ++ 47 :: b := by
  have h1 := nameOK_ne_nil a ha
  have h2 := nameOK_ne_nil b hb
  have e1 : a.isEmpty = false := by cases a <;> simp_all
  have e2 : b.isEmpty = false := by cases b <;> simp_all
  simp only [join2, e1, e2, Bool.and_self, Bool.false_eq_true, ↓reduceIte]
  exact cleanStr_nameOK _ (nameOK_join a b ha hb)

/-! ### the recogniser -/

theorem isIdStart_ne (c : Nat) (h : isIdStart c = true) : c ≠ 47 ∧ c ≠ 46 ∧ c ≠ 34 := by
  simp only [isIdStart, isLetter, Bool.or_eq_true, Bool.and_eq_true, decide_eq_true_eq, beq_iff_eq] at h
  omega

theorem isIdChar_ne (c : Nat) (h : isIdChar c = true) : c ≠ 47 ∧ c ≠ 46 := by
  simp only [isIdChar, isIdStart, isLetter, isDigit, Bool.or_eq_true, Bool.and_eq_true,
    decide_eq_true_eq, beq_iff_eq] at h
  omega

theorem regex_okFrom (t : Path) :
    ((∀ c ∈ split t, isIdent c = true) → okFrom true t = true) ∧
    ((∀ b ∈ (split t).headD [], isIdChar b = true) → (∀ c ∈ (split t).tail, isIdent c = true) →
      okFrom false t = true) := by
  induction t with
  | nil => simp [split, isIdent, okFrom]
  | cons x xs ih =>
    by_cases hx : x = 47
    · subst hx
      refine ⟨?_, ?_⟩
      · intro h
        have := h [] (by simp [split])
        simp [isIdent] at this
      · intro _ h2
        simp only [okFrom, ↓reduceIte]
        exact ih.1 (by simpa [split] using h2)
    · cases hs : split xs with
      | nil => exact absurd hs (split_ne_nil xs)
      | cons hd tl =>
        have hsp : split (x :: xs) = (x :: hd) :: tl := by
          rw [split]; simp only [hx, ↓reduceIte, hs]
        rw [hsp]
        rw [hs] at ih
        refine ⟨?_, ?_⟩
        · intro h
          have h0 := h (x :: hd) (by simp)
          simp only [isIdent, Bool.and_eq_true, List.all_eq_true] at h0
          have hn := isIdStart_ne x h0.1
          simp only [okFrom, Bool.and_eq_true, bne_iff_ne, ne_eq]
          refine ⟨⟨hn.1, hn.2.1⟩, ?_⟩
          exact ih.2 (by simpa using h0.2) (fun c hc => h c (by simp at hc ⊢; exact Or.inr hc))
        · intro h1 h2
          simp only [okFrom, hx, ↓reduceIte]
          refine ih.2 ?_ (by simpa using h2)
          intro b hb
          exact h1 b (by simp at hb ⊢; exact Or.inr hb)

theorem regex_nameOK (t : Path) (h : matchesPathRegex t = true) : nameOK t = true := by
  simp only [matchesPathRegex, List.all_eq_true] at h
  exact (regex_okFrom t).1 h

theorem dropQ_spec (p : Path) : ∃ l, (∀ b ∈ l, b = 34) ∧ p = l ++ dropQ p := by
  induction p with
  | nil => exact ⟨[], by simp, by simp [dropQ]⟩
  | cons c cs ih =>
    by_cases hc : c = 34
    · obtain ⟨l, hl, he⟩ := ih
      refine ⟨34 :: l, ?_, ?_⟩
      · intro b hb; simp only [List.mem_cons] at hb; rcases hb with rfl | hb; rfl; exact hl b hb
      · subst hc; simp only [dropQ, ↓reduceIte, List.cons_append]; rw [← he]
    · exact ⟨[], by simp, by simp [dropQ, hc]⟩

theorem trimQuotes_spec (p : Path) :
    ∃ l r, (∀ b ∈ l, b = 34) ∧ (∀ b ∈ r, b = 34) ∧ p = l ++ trimQuotes p ++ r := by
  obtain ⟨l, hl, he⟩ := dropQ_spec p
  obtain ⟨l2, hl2, he2⟩ := dropQ_spec (dropQ p).reverse
  refine ⟨l, l2.reverse, hl, ?_, ?_⟩
  · intro b hb; exact hl2 b (by simpa using hb)
  · have : dropQ p = (dropQ (dropQ p).reverse).reverse ++ l2.reverse := by
      have := congrArg List.reverse he2
      simpa using this
    unfold trimQuotes
    rw [List.append_assoc, ← this, ← he]

theorem okFrom_false_quotes (l s : Path) (hl : ∀ b ∈ l, b = 34) :
    okFrom false (l ++ s) = okFrom false s := by
  induction l with
  | nil => rfl
  | cons c cs ih =>
    have hc : c = 34 := hl c (by simp)
    subst hc
    simp only [List.cons_append, okFrom]
    exact ih (fun b hb => hl b (by simp [hb]))

/-- **every text `validateImportPath` accepts is a well-formed module name** (the quote
    characters it trims before matching stay in the name, but they are ordinary bytes) -/
theorem validImportPath_nameOK (p : Path) (h : validImportPath p = true) : nameOK p = true := by
  have ht := regex_nameOK _ h
  obtain ⟨l, r, hl, hr, he⟩ := trimQuotes_spec p
  have hr47 : 47 ∉ r := fun hm => by have := hr 47 hm; omega
  have h1 : okFrom true (trimQuotes p ++ r) = true := by
    rw [okFrom_append _ r true ht]; exact okFrom_false_sepfree r hr47
  rw [he, List.append_assoc]
  unfold nameOK
  cases l with
  | nil => simpa using h1
  | cons c cs =>
    have hc : c = 34 := hl c (by simp)
    subst hc
    simp only [List.cons_append, okFrom]
    rw [okFrom_false_quotes cs _ (fun b hb => hl b (by simp [hb]))]
    simpa using okFrom_true_false _ h1

theorem isLexIdentByte_ne (b : Nat) (h : isLexIdentByte b = true) : b ≠ 47 ∧ b ≠ 46 := by
  simp only [isLexIdentByte, isIdChar, isIdStart, isLetter, isDigit, Bool.or_eq_true, Bool.and_eq_true,
    decide_eq_true_eq, beq_iff_eq] at h
  omega

/-- every identifier the lexer can produce is a well-formed (single-component) module name -/
theorem isLexIdent_nameOK (p : Path) (h : isLexIdent p = true) : nameOK p = true := by
  simp only [isLexIdent, Bool.and_eq_true, Bool.not_eq_true', List.all_eq_true] at h
  cases p with
  | nil => simp at h
  | cons c cs =>
    have hc := isLexIdentByte_ne c (h.2 c (by simp))
    simp only [nameOK, okFrom, Bool.and_eq_true, bne_iff_ne, ne_eq]
    refine ⟨⟨hc.1, hc.2⟩, okFrom_false_sepfree cs ?_⟩
    intro hm
    exact (isLexIdentByte_ne 47 (h.2 47 (by simp [hm]))).1 rfl

theorem joinSep_nameOK (ps : List Path) (hne : ps ≠ []) (h : ∀ p ∈ ps, nameOK p = true) :
    nameOK (joinSep ps) = true := by
  induction ps with
  | nil => exact absurd rfl hne
  | cons p rest ih =>
    cases rest with
    | nil => simpa [joinSep] using h p (by simp)
    | cons q rest =>
      simp only [joinSep]
      exact nameOK_join p _ (h p (by simp)) (ih (by simp) (fun x hx => h x (by simp [hx])))

end Risor.C14
