import RisorModel.Util
/-! Line-protocol front end of the C14 model (stub until the model exists). -/
namespace Risor.C14

def handle : List String → String
  | _ => "error\tnot-implemented"

end Risor.C14
