import RisorModel.Util
import RisorModel.C14.Model
/-!
Line-protocol front end of the C14 model (requests after the leading `C14` field).

  spell  <kind> <a> <b>          kind ∈ ident|quoted|fromdot|fromq ; a = hex (fromdot: csv of hex) ; b = item hex or "-"
         → accept|reject TAB csv(requested names) TAB csv(nameOK of each)
  valid  <path>                  → true|false TAB nameOK
  file   <root> <name> <ext>     → hex(fileName) TAB underRoot
  run    <fuel> <limit> <root> <exts> <keys> <files> <main>
         → out TAB ticks TAB opens TAB failed TAB cycles TAB spawns TAB nofuel TAB dump
           TAB runsOnce TAB oneObjectPerName TAB globalsDisjoint TAB reruns(name:cause,...)
           TAB codeInj TAB codecache(name:codeid,... in compilation order)
         (cycles: the imports refused as cyclic, in order)
         (dump: module values are m<object>:<name>:c<code identity>)
  runshared  same arguments and reply, but for an importer that shares one code object between
         modules with equal text (`shareByText`; NOT the unchanged code — diagnosis only)
  codes  <root> <exts> <files> <names>   the importer alone: `importSeq` over the csv of names
         → csv of the code identity the importer's cache holds for each name afterwards ("-" = none)
           TAB codeInj TAB opens
  reach  <exts> <file keys csv> <kind> <a> <b>    one import statement evaluated on its own against a module
         table with these files (empty bodies): → accept|reject TAB hex(file reached)|- TAB csv(requested names)
  mix    <fuel> <limit> <root> <exts> <keys> <files> <main>   (arguments of `run`)
         → out TAB csv(file of each body execution, in order) TAB runsOncePerFile TAB oneObjectPerFile TAB dump
  sess   <fuel> <limit> <root> <exts> <keys> <fkeys> <files> <n> <sched>
         a session of n evaluations sharing one importer; sched = `e!stmt;e!stmt;…` (evaluation index,
         statement in the wire form of `run`); fkeys = the variables that have a getter function
         → outs(csv) TAB ticks(per evaluation, csv, joined by |) TAB opens TAB dumps(per evaluation, joined by |)
           TAB sessViewsAgree TAB sessDisjoint TAB nofuel TAB codecache TAB number of module objects
         (dump of evaluation e: the walk of `run` from its script's array, root `e<e>`; below every module
          value additionally the FUNCTION view `path.k()=value` for every k of fkeys — the value of k in the
          array the evaluation's VM has loaded for the module's code)
  sessmc the same for an importer that caches the module OBJECT per name (`importModuleMC`; NOT the
         unchanged code — diagnosis only)
-/
namespace Risor.C14
open Risor.Util
open Risor.C13 (Path)

def csvHex (s : String) : Option (List Path) :=
  if s = "-" then some [] else (s.splitOn ",").mapM fun x => if x = "~" then some [] else fromHex x

def hexOrTilde (p : Path) : String := if p.isEmpty then "~" else toHex p

def showCsv (ps : List Path) : String :=
  if ps.isEmpty then "-" else ",".intercalate (ps.map hexOrTilde)

def parseItem (s : String) : Option (Path × Path) :=
  match s.splitOn "=" with
  | [a, b] => do pure ((← fromHex a), (← fromHex b))
  | _ => none

def parseStmt (s : String) : Option Stmt :=
  match s.splitOn ":" with
  | ["i", n, a] => do pure (.imp (← fromHex n) (← fromHex a))
  | ["f", p, items] => do pure (.fromImp (← fromHex p) (← (items.splitOn ",").mapM parseItem))
  | ["s", v, i] => do pure (.set (← fromHex v) (← i.toInt?))
  | ["v", a, v, i] => do pure (.setVia (← fromHex a) (← fromHex v) (← i.toInt?))
  | ["a", a, v, i] => do pure (.addVia (← fromHex a) (← fromHex v) (← i.toInt?))
  | ["l", v] => do pure (.newList (← fromHex v))
  | ["u", a, v, i] => do pure (.pushVia (← fromHex a) (← fromHex v) (← i.toInt?))
  | ["t", n] => do pure (.tryImp (← fromHex n))
  | ["p", n] => do pure (.spawnImp (← fromHex n))
  | ["x"] => some .fail
  | _ => none

def parseStmts (s : String) : Option (List Stmt) :=
  if s = "-" then some [] else (s.splitOn ";").mapM parseStmt

def parseFile (s : String) : Option (Path × List Stmt) :=
  match s.splitOn "@" with
  | [p, b] => do pure ((← fromHex p), (← parseStmts b))
  | _ => none

def parseFiles (s : String) : Option (List (Path × List Stmt)) :=
  if s = "-" then some [] else (s.splitOn "|").mapM parseFile

def showVal (st : St) : Val → String
  | .int i => "i" ++ toString i
  | .nil => "n"
  | .list l => "l" ++ ";".intercalate (l.map toString)
  | .mod o => "m" ++ toString o ++ ":" ++
      (match st.objs[o]? with
       | some (n, g) => hexOrTilde n ++ ":c" ++ (match st.codeOfGid g with | some c => toString c | none => "?")
       | none => "?")

/-- tree walk of the globals reachable from the script's frame through module values -/
def dump (st : St) (keys : List Path) : Nat → String → Nat → List String
  | 0, _, _ => []
  | fuel + 1, pre, g =>
    keys.flatMap fun k =>
      match (st.globals g).lookup k with
      | none => []
      | some v =>
        let path := pre ++ "." ++ hexOrTilde k
        (path ++ "=" ++ showVal st v) ::
          (match v with
           | .mod o => (match st.objs[o]? with
              | some (_, g') => dump st keys fuel path g'
              | none => [])
           | _ => [])

def showOut : Out → String
  | .ok => "ok" | .err => "err" | .panic => "panic"

def doRun (shared : Bool) (fuel limit root exts keys files main : String) : String :=
  match fuel.toNat?, limit.toNat?, fromHex root, csvHex exts, csvHex keys, parseFiles files, parseStmts main with
  | some fuel, some limit, some root, some exts, some keys, some files, some main =>
    let env : Env :=
      if shared then { root := root, exts := exts, files := files, limit := limit, reuse := shareByText files exts }
      else { root := root, exts := exts, files := files, limit := limit }
    let r := run env fuel main
    let st := r.2
    let d := dump st keys 5 "main" 0
    "\t".intercalate [showOut r.1, showCsv st.ticks, showCsv st.opens, showCsv st.failed, showCsv st.cycles,
      toString st.spawns, toString st.nofuel,
      (if d.isEmpty then "-" else ",".intercalate d),
      toString (runsOnce st), toString (oneObjectPerName st), toString (globalsDisjoint st),
      (if st.reruns.isEmpty then "-" else ",".intercalate (st.reruns.map fun r => hexOrTilde r.1 ++ ":" ++ toString r.2)),
      toString (codeInj st),
      (if st.compiled.isEmpty then "-" else ",".intercalate (st.compiled.reverse.map fun p => hexOrTilde p.1 ++ ":" ++ toString p.2))]
  | _, _, _, _, _, _, _ => "error\tbad-request"

def showFlat : Val → String
  | .int i => "i" ++ toString i
  | .nil => "n"
  | .list l => "l" ++ ";".intercalate (l.map toString)
  | .mod _ => "m"

/-- the walk of `dump` with, below every module value, the function view of the getter keys -/
def dumpS (st : St) (keys fkeys : List Path) : Nat → String → Nat → List String
  | 0, _, _ => []
  | fuel + 1, pre, g =>
    keys.flatMap fun k =>
      match (st.globals g).lookup k with
      | none => []
      | some v =>
        let path := pre ++ "." ++ hexOrTilde k
        (path ++ "=" ++ showVal st v) ::
          (match v with
           | .mod o =>
             (match st.attrArray o with
              | some g' => dumpS st keys fkeys fuel path g'
              | none => []) ++
             (match st.fnArray o with
              | some gf => fkeys.flatMap fun k' =>
                  match (st.globals gf).lookup k' with
                  | some v' => [path ++ "." ++ hexOrTilde k' ++ "()=" ++ showFlat v']
                  | none => []
              | none => [path ++ ".()=unloaded"])
           | _ => [])

def parseSched (s : String) : Option (List (Nat × Stmt)) :=
  if s = "-" then some [] else (s.splitOn ";").mapM fun x =>
    match x.splitOn "!" with
    | [e, st] => do pure ((← e.toNat?), (← parseStmt st))
    | _ => none

/-- the session step by step, attributing every new body execution to the evaluation that ran it -/
def sessTrace (imp : ImpFn) (env : Env) (n : Nat) (sched : List (Nat × Stmt)) : Sess × List (Nat × Path) :=
  sched.foldl (fun (acc : Sess × List (Nat × Path)) p =>
    let s' := sessStep imp env acc.1 p.1 p.2
    (s', acc.2 ++ (s'.sh.ticks.drop acc.1.sh.ticks.length).map fun t => (p.1, t))) (Sess.init n, [])

def doSess (mc : Bool) (fuel limit root exts keys fkeys files n sched : String) : String :=
  match fuel.toNat?, limit.toNat?, fromHex root, csvHex exts, csvHex keys, csvHex fkeys, parseFiles files, n.toNat?, parseSched sched with
  | some fuel, some limit, some root, some exts, some keys, some fkeys, some files, some n, some sched =>
    let env : Env := { root := root, exts := exts, files := files, limit := limit }
    let imp : ImpFn := if mc then importModuleMC env fuel else importModule env fuel
    let r := sessTrace imp env n sched
    let s := r.1
    let per := fun (f : Nat → VM → String) => "|".intercalate ((List.range s.vms.length).map fun i =>
      match s.vms[i]? with | some v => f i v | none => "?")
    "\t".intercalate [
      ",".intercalate (s.vms.map fun v => showOut v.out),
      per (fun i _ => showCsv ((r.2.filter fun t => t.1 == i).map (·.2))),
      showCsv s.sh.opens,
      per (fun i v =>
        let d := dumpS (s.view v) keys fkeys 5 ("e" ++ toString i) v.main
        if d.isEmpty then "-" else ",".intercalate d),
      toString (sessViewsAgree s), toString (sessDisjoint s), toString s.sh.nofuel,
      (if s.sh.compiled.isEmpty then "-" else ",".intercalate (s.sh.compiled.reverse.map fun p => hexOrTilde p.1 ++ ":" ++ toString p.2)),
      toString s.sh.objs.length]
  | _, _, _, _, _, _, _, _, _ => "error\tbad-request"

def handle : List String → String
  | ["sess", fuel, limit, root, exts, keys, fkeys, files, n, sched] => doSess false fuel limit root exts keys fkeys files n sched
  | ["sessmc", fuel, limit, root, exts, keys, fkeys, files, n, sched] => doSess true fuel limit root exts keys fkeys files n sched
  | ["valid", p] =>
    match fromHex p with
    | some p => toString (validImportPath p) ++ "\t" ++ toString (nameOK p)
    | none => "error\tbad-hex"
  | ["spell", kind, a, b] =>
    let sp : Option Spelling :=
      match kind with
      | "ident" => (fromHex a).map .ident
      | "quoted" => (fromHex a).map .quoted
      | "fromdot" => do pure (.fromDotted (← csvHex a) (← fromHex b))
      | "fromq" => do pure (.fromQuoted (← fromHex a) (← fromHex b))
      | _ => none
    match sp with
    | some sp =>
      let ns := requestedNames sp
      (if accepted sp then "accept" else "reject") ++ "\t" ++ showCsv ns ++ "\t" ++
        ",".intercalate (ns.map fun n => toString (nameOK n))
    | none => "error\tbad-request"
  | ["file", r, n, e] =>
    match fromHex r, fromHex n, fromHex e with
    | some r, some n, some e =>
      toHexField (fileName r n e) ++ "\t" ++ toString (underRoot r (fileName r n e))
    | _, _, _ => "error\tbad-hex"
  | ["run", fuel, limit, root, exts, keys, files, main] => doRun false fuel limit root exts keys files main
  | ["runshared", fuel, limit, root, exts, keys, files, main] => doRun true fuel limit root exts keys files main
  | ["codes", root, exts, files, names] =>
    match fromHex root, csvHex exts, parseFiles files, csvHex names with
    | some root, some exts, some files, some names =>
      let env : Env := { root := root, exts := exts, files := files, limit := 1024 }
      let st := importSeq env names St.init
      "\t".intercalate [
        (if names.isEmpty then "-" else ",".intercalate (names.map fun n =>
          match st.compiled.lookup n with | some c => toString c | none => "-")),
        toString (codeInj st), showCsv st.opens]
    | _, _, _, _ => "error\tbad-request"
  | ["reach", exts, files, kind, a, b] =>
    let sp : Option Spelling :=
      match kind with
      | "ident" => (fromHex a).map .ident
      | "quoted" => (fromHex a).map .quoted
      | "fromdot" => do pure (.fromDotted (← csvHex a) (← fromHex b))
      | "fromq" => do pure (.fromQuoted (← fromHex a) (← fromHex b))
      | _ => none
    match sp, csvHex exts, csvHex files with
    | some sp, some exts, some files =>
      let env : Env := { root := [47, 82], exts := exts, files := files.map (fun f => (f, [])), limit := 1024 }
      (if accepted sp then "accept" else "reject") ++ "\t" ++
        (match reachedFile env sp with | some f => toHexField f | none => "-") ++ "\t" ++ showCsv (requestedNames sp)
    | _, _, _ => "error\tbad-request"
  | ["mix", fuel, limit, root, exts, keys, files, main] =>
    match fuel.toNat?, limit.toNat?, fromHex root, csvHex exts, csvHex keys, parseFiles files, parseStmts main with
    | some fuel, some limit, some root, some exts, some keys, some files, some main =>
      let env : Env := { root := root, exts := exts, files := files, limit := limit }
      let r := run env fuel main
      let st := r.2
      let d := dump st keys 5 "main" 0
      "\t".intercalate [showOut r.1,
        showCsv (st.ticks.map fun n => (fileOf env n env.exts).getD (63 :: n)),
        toString (runsOncePerFile env st), toString (oneObjectPerFile env st),
        (if d.isEmpty then "-" else ",".intercalate d)]
    | _, _, _, _, _, _, _ => "error\tbad-request"
  | _ => "error\tunknown-request"

end Risor.C14
