import RisorModel.C13.Model
/-!
C14 — executable model of risor's import machinery.

Part A (texts): the import-path recogniser of `parser.validateImportPath` (quote trimming
+ the regular expression `^ident(/ident)*$`), the lexer's identifier class (over-
approximated at byte level), the module names each import spelling asks the importer for
(`compiler.compileImport/compileFromImport`, `vm` `op.FromImport`) and the file name the
importer opens (`importer.readFileWithExtensions`: `filepath.Join(dir, name+ext)`).
Paths are byte lists as in C13; `filepath.Join/Clean` are C13's `join2/cleanStr`.

Part B (state machine): `vm.importModule` with the per-VM `modules` cache, the list
`vm.importing` of the modules whose body is being evaluated and the `loadedCode`
map (keyed by the IDENTITY of the compiled code object, as `map[*compiler.Code]*code` is), the
importer (by-name code cache; every `parseAndCompile` yields a new code object; `Env.reuse`
is the hook through which an importer could hand out an existing code object instead),
module frames with the globals array of their code object, `op.Import`,
`op.FromImport` (per listed name: try `parent/name` as a module, else attribute of the parent;
exactly one value pushed per name), `try`, spawned clones (`vm.Clone` snapshots the maps and
starts with nothing being imported).
Part C (sessions): several evaluations, each with its own VM, that share ONE importer and whose
lifetimes overlap in any way (`session`: a schedule of (evaluation, statement)); a module has two
views — the array its module object is bound to (`St.attrArray`, what `alias.x` reads) and the array
the executing VM has loaded for its code (`St.fnArray`, what the module's functions read and write).
`importModuleMC` (NOT the unchanged code) is the machine for an importer that caches module objects.
The model is the code AS IT IS: a failed body is not cached (a later import runs it again), a
clone imports into its own snapshot; an import of a module whose body is still running is
refused with an import error (cyclic import), and a module body leaves NOTHING on the
importer's operand stack.  The last two are repairs (`fix:` commits in /repo); the machine as
it was before them is kept in `PreFix.lean`.

Core Lean only.
-/
namespace Risor.C14
open Risor.C13 (Path split joinSep cleanStr join2 isAbs)

/-! ## Part A: import path texts -/

def isLetter (b : Nat) : Bool := (65 ≤ b && b ≤ 90) || (97 ≤ b && b ≤ 122)
def isDigit (b : Nat) : Bool := 48 ≤ b && b ≤ 57
/-- `[a-zA-Z_]` -/
def isIdStart (b : Nat) : Bool := isLetter b || b == 95
/-- `[a-zA-Z0-9_]` -/
def isIdChar (b : Nat) : Bool := isIdStart b || isDigit b

/-- `[a-zA-Z_][a-zA-Z0-9_]*` -/
def isIdent : Path → Bool
  | [] => false
  | c :: cs => isIdStart c && cs.all isIdChar

/-- the regular expression `^([a-zA-Z_][a-zA-Z0-9_]*)(\/[a-zA-Z_][a-zA-Z0-9_]*)*$`:
    every '/'-separated component is an ASCII identifier -/
def matchesPathRegex (p : Path) : Bool := (split p).all isIdent

/-- drop leading '"' (34) -/
def dropQ : Path → Path
  | [] => []
  | c :: cs => if c = 34 then dropQ cs else c :: cs

/-- `strings.Trim(path, "\"")` -/
def trimQuotes (p : Path) : Path := (dropQ (dropQ p).reverse).reverse

/-- `parser.validateImportPath(path) == nil` -/
def validImportPath (p : Path) : Bool := matchesPathRegex (trimQuotes p)

/-- byte-level over-approximation of the lexer's identifier class
    (`unicode.IsLetter || unicode.IsDigit || '_'`): an ASCII letter, digit or '_', or a
    byte of the UTF-8 encoding of a non-ASCII rune (all of which are ≥ 128). -/
def isLexIdentByte (b : Nat) : Bool := decide (b ≥ 128) || isIdChar b
def isLexIdent (p : Path) : Bool := !p.isEmpty && p.all isLexIdentByte

/-- the forms of an import statement, at token level (string tokens carry their VALUE) -/
inductive Spelling where
  | ident (x : Path)                              -- import x [as a]
  | quoted (s : Path)                             -- import "s" [as a]
  | fromDotted (parents : List Path) (item : Path)  -- from p1.p2 import item [as a] (one per listed item)
  | fromQuoted (s : Path) (item : Path)           -- from "s" import item
  deriving Repr

/-- does the parser accept the statement (given that the lexer produced these tokens) -/
def accepted : Spelling → Bool
  | .ident x => isLexIdent x && validImportPath x
  | .quoted s => validImportPath s
  | .fromDotted ps item => !ps.isEmpty && ps.all isLexIdent && isLexIdent item
  | .fromQuoted s item => validImportPath s && isLexIdent item

/-- `filepath.Join(from...)` for non-empty elements -/
def joinParents (ps : List Path) : Path := cleanStr (joinSep ps)

/-- the module names the VM may hand to the importer for a statement of this form -/
def requestedNames : Spelling → List Path
  | .ident x => [x]
  | .quoted s => [s]
  | .fromDotted ps item => [join2 (joinParents ps) item, joinParents ps]
  | .fromQuoted s item => [join2 (joinParents [s]) item, joinParents [s]]

/-- `filepath.Join(dir, name+ext)` of `importer.readFileWithExtensions` -/
def fileName (root name ext : Path) : Path := join2 root (name ++ ext)

/-- a path text whose '/'-separated components are all non-empty and do not start with '.'
    (`atStart` = we are at the start of a component) -/
def okFrom : Bool → Path → Bool
  | true, [] => false
  | false, [] => true
  | true, c :: cs => c != 47 && c != 46 && okFrom false cs
  | false, c :: cs => if c = 47 then okFrom true cs else okFrom false cs

def nameOK (p : Path) : Bool := okFrom true p

/-! ## Part B: the module cache state machine -/

inductive Val where
  | int (i : Int)
  | mod (o : Nat)     -- module object id (index into `St.objs`)
  | nil
  | list (l : List Int)   -- a list of integers held by a module global (only that global refers to it)
  deriving DecidableEq, Repr

inductive Stmt where
  | imp (name alias : Path)                          -- import name [as alias]
  | fromImp (parent : Path) (items : List (Path × Path))  -- from parent import n1 as a1, ...
  | set (var : Path) (val : Int)                     -- top-level  var := val / var = val
  | setVia (alias var : Path) (val : Int)            -- alias.set_var(val): the module's own function stores into ITS global
                                                     -- (the three *Via statements act on the FUNCTION view, `St.fnArray`)
  | addVia (alias var : Path) (k : Int)              -- alias.add_var(k): the module's own function does var = var + k on ITS global (a counter)
  | newList (var : Path)                             -- top-level  var := []
  | pushVia (alias var : Path) (v : Int)             -- alias.push_var(v): the module's own function appends to ITS global list
  | tryImp (name : Path)                             -- try(func() { import name })
  | spawnImp (name : Path)                           -- spawn(func() { import name }).wait()
  | fail                                             -- error("boom")
  deriving Repr, DecidableEq

/-- static configuration: import root, extension list, the module files (keyed by the
    file path relative to the root, i.e. name ++ ext), `vm.MaxFrameDepth`, and the importer's
    choice of code object when it has to compile a module that is not in its by-name cache:
    `reuse cache name = none` — the result of a fresh `parseAndCompile` (a NEW `*compiler.Code`;
    what `LocalImporter`/`FSImporter` do, the default), `some c` — hand out the existing code
    object `c` (e.g. a cache keyed by something other than the module path). -/
structure Env where
  root : Path
  exts : List Path
  files : List (Path × List Stmt)
  limit : Nat
  reuse : List (Path × Nat) → Path → Option Nat := fun _ _ => none

/-- the importers of the unchanged code: every module path is compiled separately -/
def LocalImporter (env : Env) : Prop := ∀ cache name, env.reuse cache name = none

structure St where
  cache : List (Path × Nat) := []      -- vm.modules: name → module object
  loaded : List (Nat × Nat) := []      -- vm.loadedCode (root codes): code identity → globals array
  importing : List Path := []          -- vm.importing: modules whose body is being evaluated (head = innermost)
  heap : List (List (Path × Val)) := [[]]  -- globals arrays; 0 is the main script's
  objs : List (Path × Nat) := []       -- every module object ever created: (name, globals array)
  compiled : List (Path × Nat) := []   -- importer.codeCache: module name → identity of its compiled code object
  ncode : Nat := 0                     -- code objects created so far by parseAndCompile (the next fresh identity)
  owner : List (Nat × Nat) := []       -- ghost: every (code identity, globals array) pair any VM of this evaluation
                                       -- (the script's or a clone's) ever created in loadCode
  opens : List Path := []              -- every file the importer tried to open, in order
  ticks : List Path := []              -- module body executions, in order
  failed : List Path := []             -- imports whose body did not complete
  cycles : List Path := []             -- imports refused because the module's own body was still running
  spawns : Nat := 0                    -- imports performed in spawned clones
  reruns : List (Path × Nat) := []     -- body executions beyond a module's first, with the cause:
                                       -- 2 an earlier run failed, 3 another VM (clone) ran it
                                       -- (cause 1, a re-entrant import, existed before the repair: see PreFix.lean)
  nofuel : Bool := false
  deriving Repr

inductive Out where
  | ok | err | panic
  deriving DecidableEq, Repr

/-- result of `vm.importModule`: outcome and module object.  The importer's operand stack is as
    it was before the call (the deferred frame restore drops whatever the body left). -/
structure IRes where
  out : Out
  oid : Nat
  deriving Repr

def setKey (k : Path) (v : Val) : List (Path × Val) → List (Path × Val)
  | [] => [(k, v)]
  | (k', v') :: t => if k' = k then (k, v) :: t else (k', v') :: setKey k v t

def modifyAt {α : Type} (f : α → α) : Nat → List α → List α
  | _, [] => []
  | 0, x :: xs => f x :: xs
  | n + 1, x :: xs => x :: modifyAt f n xs

def St.store (st : St) (g : Nat) (k : Path) (v : Val) : St :=
  { st with heap := modifyAt (setKey k v) g st.heap }

def St.globals (st : St) (g : Nat) : List (Path × Val) := (st.heap[g]?).getD []

/-- code identity of the module object whose globals array is `g` -/
def St.codeOfGid (st : St) (g : Nat) : Option Nat := (st.owner.find? (fun p => p.2 == g)).map (·.1)

/-- the globals array a module object is BOUND to (`Module.UseGlobals`): what `module.GetAttr`
    reads — the attribute view `alias.x` -/
def St.attrArray (st : St) (o : Nat) : Option Nat := (st.objs[o]?).map (·.2)

/-- the globals array the FUNCTIONS of module object `o` run on in the current VM — the function
    view `alias.set_x(v)`, `alias.get_x()`: a call activates `vm.loadCode(fn.Code())`, i.e. the array
    THIS VM has loaded for the module's root code, whatever array the module object is bound to.
    `module_views_agree`: with the unchanged importers (a new module object per `Import` call) the two
    views are the same array, in every VM of every session. -/
def St.fnArray (st : St) (o : Nat) : Option Nat :=
  match st.objs[o]? with
  | some (_, g) =>
    match st.codeOfGid g with
    | some c => st.loaded.lookup c
    | none => none
  | none => none

/-- the files the importer tries for `name`, up to and including the first that exists -/
def attempts (env : Env) (name : Path) : List Path → List Path
  | [] => []
  | e :: es =>
    fileName env.root name e ::
      (if (env.files.lookup (name ++ e)).isSome then [] else attempts env name es)

def bodyOf (env : Env) (name : Path) : List Path → Option (List Stmt)
  | [] => none
  | e :: es =>
    match env.files.lookup (name ++ e) with
    | some b => some b
    | none => bodyOf env name es

/-- Go's `aliases[name] = alias` map: the last alias listed for a name wins -/
def aliasOf (items : List (Path × Path)) (nm : Path) : Path :=
  (items.reverse.lookup nm).getD nm

/-- names a module body declares at top level (its global symbols that the generator uses) -/
def declares : List Stmt → Path → Bool
  | [], _ => false
  | .imp _ a :: t, k => a == k || declares t k
  | .fromImp _ items :: t, k => items.any (fun it => aliasOf items it.1 == k) || declares t k
  | .set v _ :: t, k => v == k || declares t k
  | .newList v :: t, k => v == k || declares t k
  | _ :: t, k => declares t k

abbrev ImpFn := Nat → St → Path → IRes × St

/-- value of `module.GetAttr(name)` for a module whose body has completed -/
def attrOf (env : Env) (st : St) (parent : Path) (oid : Nat) (nm : Path) : Option Val :=
  match bodyOf env parent env.exts with
  | none => none
  | some body =>
    if declares body nm then
      match st.objs[oid]? with
      | some (_, g) => some (((st.globals g).lookup nm).getD .nil)
      | none => none
    else none

/-- what `op.FromImport` pushes for ONE listed name: the module `parent/name` if importing it
    succeeds, else (whatever the error was) the attribute `name` of the module `parent` -/
def fromOne (imp : ImpFn) (env : Env) (depth : Nat) (parent nm : Path) (st : St) : (Out × Val) × St :=
  let r1 := imp depth st (parent ++ 47 :: nm)
  match r1.1.out with
  | .ok => ((.ok, .mod r1.1.oid), r1.2)
  | .panic => ((.panic, .nil), r1.2)
  | .err =>
    let r2 := imp depth r1.2 parent
    match r2.1.out with
    | .ok =>
      match attrOf env r2.2 parent r2.1.oid nm with
      | some v => ((.ok, v), r2.2)
      | none => ((.err, .nil), r2.2)
    | o => ((o, .nil), r2.2)

/-- the loop of `op.FromImport`: names in processing order (reverse of the source order),
    `ps` is the operand stack built so far (head = top): exactly one value per name. -/
def fromLoop (imp : ImpFn) (env : Env) (depth : Nat) (parent : Path) :
    List Path → St → List Val → (Out × List Val) × St
  | [], st, ps => ((.ok, ps), st)
  | nm :: rest, st, ps =>
    let r := fromOne imp env depth parent nm st
    match r.1.1 with
    | .ok => fromLoop imp env depth parent rest r.2 (r.1.2 :: ps)
    | o => ((o, ps), r.2)

/-- the `StoreGlobal`s after `op.FromImport`: one pop per listed item, in source order;
    returns the state and what is left of the values pushed by the instruction -/
def bindItems (all : List (Path × Path)) (g : Nat) :
    List (Path × Path) → List Val → St → St × List Val
  | [], ps, st => (st, ps)
  | _ :: _, [], st => (st, [])
  | (nm, _) :: rest, v :: ps, st => bindItems all g rest ps (st.store g (aliasOf all nm) v)

/-- one top-level statement executed in the frame whose globals array is `g`, at frame
    index `depth` -/
def execStmt (imp : ImpFn) (env : Env) (g depth : Nat) (st : St) : Stmt → Out × St
  | .imp name alias =>
    let r := imp depth st name
    match r.1.out with
    | .ok => (.ok, r.2.store g alias (.mod r.1.oid))
    | o => (o, r.2)
  | .fromImp parent items =>
    let r := fromLoop imp env depth parent (items.map (·.1)).reverse st []
    match r.1.1 with
    | .ok => (.ok, (bindItems items g items r.1.2 r.2).1)
    | o => (o, r.2)
  | .set var val => (.ok, st.store g var (.int val))
  | .setVia alias var val =>
    match (st.globals g).lookup alias with
    | some (.mod o) =>
      match st.fnArray o with
      | some g' => (.ok, st.store g' var (.int val))
      | none => (.err, st)
    | _ => (.err, st)
  | .addVia alias var k =>
    match (st.globals g).lookup alias with
    | some (.mod o) =>
      match st.fnArray o with
      | some g' =>
        match (st.globals g').lookup var with
        | some (.int i) => (.ok, st.store g' var (.int (i + k)))
        | _ => (.err, st)
      | none => (.err, st)
    | _ => (.err, st)
  | .newList var => (.ok, st.store g var (.list []))
  | .pushVia alias var v =>
    match (st.globals g).lookup alias with
    | some (.mod o) =>
      match st.fnArray o with
      | some g' =>
        match (st.globals g').lookup var with
        | some (.list l) => (.ok, st.store g' var (.list (l ++ [v])))
        | _ => (.err, st)
      | none => (.err, st)
    | _ => (.err, st)
  | .tryImp name =>
    if depth + 1 ≥ env.limit then (.panic, st)   -- the function's own frame
    else
      let r := imp (depth + 1) st name
      match r.1.out with
      | .panic => (.panic, r.2)
      | _ => (.ok, r.2)
  | .spawnImp name =>
    -- vm.Clone: snapshots of vm.modules and vm.loadedCode, an empty frame stack, nothing being imported
    let r := imp 1 { st with spawns := st.spawns + 1, importing := [] } name
    let st2 := { r.2 with cache := st.cache, loaded := st.loaded, importing := st.importing }
    match r.1.out with
    | .ok => (.ok, st2)
    | o => (o, st2)
  | .fail => (.err, st)

def execStmts (imp : ImpFn) (env : Env) (g depth : Nat) : List Stmt → St → Out × St
  | [], st => (.ok, st)
  | s :: rest, st =>
    let r := execStmt imp env g depth st s
    match r.1 with
    | .ok => execStmts imp env g depth rest r.2
    | o => (o, r.2)

/-- `importer.Import` on a code-cache miss reads the file (tries the extensions in order) -/
def St.noteOpens (st : St) (env : Env) (name : Path) : St :=
  if (st.compiled.lookup name).isSome then st else { st with opens := st.opens ++ attempts env name env.exts }

/-- `importer.Import` for a module whose file exists: the by-name cache, else a code object
    (fresh from `parseAndCompile` unless `env.reuse` says otherwise) that is then cached by name -/
def St.noteCompiled (st : St) (env : Env) (name : Path) : St :=
  match st.compiled.lookup name with
  | some _ => st
  | none =>
    match env.reuse st.compiled name with
    | some c => { st with compiled := (name, c) :: st.compiled }
    | none => { st with compiled := (name, st.ncode) :: st.compiled, ncode := st.ncode + 1 }

/-- identity of the code object the importer returns for `name` (`module.Code()`) -/
def St.codeOf (st : St) (name : Path) : Nat := (st.compiled.lookup name).getD 0

/-- the globals array `vm.loadCode` gives a module's root code (existing or about to be created) -/
def St.gidOf (st : St) (c : Nat) : Nat := (st.loaded.lookup c).getD st.heap.length

/-- `vm.loadCode(cc)`: the globals array of a root code is created once per VM AND CODE OBJECT
    (`vm.loadedCode` is keyed by the pointer) -/
def St.loadCode (st : St) (c : Nat) : St :=
  match st.loaded.lookup c with
  | some _ => st
  | none => { st with loaded := (c, st.heap.length) :: st.loaded, owner := (c, st.heap.length) :: st.owner,
                      heap := st.heap ++ [[]] }

def St.fail (st : St) (name : Path) : St := { st with failed := st.failed ++ [name] }

/-- the import is refused: `import error: cyclic import of module "name"` -/
def St.refuse (st : St) (name : Path) : St := { st with cycles := st.cycles ++ [name] }

/-- a module body starts: `object.NewModule`, frame activation, `vm.importing = append(vm.importing, name)`,
    first statement `tick(name)` -/
def St.enter (st : St) (name : Path) (gid : Nat) : St :=
  { st with
    ticks := st.ticks ++ [name], objs := st.objs ++ [(name, gid)],
    importing := name :: st.importing,
    reruns := if st.ticks.contains name then
        st.reruns ++ [(name, if st.failed.contains name then 2 else 3)]
      else st.reruns }

/-- the deferred frame restore: `vm.importing = vm.importing[:len(vm.importing)-1]` -/
def St.leave (st : St) : St := { st with importing := st.importing.tail }

/-- `vm.modules[name] = module` -/
def St.cacheAdd (st : St) (name : Path) (oid : Nat) : St := { st with cache := (name, oid) :: st.cache }

/-- `vm.importModule(name)` at frame index `depth` -/
def importModule (env : Env) : Nat → ImpFn
  | 0, _, st, name => (⟨.panic, 0⟩, ({ st with nofuel := true } : St).fail name)
  | fuel + 1, depth, st, name =>
    match st.cache.lookup name with
    | some oid => (⟨.ok, oid⟩, st)
    | none =>
      -- a module whose body is still running is not cached yet: importing it again is an error
      if st.importing.contains name then (⟨.err, 0⟩, st.refuse name)
      else
        -- importer.Import: code cache, else read the file
        let st1 := st.noteOpens env name
        match bodyOf env name env.exts with
        | none => (⟨.err, 0⟩, st1)
        | some body =>
          let st2 := st1.noteCompiled env name
          let cid := st2.codeOf name
          let gid := st2.gidOf cid
          let st3 := st2.loadCode cid
          if depth + 1 ≥ env.limit then
            (⟨.panic, 0⟩, st3.fail name)      -- frames[fp+1]: index out of range
          else
            let oid := st3.objs.length
            let r := execStmts (importModule env fuel) env gid (depth + 1) body (st3.enter name gid)
            match r.1 with
            | .ok => (⟨.ok, oid⟩, r.2.leave.cacheAdd name oid)
            | o => (⟨o, 0⟩, r.2.leave.fail name)

def St.init : St := {}

/-- one evaluation of a main script -/
def run (env : Env) (fuel : Nat) (main : List Stmt) : Out × St :=
  execStmts (importModule env fuel) env 0 0 main St.init

/-! ## Spec: what the property demands, as decidable predicates on the outcome -/

/-- every module body ran at most once -/
def runsOnce (st : St) : Bool := decide st.ticks.Nodup

/-- at most one module object per module name -/
def oneObjectPerName (st : St) : Bool := decide (st.objs.map (·.1)).Nodup

/-- module objects of different modules have different globals arrays, none the script's -/
def globalsDisjoint (st : St) : Bool :=
  st.objs.all fun a => a.2 != 0 && st.objs.all fun b => a.1 == b.1 || a.2 != b.2

/-- distinct module paths have distinct code objects (what the unchanged importers guarantee:
    `importer_distinct_paths_distinct_code`; the hypothesis of `module_globals_disjoint`) -/
def CodeInj (st : St) : Prop := ∀ p ∈ st.compiled, ∀ q ∈ st.compiled, p.2 = q.2 → p.1 = q.1

instance (st : St) : Decidable (CodeInj st) := by unfold CodeInj; infer_instance

/-- the same as a Bool (what the oracle prints) -/
def codeInj (st : St) : Bool :=
  st.compiled.all fun p => st.compiled.all fun q => p.2 != q.2 || p.1 == q.1

/-- the importer alone: an arbitrary sequence of `Import(name)` calls on one importer -/
def importSeq (env : Env) (names : List Path) (st : St) : St :=
  names.foldl (fun st n =>
    match bodyOf env n env.exts with
    | none => st.noteOpens env n
    | some _ => (st.noteOpens env n).noteCompiled env n) st

/-- NOT the unchanged code — an importer with a compile cache keyed by the source TEXT: a module
    whose text equals that of a module compiled before gets that module's code object (used by
    `distinct_code_needed` and by the oracle's `runshared` diagnosis) -/
def shareByText (files : List (Path × List Stmt)) (exts : List Path) : List (Path × Nat) → Path → Option Nat :=
  fun cache name =>
    let src := fun (n : Path) => exts.findSome? fun e => files.lookup (n ++ e)
    cache.findSome? fun p => if src p.1 = src name then some p.2 else none

/-! ## the FILE behind a module name

The VM's module cache (`vm.modules`) and the importer's code cache are keyed by the module
NAME, but the property is about module FILES: whatever the spellings, a file's top-level code
runs once and there is one module object for it.  `fileOf` is the file (key of `env.files`:
its path below the root) that `importer.Import(name)` reads — the first `name ++ ext` that
exists. -/

def fileOf (env : Env) (name : Path) : List Path → Option Path
  | [] => none
  | e :: es => if (env.files.lookup (name ++ e)).isSome then some (name ++ e) else fileOf env name es

/-- the file a statement of the given spelling reaches when evaluated on its own: the first
    requested name that is a module (from-imports: `parent/item`, else `parent`) -/
def reachedFile (env : Env) (sp : Spelling) : Option Path :=
  if accepted sp then (requestedNames sp).findSome? (fun n => fileOf env n env.exts) else none

/-- Spec by file: no file's top-level code ran more than once … -/
def runsOncePerFile (env : Env) (st : St) : Bool :=
  decide ((st.ticks.filterMap fun n => fileOf env n env.exts).Nodup)

/-- … and there is at most one module object per file -/
def oneObjectPerFile (env : Env) (st : St) : Bool :=
  decide ((st.objs.filterMap fun o => fileOf env o.1 env.exts).Nodup)

/-- the extension starts with '.' -/
def dottedExt (e : Path) : Bool := e.head? == some 46

/-- every opened file is `root/<name><ext>` for a well-formed name -/
def underRoot (root : Path) (p : Path) : Bool :=
  root.isEmpty || Risor.C13.hasPrefix p (cleanStr root ++ [47]) || cleanStr root == [47]

/-- the guard naming today's two run-once defects: no import failed (a failed body is not
    cached: the next import of the module runs it again), nothing was imported inside a spawned
    clone.  (Before the cyclic-import repair the guard had a third conjunct, `st.reent.isEmpty`:
    `PreFix.cleanRun`.) -/
def cleanRun (st : St) : Bool := st.failed.isEmpty && st.spawns == 0

/-- the same as a proposition -/
def Clean (st : St) : Prop := st.failed = [] ∧ st.spawns = 0

/-! ## Part C: several evaluations that share ONE importer

`NewLocalImporter` / `NewFSImporter` are documented as safe to share between VMs and evaluations.
A SESSION is any number of evaluations — each with its own script, its own VM (`vm.modules`,
`vm.loadedCode`, its script's globals array) — that use one importer and whose lifetimes overlap in
any way: the schedule says which evaluation executes its next top-level statement (a host builtin
that runs a plugin script, request handlers taking turns, a long-lived VM next to short ones).
What is shared is the importer's state (`St.compiled`, `St.ncode`, `St.opens`) and the address
spaces of module objects (`St.objs`) and globals arrays (`St.heap`, `St.owner`); the VM registers
(`St.cache`, `St.loaded`) are swapped in and out (`St.withVM`), exactly as `execStmt` does for a
spawned clone.  Between two top-level statements nothing is being imported (`importing_balanced`). -/

/-- the registers of one evaluation's VM between two of its top-level statements -/
structure VM where
  cache : List (Path × Nat) := []     -- vm.modules
  loaded : List (Nat × Nat) := []     -- vm.loadedCode
  main : Nat := 0                     -- the globals array of its script
  out : Out := .ok                    -- outcome so far: a script that raised has ended
  deriving Repr

structure Sess where
  sh : St              -- importer state, module objects, globals arrays, logs (VM registers: stale)
  vms : List VM
  deriving Repr

def St.withVM (st : St) (v : VM) : St := { st with cache := v.cache, loaded := v.loaded, importing := [] }

/-- `n` evaluations about to start: evaluation `e`'s script owns globals array `e` -/
def Sess.init (n : Nat) : Sess :=
  { sh := { St.init with heap := List.replicate n [] }, vms := (List.range n).map fun e => { main := e } }

/-- evaluation `e` executes its next top-level statement (nothing happens when it has ended) -/
def sessStep (imp : ImpFn) (env : Env) (s : Sess) (e : Nat) (stmt : Stmt) : Sess :=
  match s.vms[e]? with
  | none => s
  | some v =>
    if v.out = .ok then
      let r := execStmt imp env v.main 0 (s.sh.withVM v) stmt
      { sh := r.2, vms := s.vms.set e { v with cache := r.2.cache, loaded := r.2.loaded, out := r.1 } }
    else s

def sessRun (imp : ImpFn) (env : Env) (n : Nat) (sched : List (Nat × Stmt)) : Sess :=
  sched.foldl (fun s p => sessStep imp env s p.1 p.2) (Sess.init n)

/-- a session on the unchanged code: the schedule is ANY list of (evaluation, statement) -/
def session (env : Env) (fuel n : Nat) (sched : List (Nat × Stmt)) : Sess :=
  sessRun (importModule env fuel) env n sched

/-- the state as evaluation `v` sees it -/
def Sess.view (s : Sess) (v : VM) : St := s.sh.withVM v

/-- Spec: in every VM, for every module it has imported, attribute view = function view -/
def sessViewsAgree (s : Sess) : Bool :=
  s.vms.all fun v => v.cache.all fun p => (s.view v).fnArray p.2 == s.sh.attrArray p.2 && (s.sh.attrArray p.2).isSome

/-- the globals arrays of a VM's modules -/
def VM.arrays (v : VM) : List Nat := v.loaded.map (·.2)

/-- Spec: evaluations share nothing — no module object and no globals array belongs to two of them,
    and no module's array is a script's -/
def sessDisjoint (s : Sess) : Bool :=
  (List.range s.vms.length).all fun i => (List.range s.vms.length).all fun j =>
    match s.vms[i]?, s.vms[j]? with
    | some vi, some vj =>
      i == j ||
        (vi.cache.all fun p => vj.cache.all fun q => p.2 != q.2) &&
        (vi.arrays.all fun g => !vj.arrays.contains g && g != vj.main && g != vi.main)
    | _, _ => true

/-! ### NOT the unchanged code: an importer that caches the MODULE OBJECT per name

`importModuleMC` is `importModule` for an importer whose `Import` hands out ONE `*object.Module`
per module name (a cache of modules instead of a cache of code): the first `Import(name)` creates
the object, every later one — from whichever VM — returns it, and the importing VM's
`module.UseGlobals(code.Globals)` after a completed body REBINDS that object to the importing VM's
array.  Used by `fresh_module_objects_needed` and by the oracle's `sessmc` diagnosis only. -/

/-- a body starts for a module object that exists already: everything `St.enter` does except the
    creation of an object -/
def St.enterShared (st : St) (name : Path) : St := { st.enter name 0 with objs := st.objs }

/-- `module.UseGlobals`: the (shared) module object `oid` now reads array `gid` -/
def St.rebind (st : St) (oid : Nat) (name : Path) (gid : Nat) : St := { st with objs := st.objs.set oid (name, gid) }

def importModuleMC (env : Env) : Nat → ImpFn
  | 0, _, st, name => (⟨.panic, 0⟩, ({ st with nofuel := true } : St).fail name)
  | fuel + 1, depth, st, name =>
    match st.cache.lookup name with
    | some oid => (⟨.ok, oid⟩, st)
    | none =>
      if st.importing.contains name then (⟨.err, 0⟩, st.refuse name)
      else
        let st1 := st.noteOpens env name
        match bodyOf env name env.exts with
        | none => (⟨.err, 0⟩, st1)
        | some body =>
          let st2 := st1.noteCompiled env name
          let cid := st2.codeOf name
          let gid := st2.gidOf cid
          let st3 := st2.loadCode cid
          if depth + 1 ≥ env.limit then (⟨.panic, 0⟩, st3.fail name)
          else
            match st3.objs.findIdx? (fun o => o.1 == name) with
            | none =>      -- the importer creates (and caches) the module object
              let oid := st3.objs.length
              let r := execStmts (importModuleMC env fuel) env gid (depth + 1) body (st3.enter name gid)
              match r.1 with
              | .ok => (⟨.ok, oid⟩, r.2.leave.cacheAdd name oid)
              | o => (⟨o, 0⟩, r.2.leave.fail name)
            | some oid =>  -- the importer's cached module object, bound to whatever array it was bound to last
              let r := execStmts (importModuleMC env fuel) env gid (depth + 1) body (st3.enterShared name)
              match r.1 with
              | .ok => (⟨.ok, oid⟩, (r.2.leave.cacheAdd name oid).rebind oid name gid)
              | o => (⟨o, 0⟩, r.2.leave.fail name)

def sessionMC (env : Env) (fuel n : Nat) (sched : List (Nat × Stmt)) : Sess :=
  sessRun (importModuleMC env fuel) env n sched

end Risor.C14
