import RisorModel.C14.Lemmas
import RisorModel.C14.PreFix
/-!
C14 — property theorems.  Imports stay inside the import root, run once, and keep their
own globals.

Part A is about ALL path texts (byte strings of any length) and all import spellings.
Part B is about ALL programs of the import machine model: every module table `env.files`,
every script `main`, every `fuel` (the recursion budget of the interpreter — no bound on
the number of imports, the depth of the module tree or the length of bodies is hidden in
it: a run that exhausts it is recorded as a failed import).
-/
namespace Risor.C14
open Risor.C13

/-! ## Part A: no import spelling can name a file outside the import root -/

/-- **Every module name an accepted import statement can hand to the importer is well
    formed**: for each of the statement forms (identifier, quoted path, from-import with
    dotted identifiers or a quoted path) and ALL token texts, if the parser accepts the
    statement then each name the VM may request (`parent/item` and `parent` for
    from-imports) consists of non-empty '/'-separated components none of which starts
    with '.', (so none is "." or ".."), and is not rooted. -/
theorem accepted_names_ok (sp : Spelling) (h : accepted sp = true) :
    ∀ n ∈ requestedNames sp, nameOK n = true := by
  cases sp with
  | ident x =>
    simp only [accepted, Bool.and_eq_true] at h
    simpa [requestedNames] using validImportPath_nameOK x h.2
  | quoted s => simpa [requestedNames] using validImportPath_nameOK s h
  | fromDotted ps item =>
    simp only [accepted, Bool.and_eq_true, Bool.not_eq_true', List.all_eq_true] at h
    have hne : ps ≠ [] := by intro e; subst e; simp at h
    have hp : nameOK (joinSep ps) = true :=
      joinSep_nameOK ps hne (fun p hp => isLexIdent_nameOK p (h.1.2 p hp))
    have hj : joinParents ps = joinSep ps := cleanStr_nameOK _ hp
    have hi := isLexIdent_nameOK item h.2
    intro n hn
    simp only [requestedNames, List.mem_cons, List.not_mem_nil, or_false] at hn
    rcases hn with rfl | rfl
    · rw [hj, join2_nameOK _ _ hp hi]; exact nameOK_join _ _ hp hi
    · rw [hj]; exact hp
  | fromQuoted s item =>
    simp only [accepted, Bool.and_eq_true] at h
    have hp := validImportPath_nameOK s h.1
    have hj : joinParents [s] = s := by simpa [joinParents, joinSep] using cleanStr_nameOK s hp
    have hi := isLexIdent_nameOK item h.2
    intro n hn
    simp only [requestedNames, List.mem_cons, List.not_mem_nil, or_false] at hn
    rcases hn with rfl | rfl
    · rw [hj, join2_nameOK _ _ hp hi]; exact nameOK_join _ _ hp hi
    · rw [hj]; exact hp

/-- **Confinement of the importer's file name** (`filepath.Join(dir, name+ext)`): for ANY
    non-empty root string (clean or not, absolute or relative), every well-formed module name
    and every extension without '/', the cleaned root is the rendering of the component list
    `cleanComps … (split root)` and the file opened is the rendering of that same list
    followed by the (plain, separator-free, non-empty) components of `name ++ ext`: the
    file lies under the root at a component boundary and no component of the name can cancel
    one of the root. -/
theorem valid_import_confined (root name ext : Path) (hroot : root ≠ [])
    (hn : nameOK name = true) (he : 47 ∉ ext) :
    ∃ rest, Good rest ∧ rest ≠ [] ∧
      cleanStr root = render (isAbs root) (cleanComps (isAbs root) (split root)) ∧
      fileName root name ext = render (isAbs root) (cleanComps (isAbs root) (split root) ++ rest) := by
  have hne := nameOK_append_ext name ext hn he
  have hg := nameOK_good _ hne
  refine ⟨split (name ++ ext), hg, split_ne_nil _, cleanStr_nonempty root hroot, ?_⟩
  have e1 : root.isEmpty = false := by cases root <;> simp_all
  have e2 : (name ++ ext).isEmpty = false := by
    have := nameOK_ne_nil _ hne
    cases h : name ++ ext <;> simp_all
  simp only [fileName, join2, e1, e2, Bool.and_self, Bool.false_eq_true, ↓reduceIte]
  exact cleanStr_root_join root _ hroot hg

/-- String-level reading for the usual configuration (a clean absolute root other than `/`):
    the file opened is exactly `root/name.ext`. -/
theorem valid_import_confined_string (cb : List Path) (name ext : Path) (hcb : Good cb) (hne : cb ≠ [])
    (hn : nameOK name = true) (he : 47 ∉ ext) :
    fileName (render true cb) name ext = render true cb ++ 47 :: (name ++ ext) := by
  have hok := nameOK_append_ext name ext hn he
  have hg := nameOK_good _ hok
  have e1 : (render true cb).isEmpty = false := by simp [render]
  have e2 : (name ++ ext).isEmpty = false := by
    have := nameOK_ne_nil _ hok
    cases h : name ++ ext <;> simp_all
  have hr : render false (split (name ++ ext)) = name ++ ext := by
    cases hs : split (name ++ ext) with
    | nil => exact absurd hs (split_ne_nil _)
    | cons hd tl => simp only [render, Bool.false_eq_true, ↓reduceIte, List.isEmpty_cons]; rw [← hs, joinSep_split]
  simp only [fileName, join2, e1, e2, Bool.and_self, Bool.false_eq_true, ↓reduceIte]
  have := clean_join_render true false cb (split (name ++ ext)) hcb hg
  rw [hr] at this
  rw [this]
  cases cb with
  | nil => exact absurd rfl hne
  | cons c t =>
    cases hs : split (name ++ ext) with
    | nil => exact absurd hs (split_ne_nil _)
    | cons hd tl =>
      simp only [render, ↓reduceIte]
      rw [joinSep_append (c :: t) (hd :: tl) (by simp) (by simp), ← hs, joinSep_split]
      simp

/-- **Any accepted import statement, any spelling, any configured extension**: the files
    the importer opens are `root/<requested name><ext>`, below the root. -/
theorem import_statement_confined (sp : Spelling) (cb : List Path) (ext : Path)
    (h : accepted sp = true) (hcb : Good cb) (hne : cb ≠ []) (he : 47 ∉ ext) :
    ∀ n ∈ requestedNames sp, fileName (render true cb) n ext = render true cb ++ 47 :: (n ++ ext) :=
  fun n hn => valid_import_confined_string cb n ext hcb hne (accepted_names_ok sp h n hn) he

/-- escaping texts are rejected in every position: `..` components, rooted paths, empty
    components (concrete instances of the recogniser; the general fact is `accepted_names_ok`) -/
example : validImportPath [46, 46, 47, 115] = false := by decide      -- ../s
example : validImportPath [47, 97] = false := by decide                -- /a
example : validImportPath [97, 47, 47, 98] = false := by decide        -- a//b
example : validImportPath [97, 47] = false := by decide                -- a/
example : validImportPath [34, 46, 46, 47, 115, 34] = false := by decide  -- "../s" with quote characters
example : validImportPath [100, 47, 97] = true := by decide            -- d/a
example : accepted (.fromDotted [[100], [97]] [120]) = true := by decide
example : nameOK [100, 47, 97] = true := by decide

/-- The mechanism named in the anchors ("import paths restricted to identifiers separated
    by '/'") as a full statement: every accepted path text matches the regular expression. -/
def C14_full_path_grammar : Prop := ∀ p, validImportPath p = true → matchesPathRegex p = true

/-- it does not hold: `strings.Trim(path, "\"")` is applied only for validation, so the
    text `"a` (a quote character followed by `a`) is accepted and requested as is.  This is
    NOT a violation of the property (the name is still confined by `accepted_names_ok`). -/
theorem C14_counterexample_path_grammar : ¬ C14_full_path_grammar := by
  intro h
  have := h [34, 97] (by decide)
  revert this
  decide

/-- guard: the text has no quote character at either end -/
def noQuoteAtEnds (p : Path) : Bool := trimQuotes p == p

theorem C14_partial_path_grammar (p : Path) (hg : noQuoteAtEnds p = true)
    (h : validImportPath p = true) : matchesPathRegex p = true := by
  have : trimQuotes p = p := by simpa [noQuoteAtEnds] using hg
  simpa [validImportPath, this] using h

example : noQuoteAtEnds [100, 47, 97] = true := by decide

/-! ## Part B: the module cache state machine -/

/-- **Run once**: in one evaluation on one VM — for every module table, every script,
    any sequence of import statements in any spelling and under any aliases, transitive
    AND CYCLIC imports included (a imports b imports a, a module importing itself: the import
    of a module whose body is still running is refused) — if no import failed and nothing was
    imported inside a spawned clone (`Clean`), then no module body executed more than once.
    (Before the repair of `vm.importModule` this needed the third hypothesis "no module was
    imported while its own body was still running": `C14_fixed_cyclic_import_reran`.) -/
theorem import_runs_once (env : Env) (fuel : Nat) (main : List Stmt)
    (h : Clean (run env fuel main).2) : (run env fuel main).2.ticks.Nodup :=
  ((run_rel env (R2_impOK env) fuel main trivial).2.2 h ⟨by simp [St.init], by simp [St.init]⟩).2

/-- `vm.importing` is a stack: whatever an evaluation does (failing, cyclic, spawned imports
    included), every statement and every `importModule` call leaves the list of modules being
    imported as it found it — in particular it is empty again when the script ends. -/
theorem importing_balanced (env : Env) (fuel : Nat) (main : List Stmt) :
    (run env fuel main).2.importing = [] :=
  (run_rel env (R2_impOK env) fuel main trivial).1

/-- **A cyclic import is refused, and costs nothing**: asked for a module that is not cached
    and whose body is still being evaluated, `vm.importModule` returns an import error without
    calling the importer, opening a file, creating a module object or running a body — the
    state changes only in the ghost log `cycles`. -/
theorem cyclic_import_refused (env : Env) (fuel depth : Nat) (st : St) (name : Path)
    (hmiss : st.cache.lookup name = none) (hin : name ∈ st.importing) :
    importModule env (fuel + 1) depth st name = (⟨.err, 0⟩, st.refuse name) := by
  simp [importModule, hmiss, hin]

/-- a module object is created exactly when a body starts: the names of all module objects
    ever created are the body-execution log (unconditionally). -/
theorem objects_are_body_runs (env : Env) (fuel : Nat) (main : List Stmt) :
    (run env fuel main).2.objs.map (·.1) = (run env fuel main).2.ticks :=
  (run_rel env (R3_impOK env) fuel main trivial).2.2 (by simp [OT, St.init])

theorem nodup_getElem_inj {α : Type} (l : List α) (h : l.Nodup) (i j : Nat) (a : α)
    (hi : l[i]? = some a) (hj : l[j]? = some a) : i = j := by
  induction l generalizing i j with
  | nil => simp at hi
  | cons x xs ih =>
    rw [List.nodup_cons] at h
    cases i with
    | zero =>
      cases j with
      | zero => rfl
      | succ j =>
        simp only [List.getElem?_cons_zero, Option.some.injEq] at hi
        simp only [List.getElem?_cons_succ] at hj
        subst hi
        exact absurd (List.mem_of_getElem? hj) h.1
    | succ i =>
      cases j with
      | zero =>
        simp only [List.getElem?_cons_zero, Option.some.injEq] at hj
        simp only [List.getElem?_cons_succ] at hi
        subst hj
        exact absurd (List.mem_of_getElem? hi) h.1
      | succ j =>
        simp only [List.getElem?_cons_succ] at hi hj
        rw [ih h.2 i j hi hj]

/-- **Every importer sees the same module**: under the same guard, at most one module
    object exists per module name, so whatever an import statement (any alias, any importer,
    script or module) obtains for the name `n` is that one object. -/
theorem import_same_object (env : Env) (fuel : Nat) (main : List Stmt)
    (h : Clean (run env fuel main).2) (i j : Nat) (n : Path) (g1 g2 : Nat)
    (hi : (run env fuel main).2.objs[i]? = some (n, g1))
    (hj : (run env fuel main).2.objs[j]? = some (n, g2)) : i = j := by
  have hnd := import_runs_once env fuel main h
  rw [← objects_are_body_runs] at hnd
  apply nodup_getElem_inj _ hnd i j n
  · simp [List.getElem?_map, hi]
  · simp [List.getElem?_map, hj]

/-- the VM-side invariant `K` holds in the final state of every evaluation, whatever the
    importer hands out -/
theorem run_K (env : Env) (fuel : Nat) (main : List Stmt) : K (run env fuel main).2 :=
  (run_rel env (R3_impOK env) fuel main trivial).2.1
    ⟨by simp [St.init], by simp [St.init], by simp [St.init], by simp [St.init], by simp [St.init]⟩

/-- **A module's globals are its own — for ANY importer, under the hypothesis that is
    actually needed**: the VM keys a module's globals array by the identity of its compiled
    code object (`vm.loadedCode : map[*compiler.Code]*code`), so IF the importer never gave
    two different module paths the same code object (`CodeInj`: distinct paths ⇒ distinct
    code identities) THEN in the final state of every evaluation — every module table, every
    script, failing, cyclic and spawned imports included — the globals arrays of module
    objects of different modules are different arrays, and none of them is the importing
    script's array (index 0).  The hypothesis is discharged for the unchanged importers by
    `importer_distinct_paths_distinct_code`; `distinct_code_needed` shows it cannot be dropped. -/
theorem module_globals_disjoint (env : Env) (fuel : Nat) (main : List Stmt)
    (hcode : CodeInj (run env fuel main).2) :
    ∀ a ∈ (run env fuel main).2.objs, a.2 ≠ 0 ∧
      ∀ b ∈ (run env fuel main).2.objs, a.1 ≠ b.1 → a.2 ≠ b.2 := by
  obtain ⟨k1, k2, _, k4, _⟩ := run_K env fuel main
  intro a ha
  obtain ⟨ca, hca, hoa⟩ := k4 a ha
  refine ⟨?_, ?_⟩
  · have := (k1 _ hoa).1; simp only at this; omega
  · intro b hb hne heq
    obtain ⟨cb, hcb, hob⟩ := k4 b hb
    have hc : ca = cb := k2 _ hoa _ hob heq
    subst hc
    exact hne (hcode (a.1, ca) hca (b.1, ca) hcb rfl)

/-- **The importer compiles every module path separately, so distinct paths get distinct
    code objects** — about the importer model alone: for ANY sequence of `Import(name)` calls
    on one `LocalImporter`/`FSImporter` (any module table, names repeated or not, existing or
    not), two names that hold the same code object in its cache are the same name. -/
theorem importer_distinct_paths_distinct_code (env : Env) (hl : LocalImporter env) (names : List Path) :
    ∀ n1 n2 c, (n1, c) ∈ (importSeq env names St.init).compiled →
      (n2, c) ∈ (importSeq env names St.init).compiled → n1 = n2 := by
  have key : ∀ (names : List Path) (st : St), ImporterInv st → ImporterInv (importSeq env names st) := by
    intro names
    induction names with
    | nil => intro st h; exact h
    | cons n rest ih =>
      intro st h
      simp only [importSeq, List.foldl_cons]
      apply ih
      split
      · exact ImporterInv_noteOpens st env n h
      · exact ImporterInv_noteCompiled _ env hl n (ImporterInv_noteOpens st env n h)
  have h0 : ImporterInv St.init := ⟨by intro p hp; simp [St.init] at hp, by intro p hp; simp [St.init] at hp⟩
  intro n1 n2 c h1 h2
  exact (key names St.init h0).1 (n1, c) h1 (n2, c) h2 rfl

/-- the same inside the import machine: in the final state of EVERY evaluation (the importer
    is called from `vm.importModule`, by the script, by module bodies, inside `try` and in
    spawned clones) the unchanged importer's cache is injective on code identities. -/
theorem importer_distinct_paths_distinct_code_run (env : Env) (hl : LocalImporter env) (fuel : Nat)
    (main : List Stmt) : CodeInj (run env fuel main).2 :=
  (run_rel env (R4_impOK env hl) fuel main trivial
    ⟨by intro p hp; simp [St.init] at hp, by intro p hp; simp [St.init] at hp⟩).1

/-- **A module's globals are its own, for the importers of the unchanged code**
    (unconditionally — failing, cyclic and spawned imports included): the statement of
    `module_globals_disjoint` with its hypothesis discharged. -/
theorem module_globals_disjoint_local (env : Env) (hl : LocalImporter env) (fuel : Nat) (main : List Stmt) :
    ∀ a ∈ (run env fuel main).2.objs, a.2 ≠ 0 ∧
      ∀ b ∈ (run env fuel main).2.objs, a.1 ≠ b.1 → a.2 ≠ b.2 :=
  module_globals_disjoint env fuel main (importer_distinct_paths_distinct_code_run env hl fuel main)

/-- the decidable Spec predicate the oracle prints agrees with the statement -/
theorem globalsDisjoint_of_distinct_code (env : Env) (fuel : Nat) (main : List Stmt)
    (hcode : CodeInj (run env fuel main).2) : globalsDisjoint (run env fuel main).2 = true := by
  have h := module_globals_disjoint env fuel main hcode
  simp only [globalsDisjoint, List.all_eq_true, Bool.and_eq_true, bne_iff_ne, ne_eq, Bool.or_eq_true,
    beq_iff_eq]
  intro a ha
  refine ⟨(h a ha).1, ?_⟩
  intro b hb
  by_cases e : a.1 = b.1
  · exact Or.inl e
  · exact Or.inr ((h a ha).2 b hb e)

/-- a top-level store `x := v` / `x = v` executed in the frame whose globals array is `g`
    (the script for `g = 0`, a module body otherwise) changes no other globals array: a
    same-named variable of any other module or of the script keeps its value. -/
theorem store_only_own_globals (imp : ImpFn) (env : Env) (g depth : Nat) (st : St)
    (var : Path) (val : Int) (g' : Nat) (h : g' ≠ g) :
    (execStmt imp env g depth st (.set var val)).2.globals g' = st.globals g' := by
  simp only [execStmt, St.store, St.globals]
  rw [getElem?_modifyAt_ne _ _ _ _ h]

/-- a store performed by a module's own function (`alias.set_x(v)`) changes only ONE globals
    array: the one the executing VM has loaded for the code of the module object the alias denotes
    (`St.fnArray`, the function view; `module_views_agree`: the array the module object is bound to) -/
theorem module_function_store_only_target (imp : ImpFn) (env : Env) (g depth : Nat) (st : St)
    (alias var : Path) (val : Int) (o : Nat) (gt : Nat)
    (ha : (st.globals g).lookup alias = some (.mod o)) (ho : st.fnArray o = some gt)
    (g' : Nat) (h : g' ≠ gt) :
    (execStmt imp env g depth st (.setVia alias var val)).2.globals g' = st.globals g' := by
  simp only [execStmt]
  rw [ha]
  simp only [ho, St.store, St.globals]
  rw [getElem?_modifyAt_ne _ _ _ _ h]

/-- a counter bumped by a module's own function (`alias.add_n(k)`, i.e. `n = n + k` inside the
    module) changes only the globals array of the module object the alias denotes: the same-named
    counter of every other module — one with byte-identical source included — keeps its value -/
theorem module_counter_only_target (imp : ImpFn) (env : Env) (g depth : Nat) (st : St)
    (alias var : Path) (k : Int) (o : Nat) (gt : Nat)
    (ha : (st.globals g).lookup alias = some (.mod o)) (ho : st.fnArray o = some gt)
    (g' : Nat) (h : g' ≠ gt) :
    (execStmt imp env g depth st (.addVia alias var k)).2.globals g' = st.globals g' := by
  simp only [execStmt]
  rw [ha]
  simp only [ho]
  split
  · simp only [St.store, St.globals]
    rw [getElem?_modifyAt_ne _ _ _ _ h]
  · rfl

/-- a list appended to by a module's own function (`alias.push_l(v)`, i.e. `l.append(v)` inside
    the module) changes only the globals array of the module object the alias denotes -/
theorem module_list_only_target (imp : ImpFn) (env : Env) (g depth : Nat) (st : St)
    (alias var : Path) (v : Int) (o : Nat) (gt : Nat)
    (ha : (st.globals g).lookup alias = some (.mod o)) (ho : st.fnArray o = some gt)
    (g' : Nat) (h : g' ≠ gt) :
    (execStmt imp env g depth st (.pushVia alias var v)).2.globals g' = st.globals g' := by
  simp only [execStmt]
  rw [ha]
  simp only [ho]
  split
  · simp only [St.store, St.globals]
    rw [getElem?_modifyAt_ne _ _ _ _ h]
  · rfl

/-! ### What the unchanged code violates: full statements, witnesses, guards -/

/-- "a module's top-level code runs at most once", for every program -/
def C14_full_runs_once : Prop :=
  ∀ (env : Env) (fuel : Nat) (main : List Stmt), (run env fuel main).2.ticks.Nodup

def nmA : Path := [97]
def nmD : Path := [100]
def nmB : Path := [98]
/-- one extension (the empty one keeps the witnesses small), root `/R` -/
def envOf (files : List (Path × List Stmt)) (limit : Nat) : Env :=
  { root := [47, 82], exts := [[]], files := files, limit := limit }

/-- a module whose body fails is not cached: importing it again runs its body again
    (`try(func(){ import a }); try(func(){ import a })`, or silently through the fallback of
    `from d import a`). -/
theorem C14_counterexample_failed_import : ¬ C14_full_runs_once := by
  intro h
  have := h (envOf [(nmA, [.fail])] 1024) 5 [.tryImp nmA, .tryImp nmA]
  revert this
  decide

/-- an import inside a spawned clone fills only the clone's snapshot of the module cache:
    the script (or another clone) imports the module again and runs its body again. -/
theorem C14_counterexample_spawned_import : ¬ C14_full_runs_once := by
  intro h
  have := h (envOf [(nmA, [])] 1024) 5 [.spawnImp nmA, .imp nmA nmA]
  revert this
  decide

example : cleanRun (run (envOf [(nmA, [.fail])] 1024) 5 [.tryImp nmA, .tryImp nmA]).2 = false := by decide
example : cleanRun (run (envOf [(nmA, [])] 1024) 5 [.spawnImp nmA, .imp nmA nmA]).2 = false := by decide

theorem cleanRun_iff (st : St) : cleanRun st = true ↔ Clean st := by
  simp [cleanRun, Clean, List.isEmpty_iff, and_assoc]

/-- the strongest true part, under the decidable guard `cleanRun` -/
theorem C14_partial_runs_once (env : Env) (fuel : Nat) (main : List Stmt)
    (hg : cleanRun (run env fuel main).2 = true) : (run env fuel main).2.ticks.Nodup :=
  import_runs_once env fuel main ((cleanRun_iff _).1 hg)

/-- "every importer sees the same module state": one module object per name -/
def C14_full_same_state : Prop :=
  ∀ (env : Env) (fuel : Nat) (main : List Stmt), oneObjectPerName (run env fuel main).2 = true

/-- two clones each get their own module object (and globals) for the same module -/
theorem C14_counterexample_same_state : ¬ C14_full_same_state := by
  intro h
  have := h (envOf [(nmA, [])] 1024) 5 [.spawnImp nmA, .imp nmA nmA]
  revert this
  decide

theorem C14_partial_same_state (env : Env) (fuel : Nat) (main : List Stmt)
    (hg : cleanRun (run env fuel main).2 = true) : oneObjectPerName (run env fuel main).2 = true := by
  have hnd := import_runs_once env fuel main ((cleanRun_iff _).1 hg)
  rw [← objects_are_body_runs] at hnd
  simpa [oneObjectPerName] using hnd

/-! ### from-import: exactly one value per listed name -/

/-- "a from-import binds each listed name to what it names": for every import function, module
    table, parent and list of items — whatever modules the statement loads on the way, whatever
    their bodies compute, fail or import — when the loop of `op.FromImport` succeeds it has pushed
    EXACTLY one value per listed item, and the stores that follow pop exactly these: nothing of
    a module body is bound, nothing is left on the frame's operand stack. -/
def C14_full_from_import_binds : Prop :=
  ∀ (imp : ImpFn) (env : Env) (depth g : Nat) (parent : Path) (items : List (Path × Path)) (st : St),
    (fromLoop imp env depth parent (items.map (·.1)).reverse st []).1.1 = .ok →
    (fromLoop imp env depth parent (items.map (·.1)).reverse st []).1.2.length = items.length ∧
    (bindItems items g items (fromLoop imp env depth parent (items.map (·.1)).reverse st []).1.2
      (fromLoop imp env depth parent (items.map (·.1)).reverse st []).2).2 = []

/-- the loop of `op.FromImport` pushes one value per name, on top of what was there -/
theorem fromLoop_pushes_one_per_name (imp : ImpFn) (env : Env) (depth : Nat) (parent : Path) :
    ∀ (names : List Path) (st : St) (ps : List Val),
      (fromLoop imp env depth parent names st ps).1.1 = .ok →
      ∃ vals, (fromLoop imp env depth parent names st ps).1.2 = vals ++ ps ∧ vals.length = names.length := by
  intro names
  induction names with
  | nil => intro st ps _; exact ⟨[], rfl, rfl⟩
  | cons nm rest ih =>
    intro st ps hok
    simp only [fromLoop] at hok ⊢
    cases h1 : (fromOne imp env depth parent nm st).1.1 with
    | ok =>
      simp only [h1] at hok ⊢
      obtain ⟨vals, hv, hl⟩ := ih _ _ hok
      refine ⟨vals ++ [(fromOne imp env depth parent nm st).1.2], ?_, by simp [hl]⟩
      rw [hv]; simp
    | err => simp [h1] at hok
    | panic => simp [h1] at hok

/-- the stores after the instruction pop one value per item -/
theorem bindItems_pops_all (all : List (Path × Path)) (g : Nat) :
    ∀ (items : List (Path × Path)) (ps : List Val) (st : St), ps.length = items.length →
      (bindItems all g items ps st).2 = [] := by
  intro items
  induction items with
  | nil => intro ps st h; cases ps with
    | nil => rfl
    | cons _ _ => simp at h
  | cons it rest ih =>
    intro ps st h
    cases ps with
    | nil => simp at h
    | cons v ps =>
      obtain ⟨nm, al⟩ := it
      simp only [bindItems]
      exact ih ps _ (by simpa using h)

/-- **The full statement holds** (it carried the guard `noResidueBound` / `singleItem` before
    the repair: `C14_fixed_from_import_residue`). -/
theorem C14_from_import_binds : C14_full_from_import_binds := by
  intro imp env depth g parent items st hok
  obtain ⟨vals, hv, hl⟩ := fromLoop_pushes_one_per_name imp env depth parent _ st [] hok
  have hlen : (fromLoop imp env depth parent (items.map (·.1)).reverse st []).1.2.length = items.length := by
    rw [hv]; simp [hl]
  exact ⟨hlen, bindItems_pops_all items g items _ _ hlen⟩

/-- and each value is what its name names: the module object `parent/name` whenever importing
    `parent/name` succeeds (first load or not) … -/
theorem fromOne_binds_module (imp : ImpFn) (env : Env) (depth : Nat) (parent nm : Path) (st : St)
    (h : (imp depth st (parent ++ 47 :: nm)).1.out = .ok) :
    (fromOne imp env depth parent nm st).1 = (.ok, .mod (imp depth st (parent ++ 47 :: nm)).1.oid) := by
  simp [fromOne, h]

/-- … else the attribute `name` of the module `parent` -/
theorem fromOne_binds_attribute (imp : ImpFn) (env : Env) (depth : Nat) (parent nm : Path) (st : St) (v : Val)
    (h1 : (imp depth st (parent ++ 47 :: nm)).1.out = .err)
    (h2 : (imp depth (imp depth st (parent ++ 47 :: nm)).2 parent).1.out = .ok)
    (h3 : attrOf env (imp depth (imp depth st (parent ++ 47 :: nm)).2 parent).2 parent
      (imp depth (imp depth st (parent ++ 47 :: nm)).2 parent).1.oid nm = some v) :
    (fromOne imp env depth parent nm st).1 = (.ok, v) := by
  simp [fromOne, h1, h2, h3]

/-- the former witness: `from d import a, b` with two modules `d/a`, `d/b` not loaded before
    now binds `a` and `b` to the two module objects -/
def resFiles : List (Path × List Stmt) := [(nmD ++ 47 :: nmA, []), (nmD ++ 47 :: nmB, [])]
def resMain : List Stmt := [.fromImp nmD [(nmA, nmA), (nmB, nmB)]]

example : ((run (envOf resFiles 1024) 5 resMain).2.globals 0).lookup nmA = some (.mod 1) := by decide
example : ((run (envOf resFiles 1024) 5 resMain).2.globals 0).lookup nmB = some (.mod 0) := by decide
example : (run (envOf resFiles 1024) 5 resMain).2.objs = [(nmD ++ 47 :: nmB, 1), (nmD ++ 47 :: nmA, 2)] := by decide

/-! ### Repaired in /repo: what the machine did before (`PreFix.lean`) -/

/-- FIXED (`fix: report a cyclic import instead of re-running the modules until the frames
    overflow`).  Before: a cyclic import (here a module importing itself) re-entered the body
    until the frame array overflowed — with `vm.MaxFrameDepth = 1024` the body ran 1023 times
    and the evaluation ended in a recovered Go panic; the witness uses a limit of 4: three body
    executions, outcome panic, outside the pre-fix guard. -/
theorem C14_fixed_cyclic_import_reran :
    (PreFix.run (envOf [(nmA, [.imp nmA nmA])] 4) 10 [.imp nmA nmA]).2.ticks = [nmA, nmA, nmA] ∧
    (PreFix.run (envOf [(nmA, [.imp nmA nmA])] 4) 10 [.imp nmA nmA]).1.1 = .panic ∧
    PreFix.cleanRun (PreFix.run (envOf [(nmA, [.imp nmA nmA])] 4) 10 [.imp nmA nmA]).2 = false := by
  decide

/-- now: the same program runs the body once and ends with the import error; so does the
    two-module cycle (a imports b, b imports a) -/
theorem C14_fixed_cyclic_import_now :
    (run (envOf [(nmA, [.imp nmA nmA])] 4) 10 [.imp nmA nmA]).2.ticks = [nmA] ∧
    (run (envOf [(nmA, [.imp nmA nmA])] 4) 10 [.imp nmA nmA]).1 = .err ∧
    (run (envOf [(nmA, [.imp nmB nmB]), (nmB, [.imp nmA nmA])] 1024) 10 [.imp nmA nmA]).2.ticks = [nmA, nmB] ∧
    (run (envOf [(nmA, [.imp nmB nmB]), (nmB, [.imp nmA nmA])] 1024) 10 [.imp nmA nmA]).2.cycles = [nmA] ∧
    (run (envOf [(nmA, [.imp nmB nmB]), (nmB, [.imp nmA nmA])] 1024) 10 [.imp nmA nmA]).1 = .err := by
  decide

/-- FIXED (`fix: drop what a module's code leaves on the stack when it is imported`).  Before:
    `from d import a, b` with two modules `d/a`, `d/b` not loaded before — each body left its
    result on the operand stack, so `b` was bound to `nil` (the residue of `d/a`'s body) and the
    statement counted as a misbinding. -/
theorem C14_fixed_from_import_residue :
    ((PreFix.run (envOf resFiles 1024) 5 resMain).2.globals 0).lookup nmB = some .nil ∧
    PreFix.noResidueBound (PreFix.run (envOf resFiles 1024) 5 resMain).2 = false := by
  decide

/-! ### Modules with identical source text -/

def nmE : Path := [101, 47, 99]   -- e/c   (east/counter)
def nmW : Path := [119, 47, 99]   -- w/c   (west/counter)
def nmN : Path := [110]           -- n
def nmP : Path := [112]
def nmQ : Path := [113]

/-- two copies of one template: the same statements under two module paths -/
def twinBody : List Stmt := [.set nmN 0, .set [120] 100, .newList [108]]
def twinFiles : List (Path × List Stmt) := [(nmE, twinBody), (nmW, twinBody)]
/-- `import "e/c" as p; p.add_n(3); p.set_x(5); p.push_l(1); import "w/c" as q; q.add_n(4); q.push_l(2); import "e/c" as r` -/
def twinMain : List Stmt :=
  [.imp nmE nmP, .addVia nmP nmN 3, .setVia nmP [120] 5, .pushVia nmP [108] 1, .imp nmW nmQ, .addVia nmQ nmN 4,
   .pushVia nmQ [108] 2, .imp nmE [114]]

def sharingEnv : Env :=
  { root := [47, 82], exts := [[]], files := twinFiles, limit := 1024, reuse := shareByText twinFiles [[]] }

/-- **The hypothesis of `module_globals_disjoint` cannot be dropped**: with an importer that
    hands the same code object to two module paths (here: a compile cache keyed by the source
    text, two byte-identical modules) the VM gives both modules ONE globals array: the second
    import re-runs the body over the first module's variables and from then on a store through
    one alias is seen through the other. -/
theorem distinct_code_needed :
    ∃ (env : Env) (fuel : Nat) (main : List Stmt),
      ¬ CodeInj (run env fuel main).2 ∧ globalsDisjoint (run env fuel main).2 = false :=
  ⟨sharingEnv, 5, twinMain, by decide, by decide⟩

-- the sharing importer: both module objects sit on array 1; q's bump is seen through p, p's
-- earlier state was wiped by the second run of the body
example : (run sharingEnv 5 twinMain).2.objs = [(nmE, 1), (nmW, 1)] := by decide
example : ((run sharingEnv 5 twinMain).2.globals 1).lookup nmN = some (.int 4) := by decide
-- the unchanged importer (default `reuse`): two code objects, two arrays, two counters
example : LocalImporter (envOf twinFiles 1024) := fun _ _ => rfl
example : (run (envOf twinFiles 1024) 5 twinMain).2.compiled = [(nmW, 1), (nmE, 0)] := by decide
example : (run (envOf twinFiles 1024) 5 twinMain).2.objs = [(nmE, 1), (nmW, 2)] := by decide
example : ((run (envOf twinFiles 1024) 5 twinMain).2.globals 1).lookup nmN = some (.int 3) := by decide
example : ((run (envOf twinFiles 1024) 5 twinMain).2.globals 1).lookup [120] = some (.int 5) := by decide
example : ((run (envOf twinFiles 1024) 5 twinMain).2.globals 2).lookup nmN = some (.int 4) := by decide
example : ((run (envOf twinFiles 1024) 5 twinMain).2.globals 2).lookup [120] = some (.int 100) := by decide
example : ((run (envOf twinFiles 1024) 5 twinMain).2.globals 1).lookup [108] = some (.list [1]) := by decide
example : ((run (envOf twinFiles 1024) 5 twinMain).2.globals 2).lookup [108] = some (.list [2]) := by decide
example : ((run sharingEnv 5 twinMain).2.globals 1).lookup [108] = some (.list [2]) := by decide
example : (run (envOf twinFiles 1024) 5 twinMain).2.ticks = [nmE, nmW] := by decide
example : cleanRun (run (envOf twinFiles 1024) 5 twinMain).2 = true := by decide

/-! ### Non-vacuity: programs inside the guard -/

/-- script imports `b` and `a`, `b` imports `a` (transitive + repeated, two aliases): clean,
    each body ran once, one object per name, three different globals arrays -/
def exFiles : List (Path × List Stmt) :=
  [(nmA, [.set [120] 1]), (nmB, [.set [120] 2, .imp nmA nmA, .setVia nmA [120] 7])]
def exMain : List Stmt := [.set [120] 10, .imp nmB nmB, .imp nmA nmA, .imp nmA [112], .set [120] 11]

example : cleanRun (run (envOf exFiles 1024) 9 exMain).2 = true := by decide
example : (run (envOf exFiles 1024) 9 exMain).2.ticks = [nmB, nmA] := by decide
example : (run (envOf exFiles 1024) 9 exMain).2.objs = [(nmB, 1), (nmA, 2)] := by decide
-- x of the script, of b and of a are three different cells
example : ((run (envOf exFiles 1024) 9 exMain).2.globals 0).lookup [120] = some (.int 11) := by decide
example : ((run (envOf exFiles 1024) 9 exMain).2.globals 1).lookup [120] = some (.int 2) := by decide
example : ((run (envOf exFiles 1024) 9 exMain).2.globals 2).lookup [120] = some (.int 7) := by decide
-- both aliases of the script and b's alias denote the same module object
example : ((run (envOf exFiles 1024) 9 exMain).2.globals 0).lookup nmA = some (.mod 1) := by decide
example : ((run (envOf exFiles 1024) 9 exMain).2.globals 0).lookup [112] = some (.mod 1) := by decide
example : ((run (envOf exFiles 1024) 9 exMain).2.globals 1).lookup nmA = some (.mod 1) := by decide
-- a root and a name satisfying the hypotheses of the confinement theorems
example : Good [[82]] := by intro x hx; simp at hx; subst hx; decide
example : fileName [47, 82] [100, 47, 97] [46, 114] = [47, 82, 47, 100, 47, 97, 46, 114] := by decide

/-! ## Part C: one body run and one module object per FILE, whatever the spellings

The caches of the import machine are keyed by module NAME (`module_cache_key_tie`).  The property
speaks of modules, i.e. of files.  The bridge: for the unchanged recogniser two different
accepted names never resolve to the same file (`accepted_names_resolve_injectively`) — an
accepted name contains no '.', every extension starts with one — so "once per name" IS "once
per file" (`same_file_same_module`, `import_runs_once_per_file`).  `name_ext_hypotheses_needed`
shows the bridge is not free: as soon as a name may carry the extension itself, one file has
two names, two cache entries, two body runs. -/

theorem mem_joinSep (cs : List Path) (x : Nat) (h : x ∈ joinSep cs) : x = 47 ∨ ∃ c ∈ cs, x ∈ c := by
  induction cs with
  | nil => simp [joinSep] at h
  | cons c t ih =>
    cases t with
    | nil => simp only [joinSep] at h; exact Or.inr ⟨c, by simp, h⟩
    | cons d r =>
      simp only [joinSep, List.mem_append, List.mem_cons] at h
      rcases h with h | h | h
      · exact Or.inr ⟨c, by simp, h⟩
      · exact Or.inl h
      · rcases ih h with h | ⟨c', hc', hx⟩
        · exact Or.inl h
        · exact Or.inr ⟨c', by simp [hc'], hx⟩

theorem isIdent_dotfree (c : Path) (h : isIdent c = true) : 46 ∉ c := by
  cases c with
  | nil => simp
  | cons x xs =>
    simp only [isIdent, Bool.and_eq_true, List.all_eq_true] at h
    intro hm
    simp only [List.mem_cons] at hm
    rcases hm with hm | hm
    · exact (isIdStart_ne x h.1).2.1 hm.symm
    · exact (isIdChar_ne 46 (h.2 46 hm)).2 rfl

theorem regex_dotfree (t : Path) (h : matchesPathRegex t = true) : 46 ∉ t := by
  intro hm
  rw [← joinSep_split t] at hm
  rcases mem_joinSep _ _ hm with h47 | ⟨c, hc, hx⟩
  · omega
  · simp only [matchesPathRegex, List.all_eq_true] at h
    exact isIdent_dotfree c (h c hc) hx

theorem validImportPath_dotfree (p : Path) (h : validImportPath p = true) : 46 ∉ p := by
  obtain ⟨l, r, hl, hr, he⟩ := trimQuotes_spec p
  intro hm
  rw [he] at hm
  simp only [List.mem_append] at hm
  rcases hm with (hm | hm) | hm
  · have := hl 46 hm; omega
  · exact regex_dotfree _ h hm
  · have := hr 46 hm; omega

theorem isLexIdent_dotfree (p : Path) (h : isLexIdent p = true) : 46 ∉ p := by
  simp only [isLexIdent, Bool.and_eq_true, Bool.not_eq_true', List.all_eq_true] at h
  intro hm
  exact (isLexIdentByte_ne 46 (h.2 46 hm)).2 rfl

/-- **No accepted import statement can put a '.' into a module name**: for every statement form
    and ALL token texts, each name the VM may hand to the importer is free of '.' (so it cannot
    carry a file extension, and `name ++ ext` splits in only one way). -/
theorem accepted_names_dotfree (sp : Spelling) (h : accepted sp = true) :
    ∀ n ∈ requestedNames sp, 46 ∉ n := by
  cases sp with
  | ident x =>
    simp only [accepted, Bool.and_eq_true] at h
    simpa [requestedNames] using validImportPath_dotfree x h.2
  | quoted s => simpa [requestedNames] using validImportPath_dotfree s h
  | fromDotted ps item =>
    simp only [accepted, Bool.and_eq_true, Bool.not_eq_true', List.all_eq_true] at h
    have hne : ps ≠ [] := by intro e; subst e; simp at h
    have hp : nameOK (joinSep ps) = true :=
      joinSep_nameOK ps hne (fun p hp => isLexIdent_nameOK p (h.1.2 p hp))
    have hj : joinParents ps = joinSep ps := cleanStr_nameOK _ hp
    have hi := isLexIdent_nameOK item h.2
    have hdp : 46 ∉ joinSep ps := by
      intro hm
      rcases mem_joinSep _ _ hm with h47 | ⟨c, hc, hx⟩
      · omega
      · exact isLexIdent_dotfree c (h.1.2 c hc) hx
    have hdi := isLexIdent_dotfree item h.2
    intro n hn
    simp only [requestedNames, List.mem_cons, List.not_mem_nil, or_false] at hn
    rcases hn with rfl | rfl
    · rw [hj, join2_nameOK _ _ hp hi]
      intro hm
      simp only [List.mem_append, List.mem_cons] at hm
      rcases hm with hm | hm | hm
      · exact hdp hm
      · omega
      · exact hdi hm
    · rw [hj]; exact hdp
  | fromQuoted s item =>
    simp only [accepted, Bool.and_eq_true] at h
    have hp := validImportPath_nameOK s h.1
    have hj : joinParents [s] = s := by simpa [joinParents, joinSep] using cleanStr_nameOK s hp
    have hi := isLexIdent_nameOK item h.2
    have hds := validImportPath_dotfree s h.1
    have hdi := isLexIdent_dotfree item h.2
    intro n hn
    simp only [requestedNames, List.mem_cons, List.not_mem_nil, or_false] at hn
    rcases hn with rfl | rfl
    · rw [hj, join2_nameOK _ _ hp hi]
      intro hm
      simp only [List.mem_append, List.mem_cons] at hm
      rcases hm with hm | hm | hm
      · exact hds hm
      · omega
      · exact hdi hm
    · rw [hj]; exact hds

/-- `name ++ ext` determines the name: dot-free names, extensions that start with '.' -/
theorem name_ext_injective (n1 n2 e1 e2 : Path) (h1 : 46 ∉ n1) (h2 : 46 ∉ n2)
    (he1 : dottedExt e1 = true) (he2 : dottedExt e2 = true) (h : n1 ++ e1 = n2 ++ e2) :
    n1 = n2 ∧ e1 = e2 := by
  induction n1 generalizing n2 with
  | nil =>
    cases n2 with
    | nil => exact ⟨rfl, by simpa using h⟩
    | cons y ys =>
      exfalso
      cases e1 with
      | nil => simp [dottedExt] at he1
      | cons a as =>
        have ha : a = 46 := by simpa [dottedExt] using he1
        simp only [List.nil_append, List.cons_append, List.cons.injEq] at h
        exact h2 (by rw [← h.1, ha]; simp)
  | cons x xs ih =>
    cases n2 with
    | nil =>
      exfalso
      cases e2 with
      | nil => simp [dottedExt] at he2
      | cons a as =>
        have ha : a = 46 := by simpa [dottedExt] using he2
        simp only [List.nil_append, List.cons_append, List.cons.injEq] at h
        exact h1 (by rw [h.1, ha]; simp)
    | cons y ys =>
      simp only [List.cons_append, List.cons.injEq] at h
      have := ih ys (fun hm => h1 (by simp [hm])) (fun hm => h2 (by simp [hm])) h.2
      exact ⟨by rw [h.1, this.1], this.2⟩

/-- **Distinct accepted names resolve to distinct files** (the unchanged recogniser): for any
    two accepted import statements in any spellings, any names `n1`, `n2` they may request, a
    clean absolute root and any extensions that start with '.' and contain no '/': if the
    importer's file for `n1` is the importer's file for `n2` then `n1 = n2` (and the extension
    is the same).  So a file has exactly one module name, and the by-name caches are by-file. -/
theorem accepted_names_resolve_injectively (sp1 sp2 : Spelling) (cb : List Path) (e1 e2 n1 n2 : Path)
    (h1 : accepted sp1 = true) (h2 : accepted sp2 = true)
    (hn1 : n1 ∈ requestedNames sp1) (hn2 : n2 ∈ requestedNames sp2)
    (hcb : Good cb) (hne : cb ≠ [])
    (hd1 : dottedExt e1 = true) (hd2 : dottedExt e2 = true) (hs1 : 47 ∉ e1) (hs2 : 47 ∉ e2)
    (h : fileName (render true cb) n1 e1 = fileName (render true cb) n2 e2) : n1 = n2 ∧ e1 = e2 := by
  rw [import_statement_confined sp1 cb e1 h1 hcb hne hs1 n1 hn1,
    import_statement_confined sp2 cb e2 h2 hcb hne hs2 n2 hn2] at h
  have h' : n1 ++ e1 = n2 ++ e2 := by
    have := List.append_cancel_left h
    simpa using this
  exact name_ext_injective n1 n2 e1 e2 (accepted_names_dotfree sp1 h1 n1 hn1)
    (accepted_names_dotfree sp2 h2 n2 hn2) hd1 hd2 h'

theorem fileOf_some (env : Env) (n f : Path) (exts : List Path) (h : fileOf env n exts = some f) :
    ∃ e ∈ exts, f = n ++ e := by
  induction exts with
  | nil => simp [fileOf] at h
  | cons e es ih =>
    simp only [fileOf] at h
    split at h
    · exact ⟨e, by simp, by simpa using h.symm⟩
    · obtain ⟨e', he', hf⟩ := ih h
      exact ⟨e', by simp [he'], hf⟩

/-- in the module table: two dot-free names with the same file are the same name -/
theorem fileOf_injective (env : Env) (hx : ∀ e ∈ env.exts, dottedExt e = true) (n1 n2 f : Path)
    (h1 : 46 ∉ n1) (h2 : 46 ∉ n2)
    (hf1 : fileOf env n1 env.exts = some f) (hf2 : fileOf env n2 env.exts = some f) : n1 = n2 := by
  obtain ⟨e1, he1, rfl⟩ := fileOf_some env n1 f env.exts hf1
  obtain ⟨e2, he2, hf⟩ := fileOf_some env n2 _ env.exts hf2
  exact (name_ext_injective n1 n2 e1 e2 h1 h2 (hx e1 he1) (hx e2 he2) hf).1

/-- **Two import statements whose names resolve to the same file yield the same module
    object** — in one evaluation, for every module table, script and fuel, under the guard
    `Clean`: if two module objects (the `i`-th and `j`-th ever created, under the names `n1`,
    `n2` that accepted import statements can request, i.e. free of '.') stand for the same file
    `f`, they are one object: same name, same globals array, created by one body run. -/
theorem same_file_same_module (env : Env) (fuel : Nat) (main : List Stmt)
    (h : Clean (run env fuel main).2) (hx : ∀ e ∈ env.exts, dottedExt e = true)
    (i j : Nat) (n1 n2 f : Path) (g1 g2 : Nat)
    (hi : (run env fuel main).2.objs[i]? = some (n1, g1))
    (hj : (run env fuel main).2.objs[j]? = some (n2, g2))
    (hd1 : 46 ∉ n1) (hd2 : 46 ∉ n2)
    (hf1 : fileOf env n1 env.exts = some f) (hf2 : fileOf env n2 env.exts = some f) :
    i = j ∧ n1 = n2 ∧ g1 = g2 := by
  have hn := fileOf_injective env hx n1 n2 f hd1 hd2 hf1 hf2
  subst hn
  have hij := import_same_object env fuel main h i j n1 g1 g2 hi hj
  subst hij
  rw [hi] at hj
  simp only [Option.some.injEq, Prod.mk.injEq, true_and] at hj
  exact ⟨rfl, rfl, hj⟩

/-- **Run once per FILE**: under the same hypotheses no file's top-level code runs twice — if
    the `i`-th and the `j`-th body execution of the evaluation are executions of the same file,
    they are the same execution. -/
theorem import_runs_once_per_file (env : Env) (fuel : Nat) (main : List Stmt)
    (h : Clean (run env fuel main).2) (hx : ∀ e ∈ env.exts, dottedExt e = true)
    (i j : Nat) (n1 n2 f : Path)
    (hi : (run env fuel main).2.ticks[i]? = some n1) (hj : (run env fuel main).2.ticks[j]? = some n2)
    (hd1 : 46 ∉ n1) (hd2 : 46 ∉ n2)
    (hf1 : fileOf env n1 env.exts = some f) (hf2 : fileOf env n2 env.exts = some f) : i = j := by
  have hn := fileOf_injective env hx n1 n2 f hd1 hd2 hf1 hf2
  subst hn
  exact nodup_getElem_inj _ (import_runs_once env fuel main h) i j n1 hi hj

/-- the by-file statement for every program, without the hypotheses on names and extensions -/
def C14_full_runs_once_per_file : Prop :=
  ∀ (env : Env) (fuel : Nat) (main : List Stmt), Clean (run env fuel main).2 →
    runsOncePerFile env (run env fuel main).2 = true

/-- file `a.r`, extensions `""` and `.r`: the names `a.r` (extension spelled out) and `a` are two
    names of one file -/
def extEnv : Env := { root := [47, 82], exts := [[], [46, 114]], files := [([97, 46, 114], [])], limit := 1024 }
def extMain : List Stmt := [.imp [97, 46, 114] nmP, .imp nmA nmQ]

/-- **The hypotheses cannot be dropped**: when a module name may carry the extension (here an
    extension list with the empty extension; equally a recogniser that lets `.risor` through and
    an importer that does not append it twice) ONE file gets TWO names: the by-name caches miss,
    the body runs twice in a clean evaluation and the two aliases hold two module objects with
    two globals arrays — although no NAME ran twice. -/
theorem name_ext_hypotheses_needed : ¬ C14_full_runs_once_per_file := by
  intro h
  have := h extEnv 5 extMain ((cleanRun_iff _).1 (by decide))
  revert this
  decide

example : (run extEnv 5 extMain).2.ticks = [[97, 46, 114], [97]] := by decide
example : runsOnce (run extEnv 5 extMain).2 = true := by decide
example : oneObjectPerFile extEnv (run extEnv 5 extMain).2 = false := by decide
example : (run extEnv 5 extMain).2.objs = [([97, 46, 114], 1), ([97], 2)] := by decide
-- the same two statements against the usual extension list reach one file once
example : runsOncePerFile (envOf exFiles 1024) (run (envOf exFiles 1024) 9 exMain).2 = true := by decide
example : reachedFile (envOf exFiles 1024) (.quoted nmA) = some nmA := by decide

/-! ## Part D: several evaluations that share ONE importer

`NewLocalImporter`/`NewFSImporter` may be shared between VMs and evaluations.  A session
(`Model.lean`, Part C) is any number `n` of evaluations, each with its own VM, and ANY schedule —
a list of (evaluation, top-level statement) that says who runs next: nested (a host builtin that
runs a plugin script to its end), alternating, or one after the other.  The theorems below are
about `session env fuel n sched` for every module table, every fuel, every `n` and every schedule:
the importer hands out a NEW module object for every `Import` call (tie
`importer_module_sources_tie`), so nothing an evaluation holds is ever touched by another one. -/

theorem importModule_R5 (env : Env) (fuel : Nat) : ∀ m d st nm, R5 m st (importModule env fuel d st nm).2 :=
  fun m d st nm => importModule_rel env (R5_impOK env m) fuel d st nm

theorem session_snoc (env : Env) (fuel n : Nat) (sched : List (Nat × Stmt)) (e : Nat) (stmt : Stmt) :
    session env fuel n (sched ++ [(e, stmt)]) =
      sessStep (importModule env fuel) env (session env fuel n sched) e stmt := by
  simp [session, sessRun, List.foldl_append]

/-- the invariant `SInv` (Lemmas.lean) holds in every state a session can reach -/
theorem session_inv (env : Env) (fuel n : Nat) (sched : List (Nat × Stmt)) : SInv n (session env fuel n sched) :=
  SInv_run _ (importModule_R5 env fuel) env n sched

/-- **A module object is bound once**: whatever statement whichever evaluation executes next
    (imports that create module objects, failing, cyclic and spawned imports included), the
    table of module objects only GROWS — the globals array an existing module object is bound to
    (`Module.UseGlobals`, what `module.attr` reads) is never changed, by its own evaluation or by
    another one. -/
theorem module_objects_never_rebound (env : Env) (fuel n : Nat) (sched : List (Nat × Stmt)) (e : Nat) (stmt : Stmt) :
    ∃ ext, (session env fuel n (sched ++ [(e, stmt)])).sh.objs = (session env fuel n sched).sh.objs ++ ext := by
  rw [session_snoc]
  generalize session env fuel n sched = s
  unfold sessStep
  split
  · exact ⟨[], by simp⟩
  · rename_i v _
    split
    · exact (execStmt_rel (R5_relOK v.main) _ (importModule_R5 env fuel v.main) env v.main 0 _ stmt (Or.inl rfl)).objs
    · exact ⟨[], by simp⟩

theorem fnArray_of_W (st : St) (hw : W st) (p : Path × Nat) (hp : p ∈ st.cache) :
    ∃ g, st.attrArray p.2 = some g ∧ st.fnArray p.2 = some g := by
  obtain ⟨_, _, v, ca⟩ := hw
  obtain ⟨nm, g, c, ho, hl⟩ := ca p hp
  refine ⟨g, by simp [St.attrArray, ho], ?_⟩
  simp [St.fnArray, ho, v c g hl, hl]

/-- **The two views of a module agree, in every evaluation of every session**: for every
    evaluation `v` and every module it has imported (every entry of its `vm.modules`), the
    globals array the module object is bound to — what `alias.x` reads — IS the array `v`'s VM
    has loaded for the module's code — what the module's functions (`alias.get_x()`,
    `alias.set_x(…)`) read and write: a module has one state, however it is looked at, and
    however many other evaluations imported the same module from the same importer meanwhile. -/
theorem module_views_agree (env : Env) (fuel n : Nat) (sched : List (Nat × Stmt)) :
    ∀ v ∈ (session env fuel n sched).vms, ∀ p ∈ v.cache,
      ∃ g, (session env fuel n sched).sh.attrArray p.2 = some g ∧
        ((session env fuel n sched).view v).fnArray p.2 = some g := by
  intro v hv p hp
  exact fnArray_of_W _ ((session_inv env fuel n sched).w v hv) p hp

/-- the decidable Spec predicate the oracle prints agrees with the statement -/
theorem session_views_agree (env : Env) (fuel n : Nat) (sched : List (Nat × Stmt)) :
    sessViewsAgree (session env fuel n sched) = true := by
  simp only [sessViewsAgree, List.all_eq_true, Bool.and_eq_true, beq_iff_eq]
  intro v hv p hp
  obtain ⟨g, h1, h2⟩ := module_views_agree env fuel n sched v hv p hp
  rw [h2, h1]
  exact ⟨rfl, rfl⟩

/-- **Evaluations that share an importer share nothing else**: in every reachable state of every
    session, two different evaluations `i ≠ j` hold no module object in common (no entry of
    `i`'s `vm.modules` is an object of `j`'s — same module name or not), no globals array of a
    module of `i` is an array of a module of `j`, and none is the array of either script. -/
theorem evaluations_share_nothing (env : Env) (fuel n : Nat) (sched : List (Nat × Stmt))
    (i j : Nat) (vi vj : VM) (hij : i ≠ j)
    (hi : (session env fuel n sched).vms[i]? = some vi) (hj : (session env fuel n sched).vms[j]? = some vj) :
    (∀ p ∈ vi.cache, ∀ q ∈ vj.cache, p.2 ≠ q.2) ∧
    (∀ g ∈ vi.arrays, g ∉ vj.arrays ∧ g ≠ vj.main ∧ g ≠ vi.main) := by
  have inv := session_inv env fuel n sched
  have hd := inv.disj i j vi vj hij hi hj
  refine ⟨hd.2, ?_⟩
  intro g hg
  simp only [VM.arrays, List.mem_map] at hg
  obtain ⟨p, hp, rfl⟩ := hg
  have hlow := inv.low vi (List.mem_of_getElem? hi) p hp
  have hmi := inv.main i vi hi
  have hmj := inv.main j vj hj
  have hli : i < n := by rw [← inv.len]; exact getElem?_lt_of_some hi
  have hlj : j < n := by rw [← inv.len]; exact getElem?_lt_of_some hj
  refine ⟨?_, by omega, by omega⟩
  intro hin
  simp only [VM.arrays, List.mem_map] at hin
  obtain ⟨q, hq, he⟩ := hin
  exact hd.1 p hp q hq he.symm

/-- **A module's globals are its own — also across evaluations** (non-interference, one step):
    when evaluation `e` executes its next statement — any statement: imports, stores, calls of
    module functions through any alias, try-imports, spawned imports — every globals array of
    every OTHER evaluation `j` (its script's array and the arrays of all modules it has imported)
    holds afterwards exactly what it held before.  By induction over the schedule: what an
    evaluation sees in its modules is what it would see if no other evaluation existed. -/
theorem other_evaluations_untouched (env : Env) (fuel n : Nat) (sched : List (Nat × Stmt)) (e : Nat) (stmt : Stmt)
    (j : Nat) (vj : VM) (hje : j ≠ e) (hj : (session env fuel n sched).vms[j]? = some vj)
    (g : Nat) (hg : g = vj.main ∨ g ∈ vj.arrays) :
    (session env fuel n (sched ++ [(e, stmt)])).sh.globals g = (session env fuel n sched).sh.globals g := by
  rw [session_snoc]
  have inv := session_inv env fuel n sched
  generalize session env fuel n sched = s at *
  unfold sessStep
  split
  · rfl
  · rename_i v hv
    split
    · have hR : R5 v.main (s.sh.withVM v) (execStmt (importModule env fuel) env v.main 0 (s.sh.withVM v) stmt).2 :=
        execStmt_rel (R5_relOK v.main) _ (importModule_R5 env fuel v.main) env v.main 0 _ stmt (Or.inl rfl)
      have hme := inv.main e v hv
      have hmj := inv.main j vj hj
      have hle : e < n := by rw [← inv.len]; exact getElem?_lt_of_some hv
      have hlj : j < n := by rw [← inv.len]; exact getElem?_lt_of_some hj
      have hd := inv.disj j e vj v hje hj hv
      obtain ⟨bj, lj, _, _⟩ := inv.w vj (List.mem_of_getElem? hj)
      have hglt : g < s.sh.heap.length := by
        rcases hg with rfl | hg
        · have := inv.heap; omega
        · simp only [VM.arrays, List.mem_map] at hg
          obtain ⟨q, hq, rfl⟩ := hg
          exact bj q (lj q hq)
      have hno : ¬ OwnM v.main (s.sh.withVM v) g := by
        intro ho
        rcases ho with ho | ⟨c, hc⟩
        · rcases hg with rfl | hg
          · omega
          · simp only [VM.arrays, List.mem_map] at hg
            obtain ⟨q, hq, rfl⟩ := hg
            have := inv.low vj (List.mem_of_getElem? hj) q hq
            omega
        · have hc' : (c, g) ∈ v.loaded := hc
          rcases hg with rfl | hg
          · have := inv.low v (List.mem_of_getElem? hv) _ hc'
            simp only at this; omega
          · simp only [VM.arrays, List.mem_map] at hg
            obtain ⟨q, hq, he⟩ := hg
            exact hd.1 q hq _ hc' he
      exact hR.frame g hglt hno
    · rfl

/-- the decidable Spec predicate the oracle prints agrees with `evaluations_share_nothing` -/
theorem session_disjoint (env : Env) (fuel n : Nat) (sched : List (Nat × Stmt)) :
    sessDisjoint (session env fuel n sched) = true := by
  simp only [sessDisjoint, List.all_eq_true, List.mem_range]
  intro i _ j _
  cases hi : (session env fuel n sched).vms[i]? with
  | none => rfl
  | some vi =>
    cases hj : (session env fuel n sched).vms[j]? with
    | none => rfl
    | some vj =>
      by_cases hij : i = j
      · simp [hij]
      · obtain ⟨h1, h2⟩ := evaluations_share_nothing env fuel n sched i j vi vj hij hi hj
        simp only [Bool.or_eq_true, beq_iff_eq, hij, false_or, Bool.and_eq_true, List.all_eq_true,
          bne_iff_ne, ne_eq, Bool.not_eq_true', List.contains_eq_mem, decide_eq_false_iff_not]
        refine ⟨fun p hp q hq => h1 p hp q hq, fun g hg => ?_⟩
        obtain ⟨a, b, c⟩ := h2 g hg
        exact ⟨⟨a, b⟩, c⟩

/-! ### One evaluation -/

theorem withVM_self (st : St) (v : VM) (hc : v.cache = st.cache) (hl : v.loaded = st.loaded)
    (hi : st.importing = []) : st.withVM v = st := by
  cases st
  simp_all [St.withVM]

theorem sess_skip (imp : ImpFn) (env : Env) (st : St) (v : VM) (hv : v.out ≠ .ok) :
    ∀ (ss : List Stmt), (ss.map fun x => ((0 : Nat), x)).foldl (fun s p => sessStep imp env s p.1 p.2) { sh := st, vms := [v] }
      = { sh := st, vms := [v] } := by
  intro ss
  induction ss with
  | nil => rfl
  | cons x rest ih =>
    simp only [List.map_cons, List.foldl_cons]
    have : sessStep imp env { sh := st, vms := [v] } 0 x = { sh := st, vms := [v] } := by
      simp [sessStep, hv]
    rw [this]; exact ih

theorem sess_single_aux (env : Env) (fuel : Nat) :
    ∀ (ss : List Stmt) (st : St) (v : VM), v.cache = st.cache → v.loaded = st.loaded → st.importing = [] →
      v.main = 0 → v.out = .ok →
      ∃ v', (ss.map fun x => ((0 : Nat), x)).foldl (fun s p => sessStep (importModule env fuel) env s p.1 p.2)
            { sh := st, vms := [v] } = { sh := (execStmts (importModule env fuel) env 0 0 ss st).2, vms := [v'] } ∧
        v'.out = (execStmts (importModule env fuel) env 0 0 ss st).1 ∧
        v'.cache = (execStmts (importModule env fuel) env 0 0 ss st).2.cache ∧
        v'.loaded = (execStmts (importModule env fuel) env 0 0 ss st).2.loaded ∧ v'.main = 0 := by
  intro ss
  induction ss with
  | nil => intro st v hc hl _ hm ho; exact ⟨v, rfl, ho, hc, hl, hm⟩
  | cons x rest ih =>
    intro st v hc hl hi hm ho
    simp only [List.map_cons, List.foldl_cons, execStmts]
    have hself := withVM_self st v hc hl hi
    have hstep : sessStep (importModule env fuel) env { sh := st, vms := [v] } 0 x =
        { sh := (execStmt (importModule env fuel) env 0 0 st x).2,
          vms := [{ v with cache := (execStmt (importModule env fuel) env 0 0 st x).2.cache,
                           loaded := (execStmt (importModule env fuel) env 0 0 st x).2.loaded,
                           out := (execStmt (importModule env fuel) env 0 0 st x).1 }] } := by
      simp [sessStep, ho, hm, hself]
    rw [hstep]
    have himp : (execStmt (importModule env fuel) env 0 0 st x).2.importing = [] := by
      have := (execStmt_rel R2_relOK (importModule env fuel)
        (fun d s n => importModule_rel env (R2_impOK env) fuel d s n) env 0 0 st x trivial).1
      rw [this]; exact hi
    cases hr : (execStmt (importModule env fuel) env 0 0 st x).1 with
    | ok =>
      simp only []
      exact ih _ _ rfl rfl himp hm rfl
    | err =>
      simp only []
      rw [sess_skip _ _ _ _ (by simp)]
      exact ⟨_, rfl, rfl, rfl, rfl, hm⟩
    | panic =>
      simp only []
      rw [sess_skip _ _ _ _ (by simp)]
      exact ⟨_, rfl, rfl, rfl, rfl, hm⟩

/-- **A session of ONE evaluation is the evaluation of Part B**: scheduling the statements of a
    script one after the other as the only evaluation of a session gives the outcome and the
    state of `run` — the session machine extends the machine the run-once and own-globals theorems
    are about, it does not replace it. -/
theorem session_of_one_is_run (env : Env) (fuel : Nat) (main : List Stmt) :
    ∃ v, session env fuel 1 (main.map fun x => (0, x)) = { sh := (run env fuel main).2, vms := [v] } ∧
      v.out = (run env fuel main).1 := by
  obtain ⟨v', h1, h2, _⟩ := sess_single_aux env fuel main St.init { main := 0 } rfl rfl rfl rfl rfl
  refine ⟨v', ?_, h2⟩
  unfold session sessRun run
  exact h1
/-! ### The witness: why the importer must hand out a NEW module object per `Import` call -/

def nmC : Path := [99]          -- module "c" (a counter)
/-- `c.risor`: `n := 0` (and the functions `add_n`, `get_n`) -/
def ctrEnv : Env := { root := [47, 82], exts := [[]], files := [(nmC, [.set nmN 0])], limit := 1024 }
/-- evaluation 0: `import c; c.add_n(1); c.add_n(1)` — then evaluation 1 (a plugin script run by a host
    builtin, with the same importer): `import c; c.add_n(1)` — then evaluation 0 again: `c.add_n(5)` -/
def ctrSched : List (Nat × Stmt) :=
  [(0, .imp nmC nmC), (0, .addVia nmC nmN 1), (0, .addVia nmC nmN 1), (1, .imp nmC nmC), (1, .addVia nmC nmN 1),
   (0, .addVia nmC nmN 5)]

/-- **`module_views_agree` and `evaluations_share_nothing` rest on the importer creating a new
    module object per `Import` call**: with an importer that caches the module OBJECT per name
    (`importModuleMC` — one `*object.Module` handed to every VM) the second evaluation's
    `UseGlobals` rebinds the object the first evaluation still holds: in evaluation 0 `c.n` now
    reads evaluation 1's counter (1) while `c.get_n()` reads its own (7) — two views of one module
    disagree, and the two evaluations hold the same module object. -/
theorem fresh_module_objects_needed :
    sessViewsAgree (sessionMC ctrEnv 5 2 ctrSched) = false ∧
    sessDisjoint (sessionMC ctrEnv 5 2 ctrSched) = false ∧
    (sessionMC ctrEnv 5 2 ctrSched).sh.objs = [(nmC, 3)] ∧
    ((sessionMC ctrEnv 5 2 ctrSched).sh.globals 3).lookup nmN = some (.int 1) ∧
    ((sessionMC ctrEnv 5 2 ctrSched).sh.globals 2).lookup nmN = some (.int 7) := by
  decide

-- the unchanged importer on the same session: two module objects, two arrays, each evaluation its own counter
example : (session ctrEnv 5 2 ctrSched).sh.objs = [(nmC, 2), (nmC, 3)] := by decide
example : ((session ctrEnv 5 2 ctrSched).sh.globals 2).lookup nmN = some (.int 7) := by decide
example : ((session ctrEnv 5 2 ctrSched).sh.globals 3).lookup nmN = some (.int 1) := by decide
example : (session ctrEnv 5 2 ctrSched).vms.map (·.cache) = [[(nmC, 0)], [(nmC, 1)]] := by decide
example : (session ctrEnv 5 2 ctrSched).vms.map (·.arrays) = [[2], [3]] := by decide
-- both evaluations run the module's body: run-once is per evaluation
example : (session ctrEnv 5 2 ctrSched).sh.ticks = [nmC, nmC] := by decide
-- the importer compiled the module once: one code object, loaded by each VM with its own array
example : (session ctrEnv 5 2 ctrSched).sh.compiled = [(nmC, 0)] := by decide
example : (session ctrEnv 5 2 ctrSched).sh.owner = [(0, 3), (0, 2)] := by decide

end Risor.C14
