import RisorModel.C14.Model
/-!
C14 — the import machine AS IT WAS before two repairs of `vm.importModule` (kept for the record;
nothing but the `C14_fixed_*` statements of `Props.lean` uses it):

* `fix: drop what a module's code leaves on the stack when it is imported` — before it, every
  module body left one value on the importer's operand stack (`IRes.junk`; the value of its last
  statement, or the top of a failed body's stack), which a `from d import a, b` of two modules
  not loaded before then bound to `b` (`St.misbinds`);
* `fix: report a cyclic import instead of re-running the modules until the frames overflow` —
  before it, an import of a module whose body was still running missed the cache and entered the
  body again (`St.reent`, rerun cause 1) until `vm.frames` overflowed.

This is the text of the former `Model.lean` Part B, unchanged, in its own namespace.  `Val`,
`Stmt`, `Env` and the importer-side helpers are those of the current model.
-/
namespace Risor.C14.PreFix
open Risor.C13 (Path)

structure St where
  cache : List (Path × Nat) := []      -- vm.modules: name → module object
  loaded : List (Nat × Nat) := []      -- vm.loadedCode (root codes): code identity → globals array
  heap : List (List (Path × Val)) := [[]]  -- globals arrays; 0 is the main script's
  objs : List (Path × Nat) := []       -- every module object ever created: (name, globals array)
  compiled : List (Path × Nat) := []   -- importer.codeCache: module name → identity of its compiled code object
  ncode : Nat := 0                     -- code objects created so far by parseAndCompile (the next fresh identity)
  owner : List (Nat × Nat) := []       -- ghost: every (code identity, globals array) pair any VM of this evaluation
                                       -- (the script's or a clone's) ever created in loadCode
  opens : List Path := []              -- every file the importer tried to open, in order
  ticks : List Path := []              -- module body executions, in order
  failed : List Path := []             -- imports whose body did not complete
  reent : List Path := []              -- bodies entered while the same module was still being imported
  spawns : Nat := 0                    -- imports performed in spawned clones
  misbinds : Nat := 0                  -- from-import statements that bound a stack residue
  reruns : List (Path × Nat) := []     -- body executions beyond a module's first, with the cause:
                                       -- 1 re-entrant (cyclic) import, 2 an earlier run failed, 3 another VM (clone) ran it
  nofuel : Bool := false
  deriving Repr

inductive Out where
  | ok | err | panic
  deriving DecidableEq, Repr

structure IRes where
  out : Out
  oid : Nat
  junk : Option Val   -- the call left this extra value on the caller's operand stack
  deriving Repr


def St.store (st : St) (g : Nat) (k : Path) (v : Val) : St :=
  { st with heap := modifyAt (setKey k v) g st.heap }

def St.globals (st : St) (g : Nat) : List (Path × Val) := (st.heap[g]?).getD []


abbrev ImpFn := Nat → St → Path → IRes × St

/-- value of `module.GetAttr(name)` for a module whose body has completed -/
def attrOf (env : Env) (st : St) (parent : Path) (oid : Nat) (nm : Path) : Option Val :=
  match bodyOf env parent env.exts with
  | none => none
  | some body =>
    if declares body nm then
      match st.objs[oid]? with
      | some (_, g) => some (((st.globals g).lookup nm).getD .nil)
      | none => none
    else none

/-- the loop of `op.FromImport`: names in processing order (reverse of the source order),
    `ps` is the operand stack built so far (head = top; the Bool marks a residue value). -/
def fromLoop (imp : ImpFn) (env : Env) (depth : Nat) (parent : Path) :
    List Path → St → List (Val × Bool) → (Out × List (Val × Bool)) × St
  | [], st, ps => ((.ok, ps), st)
  | nm :: rest, st, ps =>
    let r1 := imp depth st (parent ++ 47 :: nm)
    let ps1 := match r1.1.junk with | some j => (j, true) :: ps | none => ps
    match r1.1.out with
    | .ok => fromLoop imp env depth parent rest r1.2 ((Val.mod r1.1.oid, false) :: ps1)
    | .panic => ((.panic, ps1), r1.2)
    | .err =>
      let r2 := imp depth r1.2 parent
      let ps2 := match r2.1.junk with | some j => (j, true) :: ps1 | none => ps1
      match r2.1.out with
      | .ok =>
        match attrOf env r2.2 parent r2.1.oid nm with
        | some v => fromLoop imp env depth parent rest r2.2 ((v, false) :: ps2)
        | none => ((.err, ps2), r2.2)
      | .err => ((.err, ps2), r2.2)
      | .panic => ((.panic, ps2), r2.2)

/-- the `StoreGlobal`s after `op.FromImport`: one pop per listed item, in source order -/
def bindItems (all : List (Path × Path)) (g : Nat) :
    List (Path × Path) → List (Val × Bool) → St → St × List (Val × Bool)
  | [], ps, st => (st, ps)
  | _ :: _, [], st => (st, [])
  | (nm, _) :: rest, (v, _) :: ps, st => bindItems all g rest ps (st.store g (aliasOf all nm) v)

/-- one top-level statement executed in the frame whose globals array is `g`, at frame
    index `depth`; `left` = residue values on this frame's operand stack (head = top). -/
def execStmt (imp : ImpFn) (env : Env) (g depth : Nat) (st : St) (left : List Val) :
    Stmt → (Out × List Val) × St
  | .imp name alias =>
    let r := imp depth st name
    let left' := match r.1.junk with | some j => j :: left | none => left
    match r.1.out with
    | .ok => ((.ok, left'), r.2.store g alias (.mod r.1.oid))
    | o => ((o, left'), r.2)
  | .fromImp parent items =>
    let r := fromLoop imp env depth parent (items.map (·.1)).reverse st []
    match r.1.1 with
    | .ok =>
      let wrong := (r.1.2.take items.length).any (·.2)
      let st1 := if wrong then { r.2 with misbinds := r.2.misbinds + 1 } else r.2
      let b := bindItems items g items r.1.2 st1
      ((.ok, b.2.map (·.1) ++ left), b.1)
    | o => ((o, r.1.2.map (·.1) ++ left), r.2)
  | .set var val => ((.ok, left), st.store g var (.int val))
  | .setVia alias var val =>
    match (st.globals g).lookup alias with
    | some (.mod o) =>
      match st.objs[o]? with
      | some (_, g') => ((.ok, left), st.store g' var (.int val))
      | none => ((.err, left), st)
    | _ => ((.err, left), st)
  | .addVia alias var k =>
    match (st.globals g).lookup alias with
    | some (.mod o) =>
      match st.objs[o]? with
      | some (_, g') =>
        match (st.globals g').lookup var with
        | some (.int i) => ((.ok, left), st.store g' var (.int (i + k)))
        | _ => ((.err, left), st)
      | none => ((.err, left), st)
    | _ => ((.err, left), st)
  | .newList var => ((.ok, left), st.store g var (.list []))
  | .pushVia alias var v =>
    match (st.globals g).lookup alias with
    | some (.mod o) =>
      match st.objs[o]? with
      | some (_, g') =>
        match (st.globals g').lookup var with
        | some (.list l) => ((.ok, left), st.store g' var (.list (l ++ [v])))
        | _ => ((.err, left), st)
      | none => ((.err, left), st)
    | _ => ((.err, left), st)
  | .tryImp name =>
    if depth + 1 ≥ env.limit then ((.panic, left), st)   -- the function's own frame
    else
      let r := imp (depth + 1) st name
      match r.1.out with
      | .panic => ((.panic, left), r.2)
      | _ => ((.ok, left), r.2)
  | .spawnImp name =>
    let r := imp 1 { st with spawns := st.spawns + 1 } name
    let st2 := { r.2 with cache := st.cache, loaded := st.loaded }
    match r.1.out with
    | .ok => ((.ok, left), st2)
    | o => ((o, left), st2)
  | .fail => ((.err, left), st)

def execStmts (imp : ImpFn) (env : Env) (g depth : Nat) :
    List Stmt → St → List Val → (Out × List Val) × St
  | [], st, left => ((.ok, left), st)
  | s :: rest, st, left =>
    let r := execStmt imp env g depth st left s
    match r.1.1 with
    | .ok => execStmts imp env g depth rest r.2 r.1.2
    | o => ((o, r.1.2), r.2)

/-- `importer.Import` on a code-cache miss reads the file (tries the extensions in order) -/
def St.noteOpens (st : St) (env : Env) (name : Path) : St :=
  if (st.compiled.lookup name).isSome then st else { st with opens := st.opens ++ attempts env name env.exts }

/-- `importer.Import` for a module whose file exists: the by-name cache, else a code object
    (fresh from `parseAndCompile` unless `env.reuse` says otherwise) that is then cached by name -/
def St.noteCompiled (st : St) (env : Env) (name : Path) : St :=
  match st.compiled.lookup name with
  | some _ => st
  | none =>
    match env.reuse st.compiled name with
    | some c => { st with compiled := (name, c) :: st.compiled }
    | none => { st with compiled := (name, st.ncode) :: st.compiled, ncode := st.ncode + 1 }

/-- identity of the code object the importer returns for `name` (`module.Code()`) -/
def St.codeOf (st : St) (name : Path) : Nat := (st.compiled.lookup name).getD 0

/-- the globals array `vm.loadCode` gives a module's root code (existing or about to be created) -/
def St.gidOf (st : St) (c : Nat) : Nat := (st.loaded.lookup c).getD st.heap.length

/-- `vm.loadCode(cc)`: the globals array of a root code is created once per VM AND CODE OBJECT
    (`vm.loadedCode` is keyed by the pointer) -/
def St.loadCode (st : St) (c : Nat) : St :=
  match st.loaded.lookup c with
  | some _ => st
  | none => { st with loaded := (c, st.heap.length) :: st.loaded, owner := (c, st.heap.length) :: st.owner,
                      heap := st.heap ++ [[]] }

def St.fail (st : St) (name : Path) : St := { st with failed := st.failed ++ [name] }

/-- a module body starts: `object.NewModule`, frame activation, first statement `tick(name)` -/
def St.enter (st : St) (name : Path) (gid : Nat) (stack : List Path) : St :=
  { st with
    ticks := st.ticks ++ [name], objs := st.objs ++ [(name, gid)],
    reent := if stack.contains name then st.reent ++ [name] else st.reent,
    reruns := if st.ticks.contains name then
        st.reruns ++ [(name, if stack.contains name then 1 else if st.failed.contains name then 2 else 3)]
      else st.reruns }

/-- `vm.modules[name] = module` -/
def St.cacheAdd (st : St) (name : Path) (oid : Nat) : St := { st with cache := (name, oid) :: st.cache }

/-- `vm.importModule(name)` at frame index `depth`; `stack` = the modules whose bodies are
    still being evaluated (used only to name re-entrant imports). -/
def importModule (env : Env) : Nat → List Path → ImpFn
  | 0, _, _, st, name => (⟨.panic, 0, none⟩, ({ st with nofuel := true } : St).fail name)
  | fuel + 1, stack, depth, st, name =>
    match st.cache.lookup name with
    | some oid => (⟨.ok, oid, none⟩, st)
    | none =>
      -- importer.Import: code cache, else read the file
      let st1 := st.noteOpens env name
      match bodyOf env name env.exts with
      | none => (⟨.err, 0, none⟩, st1)
      | some body =>
        let st2 := st1.noteCompiled env name
        let cid := st2.codeOf name
        let gid := st2.gidOf cid
        let st3 := st2.loadCode cid
        if depth + 1 ≥ env.limit then
          (⟨.panic, 0, none⟩, st3.fail name)      -- frames[fp+1]: index out of range
        else
          let oid := st3.objs.length
          let r := execStmts (importModule env fuel (name :: stack)) env gid (depth + 1) body
            (st3.enter name gid stack) []
          match r.1.1 with
          | .ok => (⟨.ok, oid, some .nil⟩, r.2.cacheAdd name oid)   -- the body's result (nil: bodies end in an assignment)
          | o => (⟨o, 0, r.1.2.head?⟩, r.2.fail name)       -- resumeFrame keeps the top of the failed frame's stack

def St.init : St := {}

/-- one evaluation of a main script -/
def run (env : Env) (fuel : Nat) (main : List Stmt) : (Out × List Val) × St :=
  execStmts (importModule env fuel []) env 0 0 main St.init []

/-- the pre-fix guards -/
def cleanRun (st : St) : Bool := st.failed.isEmpty && st.reent.isEmpty && st.spawns == 0
def noResidueBound (st : St) : Bool := st.misbinds == 0

end Risor.C14.PreFix
