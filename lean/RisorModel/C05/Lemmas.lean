import RisorModel.C05.Model
/-!
C05 helper lemmas: insertion sort returns the unique sorted permutation; folds of commuting
steps do not depend on the visiting order; `applyPerm` always denotes a permutation;
erasing adversary annotations preserves lengths and declared names.
-/
namespace Risor.C05

/-! ### insertion sort -/

theorem insertBy_perm (le : α → α → Bool) (a : α) (l : List α) : (insertBy le a l).Perm (a :: l) := by
  induction l with
  | nil => exact List.Perm.refl _
  | cons b l ih =>
    unfold insertBy
    split
    · exact List.Perm.refl _
    · exact (List.Perm.cons b ih).trans (List.Perm.swap a b l)

theorem isort_perm (le : α → α → Bool) (l : List α) : (isort le l).Perm l := by
  induction l with
  | nil => exact List.Perm.refl _
  | cons a l ih => exact (insertBy_perm le a _).trans (List.Perm.cons a ih)

theorem insertBy_sorted (le : α → α → Bool)
    (trans : ∀ a b c, le a b = true → le b c = true → le a c = true)
    (total : ∀ a b, (le a b || le b a) = true) (a : α) (l : List α)
    (h : l.Pairwise (fun x y => le x y = true)) :
    (insertBy le a l).Pairwise (fun x y => le x y = true) := by
  induction l with
  | nil => simp [insertBy]
  | cons b l ih =>
    have hb := List.pairwise_cons.1 h
    unfold insertBy
    split
    · rename_i hab
      refine List.pairwise_cons.2 ⟨?_, h⟩
      intro x hx
      cases hx with
      | head => exact hab
      | tail _ hx => exact trans a b x hab (hb.1 x hx)
    · rename_i hab
      have hba : le b a = true := by
        have := total a b
        simp only [Bool.or_eq_true] at this
        cases this with
        | inl h => exact absurd h hab
        | inr h => exact h
      refine List.pairwise_cons.2 ⟨?_, ih hb.2⟩
      intro x hx
      have : x ∈ a :: l := (insertBy_perm le a l).mem_iff.1 hx
      cases this with
      | head => exact hba
      | tail _ hx => exact hb.1 x hx

theorem isort_sorted (le : α → α → Bool)
    (trans : ∀ a b c, le a b = true → le b c = true → le a c = true)
    (total : ∀ a b, (le a b || le b a) = true) (l : List α) :
    (isort le l).Pairwise (fun x y => le x y = true) := by
  induction l with
  | nil => simp [isort]
  | cons a l ih => exact insertBy_sorted le trans total a _ ih

/-- for a total order, sorting forgets the order of the input -/
theorem isort_unique (le : α → α → Bool)
    (trans : ∀ a b c, le a b = true → le b c = true → le a c = true)
    (total : ∀ a b, (le a b || le b a) = true)
    (antisymm : ∀ a b, le a b = true → le b a = true → a = b)
    {l₁ l₂ : List α} (h : l₁.Perm l₂) : isort le l₁ = isort le l₂ := by
  apply List.Perm.eq_of_pairwise (le := fun x y => le x y = true)
  · intro a b _ _ h1 h2; exact antisymm a b h1 h2
  · exact isort_sorted le trans total l₁
  · exact isort_sorted le trans total l₂
  · exact ((isort_perm le l₁).trans h).trans (isort_perm le l₂).symm

/-- the same with antisymmetry required only on the visited items -/
theorem isort_unique_on (le : α → α → Bool)
    (trans : ∀ a b c, le a b = true → le b c = true → le a c = true)
    (total : ∀ a b, (le a b || le b a) = true)
    {l₁ l₂ : List α} (h : l₁.Perm l₂)
    (antisymm : ∀ a ∈ l₁, ∀ b ∈ l₁, le a b = true → le b a = true → a = b) :
    isort le l₁ = isort le l₂ := by
  apply List.Perm.eq_of_pairwise (le := fun x y => le x y = true)
  · intro a b ha hb h1 h2
    have ha' : a ∈ l₁ := (isort_perm le l₁).mem_iff.1 ha
    have hb' : b ∈ l₁ := h.mem_iff.2 ((isort_perm le l₂).mem_iff.1 hb)
    exact antisymm a ha' b hb' h1 h2
  · exact isort_sorted le trans total l₁
  · exact isort_sorted le trans total l₂
  · exact ((isort_perm le l₁).trans h).trans (isort_perm le l₂).symm

/-- the sorting lemmas with transitivity and antisymmetry required only on the items that
    satisfy a predicate `P` (the NaN-free hash keys), all visited items satisfying it -/
theorem insertBy_sorted_on (le : α → α → Bool) (P : α → Prop)
    (trans : ∀ a b c, P a → P b → P c → le a b = true → le b c = true → le a c = true)
    (total : ∀ a b, (le a b || le b a) = true) (a : α) (l : List α)
    (ha : P a) (hl : ∀ x ∈ l, P x)
    (h : l.Pairwise (fun x y => le x y = true)) :
    (insertBy le a l).Pairwise (fun x y => le x y = true) := by
  induction l with
  | nil => simp [insertBy]
  | cons b l ih =>
    have hb := List.pairwise_cons.1 h
    have hPb : P b := hl b (List.mem_cons_self ..)
    have hPl : ∀ x ∈ l, P x := fun x hx => hl x (List.mem_cons_of_mem _ hx)
    unfold insertBy
    split
    · rename_i hab
      refine List.pairwise_cons.2 ⟨?_, h⟩
      intro x hx
      cases hx with
      | head => exact hab
      | tail _ hx => exact trans a b x ha hPb (hPl x hx) hab (hb.1 x hx)
    · rename_i hab
      have hba : le b a = true := by
        have := total a b
        simp only [Bool.or_eq_true] at this
        cases this with
        | inl h => exact absurd h hab
        | inr h => exact h
      refine List.pairwise_cons.2 ⟨?_, ih hPl hb.2⟩
      intro x hx
      have : x ∈ a :: l := (insertBy_perm le a l).mem_iff.1 hx
      cases this with
      | head => exact hba
      | tail _ hx => exact hb.1 x hx

theorem isort_sorted_on (le : α → α → Bool) (P : α → Prop)
    (trans : ∀ a b c, P a → P b → P c → le a b = true → le b c = true → le a c = true)
    (total : ∀ a b, (le a b || le b a) = true) (l : List α) (hl : ∀ x ∈ l, P x) :
    (isort le l).Pairwise (fun x y => le x y = true) := by
  induction l with
  | nil => simp [isort]
  | cons a l ih =>
    have hPl : ∀ x ∈ l, P x := fun x hx => hl x (List.mem_cons_of_mem _ hx)
    exact insertBy_sorted_on le P trans total a _ (hl a (List.mem_cons_self ..))
      (fun x hx => hPl x ((isort_perm le l).mem_iff.1 hx)) (ih hPl)

theorem isort_unique_pred (le : α → α → Bool) (P : α → Prop)
    (trans : ∀ a b c, P a → P b → P c → le a b = true → le b c = true → le a c = true)
    (total : ∀ a b, (le a b || le b a) = true)
    (antisymm : ∀ a b, P a → P b → le a b = true → le b a = true → a = b)
    {l₁ l₂ : List α} (h : l₁.Perm l₂) (hl : ∀ x ∈ l₁, P x) :
    isort le l₁ = isort le l₂ := by
  have hl2 : ∀ x ∈ l₂, P x := fun x hx => hl x (h.mem_iff.2 hx)
  apply List.Perm.eq_of_pairwise (le := fun x y => le x y = true)
  · intro a b ha hb h1 h2
    exact antisymm a b (hl a ((isort_perm le l₁).mem_iff.1 ha)) (hl2 b ((isort_perm le l₂).mem_iff.1 hb)) h1 h2
  · exact isort_sorted_on le P trans total l₁ hl
  · exact isort_sorted_on le P trans total l₂ hl2
  · exact ((isort_perm le l₁).trans h).trans (isort_perm le l₂).symm

/-! ### the comparator of `Set.SortedItems` on NaN-free hash keys is a strict total order -/

theorem slt_tri (a b : String) : a < b ∨ a = b ∨ b < a := by
  by_cases h1 : a < b
  · exact Or.inl h1
  · by_cases h2 : b < a
    · exact Or.inr (Or.inr h2)
    · exact Or.inr (Or.inl (String.le_antisymm (a := a) (b := b) h2 h1))

/-- negative transitivity: if `a` sorts before `c`, every NaN-free `b` sorts after `a` or before `c` -/
theorem hkLess_negTrans (a b c : HKey) (hb : b.nan = false) (h : hkLess a c = true) :
    hkLess a b = true ∨ hkLess b c = true := by
  have t1 := slt_tri a.ty b.ty
  have t2 := slt_tri b.ty c.ty
  have t3 := slt_tri a.str b.str
  have t4 := slt_tri b.str c.str
  have tr := @String.lt_trans
  have ir := String.lt_irrefl
  unfold hkLess at *
  grind

theorem hkLess_asymm (a b : HKey) (h : hkLess a b = true) : hkLess b a = false := by
  have tr := @String.lt_trans
  have ir := String.lt_irrefl
  unfold hkLess at *
  grind

/-- two NaN-free keys neither of which sorts before the other are the same key: the
    comparator looks at EVERY field of the hash key -/
theorem hkLess_incomp (a b : HKey) (ha : a.nan = false) (hb : b.nan = false)
    (h1 : hkLess a b = false) (h2 : hkLess b a = false) : a = b := by
  have t1 := slt_tri a.ty b.ty
  have t3 := slt_tri a.str b.str
  have : a.ty = b.ty ∧ a.int = b.int ∧ a.str = b.str ∧ a.flt = b.flt := by
    unfold hkLess at *
    grind
  cases a; cases b; simp_all

theorem hkGe_total (a b : HKey) : (hkGe a b || hkGe b a) = true := by
  unfold hkGe
  cases h : hkLess a b
  · simp
  · simp [hkLess_asymm a b h]

theorem hkGe_trans (a b c : HKey) (_ : a.nan = false) (hb : b.nan = false) (_ : c.nan = false)
    (h1 : hkGe a b = true) (h2 : hkGe b c = true) : hkGe a c = true := by
  unfold hkGe at *
  cases h : hkLess a c
  · rfl
  · rcases hkLess_negTrans a b c hb h with h' | h' <;> simp [h'] at h1 h2

theorem hkGe_antisymm (a b : HKey) (ha : a.nan = false) (hb : b.nan = false)
    (h1 : hkGe a b = true) (h2 : hkGe b a = true) : a = b := by
  unfold hkGe at *
  exact hkLess_incomp a b ha hb (by simpa using h1) (by simpa using h2)

theorem sle_trans : ∀ a b c, sle a b = true → sle b c = true → sle a c = true := by
  intro a b c h1 h2
  simp only [sle, decide_eq_true_eq] at *
  exact String.le_trans h1 h2

theorem sle_total : ∀ a b, (sle a b || sle b a) = true := by
  intro a b
  simp only [sle, Bool.or_eq_true, decide_eq_true_eq]
  exact String.le_total a b

theorem sle_antisymm : ∀ a b, sle a b = true → sle b a = true → a = b := by
  intro a b h1 h2
  simp only [sle, decide_eq_true_eq] at *
  exact String.le_antisymm h1 h2

/-! ### the comparator of the repaired `MockFS.ReadDir` is a total order on (filename, path) -/

theorem entLe_total (a b : String × String) : (entLe a b || entLe b a) = true := by
  have t1 := slt_tri a.1 b.1
  have t2 := String.le_total a.2 b.2
  have ir := String.lt_irrefl
  unfold entLe sle
  grind

theorem entLe_trans (a b c : String × String) (h1 : entLe a b = true) (h2 : entLe b c = true) :
    entLe a c = true := by
  have tr := @String.lt_trans
  have ir := String.lt_irrefl
  have lt := @String.le_trans a.2 b.2 c.2
  unfold entLe sle at *
  grind

theorem entLe_antisymm (a b : String × String) (h1 : entLe a b = true) (h2 : entLe b a = true) :
    a = b := by
  have tr := @String.lt_trans
  have ir := String.lt_irrefl
  have as := @String.le_antisymm a.2 b.2
  have : a.1 = b.1 ∧ a.2 = b.2 := by
    unfold entLe sle at *
    grind
  cases a; cases b; simp_all

/-! ### folds of commuting steps -/

/-- a left fold whose steps commute on related elements gives the same result for every
    visiting order of a pairwise related list -/
theorem foldl_perm_of_comm {α : Type u} {β : Type v} (step : β → α → β) (R : α → α → Prop)
    (hsym : ∀ {x y}, R x y → R y x)
    (hcomm : ∀ s x y, R x y → step (step s x) y = step (step s y) x)
    {l₁ l₂ : List α} (h : l₁.Perm l₂) (hp : l₁.Pairwise R) (s : β) :
    l₁.foldl step s = l₂.foldl step s := by
  induction h generalizing s with
  | nil => rfl
  | cons x _ ih =>
    simp only [List.foldl_cons]
    exact ih (List.Pairwise.of_cons hp) _
  | swap x y l =>
    simp only [List.foldl_cons]
    have hxy : R y x := (List.pairwise_cons.1 hp).1 x (by simp)
    rw [hcomm s y x hxy]
  | trans h₁ _ ih₁ ih₂ =>
    rw [ih₁ hp, ih₂ ((h₁.pairwise_iff hsym).1 hp)]

theorem pairwise_true (l : List α) : l.Pairwise (fun _ _ => True) := by
  induction l with
  | nil => exact List.Pairwise.nil
  | cons a l ih => exact List.Pairwise.cons (fun _ _ => trivial) ih

theorem AMap.set_comm (m : AMap V) {k₁ k₂ : String} (h : k₁ ≠ k₂) (a b : V) :
    (m.set k₁ a).set k₂ b = (m.set k₂ b).set k₁ a := by
  funext k
  simp only [AMap.set]
  by_cases h1 : k = k₁ <;> by_cases h2 : k = k₂ <;> simp_all

theorem AMap.del_comm (m : AMap V) (k₁ k₂ : String) :
    (m.del k₁).del k₂ = (m.del k₂).del k₁ := by
  funext k
  simp only [AMap.del]
  by_cases h1 : k = k₁ <;> by_cases h2 : k = k₂ <;> simp_all

/-! ### `applyPerm` -/

theorem filterMap_range_getElem (l : List α) :
    (List.range l.length).filterMap (fun i => l[i]?) = l := by
  induction l with
  | nil => rfl
  | cons x xs ih =>
    rw [List.length_cons, List.range_succ_eq_map, List.filterMap_cons]
    simp only [List.getElem?_cons_zero, List.filterMap_map]
    congr 1

/-- whatever the annotation, `applyPerm` visits every entry exactly once -/
theorem applyPerm_perm (p : List Nat) (l : List α) : (applyPerm p l).Perm l := by
  unfold applyPerm
  split
  · rename_i hv
    simp only [validPerm, beq_iff_eq] at hv
    have hp : p.Perm (List.range l.length) := by
      rw [← hv]; exact (isort_perm Nat.ble p).symm
    have := hp.filterMap (fun i => l[i]?)
    rw [filterMap_range_getElem] at this
    exact this
  · exact List.Perm.refl _

theorem applyPerm_short (p : List Nat) (l : List α) (h : l.length ≤ 1) : applyPerm p l = l := by
  have hp := applyPerm_perm p l
  match l, h with
  | [], _ => exact hp.eq_nil
  | [a], _ => exact List.perm_singleton.1 hp

/-! ### BUILD_MAP -/

/-- the fold BUILD_MAP performs on the popped pairs -/
def pairsToMap (ps : List (String × Val)) : List (String × Val) :=
  ps.foldl (fun acc kv => mapSet acc kv.1 kv.2) []

theorem mapSet_fresh (acc : List (String × Val)) (k : String) (v : Val)
    (h : ∀ kv ∈ acc, kv.1 ≠ k) : mapSet acc k v = acc ++ [(k, v)] := by
  unfold mapSet
  have : acc.any (fun kv => kv.1 == k) = false := by
    rw [List.any_eq_false]
    intro kv hkv
    simpa using h kv hkv
  rw [this]
  simp

theorem foldl_mapSet_distinct (ps acc : List (String × Val))
    (hd : (acc ++ ps).Pairwise (fun a b => a.1 ≠ b.1)) :
    ps.foldl (fun acc kv => mapSet acc kv.1 kv.2) acc = acc ++ ps := by
  induction ps generalizing acc with
  | nil => simp
  | cons p r ih =>
    simp only [List.foldl_cons]
    have hfresh : ∀ kv ∈ acc, kv.1 ≠ p.1 := by
      intro kv hkv
      exact (List.pairwise_append.1 hd).2.2 kv hkv p (by simp)
    rw [mapSet_fresh acc p.1 p.2 hfresh]
    have e : acc ++ [(p.1, p.2)] ++ r = acc ++ p :: r := by simp
    rw [ih (acc ++ [(p.1, p.2)]) (by rw [e]; exact hd), e]

theorem eq_of_key_eq {l : List (String × V)} (hd : l.Pairwise (fun a b => a.1 ≠ b.1)) :
    ∀ a ∈ l, ∀ b ∈ l, a.1 = b.1 → a = b := by
  induction l with
  | nil => intro a ha; cases ha
  | cons x r ih =>
    have hx := List.pairwise_cons.1 hd
    intro a ha b hb hab
    cases ha with
    | head =>
      cases hb with
      | head => rfl
      | tail _ hb => exact absurd hab (hx.1 b hb)
    | tail _ ha =>
      cases hb with
      | head => exact absurd hab.symm (hx.1 a ha)
      | tail _ hb => exact ih hx.2 a ha b hb hab

/-! ### erasing annotations -/

mutual
  theorem Items.length_strip : ∀ xs : Items, xs.strip.length = xs.length
    | .nil => rfl
    | .cons _ r => by simp only [Items.strip, Items.length, Items.length_strip r]
end

mutual
  theorem Entries.length_strip : ∀ es : Entries, es.strip.length = es.length
    | .nil => rfl
    | .cons _ _ r => by simp only [Entries.strip, Entries.length, Entries.length_strip r]
end

theorem compEntries_length : ∀ es : Entries, (compEntries es).length = es.length
  | .nil => by simp [compEntries, Entries.length]
  | .cons _ _ r => by simp [compEntries, Entries.length, compEntries_length r]

theorem declared_strip (ss : List Stmt) : declared (ss.map Stmt.strip) = declared ss := by
  induction ss with
  | nil => rfl
  | cons s r ih =>
    cases s with
    | decl x e => simp [declared, Stmt.strip, ih]
    | expr e => simp [declared, Stmt.strip, ih]


/-! ### failing-element walks -/

/-- when every value of a map marshals, no order of looking the entries up finds a failure -/
theorem firstFailure_none_of_lookup (vis : List String) (rs : List (String × MR))
    (hok : ∀ r ∈ rs, r.2.errOf = none) :
    firstFailure MR.errOf (vis.filterMap (fun k => (rs.lookup k).map (labelled k))) = none := by
  unfold firstFailure
  rw [List.findSome?_eq_none_iff]
  intro x hx
  obtain ⟨k, _, hk⟩ := List.mem_filterMap.1 hx
  cases hl : rs.lookup k with
  | none => rw [hl] at hk; cases hk
  | some r =>
    rw [hl] at hk
    simp only [Option.map_some, Option.some.injEq] at hk
    have hmem : (k, r) ∈ rs := by
      obtain ⟨l₁, l₂, hl', _⟩ := List.lookup_eq_some_iff.1 hl
      rw [hl']; simp
    have := hok (k, r) hmem
    subst hk
    cases r with
    | out t => rfl
    | err e => cases this

/-! ### choosing loops -/

/-- two entries the choosing loop may meet in either order: the length the loop reads off a
    candidate is the length it read when the entry was visited, at most one of them ends the
    loop, and if both qualify their lengths differ -/
def SelCompat (exact ok : α → Bool) (lenNew lenCur : α → Nat) (a b : α) : Prop :=
  lenNew a = lenCur a ∧ lenNew b = lenCur b ∧ ¬ (exact a = true ∧ exact b = true) ∧
  (ok a = true → ok b = true → lenNew a ≠ lenNew b)

theorem SelCompat.symm {exact ok : α → Bool} {lenNew lenCur : α → Nat} {a b : α}
    (h : SelCompat exact ok lenNew lenCur a b) : SelCompat exact ok lenNew lenCur b a :=
  ⟨h.2.1, h.1, fun hh => h.2.2.1 ⟨hh.2, hh.1⟩, fun hb ha => Ne.symm (h.2.2.2 ha hb)⟩

theorem selStep_comm (exact ok : α → Bool) (lenNew lenCur : α → Nat) (s : Sel α) (x y : α)
    (h : SelCompat exact ok lenNew lenCur x y) :
    selStep exact ok lenNew lenCur (selStep exact ok lenNew lenCur s x) y =
      selStep exact ok lenNew lenCur (selStep exact ok lenNew lenCur s y) x := by
  obtain ⟨hx, hy, hex, hlen⟩ := h
  cases s with
  | done a => rfl
  | cand best =>
    cases best <;> simp only [selStep] <;> grind

/-- the choosing loop does not depend on the visiting order of pairwise compatible entries -/
theorem selectLoop_perm (exact ok : α → Bool) (lenNew lenCur : α → Nat) {vis₁ vis₂ : List α}
    (h : vis₁.Perm vis₂) (hp : vis₁.Pairwise (SelCompat exact ok lenNew lenCur)) :
    selectLoop exact ok lenNew lenCur vis₁ = selectLoop exact ok lenNew lenCur vis₂ := by
  unfold selectLoop
  exact foldl_perm_of_comm _ (SelCompat exact ok lenNew lenCur) (fun h => h.symm)
    (fun s x y hxy => selStep_comm exact ok lenNew lenCur s x y hxy) h hp _

/-- what the loop holds after a stretch without an exact match: the candidate is the old one or a
    qualifying visited entry, it is at least as long as the old one and as every qualifying
    visited entry -/
theorem selectLoop_cand (exact ok : α → Bool) (lenNew lenCur : α → Nat) (l : List α) (b : Option α)
    (hne : ∀ x ∈ l, exact x = false) (hl : ∀ x ∈ l, lenNew x = lenCur x) :
    ∃ b', l.foldl (selStep exact ok lenNew lenCur) (.cand b) = .cand b' ∧
      (∀ m, b' = some m → (b = some m ∨ (m ∈ l ∧ ok m = true))) ∧
      (∀ m0, b = some m0 → ∃ m, b' = some m ∧ lenCur m0 ≤ lenCur m) ∧
      (∀ k ∈ l, ok k = true → ∃ m, b' = some m ∧ lenNew k ≤ lenCur m) := by
  induction l generalizing b with
  | nil => exact ⟨b, rfl, fun m hm => Or.inl hm, fun m0 hm0 => ⟨m0, hm0, Nat.le_refl _⟩, by simp⟩
  | cons x l ih =>
    have hx : exact x = false := hne x (List.mem_cons_self ..)
    have hlx : lenNew x = lenCur x := hl x (List.mem_cons_self ..)
    have hne' : ∀ y ∈ l, exact y = false := fun y hy => hne y (List.mem_cons_of_mem _ hy)
    have hl' : ∀ y ∈ l, lenNew y = lenCur y := fun y hy => hl y (List.mem_cons_of_mem _ hy)
    simp only [List.foldl_cons]
    by_cases ox : ok x = true
    · cases b with
      | none =>
        have e : selStep exact ok lenNew lenCur (.cand none) x = .cand (some x) := by
          simp [selStep, hx, ox]
        rw [e]
        obtain ⟨b', h1, h2, h3, h4⟩ := ih (some x) hne' hl'
        refine ⟨b', h1, ?_, by simp, ?_⟩
        · intro m hm
          rcases h2 m hm with h | ⟨h, h'⟩
          · cases h; exact Or.inr ⟨List.mem_cons_self .., ox⟩
          · exact Or.inr ⟨List.mem_cons_of_mem _ h, h'⟩
        · intro k hk okk
          cases hk with
          | head => obtain ⟨m, hm, hle⟩ := h3 x rfl; exact ⟨m, hm, by omega⟩
          | tail _ hk => exact h4 k hk okk
      | some m0 =>
        by_cases hgt : lenNew x > lenCur m0
        · have e : selStep exact ok lenNew lenCur (.cand (some m0)) x = .cand (some x) := by
            simp [selStep, hx, ox, hgt]
          rw [e]
          obtain ⟨b', h1, h2, h3, h4⟩ := ih (some x) hne' hl'
          refine ⟨b', h1, ?_, ?_, ?_⟩
          · intro m hm
            rcases h2 m hm with h | ⟨h, h'⟩
            · cases h; exact Or.inr ⟨List.mem_cons_self .., ox⟩
            · exact Or.inr ⟨List.mem_cons_of_mem _ h, h'⟩
          · intro m1 hm1
            cases hm1
            obtain ⟨m, hm, hle⟩ := h3 x rfl
            exact ⟨m, hm, by omega⟩
          · intro k hk okk
            cases hk with
            | head => obtain ⟨m, hm, hle⟩ := h3 x rfl; exact ⟨m, hm, by omega⟩
            | tail _ hk => exact h4 k hk okk
        · have e : selStep exact ok lenNew lenCur (.cand (some m0)) x = .cand (some m0) := by
            simp [selStep, hx, ox, hgt]
          rw [e]
          obtain ⟨b', h1, h2, h3, h4⟩ := ih (some m0) hne' hl'
          refine ⟨b', h1, ?_, h3, ?_⟩
          · intro m hm
            rcases h2 m hm with h | ⟨h, h'⟩
            · exact Or.inl h
            · exact Or.inr ⟨List.mem_cons_of_mem _ h, h'⟩
          · intro k hk okk
            cases hk with
            | head => obtain ⟨m, hm, hle⟩ := h3 m0 rfl; exact ⟨m, hm, by omega⟩
            | tail _ hk => exact h4 k hk okk
    · have e : selStep exact ok lenNew lenCur (.cand b) x = .cand b := by
        simp [selStep, hx, ox]
      rw [e]
      obtain ⟨b', h1, h2, h3, h4⟩ := ih b hne' hl'
      refine ⟨b', h1, ?_, h3, ?_⟩
      · intro m hm
        rcases h2 m hm with h | ⟨h, h'⟩
        · exact Or.inl h
        · exact Or.inr ⟨List.mem_cons_of_mem _ h, h'⟩
      · intro k hk okk
        cases hk with
        | head => exact absurd okk ox
        | tail _ hk => exact h4 k hk okk

/-- once the loop has returned, the rest of the visiting order is not looked at -/
theorem foldl_selStep_done (exact ok : α → Bool) (lenNew lenCur : α → Nat) (l : List α) (a : α) :
    l.foldl (selStep exact ok lenNew lenCur) (.done a) = .done a := by
  induction l with
  | nil => rfl
  | cons x l ih => simpa [List.foldl_cons, selStep] using ih

/-- two choosing loops that read the candidate's length through functions that agree on the visited
    entries (and on the candidate held at the start) go through the same states -/
theorem foldl_selStep_congr (exact ok : α → Bool) (lenNew lenCur lenCur' : α → Nat) (l : List α) (s : Sel α)
    (hs : ∀ m, s = .cand (some m) → lenCur m = lenCur' m) (hl : ∀ x ∈ l, lenCur x = lenCur' x) :
    l.foldl (selStep exact ok lenNew lenCur) s = l.foldl (selStep exact ok lenNew lenCur') s := by
  induction l generalizing s with
  | nil => rfl
  | cons x l ih =>
    have hx : lenCur x = lenCur' x := hl x (List.mem_cons_self ..)
    have hl' : ∀ y ∈ l, lenCur y = lenCur' y := fun y hy => hl y (List.mem_cons_of_mem _ hy)
    have e : selStep exact ok lenNew lenCur s x = selStep exact ok lenNew lenCur' s x := by
      cases s with
      | done a => rfl
      | cand best =>
        cases best with
        | none => rfl
        | some m => simp only [selStep, hs m rfl]
    simp only [List.foldl_cons]
    rw [e]
    refine ih _ ?_ hl'
    intro m hm
    cases s with
    | done a => simp [selStep] at hm
    | cand best =>
      cases best with
      | none =>
        simp only [selStep] at hm
        split at hm
        · cases hm
        · split at hm
          · cases hm; exact hx
          · cases hm
      | some m0 =>
        simp only [selStep] at hm
        split at hm
        · cases hm
        · split at hm
          · split at hm
            · cases hm; exact hx
            · cases hm; exact hs _ rfl
          · cases hm; exact hs _ rfl

/-! ### byte-string prefixes -/

theorem hasPrefixB_eq_of_length : ∀ (p a b : List Nat), hasPrefixB p a = true → hasPrefixB p b = true →
    a.length = b.length → a = b
  | _, [], [], _, _, _ => rfl
  | _, [], _ :: _, _, _, h => by simp at h
  | _, _ :: _, [], _, _, h => by simp at h
  | [], _ :: _, _ :: _, h, _, _ => by simp [hasPrefixB] at h
  | x :: p, y :: a, z :: b, ha, hb, hl => by
    simp only [hasPrefixB, Bool.and_eq_true, beq_iff_eq] at ha hb
    simp only [List.length_cons, Nat.add_right_cancel_iff] at hl
    rw [← ha.1, ← hb.1, hasPrefixB_eq_of_length p a b ha.2 hb.2 hl]

theorem hasPrefixB_length : ∀ (p k : List Nat), hasPrefixB p k = true → k.length ≤ p.length
  | _, [], _ => by simp
  | [], _ :: _, h => by simp [hasPrefixB] at h
  | _ :: p, _ :: k, h => by
    simp only [hasPrefixB, Bool.and_eq_true] at h
    have := hasPrefixB_length p k h.2
    simp only [List.length_cons]; omega

/-! ### hash keys of values -/

theorem hvKey_nan (v : HV) : v.key.nan = v.isNaN := by cases v <;> rfl

theorem insertBy_map (f : α → β) (le : β → β → Bool) (a : α) (l : List α) :
    (insertBy (fun x y => le (f x) (f y)) a l).map f = insertBy le (f a) (l.map f) := by
  induction l with
  | nil => rfl
  | cons b l ih =>
    simp only [insertBy, List.map_cons]
    split
    · rfl
    · simp only [List.map_cons, ih]

/-- sorting by a key and then taking the keys is sorting the keys -/
theorem isort_map (f : α → β) (le : β → β → Bool) (l : List α) :
    (isort (fun x y => le (f x) (f y)) l).map f = isort le (l.map f) := by
  induction l with
  | nil => rfl
  | cons a l ih => simp only [isort, List.map_cons, insertBy_map, ih]

end Risor.C05
