import RisorModel.C05.Model
/-!
C05 helper lemmas: insertion sort returns the unique sorted permutation; folds of commuting
steps do not depend on the visiting order; `applyPerm` always denotes a permutation;
erasing adversary annotations preserves lengths and declared names.
-/
namespace Risor.C05

/-! ### insertion sort -/

theorem insertBy_perm (le : α → α → Bool) (a : α) (l : List α) : (insertBy le a l).Perm (a :: l) := by
  induction l with
  | nil => exact List.Perm.refl _
  | cons b l ih =>
    unfold insertBy
    split
    · exact List.Perm.refl _
    · exact (List.Perm.cons b ih).trans (List.Perm.swap a b l)

theorem isort_perm (le : α → α → Bool) (l : List α) : (isort le l).Perm l := by
  induction l with
  | nil => exact List.Perm.refl _
  | cons a l ih => exact (insertBy_perm le a _).trans (List.Perm.cons a ih)

theorem insertBy_sorted (le : α → α → Bool)
    (trans : ∀ a b c, le a b = true → le b c = true → le a c = true)
    (total : ∀ a b, (le a b || le b a) = true) (a : α) (l : List α)
    (h : l.Pairwise (fun x y => le x y = true)) :
    (insertBy le a l).Pairwise (fun x y => le x y = true) := by
  induction l with
  | nil => simp [insertBy]
  | cons b l ih =>
    have hb := List.pairwise_cons.1 h
    unfold insertBy
    split
    · rename_i hab
      refine List.pairwise_cons.2 ⟨?_, h⟩
      intro x hx
      cases hx with
      | head => exact hab
      | tail _ hx => exact trans a b x hab (hb.1 x hx)
    · rename_i hab
      have hba : le b a = true := by
        have := total a b
        simp only [Bool.or_eq_true] at this
        cases this with
        | inl h => exact absurd h hab
        | inr h => exact h
      refine List.pairwise_cons.2 ⟨?_, ih hb.2⟩
      intro x hx
      have : x ∈ a :: l := (insertBy_perm le a l).mem_iff.1 hx
      cases this with
      | head => exact hba
      | tail _ hx => exact hb.1 x hx

theorem isort_sorted (le : α → α → Bool)
    (trans : ∀ a b c, le a b = true → le b c = true → le a c = true)
    (total : ∀ a b, (le a b || le b a) = true) (l : List α) :
    (isort le l).Pairwise (fun x y => le x y = true) := by
  induction l with
  | nil => simp [isort]
  | cons a l ih => exact insertBy_sorted le trans total a _ ih

/-- for a total order, sorting forgets the order of the input -/
theorem isort_unique (le : α → α → Bool)
    (trans : ∀ a b c, le a b = true → le b c = true → le a c = true)
    (total : ∀ a b, (le a b || le b a) = true)
    (antisymm : ∀ a b, le a b = true → le b a = true → a = b)
    {l₁ l₂ : List α} (h : l₁.Perm l₂) : isort le l₁ = isort le l₂ := by
  apply List.Perm.eq_of_pairwise (le := fun x y => le x y = true)
  · intro a b _ _ h1 h2; exact antisymm a b h1 h2
  · exact isort_sorted le trans total l₁
  · exact isort_sorted le trans total l₂
  · exact ((isort_perm le l₁).trans h).trans (isort_perm le l₂).symm

/-- the same with antisymmetry required only on the visited items -/
theorem isort_unique_on (le : α → α → Bool)
    (trans : ∀ a b c, le a b = true → le b c = true → le a c = true)
    (total : ∀ a b, (le a b || le b a) = true)
    {l₁ l₂ : List α} (h : l₁.Perm l₂)
    (antisymm : ∀ a ∈ l₁, ∀ b ∈ l₁, le a b = true → le b a = true → a = b) :
    isort le l₁ = isort le l₂ := by
  apply List.Perm.eq_of_pairwise (le := fun x y => le x y = true)
  · intro a b ha hb h1 h2
    have ha' : a ∈ l₁ := (isort_perm le l₁).mem_iff.1 ha
    have hb' : b ∈ l₁ := h.mem_iff.2 ((isort_perm le l₂).mem_iff.1 hb)
    exact antisymm a ha' b hb' h1 h2
  · exact isort_sorted le trans total l₁
  · exact isort_sorted le trans total l₂
  · exact ((isort_perm le l₁).trans h).trans (isort_perm le l₂).symm

theorem sle_trans : ∀ a b c, sle a b = true → sle b c = true → sle a c = true := by
  intro a b c h1 h2
  simp only [sle, decide_eq_true_eq] at *
  exact String.le_trans h1 h2

theorem sle_total : ∀ a b, (sle a b || sle b a) = true := by
  intro a b
  simp only [sle, Bool.or_eq_true, decide_eq_true_eq]
  exact String.le_total a b

theorem sle_antisymm : ∀ a b, sle a b = true → sle b a = true → a = b := by
  intro a b h1 h2
  simp only [sle, decide_eq_true_eq] at *
  exact String.le_antisymm h1 h2

/-! ### folds of commuting steps -/

/-- a left fold whose steps commute on related elements gives the same result for every
    visiting order of a pairwise related list -/
theorem foldl_perm_of_comm {α : Type u} {β : Type v} (step : β → α → β) (R : α → α → Prop)
    (hsym : ∀ {x y}, R x y → R y x)
    (hcomm : ∀ s x y, R x y → step (step s x) y = step (step s y) x)
    {l₁ l₂ : List α} (h : l₁.Perm l₂) (hp : l₁.Pairwise R) (s : β) :
    l₁.foldl step s = l₂.foldl step s := by
  induction h generalizing s with
  | nil => rfl
  | cons x _ ih =>
    simp only [List.foldl_cons]
    exact ih (List.Pairwise.of_cons hp) _
  | swap x y l =>
    simp only [List.foldl_cons]
    have hxy : R y x := (List.pairwise_cons.1 hp).1 x (by simp)
    rw [hcomm s y x hxy]
  | trans h₁ _ ih₁ ih₂ =>
    rw [ih₁ hp, ih₂ ((h₁.pairwise_iff hsym).1 hp)]

theorem pairwise_true (l : List α) : l.Pairwise (fun _ _ => True) := by
  induction l with
  | nil => exact List.Pairwise.nil
  | cons a l ih => exact List.Pairwise.cons (fun _ _ => trivial) ih

theorem AMap.set_comm (m : AMap V) {k₁ k₂ : String} (h : k₁ ≠ k₂) (a b : V) :
    (m.set k₁ a).set k₂ b = (m.set k₂ b).set k₁ a := by
  funext k
  simp only [AMap.set]
  by_cases h1 : k = k₁ <;> by_cases h2 : k = k₂ <;> simp_all

theorem AMap.del_comm (m : AMap V) (k₁ k₂ : String) :
    (m.del k₁).del k₂ = (m.del k₂).del k₁ := by
  funext k
  simp only [AMap.del]
  by_cases h1 : k = k₁ <;> by_cases h2 : k = k₂ <;> simp_all

/-! ### `applyPerm` -/

theorem filterMap_range_getElem (l : List α) :
    (List.range l.length).filterMap (fun i => l[i]?) = l := by
  induction l with
  | nil => rfl
  | cons x xs ih =>
    rw [List.length_cons, List.range_succ_eq_map, List.filterMap_cons]
    simp only [List.getElem?_cons_zero, List.filterMap_map]
    congr 1

/-- whatever the annotation, `applyPerm` visits every entry exactly once -/
theorem applyPerm_perm (p : List Nat) (l : List α) : (applyPerm p l).Perm l := by
  unfold applyPerm
  split
  · rename_i hv
    simp only [validPerm, beq_iff_eq] at hv
    have hp : p.Perm (List.range l.length) := by
      rw [← hv]; exact (isort_perm Nat.ble p).symm
    have := hp.filterMap (fun i => l[i]?)
    rw [filterMap_range_getElem] at this
    exact this
  · exact List.Perm.refl _

theorem applyPerm_short (p : List Nat) (l : List α) (h : l.length ≤ 1) : applyPerm p l = l := by
  have hp := applyPerm_perm p l
  match l, h with
  | [], _ => exact hp.eq_nil
  | [a], _ => exact List.perm_singleton.1 hp

/-! ### BUILD_MAP -/

/-- the fold BUILD_MAP performs on the popped pairs -/
def pairsToMap (ps : List (String × Val)) : List (String × Val) :=
  ps.foldl (fun acc kv => mapSet acc kv.1 kv.2) []

theorem mapSet_fresh (acc : List (String × Val)) (k : String) (v : Val)
    (h : ∀ kv ∈ acc, kv.1 ≠ k) : mapSet acc k v = acc ++ [(k, v)] := by
  unfold mapSet
  have : acc.any (fun kv => kv.1 == k) = false := by
    rw [List.any_eq_false]
    intro kv hkv
    simpa using h kv hkv
  rw [this]
  simp

theorem foldl_mapSet_distinct (ps acc : List (String × Val))
    (hd : (acc ++ ps).Pairwise (fun a b => a.1 ≠ b.1)) :
    ps.foldl (fun acc kv => mapSet acc kv.1 kv.2) acc = acc ++ ps := by
  induction ps generalizing acc with
  | nil => simp
  | cons p r ih =>
    simp only [List.foldl_cons]
    have hfresh : ∀ kv ∈ acc, kv.1 ≠ p.1 := by
      intro kv hkv
      exact (List.pairwise_append.1 hd).2.2 kv hkv p (by simp)
    rw [mapSet_fresh acc p.1 p.2 hfresh]
    have e : acc ++ [(p.1, p.2)] ++ r = acc ++ p :: r := by simp
    rw [ih (acc ++ [(p.1, p.2)]) (by rw [e]; exact hd), e]

theorem eq_of_key_eq {l : List (String × V)} (hd : l.Pairwise (fun a b => a.1 ≠ b.1)) :
    ∀ a ∈ l, ∀ b ∈ l, a.1 = b.1 → a = b := by
  induction l with
  | nil => intro a ha; cases ha
  | cons x r ih =>
    have hx := List.pairwise_cons.1 hd
    intro a ha b hb hab
    cases ha with
    | head =>
      cases hb with
      | head => rfl
      | tail _ hb => exact absurd hab (hx.1 b hb)
    | tail _ ha =>
      cases hb with
      | head => exact absurd hab.symm (hx.1 a ha)
      | tail _ hb => exact ih hx.2 a ha b hb hab

/-! ### erasing annotations -/

mutual
  theorem Items.length_strip : ∀ xs : Items, xs.strip.length = xs.length
    | .nil => rfl
    | .cons _ r => by simp only [Items.strip, Items.length, Items.length_strip r]
end

mutual
  theorem Entries.length_strip : ∀ es : Entries, es.strip.length = es.length
    | .nil => rfl
    | .cons _ _ r => by simp only [Entries.strip, Entries.length, Entries.length_strip r]
end

theorem compEntries_length : ∀ es : Entries, (compEntries es).length = es.length
  | .nil => by simp [compEntries, Entries.length]
  | .cons _ _ r => by simp [compEntries, Entries.length, compEntries_length r]

theorem declared_strip (ss : List Stmt) : declared (ss.map Stmt.strip) = declared ss := by
  induction ss with
  | nil => rfl
  | cons s r ih =>
    cases s with
    | decl x e => simp [declared, Stmt.strip, ih]
    | expr e => simp [declared, Stmt.strip, ih]

end Risor.C05
