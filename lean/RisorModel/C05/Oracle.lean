import RisorModel.Util
import RisorModel.C05.Model
/-!
Line-protocol front end of the C05 model (requests after the leading `C05` field).

  frag <globals,comma-separated> <program tokens>     → ok <code text> <constants> <result> <stdout hex>
  sortedKeys <hex,hex,…>                               → sorted hex list
  setSorted <i:n|s:hex,…>                              → items in SortedItems order
  visit <perm> <hex,hex,…>                             → the entries in the adversary's order (StringKeys; Environ/ReadDir before their repair)
  environ <perm> <khex:vhex,…>                         → VirtualOS.Environ: the KEY=value lines (hex) in the order returned, the env map visited in order <perm>
  readDir <perm> <pathhex:namehex,…>                   → MockFS.ReadDir: positions (in the request) of the entries in the order returned
  firstFailure <perm> <ok|e<id>,…>                     → id of the failure that is reported, or none
  overrides <perm> <name=ok|name=bad,…>                → the names whose override is applied (sorted); applyOverridesSorted (the loop since its repair)
  overridesPreFix <perm> <name=ok|name=bad,…>          → the same for the loop before its repair (finding C05-overrides-abort-order, fixed)
  funcDefaults <impl|prefix> <perm> <ok|e<id>,…>       → compileFunc: id of the unsupported default that is reported, or none; the defaults map visited in
                                                          order <perm>; `prefix` = the loop before its repair (C05-func-defaults-error-order, fixed)
  convert <impl|prefix> <perm> <key=ok|key=e<id>,…>    → AsObjects/MapConverter/StructConverter: id of the conversion error reported, or none (convertSorted;
                                                          `prefix` = preFixConvert, finding C05-conversion-error-order, fixed)
  declSlots <impl|mapord> <perm/perm/…> <name,…> <name:alias,…;…> → the symbol table (names in slot order) after the declaring statements, starting from the
                                                          given table, then per statement the operands of its stores (a.b.c/…); `mapord` = the forbidden variant
  setOrder <perm> <item,…>                             → positions (in the request) of the items in SortedItems order,
                                                          the map range visiting them in the order <perm>
  setIter <perm> <item,…>                              → the same for the items an iteration over the set yields
  sortedBy <perm> <item,…> <rank,…>                    → the same for sorted(set|map, cmp), cmp a b = rank a < rank b
  importCache <perm> <global=modname:id|global=-,…> <name,…> → per name: id of the module `import name` binds, or -
  render <object graph>                                → ok <Inspect()> <PrintableValue+%v> <string(x)> <interpolation> <error() / builtins.Sprintf>
                                                          <PrintableValue without the Inspect() fallback> <pre-fix error(): Interface()+%v> <noRawAddr> <cellFree>   (texts in hex)
  object graph (prefix, single spaces): <GoTypeName|pair> <address> <txt hex|-> <raw hex|-> <aux hex|-> <nkids> graph*nkids
  marshal <sorted|range> <value tree>                  → out <JSON text hex> | err <error text hex>, then the tree's noNaN guard
  value tree (prefix, single spaces): o <text hex> | b <error hex> | l <k> tree*k | m <k> <perm> (<key hex> tree)*k
                                      | S <k> <perm> (<item> <o|b> <hex>)*k
  headerValues <perm> <name hex> <khex:vhex,…>         → the values filed under the canonical header name (hex, comma-separated)
  walkOps                                              → the operation names of the failing-element stream, comma-separated
  findMount <impl|last|prefix> <perm> <path hex> <keyhex:targethex,…> → some <position of the serving mount in the request> <relative path hex> | none,
                                                          then targetsAreKeys; the mounts map visited in order <perm>; `last` = the forbidden variant,
                                                          `prefix` = the loop before its repair (preFixFindMount, finding C05-findmount-target-length, fixed)
  hashKey <item>                                       → <type> <IntValue> <StrValue hex> <float position> <is NaN>: HashKey() of the value (HV.key)
  listing <perm> <item,…>                              → positions (in the request) of the members in the order the set lists them (setListing on values)
  mergeTables <impl|ranged> <table perm> <perm/perm/…> <name=id,…;name=id,…;…> <name,…> → per name: the id it is bound to after DefaultGlobals' merge of the
                                                          tables (in slice order; inside table i the entries visited in order perm i), or -; `ranged` = the
                                                          forbidden variant (the tables visited in order <table perm>); then the answer of the Spec lastDefining
  pickExt <impl|raced> <arrival perm> <ext hex,…> <0|1,…> → some <ext hex> | none: the file readFileWithExtensions reads (1 = the file with that extension exists);
                                                          `raced` = the forbidden variant (first answer to arrive wins)
  item := i:<int> | s:<hex> | t | f | n | d:<position of the float among the non-NaN floats> | D (NaN) | b:<byte> | y:<hex bytes>

Program tokens (prefix notation, separated by single spaces):
  prog  := <nstmts> stmt* expr          stmt := d <name> expr | e expr
  expr  := i <int> | s <hex> | t | f | n | v <name> | + expr expr | x expr expr
         | p <k> expr*k | l <k> expr*k | S <k> expr*k | m <k> <perm> (<keyhex> expr)*k
  perm  := - | i.j.k…   (the adversary's visiting order for that map literal)
-/
namespace Risor.C05
open Risor.Util

def parsePerm (s : String) : List Nat :=
  if s = "-" then [] else (s.splitOn ".").filterMap String.toNat?

def hexStr (s : String) : Option String := (fromHex s).map bytesStr

/-- inverse of `bytesStr` (one character per byte) -/
def rawBytes (s : String) : List Nat := s.toList.map (·.toNat)

mutual
  def parseE : Nat → List String → Option (Expr × List String)
    | 0, _ => none
    | _ + 1, "i" :: n :: r => n.toInt?.map fun n => (.int n, r)
    | _ + 1, "s" :: h :: r => (hexStr h).map fun s => (.str s, r)
    | _ + 1, "t" :: r => some (.tru, r)
    | _ + 1, "f" :: r => some (.fls, r)
    | _ + 1, "n" :: r => some (.nil, r)
    | _ + 1, "v" :: x :: r => some (.var x, r)
    | fuel + 1, "+" :: r => do
      let (a, r1) ← parseE fuel r
      let (b, r2) ← parseE fuel r1
      pure (.add a b, r2)
    | fuel + 1, "x" :: r => do
      let (a, r1) ← parseE fuel r
      let (b, r2) ← parseE fuel r1
      pure (.index a b, r2)
    | fuel + 1, "p" :: k :: r => do
      let (xs, r1) ← parseItems fuel (← k.toNat?) r
      pure (.print xs, r1)
    | fuel + 1, "l" :: k :: r => do
      let (xs, r1) ← parseItems fuel (← k.toNat?) r
      pure (.list xs, r1)
    | fuel + 1, "S" :: k :: r => do
      let (xs, r1) ← parseItems fuel (← k.toNat?) r
      pure (.set xs, r1)
    | fuel + 1, "m" :: k :: perm :: r => do
      let (es, r1) ← parseEntries fuel (← k.toNat?) r
      pure (.map (parsePerm perm) es, r1)
    | _ + 1, _ => none
  def parseItems : Nat → Nat → List String → Option (Items × List String)
    | 0, _, _ => none
    | _ + 1, 0, r => some (.nil, r)
    | fuel + 1, k + 1, r => do
      let (e, r1) ← parseE fuel r
      let (xs, r2) ← parseItems fuel k r1
      pure (.cons e xs, r2)
  def parseEntries : Nat → Nat → List String → Option (Entries × List String)
    | 0, _, _ => none
    | _ + 1, 0, r => some (.nil, r)
    | fuel + 1, k + 1, h :: r => do
      let key ← hexStr h
      let (e, r1) ← parseE fuel r
      let (xs, r2) ← parseEntries fuel k r1
      pure (.cons key e xs, r2)
    | _ + 1, _ + 1, [] => none
end

def parseStmts : Nat → Nat → List String → Option (List Stmt × List String)
  | _, 0, r => some ([], r)
  | fuel, k + 1, "d" :: x :: r => do
    let (e, r1) ← parseE fuel r
    let (ss, r2) ← parseStmts fuel k r1
    pure (.decl x e :: ss, r2)
  | fuel, k + 1, "e" :: r => do
    let (e, r1) ← parseE fuel r
    let (ss, r2) ← parseStmts fuel k r1
    pure (.expr e :: ss, r2)
  | _, _ + 1, _ => none

def parseProg (s : String) : Option Prog :=
  match s.splitOn " " with
  | k :: r => do
    let fuel := r.length + 2
    let (ss, r1) ← parseStmts fuel (← k.toNat?) r
    let (e, r2) ← parseE fuel r1
    if r2.isEmpty then pure ⟨ss, e⟩ else none
  | [] => none

def insText : Ins → String
  | .loadConst i => s!"LOAD_CONST:{i}"
  | .loadGlobal i => s!"LOAD_GLOBAL:{i}"
  | .storeGlobal i => s!"STORE_GLOBAL:{i}"
  | .binAdd => "BINARY_OP:1"
  | .tru => "TRUE" | .fls => "FALSE" | .nil => "NIL"
  | .buildList n => s!"BUILD_LIST:{n}"
  | .buildMap n => s!"BUILD_MAP:{n}"
  | .buildSet n => s!"BUILD_SET:{n}"
  | .subscr => "BINARY_SUBSCR"
  | .call n => s!"CALL:{n}"
  | .popTop => "POP_TOP"
  | .undefined x => s!"UNDEFINED:{x}"

def constText : Const → String
  | .int n => s!"i:{n}"
  | .str s => "s:" ++ toHexField (strBytes s)

def orDash (s : String) : String := if s.isEmpty then "-" else s

/-- an item token as the hashable VALUE it denotes -/
def parseVal (s : String) : Option HV :=
  if s.startsWith "i:" then (s.drop 2).toString.toInt?.map HV.int
  else if s.startsWith "s:" then
    (if s = "s:-" then some "" else hexStr (s.drop 2).toString).map HV.str
  else if s.startsWith "y:" then
    (if s = "y:-" then some "" else hexStr (s.drop 2).toString).map HV.bytes
  else if s.startsWith "b:" then (s.drop 2).toString.toNat?.map HV.byte
  else if s.startsWith "d:" then (s.drop 2).toString.toInt?.map HV.flt
  else if s = "D" then some .nan
  else if s = "t" then some (.bool true)
  else if s = "f" then some (.bool false)
  else if s = "n" then some .nil
  else none

/-- the hash key of an item: `HashKey()` of the value it denotes (`HV.key`) -/
def parseKey (s : String) : Option HKey := (parseVal s).map HV.key

def parseVals (s : String) : Option (List HV) :=
  if s = "-" then some [] else (s.splitOn ",").mapM parseVal

def parseMounts (s : String) : Option (List MountEnt) :=
  let parse (i : Nat) (e : String) : Option MountEnt :=
    match e.splitOn ":" with
    | [k, t] => do pure ⟨← fromHex k, ← fromHex t, i⟩
    | _ => none
  if s = "-" then some [] else
    let es := s.splitOn ","
    ((List.range es.length).zip es).mapM fun (i, e) => parse i e

def parseKeys (s : String) : Option (List HKey) :=
  if s = "-" then some [] else (s.splitOn ",").mapM parseKey

def positions (ks sorted : List HKey) : String :=
  orDash (".".intercalate (sorted.map fun k => toString (ks.findIdx (· == k))))

def parseKind (s : String) : Option Kind := (Kind.pair :: allKinds).find? (fun k => k.goName == s)

def optHex (s : String) : Option String := if s = "-" then some "" else hexStr s

mutual
  def parseR : Nat → List String → Option (RObj × List String)
    | 0, _ => none
    | fuel + 1, k :: a :: t :: r :: x :: n :: rest => do
      let kind ← parseKind k
      let addr ← a.toNat?
      let txt ← optHex t
      let raw ← optHex r
      let aux ← optHex x
      let (kids, rest') ← parseRs fuel (← n.toNat?) rest
      pure (.mk kind addr txt raw aux kids, rest')
    | _ + 1, _ => none
  def parseRs : Nat → Nat → List String → Option (RObjs × List String)
    | 0, _, _ => none
    | _ + 1, 0, r => some (.nil, r)
    | fuel + 1, k + 1, r => do
      let (o, r1) ← parseR fuel r
      let (os, r2) ← parseRs fuel k r1
      pure (.cons o os, r2)
end

def hexOut (s : String) : String := toHexField (rawBytes s)

def parseMembers : Nat → List String → Option (List (HKey × MR) × List String)
  | 0, r => some ([], r)
  | k + 1, item :: tag :: h :: r => do
    let key ← parseKey item
    let txt ← optHex h
    let res ← (if tag = "o" then some (MR.out txt) else if tag = "b" then some (MR.err txt) else none)
    let (ms, r1) ← parseMembers k r
    pure ((key, res) :: ms, r1)
  | _ + 1, _ => none

mutual
  def parseJ : Nat → List String → Option (JV × List String)
    | 0, _ => none
    | _ + 1, "o" :: h :: r => (optHex h).map fun t => (.ok t, r)
    | _ + 1, "b" :: h :: r => (optHex h).map fun t => (.bad t, r)
    | fuel + 1, "l" :: k :: r => do
      let (xs, r1) ← parseJs fuel (← k.toNat?) r
      pure (.list xs, r1)
    | fuel + 1, "m" :: k :: perm :: r => do
      let (es, r1) ← parseJEs fuel (← k.toNat?) r
      pure (.map (parsePerm perm) es, r1)
    | _ + 1, "S" :: k :: perm :: r => do
      let (ms, r1) ← parseMembers (← k.toNat?) r
      pure (.set (parsePerm perm) ms, r1)
    | _ + 1, _ => none
  def parseJs : Nat → Nat → List String → Option (JVs × List String)
    | 0, _, _ => none
    | _ + 1, 0, r => some (.nil, r)
    | fuel + 1, k + 1, r => do
      let (v, r1) ← parseJ fuel r
      let (xs, r2) ← parseJs fuel k r1
      pure (.cons v xs, r2)
  def parseJEs : Nat → Nat → List String → Option (JEs × List String)
    | 0, _, _ => none
    | _ + 1, 0, r => some (.nil, r)
    | fuel + 1, k + 1, h :: r => do
      let key ← optHex h
      let (v, r1) ← parseJ fuel r
      let (xs, r2) ← parseJEs fuel k r1
      pure (.cons key v xs, r2)
    | _ + 1, _ + 1, [] => none
end

/-- Go's `http.CanonicalHeaderKey` on the stream's header names (ASCII letters, digits, `-`):
    the first letter and every letter after a `-` in upper case, the others in lower case -/
def canonHeader (s : String) : String :=
  String.ofList ((s.toList.foldl (fun (acc : List Char × Bool) c =>
    ((if acc.2 then c.toUpper else c.toLower) :: acc.1, c == '-')) ([], true)).1.reverse)

def handle : List String → String
  | ["render", term] =>
    let toks := term.splitOn " "
    match parseR (toks.length + 2) toks with
    | some (o, []) =>
      "\t".intercalate ["ok", hexOut o.inspect, hexOut o.printable, hexOut o.stringBuiltin, hexOut o.interp,
        hexOut o.errorFmt, hexOut o.printableNoFallback, hexOut (ifaceV o), toString o.noRawAddr, toString o.cellFree]
    | _ => "error\tbad-graph"
  | ["frag", globals, prog] =>
    match parseProg prog with
    | none => "error\tbad-program"
    | some p =>
      let names := if globals = "-" then [] else globals.splitOn ","
      let c := compile names p
      let (res, out) := evalCode c
      let r := match res with
        | .ok v => "v:" ++ toHexField (strBytes (inspect v))
        | .error e => "e:" ++ e
      "ok\t" ++ orDash (" ".intercalate (c.ins.map insText)) ++ "\t"
        ++ orDash (" ".intercalate (c.consts.map constText)) ++ "\t" ++ r ++ "\t"
        ++ toHexField (strBytes (String.join out)) ++ "\t" ++ toString p.noBigMap
  | ["sortedKeys", ks] =>
    match (if ks = "-" then some [] else (ks.splitOn ",").mapM hexStr) with
    | some ks => orDash (",".intercalate ((sortedKeys ks).map fun k => toHexField (rawBytes k)))
    | none => "error\tbad-hex"
  | ["setSorted", items] =>
    let parse (s : String) : Option Val :=
      if s.startsWith "i:" then (s.drop 2).toString.toInt?.map Val.int
      else if s.startsWith "s:" then (hexStr (s.drop 2).toString).map Val.str
      else if s = "t" then some (.bool true) else if s = "f" then some (.bool false)
      else if s = "n" then some .nil else none
    match (if items = "-" then some [] else (items.splitOn ",").mapM parse) with
    | some vs =>
      match vs.foldlM setAdd [] with
      | some xs => orDash (", ".intercalate ((sortSet xs).map inspect))
      | none => "error\tunhashable"
    | none => "error\tbad-item"
  | ["visit", perm, es] =>
    let l := if es = "-" then [] else es.splitOn ","
    orDash (",".intercalate (inVisitingOrder id (applyPerm (parsePerm perm) l)))
  | ["environ", perm, es] =>
    let parse (s : String) : Option (String × String) :=
      match s.splitOn ":" with
      | [k, v] => do pure (← optHex k, ← optHex v)
      | _ => none
    match (if es = "-" then some [] else (es.splitOn ",").mapM parse) with
    | some l => orDash (",".intercalate ((environ (applyPerm (parsePerm perm) l)).map fun x => toHexField (rawBytes x)))
    | none => "error\tbad-hex"
  | ["readDir", perm, es] =>
    let parse (s : String) : Option (String × String) :=
      match s.splitOn ":" with
      | [k, v] => do pure (← optHex k, ← optHex v)
      | _ => none
    match (if es = "-" then some [] else (es.splitOn ",").mapM parse) with
    | some l =>
      -- the info attached to an entry is its position in the request
      let ents := (List.range l.length).zipWith (fun i (e : String × String) => (e.1, e.2, i)) l
      orDash (".".intercalate ((readDir (applyPerm (parsePerm perm) ents)).map fun e => toString e.2))
    | none => "error\tbad-hex"
  | ["marshal", mode, term] =>
    let toks := term.splitOn " "
    match parseJ (toks.length + 2) toks with
    | some (t, []) =>
      let r := if mode = "range" then t.marshalRange else t.marshal
      (match r with
        | .out s => "out\t" ++ hexOut s
        | .err e => "err\t" ++ hexOut e) ++ "\t" ++ toString t.noNaN
    | _ => "error\tbad-tree"
  | ["headerValues", perm, name, es] =>
    let parse (s : String) : Option (String × String) :=
      match s.splitOn ":" with
      | [k, v] => do pure (← optHex k, ← optHex v)
      | _ => none
    match (if es = "-" then some [] else (es.splitOn ",").mapM parse), optHex name with
    | some l, some n =>
      orDash (",".intercalate ((headerValues canonHeader (canonHeader n) (applyPerm (parsePerm perm) l)).map hexOut))
    | _, _ => "error\tbad-hex"
  | ["walkOps"] => ",".intercalate (walkOps.map (·.1))
  | ["findMount", mode, perm, path, ms] =>
    match fromHex path, parseMounts ms with
    | some p, some l =>
      let vis := applyPerm (parsePerm perm) l
      let r := if mode = "last" then findMountLast p vis
        else if mode = "prefix" then preFixFindMount p vis else findMount p vis
      (match r with
        | some (id, rel) => s!"some {id} {toHexField rel}"
        | none => "none") ++ "\t" ++ toString (targetsAreKeys l)
    | _, _ => "error\tbad-hex"
  | ["hashKey", item] =>
    match parseVal item with
    | some v =>
      let k := v.key
      s!"{k.ty} {k.int} {hexOut k.str} {k.flt} {k.nan}"
    | none => "error\tbad-item"
  | ["listing", perm, items] =>
    match parseVals items with
    | some vs =>
      orDash (".".intercalate ((setListing (applyPerm (parsePerm perm) vs)).map fun v => toString (vs.findIdx (· == v))))
    | none => "error\tbad-item"
  | ["firstFailure", perm, es] =>
    let l := if es = "-" then [] else es.splitOn ","
    match firstFailure (fun (s : String) => if s = "ok" then none else some s) (applyPerm (parsePerm perm) l) with
    | some e => e
    | none => "none"
  | ["overrides", perm, es] =>
    let l := (if es = "-" then [] else es.splitOn ",").map fun (s : String) =>
      match s.splitOn "=" with
      | [k, "ok"] => (k, some k)
      | k :: _ => (k, none)
      | [] => ("", none)
    let m := applyOverridesSorted (applyPerm (parsePerm perm) l) AMap.empty
    orDash (",".intercalate (sortedKeys ((l.map (·.1)).filter fun k => (m k).isSome)))
  | ["overridesPreFix", perm, es] =>
    let l := (if es = "-" then [] else es.splitOn ",").map fun (s : String) =>
      match s.splitOn "=" with
      | [k, "ok"] => (k, some k)
      | k :: _ => (k, none)
      | [] => ("", none)
    let m := applyOverrides (applyPerm (parsePerm perm) l) AMap.empty
    orDash (",".intercalate (sortedKeys ((l.map (·.1)).filter fun k => (m k).isSome)))
  | ["funcDefaults", mode, perm, es] =>
    let fl := if es = "-" then [] else es.splitOn ","
    let params := (List.range fl.length).map fun i => s!"p{i}"
    let vis := applyPerm (parsePerm perm) (params.zip fl)
    let err := fun (s : String) => if s = "ok" then none else some s
    match (if mode = "prefix" then preFixFuncDefaults err params vis else funcDefaults err params vis) with
    | some e => e
    | none => "none"
  | ["convert", mode, perm, es] =>
    let l := (if es = "-" then [] else es.splitOn ",").map fun (s : String) =>
      match s.splitOn "=" with
      | [k, v] => (k, v)
      | k :: _ => (k, "ok")
      | [] => ("", "ok")
    let err := fun (k : String) => match l.lookup k with
      | some "ok" => none
      | some e => some e
      | none => none
    let vis := applyPerm (parsePerm perm) (l.map (·.1))
    match (if mode = "prefix" then preFixConvert err vis else convertSorted err vis) with
    | some e => e
    | none => "none"
  | ["declSlots", mode, perms, tab0, stmts] =>
    let ps := (perms.splitOn "/").map parsePerm
    let tab := if tab0 = "-" then [] else tab0.splitOn ","
    let ss := (if stmts = "-" then [] else stmts.splitOn ";").map fun (t : String) =>
      (if t = "-" then [] else t.splitOn ",").map fun (s : String) =>
        match s.splitOn ":" with
        | [k, v] => (k, v)
        | k :: _ => (k, k)
        | [] => ("", "")
    let prog := (List.range ss.length).map fun i => (ps.getD i [], ss.getD i [])
    let r := declProgram (if mode = "mapord" then declStmtMapOrdered else declStmt) prog tab
    orDash (",".intercalate r.1) ++ "\t" ++
      orDash ("/".intercalate (r.2.map fun ops => orDash (".".intercalate (ops.map toString))))
  | ["setOrder", perm, items] =>
    match parseKeys items with
    | some ks => positions ks (sortedItems (applyPerm (parsePerm perm) ks))
    | none => "error\tbad-item"
  | ["setIter", perm, items] =>
    match parseKeys items with
    | some ks => positions ks (iterItems (applyPerm (parsePerm perm) ks))
    | none => "error\tbad-item"
  | ["sortedBy", perm, items, ranks] =>
    match parseKeys items with
    | some ks =>
      let rs := if ranks = "-" then [] else (ranks.splitOn ",").filterMap String.toInt?
      let rank (k : HKey) : Int := rs.getD (ks.findIdx (· == k)) 0
      positions ks (sortedBuiltin rank (applyPerm (parsePerm perm) ks))
    | none => "error\tbad-item"
  | ["importCache", perm, globals, names] =>
    let gs := (if globals = "-" then [] else globals.splitOn ",").map fun (s : String) =>
      match s.splitOn "=" with
      | [g, m] =>
        match m.splitOn ":" with
        | [mn, id] => (g, some (mn, id.toNat?.getD 0))
        | _ => (g, none)
      | g :: _ => (g, none)
      | [] => ("", none)
    let cache := moduleCache (applyPerm (parsePerm perm) gs)
    orDash (",".intercalate ((if names = "-" then [] else names.splitOn ",").map fun n =>
      match cache n with
      | some m => toString m.2
      | none => "-"))
  | ["mergeTables", mode, tperm, perms, tabs, names] =>
    let ps := (perms.splitOn "/").map parsePerm
    let ts := (if tabs = "-" then [] else tabs.splitOn ";").map fun (t : String) =>
      (if t = "-" then [] else t.splitOn ",").map fun (s : String) =>
        match s.splitOn "=" with
        | [k, v] => (k, v)
        | k :: _ => (k, "")
        | [] => ("", "")
    let vis := (List.range ts.length).map fun i => applyPerm (ps.getD i []) (ts.getD i [])
    let m := if mode = "ranged" then mergeTablesRanged (parsePerm tperm) vis AMap.empty else mergeTables vis AMap.empty
    let ns := if names = "-" then [] else names.splitOn ","
    orDash (",".intercalate (ns.map fun n => (m n).getD "-")) ++ "\t" ++
      orDash (",".intercalate (ns.map fun n => (lastDefining ts AMap.empty n).getD "-"))
  | ["pickExt", mode, arrival, exts, bits] =>
    let es := if exts = "-" then [] else exts.splitOn ","
    let bs := if bits = "-" then [] else bits.splitOn ","
    let present (e : String) : Bool := bs.getD (es.findIdx (· == e)) "0" == "1"
    match (if mode = "raced" then pickExtensionRaced (parsePerm arrival) es present else pickExtension es present) with
    | some e => "some " ++ e
    | none => "none"
  | _ => "error\tunknown-request"

end Risor.C05
