import RisorModel.Util
/-! Line-protocol front end of the C05 model (stub until the model exists). -/
namespace Risor.C05

def handle : List String → String
  | _ => "error\tnot-implemented"

end Risor.C05
