/-
C05 — evaluation and compilation are deterministic.

Go's map iteration order is an adversary.  Every model function that corresponds to a Go
`range` over a map takes the *visiting order* as an argument (`vis`, a list that is a
permutation of the map's entries); the theorems in `Props.lean` say for which site classes
the result does not depend on it.

Part 1  site classes (one small function per way a loop body uses the visited entries);
        1c: loops that CHOOSE one entry (`VirtualOS.findMount`: `selStep`, `findMount`, the
        loop as it was before its repair `preFixFindMount`, the forbidden last-one-wins variant); 1d: the hash key of a value as a function of the value
        alone (`HV`, `HV.key`, `setListing`, the promised order `HV.less`, the forbidden seeded-hash key)
Part 2  a fragment of the language (literals, globals, `+`, list/map/set literals, index,
        `print`) with the compiler's emission order for map literals under an adversary,
        the constant pool / symbol table, and the VM on the emitted code
Part 3  the reviewed classification of every map-range site of the source tree
Part 4  rendering an object graph as text (print, printf, sprintf, errorf, string(), string
        interpolation, error()): the ADDRESS of every allocation is a second adversarial
        parameter; the reviewed table of every object type and of PrintableValue's dispatch
Part 5  walks over a container whose elements can fail one by one (`json.marshal` over maps, sets
        and lists with SEVERAL unmarshalable values): `JV.marshal` (Impl: keys sorted, then the
        first failure), `JV.marshalRange` (the forbidden range-and-return variant), the reviewed
        table of every `MarshalJSON` body, `headerValues` (http request headers)

Core Lean only.
-/
namespace Risor.C05

/-! ## Part 1 — site classes -/

/-- Go's `sort.Strings` order (bytewise = code-point order on valid UTF-8) -/
def sle (a b : String) : Bool := decide (a ≤ b)

/-- insertion sort (structural, so that concrete witnesses evaluate in the kernel); any
    algorithm that returns a sorted permutation gives the same list for a total order
    (`Lemmas.isort_unique`), so this also stands for Go's `sort.Strings`/`sort.Slice` -/
def insertBy (le : α → α → Bool) (a : α) : List α → List α
  | [] => [a]
  | b :: l => if le a b then a :: b :: l else b :: insertBy le a l

def isort (le : α → α → Bool) : List α → List α
  | [] => []
  | a :: l => insertBy le a (isort le l)

/-- `Map.SortedKeys`, `object.Keys`, `Config.GlobalNames`, `newGoType` attribute names,
    `compiler.New` (sorts the supplied global names): collect in visiting order, then sort. -/
def sortedKeys (vis : List String) : List String := isort sle vis

/-- a permutation given as a list of indices; anything that is not a permutation of
    `0..n-1` is read as the identity (so every annotation denotes some visiting order) -/
def validPerm (p : List Nat) (n : Nat) : Bool :=
  isort Nat.ble p == List.range n

def applyPerm (p : List Nat) (l : List α) : List α :=
  if validPerm p l.length then p.filterMap (fun i => l[i]?) else l

/-- an abstract Go map with string keys -/
def AMap (V : Type) := String → Option V

def AMap.empty : AMap V := fun _ => none
def AMap.set (m : AMap V) (k : String) (v : V) : AMap V := fun k' => if k' = k then some v else m k'
def AMap.del (m : AMap V) (k : String) : AMap V := fun k' => if k' = k then none else m k'

/-- `Map.Copy/Update/Interface`, `Set.Union/Intersection/Difference`, `AsObjects` (success
    path), `WithGlobals`, `DefaultGlobals`, `symbolTableFromDefinition`, …: every visited
    entry that passes a pure filter is written, under its own key, into another map. -/
def foldInsert (keep : String → V → Bool) (f : String → V → W) (vis : List (String × V))
    (m0 : AMap W) : AMap W :=
  vis.foldl (fun m kv => if keep kv.1 kv.2 then m.set kv.1 (f kv.1 kv.2) else m) m0

/-- `Config.applyDenylist` (top-level names): every visited key is deleted from another map -/
def foldDelete (vis : List String) (m0 : AMap V) : AMap V :=
  vis.foldl (fun m k => m.del k) m0

/-- `compileFunc`'s defaults: `defaults[paramsIdx[name]] = value` for every visited entry -/
def assignByIndex (idx : String → Nat) (vis : List (String × V)) (arr : List (Option V)) :
    List (Option V) :=
  vis.foldl (fun a kv => a.set (idx kv.1) (some kv.2)) arr

/-- `Map.Equals`, `Set.Equals`, `builtins.All`: return false at the first visited entry that
    fails a pure test, true otherwise -/
def allEntries (p : α → Bool) (vis : List α) : Bool := vis.all p
/-- `builtins.Any` -/
def anyEntry (p : α → Bool) (vis : List α) : Bool := vis.any p

/-- the loops that stop at the first visited entry that cannot be processed and return
    *its* error: `compileFunc` (unsupported default value), `AsObjects`, `FromGoType` on a
    Go map, `MapConverter.To`, `StructConverter.To` -/
def firstFailure (err : α → Option ε) (vis : List α) : Option ε := vis.findSome? err

/-- the loop body of `Config.applyOverrides` over a given order of the entries: a valid entry
    is applied; the first invalid one ends the loop (the error is dropped by `init`) and the
    entries visited so far stay applied.  BEFORE the repair of finding C05-overrides-abort-order
    the order was the visiting order of the map (`C05_fixed_overrides_abort_order`); since the
    repair it is the sorted order of the names (`applyOverridesSorted`) -/
def applyOverrides : List (String × Option V) → AMap V → AMap V
  | [], m => m
  | (k, some v) :: rest, m => applyOverrides rest (m.set k v)
  | (_, none) :: _, m => m

/-- `AsObjects`, `FromGoType` on a Go map, `MapConverter.To/From`, `StructConverter.To` SINCE
    their repair (`fix: convert the entries of a map in sorted key order`): the keys are collected
    and sorted, the entries are converted in that order and the first one that fails decides the
    error — the error of the smallest failing key (`conversion_perm_invariant`) -/
def convertSorted (err : String → Option ε) (vis : List String) : Option ε :=
  firstFailure err (sortedKeys vis)

/-- the same loops BEFORE the repair (finding C05-conversion-error-order, fixed): the entries
    were converted in visiting order (`C05_fixed_conversion_error_order`) -/
def preFixConvert (err : String → Option ε) (vis : List String) : Option ε := firstFailure err vis

/-- `compileFunc`'s defaults SINCE its repair (`fix: report the first unsupported parameter
    default in declaration order`): the PARAMETERS are walked in declaration order and each
    one's default is looked up in the map (`vis` = the map in the adversary's visiting order,
    read only through lookups); the first parameter whose default is unsupported decides -/
def funcDefaults (err : D → Option ε) (params : List String) (vis : List (String × D)) : Option ε :=
  let m : AMap D := foldInsert (fun _ _ => true) (fun _ v => v) vis AMap.empty
  firstFailure (fun p => (m p).bind err) params

/-- the same loop BEFORE the repair (finding C05-func-defaults-error-order, fixed): it ranged
    over the defaults map (`C05_fixed_func_defaults_error_order`) -/
def preFixFuncDefaults (err : D → Option ε) (_params : List String) (vis : List (String × D)) : Option ε :=
  firstFailure (fun kv => err kv.2) vis

/-- `Config.applyOverrides` SINCE its repair (`fix: apply global overrides in sorted order of
    their names`): the names are collected and sorted, every value is looked up in the map, and
    the loop still ends at the first invalid value (the error is still dropped by `init`) -/
def applyOverridesSorted (vis : List (String × Option V)) (m0 : AMap V) : AMap V :=
  let m : AMap (Option V) := foldInsert (fun _ _ => true) (fun _ v => v) vis AMap.empty
  applyOverrides ((sortedKeys (vis.map (·.1))).map fun k => (k, (m k).getD none)) m0

/-- `Map.StringKeys`, `ast.Map.String`, the emission of `compileMap` (and, before their repair,
    `VirtualOS.Environ` and `MockFS.ReadDir`): the result lists the entries in visiting order -/
def inVisitingOrder (f : α → β) (vis : List α) : List β := vis.map f

/-! ### Part 1a — the two listings that were repaired in /repo (collect, then sort) -/

/-- one `KEY=value` line of an environment listing -/
def envLine (kv : String × String) : String := kv.1 ++ "=" ++ kv.2

/-- **Impl** `VirtualOS.Environ` as repaired ("fix: return the environment of a virtual OS in
    sorted order"): the `KEY=value` strings are collected in visiting order, then `sort.Strings` -/
def environ (vis : List (String × String)) : List String := sortedKeys (inVisitingOrder envLine vis)

/-- `VirtualOS.Environ` BEFORE the repair (finding C05-virtualos-environ-order): no sort; kept so
    that the defect stays a checked statement (`C05_fixed_environ_was_visiting_order`) -/
def environPreFix (vis : List (String × String)) : List String := inVisitingOrder envLine vis

/-- the `less` of the repaired `MockFS.ReadDir`, as a `≤` on (filename, path): by filename, the
    path (the key of the Go map, so distinct for distinct entries) breaks ties -/
def entLe (a b : String × String) : Bool :=
  if a.1 != b.1 then decide (a.1 < b.1) else sle a.2 b.2

/-- **Impl** `MockFS.ReadDir` as repaired ("fix: return the entries of a MockFS directory sorted
    by filename"): the matching paths are collected in visiting order, `sort.Slice`d by
    (filename, path), and the entries (filename, file info) are built in that order.
    An entry of `vis` is (path, filename, info). -/
def readDir (vis : List (String × String × I)) : List (String × I) :=
  (isort (fun a b => entLe (a.2.1, a.1) (b.2.1, b.1)) vis).map (fun e => (e.2.1, e.2.2))

/-- `MockFS.ReadDir` BEFORE the repair (finding C05-mockfs-readdir-order): the entries in
    visiting order; kept for `C05_fixed_readdir_was_visiting_order` -/
def readDirPreFix (vis : List (String × String × I)) : List (String × I) :=
  inVisitingOrder (fun e => (e.2.1, e.2.2)) vis

/-! ### Part 1b — `Set.SortedItems`, `sorted()`, and the VM's import cache over full hash keys -/

/-- `object.HashKey`: the type name and the three value fields.  A float value is carried as
    its position in the order of the non-NaN float64 values (`flt`; -0 and +0 are one
    position, as they are one Go map key); `nan` marks a NaN, which compares unequal to and
    not less than every float, itself included. -/
structure HKey where
  ty : String
  int : Int
  str : String
  flt : Int
  nan : Bool
  deriving DecidableEq, Repr

/-- the comparator of `Set.SortedItems`, clause by clause:
    `Type`, then `IntValue`, then `StrValue`, then `FltValue`, else `false` -/
def hkLess (a b : HKey) : Bool :=
  if a.ty != b.ty then decide (a.ty < b.ty)
  else if a.int != b.int then decide (a.int < b.int)
  else if a.str != b.str then decide (a.str < b.str)
  else if a.nan || b.nan || a.flt != b.flt then !a.nan && !b.nan && decide (a.flt < b.flt)
  else false

def hkGe (a b : HKey) : Bool := !hkLess a b

/-- `Set.SortedItems`: collect the items in visiting order, then `sort.Slice` with `hkLess`.
    Written as Go's `insertionSortLessFunc` (each element in turn moves left while it is
    less than its left neighbour), which is what `sort.Slice` runs for up to 12 elements; on
    NaN-free keys `hkLess` is a strict total order and every sorting algorithm returns this
    list (`sortedItems_perm_invariant`, `Lemmas.isort_unique_pred`). -/
def sortedItems (vis : List HKey) : List HKey := (isort hkGe vis.reverse).reverse

/-- `for x in set`, `list(set)`, `iter(set)`: the iterator walks the hash keys of
    `SortedItems` and looks each one up in the Go map; a NaN key is never found, which ends
    the iteration there -/
def iterItems (vis : List HKey) : List HKey := (sortedItems vis).takeWhile (fun k => !k.nan)

def noNaN (vis : List HKey) : Bool := vis.all (fun k => !k.nan)

/-- `sort.SliceStable` with `less a b := rank a < rank b` (what `sorted(x, cmp)` does when
    `cmp` is a strict weak order; `rank` names the classes of items `cmp` cannot tell apart) -/
def stableSortBy (rank : α → Int) (l : List α) : List α :=
  isort (fun a b => decide (rank a ≤ rank b)) l

/-- `builtins.Sorted` on a set (on a map: its keys, all of type string): the stable sort
    STARTS FROM `SortedItems`/`Keys()`, not from the visiting order -/
def sortedBuiltin (rank : HKey → Int) (vis : List HKey) : List HKey :=
  stableSortBy rank (sortedItems vis)

/-- `VirtualMachine.applyOptions`: every global that holds a module is entered into the
    import cache under THE GLOBAL'S name (`insertFold`); `g.1` is the global's name, `g.2` the
    module (here: its own name and an identity) or `none` for a global that is no module -/
def moduleCache (vis : List (String × Option (String × Nat))) : AMap (String × Nat) :=
  foldInsert (fun _ v => v.isSome) (fun _ v => v.getD ("", 0)) vis AMap.empty

/-- the variant that is NOT order-independent (kept for `module_cache_alias_counterexample`):
    the module is also entered under its own name -/
def moduleCacheAlias (vis : List (String × Option (String × Nat))) : AMap (String × Nat) :=
  vis.foldl (fun m g => match g.2 with
    | some mod => (m.set g.1 mod).set mod.1 mod
    | none => m) AMap.empty

/-! ### Part 1c — loops that CHOOSE one entry of a map: `VirtualOS.findMount`

Every file operation of a script under a virtual OS (`os.read_file`, `os.write_file`, `os.stat`,
`os.remove`, `os.rename`, `open`, …) goes through `findMount`, which ranges over the `mounts` Go
map: an entry whose key IS the path ends the loop at once; otherwise an entry whose key is a prefix
of the path ending at a component boundary becomes the candidate if it is STRICTLY LONGER than the
candidate held so far.  Which filesystem serves the access — result, error and side effects of the
script — is the outcome of this loop.

Since the repair "fix: choose the longest mount point in findMount by the length of its key" the
loop remembers the KEY of its candidate (`matchKey`) and compares `len(k) > len(matchKey)`: key
length against key length (`findMount`).  Before it compared `len(k) > len(match.Target)` — the
visited key against the candidate's `Target` FIELD, which nothing ties to the key
(`preFixFindMount`, finding C05-findmount-target-length, now fixed). -/

/-- the state of a choosing loop: it has returned from inside the loop (`done`), or holds the
    best candidate so far -/
inductive Sel (α : Type) where
  | done (a : α)
  | cand (best : Option α)
  deriving DecidableEq, Repr

/-- one iteration of the loop of `findMount`, abstractly: `exact x` = "return this entry now";
    `ok x` = "the entry qualifies"; a qualifying entry replaces the candidate `m` iff
    `lenNew x > lenCur m`.  The repaired code reads both lengths off the KEY (`len(k)` of the
    visited entry, `len(matchKey)` of the candidate): `findMount` instantiates `lenNew` and
    `lenCur` with the same function.  The two are kept apart because the loop before the repair
    read `len(match.Target)` off the candidate, a different field (`preFixFindMount`). -/
def selStep (exact ok : α → Bool) (lenNew lenCur : α → Nat) (s : Sel α) (x : α) : Sel α :=
  match s with
  | .done a => .done a
  | .cand best =>
    if exact x then .done x
    else if ok x then
      match best with
      | none => .cand (some x)
      | some m => if lenNew x > lenCur m then .cand (some x) else .cand (some m)
    else .cand best

/-- the choosing loop over the visiting order `vis` -/
def selectLoop (exact ok : α → Bool) (lenNew lenCur : α → Nat) (vis : List α) : Sel α :=
  vis.foldl (selStep exact ok lenNew lenCur) (.cand none)

/-- the variant that is NOT order-independent (kept for `lastSelect_counterexample`): every
    qualifying entry replaces the candidate — what the loop degenerates to when the candidate is
    compared with anything but the best length seen so far (a bound that is never updated) -/
def selStepLast (exact ok : α → Bool) (s : Sel α) (x : α) : Sel α :=
  match s with
  | .done a => .done a
  | .cand best => if exact x then .done x else if ok x then .cand (some x) else .cand best

def selectLast (exact ok : α → Bool) (vis : List α) : Sel α :=
  vis.foldl (selStepLast exact ok) (.cand none)

/-- Go's `strings.HasPrefix` on byte strings (paths are lists of bytes: no normalisation hides
    in a string type) -/
def hasPrefixB : List Nat → List Nat → Bool
  | _, [] => true
  | [], _ :: _ => false
  | a :: p, b :: k => a == b && hasPrefixB p k

/-- one entry of the mount table: the key it is registered under, `Mount.Target`, and the
    identity of the mount (which filesystem) -/
structure MountEnt where
  key : List Nat
  target : List Nat
  id : Nat
  deriving DecidableEq, Repr

/-- `k` is a string prefix of `path` that ends at a component boundary: the mount point ends
    with '/' (47) or the next byte of the path is '/' -/
def mountMatches (path k : List Nat) : Bool :=
  hasPrefixB path k && (k.getLast? == some 47 || path[k.length]? == some 47)

/-- `strings.TrimPrefix(path, target)`, `"/"` when nothing is left -/
def relOf (path target : List Nat) : List Nat :=
  let rel := if hasPrefixB path target then path.drop target.length else path
  if rel.isEmpty then [47] else rel

/-- **Impl** `VirtualOS.findMount` (as repaired) on the path string it matches (absolute,
    cleaned): which mount serves the access and the path handed to that mount's filesystem;
    `vis` = the order in which the `range` over `osObj.mounts` visits the entries.  A qualifying
    mount point replaces the candidate iff its KEY is longer than the candidate's KEY; the
    relative path is still `strings.TrimPrefix(path, match.Target)` (the repair left it alone:
    it is a function of the chosen mount, so it cannot bring the visiting order back in). -/
def findMount (path : List Nat) (vis : List MountEnt) : Option (Nat × List Nat) :=
  match selectLoop (fun e => e.key == path) (fun e => mountMatches path e.key)
      (fun e => e.key.length) (fun e => e.key.length) vis with
  | .done e => some (e.id, [47])
  | .cand (some e) => some (e.id, relOf path e.target)
  | .cand none => none

/-- `VirtualOS.findMount` BEFORE the repair (historical, kept so the defect stays documented:
    `Props.C05_fixed_findmount_target_length`): the length of the visited KEY was compared with
    the length of the candidate's `Target` FIELD -/
def preFixFindMount (path : List Nat) (vis : List MountEnt) : Option (Nat × List Nat) :=
  match selectLoop (fun e => e.key == path) (fun e => mountMatches path e.key)
      (fun e => e.key.length) (fun e => e.target.length) vis with
  | .done e => some (e.id, [47])
  | .cand (some e) => some (e.id, relOf path e.target)
  | .cand none => none

/-- the forbidden variant of `findMount`: the last qualifying mount visited wins -/
def findMountLast (path : List Nat) (vis : List MountEnt) : Option (Nat × List Nat) :=
  match selectLast (fun e => e.key == path) (fun e => mountMatches path e.key) vis with
  | .done e => some (e.id, [47])
  | .cand (some e) => some (e.id, relOf path e.target)
  | .cand none => none

/-- every mount is registered under its own `Target` (what `cmd/risor` and every caller in the
    repository does).  It WAS the guard of finding C05-findmount-target-length; since the repair
    no theorem about `findMount` needs it — it only says on which tables the loop before the
    repair chose like the repaired one (`Props.preFixFindMount_eq_on_own_targets`) -/
def targetsAreKeys (vis : List MountEnt) : Bool := vis.all (fun e => e.target == e.key)

/-! ### Part 1d — the hash key of a value is a function of the VALUE alone

`Set.SortedItems` orders the members by their hash keys, so the order in which a set prints,
iterates, converts to a list and marshals is the order of `HashKey()` of its members.  The
property ("maps and sets iterate and print in sorted order", the same in every fresh process)
therefore needs every `HashKey()` method to be a function of the value — no per-process seed,
no address — that is injective and monotone within a type. -/

/-- a hashable risor value (the seven types that implement `object.Hashable`).  A float is
    carried as its position among the non-NaN float64 values, a byte slice and a string as
    their bytes (one character per byte). -/
inductive HV where
  | int (n : Int)
  | str (s : String)
  | bool (b : Bool)
  | nil
  | byte (b : Nat)
  | bytes (s : String)
  | flt (ord : Int)
  | nan
  deriving DecidableEq, Repr

/-- **Impl** the seven `HashKey()` methods of package object, as read (tie
    `Ties.hash_keys_reviewed`): the type name and ONE value field filled with the value itself -/
def HV.key : HV → HKey
  | .int n => ⟨"int", n, "", 0, false⟩
  | .str s => ⟨"string", 0, s, 0, false⟩
  | .bool b => ⟨"bool", if b then 1 else 0, "", 0, false⟩
  | .nil => ⟨"nil", 0, "", 0, false⟩
  | .byte b => ⟨"byte", b, "", 0, false⟩
  | .bytes s => ⟨"byte_slice", 0, s, 0, false⟩
  | .flt o => ⟨"float", 0, "", o, false⟩
  | .nan => ⟨"float", 0, "", 0, true⟩

/-- the forbidden variant (kept for `hashedKey_counterexample`): a byte slice longer than `limit`
    is keyed by a hash `h` of its contents plus its first `limit` bytes — `h` standing for a hash
    function seeded per process -/
def HV.keyHashed (limit : Nat) (h : String → Int) : HV → HKey
  | .bytes s =>
    if s.length ≤ limit then ⟨"byte_slice", 0, s, 0, false⟩
    else ⟨"byte_slice", h s, String.ofList (s.toList.take limit), 0, false⟩
  | v => v.key

/-- the members of a set in the order `SortedItems` lists them, given how members are keyed:
    the VALUES, sorted by their hash keys (`sortedItems` on the keys, Part 1b) -/
def listingBy (key : HV → HKey) (vis : List HV) : List HV :=
  (isort (fun a b => hkGe (key a) (key b)) vis.reverse).reverse

/-- **Impl** printing / iterating / `list()` / `json.marshal` of a set -/
def setListing (vis : List HV) : List HV := listingBy HV.key vis

def HV.isNaN : HV → Bool
  | .nan => true
  | _ => false

/-- the type name, as `Type()` returns it -/
def HV.ty : HV → String
  | .int _ => "int" | .str _ => "string" | .bool _ => "bool" | .nil => "nil"
  | .byte _ => "byte" | .bytes _ => "byte_slice" | .flt _ => "float" | .nan => "float"

/-- **Spec** the order the property promises ("sets iterate and print in sorted order"), stated
    on VALUES without any hash key: by type name, and within a type ints and bytes numerically,
    strings and byte slices bytewise, `false` before `true`, floats numerically -/
def HV.less (a b : HV) : Bool :=
  if a.ty != b.ty then decide (a.ty < b.ty)
  else match a, b with
    | .int x, .int y => decide (x < y)
    | .str x, .str y => decide (x < y)
    | .bool x, .bool y => !x && y
    | .byte x, .byte y => decide (x < y)
    | .bytes x, .bytes y => decide (x < y)
    | .flt x, .flt y => decide (x < y)
    | _, _ => false

/-- the reviewed table of the `HashKey()` methods of package object (type, the text of the body as
    the extractor prints it: layout-insensitive).  Read at the pinned commit: every body builds ONE
    `HashKey` literal from the receiver's type name and the receiver's value — no package-level
    state, no seed, no address.  These seven are the types that can be members of a set. -/
def hashKeysReviewed : List (String × String) := [
  ("Bool", "{ var value int64 if b.value { value = 1 } else { value = 0 } return HashKey{Type: b.Type(), IntValue: value} }"),
  ("Byte", "{ return HashKey{Type: b.Type(), IntValue: int64(b.value)} }"),
  ("ByteSlice", "{ return HashKey{Type: b.Type(), StrValue: string(b.value)} }"),
  ("Float", "{ return HashKey{Type: f.Type(), FltValue: f.value} }"),
  ("Int", "{ return HashKey{Type: i.Type(), IntValue: i.value} }"),
  ("NilType", "{ return HashKey{Type: n.Type()} }"),
  ("String", "{ return HashKey{Type: s.Type(), StrValue: s.value} }")
]

/-- the choosing loop of `VirtualOS.findMount` as the extractor prints it (the one range-over-map
    statement of the function).  Read at the repaired commit against `selStep`: `k == path` →
    `done`; a prefix that does not end at a component boundary → next entry; a qualifying entry
    replaces the candidate iff there is none or `len(k) > len(matchKey)`, and then BOTH `match`
    and `matchKey` are replaced (so `matchKey` always is the key `match` is registered under). -/
def findMountLoopsReviewed : List String := [
  "for k, v := range osObj.mounts { if k == path { return v, \"/\", true } if strings.HasPrefix(path, k) { if !strings.HasSuffix(k, \"/\") && path[len(k)] != '/' { continue } if match == nil || len(k) > len(matchKey) { match, matchKey = v, k } } }"
]

/-- the loop text before the repair (historical; read against `preFixFindMount`) -/
def preFixFindMountLoops : List String := [
  "for k, v := range osObj.mounts { if k == path { return v, \"/\", true } if strings.HasPrefix(path, k) { if !strings.HasSuffix(k, \"/\") && path[len(k)] != '/' { continue } if match == nil || len(k) > len(match.Target) { match = v } } }"
]

/-! ## Part 2 — the language fragment -/

mutual
  inductive Expr where
    | int (n : Int)
    | str (s : String)
    | tru | fls | nil
    | var (name : String)
    | add (a b : Expr)
    | index (a i : Expr)
    | print (args : Items)
    | list (items : Items)
    | set (items : Items)
    /-- `perm`: the adversary's choice for this literal (the order in which Go's `range`
        over `ast.Map.items` visits the entries) -/
    | map (perm : List Nat) (entries : Entries)
  inductive Items where
    | nil
    | cons (e : Expr) (rest : Items)
  inductive Entries where
    | nil
    | cons (key : String) (value : Expr) (rest : Entries)
end

inductive Stmt where
  | decl (name : String) (e : Expr)   -- `name := e`
  | expr (e : Expr)

/-- a program: statements followed by a final expression (its value) -/
structure Prog where
  stmts : List Stmt
  last : Expr

def Items.length : Items → Nat
  | .nil => 0
  | .cons _ r => r.length + 1

def Entries.length : Entries → Nat
  | .nil => 0
  | .cons _ _ r => r.length + 1

/- the source text: all adversary annotations erased -/
mutual
  def Expr.strip : Expr → Expr
    | .add a b => .add a.strip b.strip
    | .index a i => .index a.strip i.strip
    | .print xs => .print xs.strip
    | .list xs => .list xs.strip
    | .set xs => .set xs.strip
    | .map _ es => .map [] es.strip
    | e => e
  def Items.strip : Items → Items
    | .nil => .nil
    | .cons e r => .cons e.strip r.strip
  def Entries.strip : Entries → Entries
    | .nil => .nil
    | .cons k v r => .cons k v.strip r.strip
end

def Stmt.strip : Stmt → Stmt
  | .decl n e => .decl n e.strip
  | .expr e => .expr e.strip

def Prog.strip (p : Prog) : Prog := ⟨p.stmts.map Stmt.strip, p.last.strip⟩

/- guard of the known finding: no map literal with two or more entries -/
mutual
  def Expr.noBigMap : Expr → Bool
    | .add a b => a.noBigMap && b.noBigMap
    | .index a i => a.noBigMap && i.noBigMap
    | .print xs => xs.noBigMap
    | .list xs => xs.noBigMap
    | .set xs => xs.noBigMap
    | .map _ es => decide (es.length ≤ 1) && es.noBigMap
    | _ => true
  def Items.noBigMap : Items → Bool
    | .nil => true
    | .cons e r => e.noBigMap && r.noBigMap
  def Entries.noBigMap : Entries → Bool
    | .nil => true
    | .cons _ v r => v.noBigMap && r.noBigMap
end

def Stmt.noBigMap : Stmt → Bool
  | .decl _ e => e.noBigMap
  | .expr e => e.noBigMap

def Prog.noBigMap (p : Prog) : Bool := p.stmts.all Stmt.noBigMap && p.last.noBigMap

inductive Const where
  | int (n : Int)
  | str (s : String)
  deriving DecidableEq, Repr

/-- relocatable instructions: constants and globals are still symbolic -/
inductive RIns where
  | const (c : Const)
  | loadG (name : String)
  | storeG (name : String)
  | binAdd | tru | fls | nil
  | buildList (n : Nat) | buildMap (n : Nat) | buildSet (n : Nat)
  | subscr
  | call (n : Nat)
  | popTop
  deriving DecidableEq, Repr

/- `compiler.compile` on the fragment.  `compileMap` ranges over a Go map: the entry
    blocks (key constant, value code) are emitted in the adversary's order. -/
mutual
  def compE : Expr → List RIns
    | .int n => [.const (.int n)]
    | .str s => [.const (.str s)]
    | .tru => [.tru]
    | .fls => [.fls]
    | .nil => [.nil]
    | .var x => [.loadG x]
    | .add a b => compE a ++ compE b ++ [.binAdd]
    | .index a i => compE a ++ compE i ++ [.subscr]
    | .print xs => .loadG "print" :: compItems xs ++ [.call xs.length]
    | .list xs => compItems xs ++ [.buildList xs.length]
    | .set xs => compItems xs ++ [.buildSet xs.length]
    | .map perm es => (applyPerm perm (compEntries es)).flatten ++ [.buildMap es.length]
  def compItems : Items → List RIns
    | .nil => []
    | .cons e r => compE e ++ compItems r
  def compEntries : Entries → List (List RIns)
    | .nil => []
    | .cons k v r => (.const (.str k) :: compE v) :: compEntries r
end

def compStmt : Stmt → List RIns
  | .decl x e => compE e ++ [.storeG x]
  | .expr e => compE e ++ [.popTop]

/-- `compileProgram`: every statement but the last is followed by POP_TOP when it leaves a
    value; the last one is an expression and stays on the stack -/
def compProg (p : Prog) : List RIns := (p.stmts.map compStmt).flatten ++ compE p.last

inductive Ins where
  | loadConst (i : Nat) | loadGlobal (i : Nat) | storeGlobal (i : Nat)
  | binAdd | tru | fls | nil
  | buildList (n : Nat) | buildMap (n : Nat) | buildSet (n : Nat)
  | subscr | call (n : Nat) | popTop
  | undefined (name : String)
  deriving DecidableEq, Repr

def dedup : List String → List String
  | [] => []
  | x :: xs => if xs.contains x then dedup xs else x :: dedup xs

/-- `compiler.New`: the supplied global names are sorted, then inserted once each -/
def initSymbols (globalNames : List String) : List String :=
  let s := sortedKeys globalNames
  -- keep the first occurrence of every name (IsDefined check)
  (dedup s.reverse).reverse

def declared : List Stmt → List String
  | [] => []
  | .decl x _ :: r => x :: declared r
  | .expr _ :: r => declared r

def indexOf (x : String) : List String → Nat → Option Nat
  | [], _ => none
  | y :: ys, i => if x = y then some i else indexOf x ys (i + 1)

/-- constants are appended to the pool in emission order (no de-duplication); global
    operands are positions in the symbol table -/
def link (syms : List String) : List RIns → Nat → List Ins
  | [], _ => []
  | .const _ :: r, nc => .loadConst nc :: link syms r (nc + 1)
  | .loadG x :: r, nc =>
    (match indexOf x syms 0 with | some i => Ins.loadGlobal i | none => .undefined x) :: link syms r nc
  | .storeG x :: r, nc =>
    (match indexOf x syms 0 with | some i => Ins.storeGlobal i | none => .undefined x) :: link syms r nc
  | .binAdd :: r, nc => .binAdd :: link syms r nc
  | .tru :: r, nc => .tru :: link syms r nc
  | .fls :: r, nc => .fls :: link syms r nc
  | .nil :: r, nc => .nil :: link syms r nc
  | .buildList n :: r, nc => .buildList n :: link syms r nc
  | .buildMap n :: r, nc => .buildMap n :: link syms r nc
  | .buildSet n :: r, nc => .buildSet n :: link syms r nc
  | .subscr :: r, nc => .subscr :: link syms r nc
  | .call n :: r, nc => .call n :: link syms r nc
  | .popTop :: r, nc => .popTop :: link syms r nc

def constsOf : List RIns → List Const
  | [] => []
  | .const c :: r => c :: constsOf r
  | _ :: r => constsOf r

structure Code where
  ins : List Ins
  consts : List Const
  symbols : List String
  deriving DecidableEq, Repr

/-- the compiler on a program, given the global names of the configuration (in any order) -/
def compile (globalNames : List String) (p : Prog) : Code :=
  let syms := initSymbols globalNames ++ declared p.stmts
  let r := compProg p
  ⟨link syms r 0, constsOf r, syms⟩

/-! ### the VM on the emitted code -/

inductive Val where
  | int (n : Int)
  | str (s : String)
  | bool (b : Bool)
  | nil
  | list (xs : List Val)
  | map (kvs : List (String × Val))
  | set (xs : List Val)
  | builtin (name : String)
  | unset

structure St where
  stack : List Val
  globals : List Val
  out : List String

def mapSet (kvs : List (String × Val)) (k : String) (v : Val) : List (String × Val) :=
  if kvs.any (fun kv => kv.1 == k) then kvs.map (fun kv => if kv.1 == k then (kv.1, v) else kv)
  else kvs ++ [(k, v)]

def mapGet (kvs : List (String × Val)) (k : String) : Option Val :=
  (kvs.find? (fun kv => kv.1 == k)).map (·.2)

/-- hash key of a hashable value: (type rank in the order of the type names, int, string) -/
def hashKey : Val → Option (Nat × Int × String)
  | .bool b => some (0, if b then 1 else 0, "")   -- "bool"
  | .int n => some (1, n, "")                      -- "int"
  | .nil => some (2, 0, "")                        -- "nil"
  | .str s => some (3, 0, s)                       -- "string"
  | _ => none

def keyLe (a b : Nat × Int × String) : Bool :=
  if a.1 != b.1 then decide (a.1 < b.1)
  else if a.2.1 != b.2.1 then decide (a.2.1 < b.2.1)
  else decide (a.2.2 ≤ b.2.2)

def setAdd (xs : List Val) (v : Val) : Option (List Val) :=
  match hashKey v with
  | none => none
  | some k => some (if xs.any (fun x => hashKey x == some k) then xs else xs ++ [v])

def typeName : Val → String
  | .int _ => "int" | .str _ => "string" | .bool _ => "bool" | .nil => "nil"
  | .list _ => "list" | .map _ => "map" | .set _ => "set" | .builtin _ => "builtin" | .unset => "unset"

/-- BUILD_MAP: pops value, key, value, key, … from the top; each pair is stored into a fresh
    Go map, so of two equal keys the pair that was pushed FIRST survives -/
def buildMapFrom : List Val → Nat → List (String × Val) → Option (List (String × Val) × List Val)
  | st, 0, acc => some (acc, st)
  | v :: .str k :: st, n + 1, acc => buildMapFrom st n (mapSet acc k v)
  | _, _ + 1, _ => none

def buildSetFrom : List Val → Nat → List Val → Except String (List Val × List Val)
  | st, 0, acc => .ok (acc, st)
  | v :: st, n + 1, acc =>
    match setAdd acc v with
    | some acc' => buildSetFrom st n acc'
    | none => .error "type"
  | [], _ + 1, _ => .error "stack"

def popN : List Val → Nat → Option (List Val × List Val)
  | st, 0 => some ([], st)
  | v :: st, n + 1 => (popN st n).map fun (xs, rest) => (xs ++ [v], rest)
  | [], _ + 1 => none

mutual
  def inspect : Val → String
    | .int n => toString n
    | .str s => "\"" ++ s ++ "\""
    | .bool b => if b then "true" else "false"
    | .nil => "nil"
    | .list xs => "[" ++ inspectList xs ++ "]"
    | .map kvs => "{" ++ inspectPairs kvs ++ "}"
    | .set xs => "{" ++ inspectList xs ++ "}"
    | .builtin n => "builtin(" ++ n ++ ")"
    | .unset => "<unset>"
  def inspectList : List Val → String
    | [] => ""
    | [x] => inspect x
    | x :: y :: r => inspect x ++ ", " ++ inspectList (y :: r)
  def inspectPairs : List (String × Val) → String
    | [] => ""
    | [(k, v)] => "\"" ++ k ++ "\": " ++ inspect v
    | (k, v) :: y :: r => "\"" ++ k ++ "\": " ++ inspect v ++ ", " ++ inspectPairs (y :: r)
end

/-- maps are kept sorted by key and sets by hash key (what `SortedKeys`/`SortedItems`
    produce when the value is printed or iterated) -/
def sortPairs (kvs : List (String × Val)) : List (String × Val) :=
  isort (fun a b => sle a.1 b.1) kvs

def sortSet (xs : List Val) : List Val :=
  isort (fun a b => match hashKey a, hashKey b with
    | some x, some y => keyLe x y
    | _, _ => true) xs

def printable : Val → String
  | .str s => s
  | v => inspect v

def joinSp : List String → String
  | [] => ""
  | [x] => x
  | x :: y :: r => x ++ " " ++ joinSp (y :: r)

def step (consts : List Const) (s : St) : Ins → Except String St
  | .loadConst i =>
    match consts[i]? with
    | some (.int n) => .ok { s with stack := .int n :: s.stack }
    | some (.str x) => .ok { s with stack := .str x :: s.stack }
    | none => .error "panic"
  | .loadGlobal i =>
    match s.globals[i]? with
    | some v => .ok { s with stack := v :: s.stack }
    | none => .error "panic"
  | .storeGlobal i =>
    match s.stack with
    | v :: st => .ok { s with stack := st, globals := s.globals.set i v }
    | [] => .error "stack"
  | .binAdd =>
    match s.stack with
    | .int b :: .int a :: st => .ok { s with stack := .int (a + b) :: st }
    | .str b :: .str a :: st => .ok { s with stack := .str (a ++ b) :: st }
    | _ :: _ :: _ => .error "type"
    | _ => .error "stack"
  | .tru => .ok { s with stack := .bool true :: s.stack }
  | .fls => .ok { s with stack := .bool false :: s.stack }
  | .nil => .ok { s with stack := .nil :: s.stack }
  | .buildList n =>
    match popN s.stack n with
    | some (xs, st) => .ok { s with stack := .list xs :: st }
    | none => .error "stack"
  | .buildMap n =>
    match buildMapFrom s.stack n [] with
    | some (kvs, st) => .ok { s with stack := .map (sortPairs kvs) :: st }
    | none => .error "panic"
  | .buildSet n =>
    match buildSetFrom s.stack n [] with
    | .ok (xs, st) => .ok { s with stack := .set (sortSet xs) :: st }
    | .error e => .error e
  | .subscr =>
    match s.stack with
    | .int i :: .list xs :: st =>
      let j := if i < 0 then i + xs.length else i
      if j < 0 then .error "index" else
      match xs[j.toNat]? with
      | some v => .ok { s with stack := v :: st }
      | none => .error "index"
    | .str k :: .map kvs :: st =>
      match mapGet kvs k with
      | some v => .ok { s with stack := v :: st }
      | none => .error "index"
    | k :: .set xs :: st =>
      match hashKey k with
      | some h => .ok { s with stack := .bool (xs.any fun x => hashKey x == some h) :: st }
      | none => .error "type"
    | _ :: _ :: _ => .error "type"
    | _ => .error "stack"
  | .call n =>
    match popN s.stack n with
    | some (args, .builtin "print" :: st) =>
      .ok { s with stack := .nil :: st, out := s.out ++ [joinSp (args.map printable) ++ "\n"] }
    | some (_, _ :: _) => .error "type"
    | _ => .error "stack"
  | .popTop =>
    match s.stack with
    | _ :: st => .ok { s with stack := st }
    | [] => .error "stack"
  | .undefined _ => .error "compile"

/-- run straight-line code; on an error the output written so far is kept -/
def run (consts : List Const) : List Ins → St → (Except String Val) × List String
  | [], s => (match s.stack with | v :: _ => .ok v | [] => .ok .nil, s.out)
  | i :: r, s =>
    match step consts s i with
    | .ok s' => run consts r s'
    | .error e => (.error e, s.out)

/-- the globals array the VM starts with: `print` is the builtin, every other predefined
    global is opaque, declared variables are unset -/
def initGlobals (syms : List String) : List Val :=
  syms.map fun n => if n = "print" then .builtin "print" else .unset

def evalCode (c : Code) : (Except String Val) × List String :=
  if c.ins.any (fun i => match i with | .undefined _ => true | _ => false) then (.error "compile", [])
  else run c.consts c.ins ⟨[], initGlobals c.symbols, []⟩

/-- evaluation = compile, then run in a fresh VM -/
def eval (globalNames : List String) (p : Prog) : (Except String Val) × List String :=
  evalCode (compile globalNames p)

/-! ## Part 4 — rendering an object graph; the address of every allocation is the adversary's

Every object is a Go allocation and Go's `fmt` prints the address of a pointer, channel or
func it is handed.  In the model every object carries the address the adversary chose for it
(`addr`); the theorems in `Props.lean` say for which rendering routes the text does not
depend on it.  Scalar payloads arrive already formatted (by Go's strconv/fmt for a value
without pointers): what is modelled is the DISPATCH (String() / Inspect() fallback /
Interface()) and the COMPOSITION of the texts of the objects an object refers to. -/

/-- every type of package object that implements `object.Object` (the Go type names), plus
    `pair`: one `"key": value` entry of a map (not an object; lets a map be a node with kids) -/
inductive Kind where
  | Bool | Buffer | Builtin | Byte | ByteSlice | Cell | Chan | Color | DirEntry | DynamicAttr
  | Entry | Error | File | FileInfo | FileIter | FileMode | Float | FloatSlice | Function
  | GoField | GoMethod | GoType | Int | IntIter | List | ListIter | Map | MapIter | Module
  | NilType | Partial | Proxy | Set | SetIter | SliceIter | String | Thread | Time
  | pair
  deriving DecidableEq, Repr

def Kind.goName : Kind → _root_.String
  | .Bool => "Bool" | .Buffer => "Buffer" | .Builtin => "Builtin" | .Byte => "Byte"
  | .ByteSlice => "ByteSlice" | .Cell => "Cell" | .Chan => "Chan" | .Color => "Color"
  | .DirEntry => "DirEntry" | .DynamicAttr => "DynamicAttr" | .Entry => "Entry" | .Error => "Error"
  | .File => "File" | .FileInfo => "FileInfo" | .FileIter => "FileIter" | .FileMode => "FileMode"
  | .Float => "Float" | .FloatSlice => "FloatSlice" | .Function => "Function" | .GoField => "GoField"
  | .GoMethod => "GoMethod" | .GoType => "GoType" | .Int => "Int" | .IntIter => "IntIter"
  | .List => "List" | .ListIter => "ListIter" | .Map => "Map" | .MapIter => "MapIter"
  | .Module => "Module" | .NilType => "NilType" | .Partial => "Partial" | .Proxy => "Proxy"
  | .Set => "Set" | .SetIter => "SetIter" | .SliceIter => "SliceIter" | .String => "String"
  | .Thread => "Thread" | .Time => "Time" | .pair => "pair"

def allKinds : List Kind :=
  [.Bool, .Buffer, .Builtin, .Byte, .ByteSlice, .Cell, .Chan, .Color, .DirEntry, .DynamicAttr,
   .Entry, .Error, .File, .FileInfo, .FileIter, .FileMode, .Float, .FloatSlice, .Function,
   .GoField, .GoMethod, .GoType, .Int, .IntIter, .List, .ListIter, .Map, .MapIter, .Module,
   .NilType, .Partial, .Proxy, .Set, .SetIter, .SliceIter, .String, .Thread, .Time]

/-- the reviewed table (`Ties.object_types_reviewed` re-checks it against the source on every
    run): (type, has a `String() string` method, fmt operands inside `Inspect()` that could
    print an address, the same inside `String()`).  Read at the pinned commit:
    * no `Inspect()` formats a pointer, channel, func or interface operand;
    * `Cell.String` formats the held object with `%s` (address-free iff that object has a
      `String()` method — `fmtS` below; cells are never first-class script values);
    * `Proxy.String` formats the host's Go value with `%v` (the property excludes the printed
      form of host-supplied Go pointers) and its `reflect.Type` with `%s` (a type name);
    * `DirEntry.String` formats the `os.DirEntry` the OS layer supplied with `%v`
      (a struct of name and mode, no address: probed by the harness under a virtual OS);
    * Chan, Entry, Partial, Thread, GoField, GoMethod, GoType have no `String()`: every
      route that prints them must fall back to `Inspect()`. -/
def objTypes : List (String × Bool × String × String) := [
  ("Bool", true, "", ""),
  ("Buffer", true, "", ""),
  ("Builtin", true, "", ""),
  ("Byte", true, "", ""),
  ("ByteSlice", true, "", ""),
  ("Cell", true, "", "iface:%s"),
  ("Chan", false, "", ""),
  ("Color", true, "", ""),
  ("DirEntry", true, "", "iface:%v"),
  ("DynamicAttr", true, "", ""),
  ("Entry", false, "", ""),
  ("Error", true, "", ""),
  ("File", true, "", ""),
  ("FileInfo", true, "", ""),
  ("FileIter", true, "", ""),
  ("FileMode", true, "", ""),
  ("Float", true, "", ""),
  ("FloatSlice", true, "", ""),
  ("Function", true, "", ""),
  ("GoField", false, "", ""),
  ("GoMethod", false, "", ""),
  ("GoType", false, "", ""),
  ("Int", true, "", ""),
  ("IntIter", true, "", ""),
  ("List", true, "", ""),
  ("ListIter", true, "", ""),
  ("Map", true, "", ""),
  ("MapIter", true, "", ""),
  ("Module", true, "", ""),
  ("NilType", true, "", ""),
  ("Partial", false, "", ""),
  ("Proxy", true, "", "iface:%s,iface:%v"),
  ("Set", true, "", ""),
  ("SetIter", true, "", ""),
  ("SliceIter", true, "", ""),
  ("String", true, "", ""),
  ("Thread", false, "", ""),
  ("Time", true, "", "")
]

/-- does the type implement `fmt.Stringer`?  (looked up in the reviewed table) -/
def hasString (k : Kind) : Bool :=
  match objTypes.find? (fun r => r.1 == k.goName) with
  | some r => r.2.1
  | none => false

/-- `object.PrintableValue`, case by case as the extractor renders it (tie:
    `Ties.printable_dispatch_reviewed`): primitives travel as their Go value, a time as its
    RFC3339 text, every other object as `String()` if it has one and `Inspect()` otherwise -/
def printableCases : List (String × String) := [
  ("*String,*Int,*Float,*Byte,*Error,*Bool", "obj.Interface()"),
  ("*Time", "obj.Value().Format(time.RFC3339)"),
  ("fmt.Stringer", "obj.String()"),
  ("default", "obj.Inspect()")
]

/-- which functions hand script values to a fmt verb, and how (tie: `Ties.format_sites_reviewed`).
    `builtins.Sprintf` is shadowed in the default globals by `fmt.Sprintf`; `builtins.Error` is
    the `error(fmt, …)` builtin.  Since the repair in /repo ("fix: format the arguments of error()
    and the sprintf builtin with PrintableValue") every one of them goes through
    `object.PrintableValue` (`RObj.printable`, `RObj.errorFmt` below). -/
def formatSitesReviewed : List (String × String) := [
  ("builtins.Error", "PrintableValue"),
  ("builtins.Sprintf", "PrintableValue"),
  ("errors.getFormatAndValues", "PrintableValue"),
  ("fmt.Errorf", "PrintableValue"),
  ("fmt.Printf", "PrintableValue"),
  ("fmt.Println", "PrintableValue"),
  ("fmt.Sprintf", "PrintableValue")
]

/-- the two rows as they were BEFORE that repair (finding C05-error-format-raw-go-value): both
    handed `obj.Interface()` to fmt — `ifaceV` below -/
def preFixFormatSites : List (String × String) := [
  ("builtins.Error", "Interface"),
  ("builtins.Sprintf", "Interface")
]

/- an object as the renderer sees it: kind, address of the allocation (adversary), scalar
   payloads, the objects it refers to.  `txt`: the payload as `Inspect()` shows it (already
   quoted where the code uses `%q`); `raw`: the payload as `String()`/`Interface()` under `%v`
   show it where that differs (string value, error message, `func f() { ... }`,
   `byte_slice([1 2])`, `1e+06`, RFC3339 time); `aux`: what `builtins.String` extracts
   (buffer contents, the bytes of a byte_slice). -/
mutual
  inductive RObj where
    | mk (kind : Kind) (addr : Nat) (txt raw aux : String) (kids : RObjs)
  inductive RObjs where
    | nil
    | cons (o : RObj) (rest : RObjs)
end

def RObj.kind : RObj → Kind | .mk k _ _ _ _ _ => k
def RObj.addr : RObj → Nat | .mk _ a _ _ _ _ => a
def RObj.raw : RObj → String | .mk _ _ _ r _ _ => r
def RObj.aux : RObj → String | .mk _ _ _ _ x _ => x
def RObj.kids : RObj → RObjs | .mk _ _ _ _ _ ks => ks

def RObjs.toList : RObjs → List RObj
  | .nil => []
  | .cons o r => o :: r.toList

/- the same graph with every address forgotten -/
mutual
  def RObj.eraseAddr : RObj → RObj
    | .mk k _ t r x kids => .mk k 0 t r x kids.eraseAddr
  def RObjs.eraseAddr : RObjs → RObjs
    | .nil => .nil
    | .cons o r => .cons o.eraseAddr r.eraseAddr
end

def joinWith (sep : String) : List String → String
  | [] => ""
  | [x] => x
  | x :: y :: r => x ++ sep ++ joinWith sep (y :: r)

/-- what Go's fmt prints for a pointer, channel or func: text that contains the address -/
def goPtr (a : Nat) : String := "0x" ++ String.ofList (Nat.toDigits 16 a)

/-- how `Inspect()` frames a kind -/
inductive Frame where
  /-- the payload as is: `true`, `5`, `"s"`, `nil`, `func f(a) { … }`, `slice_iter(pos=0 size=2)`,
      `file_info(…)`, `dir_entry(…)`, a file mode, a color -/
  | leaf
  /-- `name(payload)`: `chan(2)`, `builtin(len)`, `module(math)`, `error("m")`, `buffer("x")` … -/
  | wrapTxt (name : String)
  /-- opener, the referenced objects' own `Inspect()` joined with `, `, closer -/
  | wrapKids (l r : String)

def Kind.frame : Kind → Frame
  | .Chan => .wrapTxt "chan" | .Builtin => .wrapTxt "builtin" | .Module => .wrapTxt "module"
  | .Error => .wrapTxt "error" | .Buffer => .wrapTxt "buffer" | .ByteSlice => .wrapTxt "byte_slice"
  | .FloatSlice => .wrapTxt "float_slice" | .Time => .wrapTxt "time" | .IntIter => .wrapTxt "int_iter"
  | .DynamicAttr => .wrapTxt "dynamic_attr" | .GoType => .wrapTxt "go_type"
  | .GoField => .wrapTxt "go_field" | .GoMethod => .wrapTxt "go_method" | .File => .wrapTxt "file"
  | .List => .wrapKids "[" "]" | .Set => .wrapKids "{" "}" | .Map => .wrapKids "{" "}"
  | .ListIter => .wrapKids "list_iter(" ")" | .MapIter => .wrapKids "map_iter(" ")"
  | .SetIter => .wrapKids "set_iter(" ")" | .FileIter => .wrapKids "file_iter(" ")"
  | .Entry => .wrapKids "iter_entry(" ")" | .Thread => .wrapKids "thread(" ")"
  | _ => .leaf

/-- `Inspect()` of one node given the `Inspect()` texts of the objects it refers to -/
def inspectNode (k : Kind) (txt : String) (ks : List String) : String :=
  match k with
  | .pair => txt ++ ": " ++ joinWith ", " ks
  | .Partial =>
    match ks with
    | [] => "partial(, )"
    | f :: as => "partial(" ++ f ++ ", " ++ joinWith ", " as ++ ")"
  | _ =>
    match k.frame with
    | .leaf => txt
    | .wrapTxt name => name ++ "(" ++ txt ++ ")"
    | .wrapKids l r => l ++ joinWith ", " ks ++ r

/-- the kinds whose `String()` is not their `Inspect()` but the raw payload -/
def strIsRaw : Kind → Bool
  | .String | .Error | .Function | .ByteSlice | .DirEntry => true
  | _ => false

/-- the two texts every object offers: `insp` = `Inspect()`; `fmtS` = what `fmt.Sprintf("%s", obj)`
    gives (the object's `String()` if it has one, else Go's rendering of the raw pointer) -/
structure Rendered where
  insp : String
  fmtS : String

/-- `Inspect()` of one node given what the objects it refers to offer.
    `Cell.Inspect = Cell.String = fmt.Sprintf("cell(%s)", *c.value)` -/
def nodeInsp (k : Kind) (txt : String) (ks : List Rendered) : String :=
  if k = .Cell then "cell(" ++ joinWith ", " (ks.map (·.fmtS)) ++ ")"
  else inspectNode k txt (ks.map (·.insp))

mutual
  def render : RObj → Rendered
    | .mk k a txt raw _ kids =>
      let ks := renderAll kids
      ⟨nodeInsp k txt ks,
       if hasString k then (if strIsRaw k then raw else nodeInsp k txt ks) else goPtr a⟩
  def renderAll : RObjs → List Rendered
    | .nil => []
    | .cons o r => render o :: renderAll r
end

/-- `obj.Inspect()`: the evaluation result as the embedder sees it, items inside containers,
    the fallback of every other route -/
def RObj.inspect (o : RObj) : String := (render o).insp

/-- `obj.String()` (meaningful for the kinds that have the method) -/
def RObj.strM (o : RObj) : String := if strIsRaw o.kind then o.raw else o.inspect

/-- the kinds `PrintableValue` hands to fmt as their Go value (`obj.Interface()`) -/
def isPrimitive : Kind → Bool
  | .String | .Int | .Float | .Byte | .Error | .Bool => true
  | _ => false

/-- **Impl** `object.PrintableValue` followed by the verb `%v`/`%s` (print, printf, sprintf,
    errorf, fmt.*, errors.new): String() → Inspect() fallback -/
def RObj.printable (o : RObj) : String :=
  if isPrimitive o.kind then o.raw
  else if o.kind = .Time then o.raw
  else if hasString o.kind then o.strM
  else o.inspect

/-- the variant WITHOUT the `Inspect()` fallback (the object itself is handed to fmt): kept for
    `printable_without_fallback_counterexample` -/
def RObj.printableNoFallback (o : RObj) : String :=
  if isPrimitive o.kind then o.raw
  else if o.kind = .Time then o.raw
  else if hasString o.kind then o.strM
  else goPtr o.addr

/-- **Impl** `builtins.String` (`string(x)`): buffer and byte_slice yield their bytes, a string
    itself, then String() → Inspect() fallback.  (A file is read; not modelled.) -/
def RObj.stringBuiltin (o : RObj) : String :=
  if o.kind = .Buffer || o.kind = .ByteSlice then o.aux
  else if hasString o.kind then o.strM
  else o.inspect

/-- **Impl** string interpolation (`BuildString`): an error value yields its message, a string
    itself, everything else `Inspect()` -/
def RObj.interp (o : RObj) : String :=
  if o.kind = .Error || o.kind = .String then o.raw else o.inspect

/-- **Impl** the `error(fmt, args…)` builtin and `builtins.Sprintf` as repaired: every argument
    travels as `object.PrintableValue(obj)`, exactly as in `errorf`/`errors.new`/`fmt.sprintf` -/
def RObj.errorFmt (o : RObj) : String := o.printable

/- HISTORICAL (before the repair of finding C05-error-format-raw-go-value): the `error(fmt, args…)`
   builtin and `builtins.Sprintf` handed every argument to fmt as
   `obj.Interface()`, rendered by Go's `%v`.  Function, module, thread, nil: `<nil>`;
   list and set: `[a b]`; map: `map[k:v …]` (keys sorted by fmt); iterator entry:
   `map[key:K value:V]`; a cell: what it holds; channel: the Go channel, builtin: the Go func,
   file: the `*os.File`, partial: the wrapped function object, proxy/Go reflection wrappers: a
   Go pointer — fmt prints an ADDRESS for all of these.  Time, buffer, slices, iterators,
   dynamic attributes: not rendered on this route by the harness (their Go value's `%v` text
   would be a fourth payload); the model returns `raw`. -/
mutual
  def ifaceV : RObj → String
    | .mk k a _ raw _ kids =>
      match k with
      | .NilType | .Function | .Module | .Thread => "<nil>"
      | .List | .Set => "[" ++ joinWith " " (ifaceAll kids) ++ "]"
      | .Map => "map[" ++ joinWith " " (ifaceAll kids) ++ "]"
      | .pair => raw ++ ":" ++ joinWith " " (ifaceAll kids)
      | .Entry =>
        match ifaceAll kids with
        | [key, v] => "map[key:" ++ key ++ " value:" ++ v ++ "]"
        | _ => "map[]"
      | .Cell =>
        match ifaceAll kids with
        | [v] => v
        | _ => "<nil>"
      | .Chan | .Builtin | .File | .Partial | .Proxy | .GoType | .GoField | .GoMethod => goPtr a
      | _ => raw
  def ifaceAll : RObjs → List String
    | .nil => []
    | .cons o r => ifaceV o :: ifaceAll r
end

/-- the kinds whose `Interface()` is a Go pointer, channel or func -/
def rawAddrKind : Kind → Bool
  | .Chan | .Builtin | .File | .Partial | .Proxy | .GoType | .GoField | .GoMethod => true
  | _ => false

/- HISTORICAL guard of the repaired finding C05-error-format-raw-go-value: no object whose `Interface()` is a Go
   pointer, channel or func anywhere in the graph -/
mutual
  def RObj.noRawAddr : RObj → Bool
    | .mk k _ _ _ _ kids => !rawAddrKind k && kids.noRawAddr
  def RObjs.noRawAddr : RObjs → Bool
    | .nil => true
    | .cons o r => o.noRawAddr && r.noRawAddr
end

/- guard for `Inspect()`/`String()`: every cell holds an object that has a `String()` method
   (what `%s` needs to stay clear of the pointer) -/
mutual
  def RObj.cellsOk : RObj → Bool
    | .mk k _ _ _ _ kids => (k != .Cell || kids.allStringers) && kids.cellsOk
  def RObjs.cellsOk : RObjs → Bool
    | .nil => true
    | .cons o r => o.cellsOk && r.cellsOk
  def RObjs.allStringers : RObjs → Bool
    | .nil => true
    | .cons o r => hasString o.kind && r.allStringers
end

/- no cell anywhere: what holds for every value a script can get hold of -/
mutual
  def RObj.cellFree : RObj → Bool
    | .mk k _ _ _ _ kids => k != .Cell && kids.cellFree
  def RObjs.cellFree : RObjs → Bool
    | .nil => true
    | .cons o r => o.cellFree && r.cellFree
end

/-! ## Part 3 — the reviewed classification of every map-range site -/

inductive SiteClass where
  /-- entries are collected and sorted before anything observes them (`sortedKeys_perm_invariant`,
      `sortedItems_perm_invariant`, `environ_perm_invariant`, `readDir_perm_invariant`) -/
  | sortedAfter
  /-- entries collected unsorted, but every consumer in scope sorts them (`compiler.New`, `builtins.Encode` csv) (`globals_sorted_perm_invariant`) -/
  | sortedByConsumer
  /-- each entry written under its own (distinct) key into another map (`insert_fold_perm_invariant`) -/
  | insertFold
  /-- each key deleted from another map (`delete_fold_perm_invariant`) -/
  | deleteFold
  /-- `arr[idx key] = value` with an injective index (`defaults_by_index_perm_invariant`) -/
  | byIndex
  /-- conjunction / disjunction of a pure test (`all_entries_perm_invariant`) -/
  | quantifier
  /-- per-entry effect on the entry's own object only; effects on distinct objects commute -/
  | perEntry
  /-- longest matching key; unique because two prefixes of one path of equal length are equal
      (`findMount_perm_invariant`, Part 1c: every table, whatever its `Target` fields are, since
      the repair of finding C05-findmount-target-length — `C05_fixed_findmount_target_length`;
      `Risor.C13.findMount_order_independent` is the same fact in C13's path model) -/
  | maxSelect
  /-- first visited failing entry decides the error: order-independent only when at most one
      kind of failure is present (`first_failure_perm_invariant`); otherwise a finding -/
  | firstFailure (finding : String)
  /-- result lists the entries in visiting order: a finding -/
  | visitingOrder (finding : String)
  /-- only used by the package's own tests (`vm.newVM`, `vm.basicBuiltins`) -/
  | testOnly
  deriving DecidableEq, Repr

/-- (function, ordinal, body actions, sort call follows, class).  Reviewed by reading each
    loop at the pinned commit; `Ties.lean` checks on every run that the regenerated list of
    sites is exactly the first four columns of this table. -/
def mapSites : List (String × Nat × String × Bool × SiteClass) := [
  ("ast.Map.String", 0, "append,call", false, .visitingOrder "C05-map-literal-order"),
  ("builtins.All", 0, "call,return", false, .quantifier),
  ("builtins.Any", 0, "call,return", false, .quantifier),
  ("compiler.Compiler.compileMap", 0, "call,emit,return", false, .visitingOrder "C05-map-literal-order"),
  ("compiler.definitionFromSymbolTable", 0, "call,mapwrite", false, .insertFold),
  ("compiler.symbolTableFromDefinition", 0, "call,mapwrite", false, .insertFold),
  ("modules/all.Builtins", 0, "mapwrite", false, .insertFold),
  ("modules/exec.configureCommand", 0, "call,return", false, .firstFailure "C05-exec-params-order"),
  ("modules/exec.configureCommand", 1, "append,call,return", false, .firstFailure "C05-exec-params-order"),
  ("modules/http.HttpRequest.AddHeaders", 0, "call", false, .visitingOrder "C05-http-header-case-order"),
  ("modules/http.HttpRequest.GetAttr", 0, "call,mapwrite", false, .insertFold),
  ("modules/http.HttpRequest.Header", 0, "call,mapwrite", false, .insertFold),
  ("modules/http.HttpResponse.Header", 0, "call,mapwrite", false, .insertFold),
  ("object.GoType.attrMap", 0, "mapwrite", false, .insertFold),
  ("object.Keys", 0, "append", true, .sortedAfter),
  ("object.Map.Copy", 0, "mapwrite", false, .insertFold),
  ("object.Map.Equals", 0, "call,return", false, .quantifier),
  ("object.Map.Interface", 0, "call,mapwrite", false, .insertFold),
  ("object.Map.SortedKeys", 0, "append", true, .sortedAfter),
  ("object.Map.StringKeys", 0, "append", false, .sortedByConsumer),
  ("object.Map.Update", 0, "mapwrite", false, .insertFold),
  ("object.NewBuiltinsModule", 0, "mapwrite", false, .insertFold),
  ("object.NewBuiltinsModule", 1, "", false, .perEntry),
  ("object.Set.Difference", 0, "mapwrite", false, .insertFold),
  ("object.Set.Equals", 0, "call,return", false, .quantifier),
  ("object.Set.Intersection", 0, "mapwrite", false, .insertFold),
  ("object.Set.SortedItems", 0, "append", true, .sortedAfter),
  ("object.Set.Union", 0, "mapwrite", false, .insertFold),
  ("object.Set.Union", 1, "mapwrite", false, .insertFold),
  ("object.newGoType", 0, "mapwrite", true, .insertFold),
  ("object.newGoType", 1, "mapwrite", true, .insertFold),
  ("object.newGoType", 2, "append", true, .sortedAfter),
  ("object.sortedMapKeys", 0, "append", true, .sortedAfter),
  ("os.MockFS.ReadDir", 0, "append,call", true, .sortedAfter),
  ("os.VirtualOS.Environ", 0, "append", true, .sortedAfter),
  ("os.VirtualOS.findMount", 0, "call,return", false, .maxSelect),
  ("os.WithEnvironment", 0, "mapwrite", false, .insertFold),
  ("os.WithMounts", 0, "mapwrite", false, .insertFold),
  ("risor.Config.CombinedGlobals", 0, "mapwrite", false, .insertFold),
  ("risor.Config.GlobalNames", 0, "append", true, .sortedAfter),
  ("risor.Config.Globals", 0, "mapwrite", false, .insertFold),
  ("risor.Config.VMOpts", 0, "append", false, .sortedByConsumer),
  ("risor.Config.applyDefaultGlobals", 0, "mapwrite", false, .insertFold),
  ("risor.Config.applyDenylist", 0, "call,mapdelete", false, .deleteFold),
  ("risor.Config.applyOverrides", 0, "append", true, .sortedAfter),
  ("risor.DefaultGlobals", 0, "mapwrite", false, .insertFold),
  ("risor.DefaultGlobals", 1, "mapwrite", false, .insertFold),
  ("risor.WithGlobals", 0, "mapwrite", false, .insertFold),
  ("vm.VirtualMachine.Clone", 0, "mapwrite", false, .insertFold),
  ("vm.VirtualMachine.Clone", 1, "mapwrite", false, .insertFold),
  ("vm.VirtualMachine.applyOptions", 0, "mapwrite", false, .insertFold),
  -- since /repo afc3565 (the C18 repair): reloadCode deletes from vm.loadedCode every key whose Root() is the
  -- main code; which keys go is decided by the key alone, so the map left behind does not depend on the visiting order
  ("vm.VirtualMachine.reloadCode", 0, "call,mapdelete", false, .deleteFold),
  ("vm.WithGlobals", 0, "mapwrite", false, .insertFold),
  ("vm.basicBuiltins", 0, "mapwrite", false, .testOnly),
  ("vm.basicBuiltins", 1, "mapwrite", false, .testOnly),
  ("vm.newVM", 0, "mapwrite", false, .testOnly),
  ("vm.newVM", 1, "append", false, .testOnly)
]

/-- the rows of `VirtualOS.Environ` and `MockFS.ReadDir` as they were BEFORE their repair in
    /repo (no sort call after the collecting loop; the listing was in visiting order): kept so
    that the defects stay checked statements (`C05_fixed_sites_were_unsorted`) -/
def preFixSites : List (String × Nat × String × Bool × SiteClass) := [
  ("os.MockFS.ReadDir", 0, "append,call", false, .visitingOrder "C05-mockfs-readdir-order"),
  ("os.VirtualOS.Environ", 0, "append", false, .visitingOrder "C05-virtualos-environ-order")
]

/-- the rows of the first-failure loops repaired by `fix: report the first unsupported parameter
    default in declaration order`, `fix: apply global overrides in sorted order of their names`
    and `fix: convert the entries of a map in sorted key order`, as they were BEFORE (a range
    over the Go map that returns at the first failing entry).  Since the repairs compileFunc,
    AsObjects, FromGoType, MapConverter.To/From and StructConverter.To no longer range over a
    map at all (they walk the parameter list / `SortedKeys()` / `sortedMapKeys`), and
    applyOverrides only collects the names it then sorts (`C05_fixed_first_failure_sites`) -/
def preFixFirstFailureSites : List (String × Nat × String × Bool × SiteClass) := [
  ("compiler.Compiler.compileFunc", 0, "call,indexwrite,mapwrite,return", false, .firstFailure "C05-func-defaults-error-order"),
  ("object.AsObjects", 0, "call,mapwrite,return", false, .firstFailure "C05-conversion-error-order"),
  ("object.FromGoType", 0, "call,mapwrite,return", false, .firstFailure "C05-conversion-error-order"),
  ("object.MapConverter.From", 0, "call,mapwrite,return", false, .firstFailure "C05-conversion-error-order"),
  ("object.MapConverter.To", 0, "call,return", false, .firstFailure "C05-conversion-error-order"),
  ("object.StructConverter.To", 0, "call,return", false, .firstFailure "C05-conversion-error-order"),
  ("risor.Config.applyOverrides", 0, "call,mapwrite,return", false, .firstFailure "C05-overrides-abort-order")
]

/-! ## Part 5 — walks over a container whose elements can fail one by one

`json.marshal(x)` reaches `Map.MarshalJSON` / `Set.MarshalJSON` / `List.MarshalJSON`; the walk
stops at the FIRST element whose own marshalling fails and reports that element's error.  With
two or more failing elements (a function and a module, +Inf and -Inf, …) "first" must be a
function of the container's contents: `encoding/json` collects the keys of the Go map it is
handed (in map order), SORTS them and marshals the values in key order; `Set.MarshalJSON`
marshals `SortedItems()`.  The adversary's visiting order of every map and set node is part of
the tree (`perm`), as for map literals in Part 2. -/

/-- the outcome of marshalling one value: its JSON text, or the error -/
inductive MR where
  | out (text : String)
  | err (msg : String)
  deriving DecidableEq, Repr

def MR.errOf : MR → Option String
  | .err e => some e
  | .out _ => none

def MR.outOf : MR → Option String
  | .out s => some s
  | .err _ => none

mutual
  /-- a risor value as `encoding/json` walks it -/
  inductive JV where
    /-- a value whose `MarshalJSON` succeeds with this text (int, string, bool, nil, finite float, …) -/
    | ok (text : String)
    /-- a value whose `MarshalJSON` fails with this error (function, module, builtin, channel,
        iterator, error value; a float that is ±Inf or NaN) -/
    | bad (msg : String)
    | list (items : JVs)
    /-- entries in insertion order; `perm`: the order in which a Go `range` over the map's
        items (here: `reflect`'s `MapRange` inside `encoding/json`) visits them -/
    | map (perm : List Nat) (entries : JEs)
    /-- members (hash key, outcome of marshalling the member); `perm` as for maps
        (`Set.SortedItems` ranges over the set's Go map) -/
    | set (perm : List Nat) (members : List (HKey × MR))
  inductive JVs where
    | nil
    | cons (v : JV) (rest : JVs)
  inductive JEs where
    | nil
    | cons (key : String) (v : JV) (rest : JEs)
end

/-- how `encoding/json` wraps the error of a `MarshalJSON` method -/
def wrapErr (ty e : String) : String :=
  "json: error calling MarshalJSON for type *object." ++ ty ++ ": " ++ e

/-- one container level: the elements are marshalled in the order `errOrder` and the first
    failure aborts the walk (`firstFailure`); otherwise the texts are written in `outOrder` -/
def seqMarshal (ty opn cls : String) (errOrder outOrder : List MR) : MR :=
  match firstFailure MR.errOf errOrder with
  | some e => .err (wrapErr ty e)
  | none => .out (opn ++ ",".intercalate (outOrder.filterMap MR.outOf) ++ cls)

/-- `"key":value` (the stream's keys are plain ASCII words, so quoting adds the quotes only) -/
def labelled (k : String) : MR → MR
  | .out t => .out ("\"" ++ k ++ "\":" ++ t)
  | .err e => .err e

/-- the entries in the order `encoding/json` marshals a Go map: the keys are collected in
    visiting order, sorted, and each key's value is taken from the map -/
def inKeyOrder (vis : List String) (rs : List (String × MR)) : List MR :=
  (sortedKeys vis).filterMap (fun k => (rs.lookup k).map (labelled k))

/-- the entries in the order a hand-written `for k, v := range m.items` visits them -/
def inRangeOrder (vis : List String) (rs : List (String × MR)) : List MR :=
  vis.filterMap (fun k => (rs.lookup k).map (labelled k))

/-- a map node.  `sortFirst = true` (**Impl**, `return json.Marshal(m.items)`): failures are
    sought in key order.  `sortFirst = false` (the forbidden variant: values marshalled one by
    one inside a `range` over the Go map that returns at the first failure, the collected
    texts handed to `encoding/json` afterwards): failures are sought in visiting order, the
    successful output is still written in key order. -/
def mapMarshal (sortFirst : Bool) (perm : List Nat) (rs : List (String × MR)) : MR :=
  seqMarshal "Map" "{" "}"
    (if sortFirst then inKeyOrder (applyPerm perm (rs.map (·.1))) rs
     else inRangeOrder (applyPerm perm (rs.map (·.1))) rs)
    (inKeyOrder (applyPerm perm (rs.map (·.1))) rs)

/-- a set node: `json.Marshal(s.SortedItems())` -/
def setMarshal (perm : List Nat) (ms : List (HKey × MR)) : MR :=
  seqMarshal "Set" "[" "]"
    ((sortedItems (applyPerm perm (ms.map (·.1)))).filterMap (fun k => ms.lookup k))
    ((sortedItems (applyPerm perm (ms.map (·.1)))).filterMap (fun k => ms.lookup k))

mutual
  def JV.marshalW (sortFirst : Bool) : JV → MR
    | .ok t => .out t
    | .bad m => .err m
    | .list items => seqMarshal "List" "[" "]" (items.resultsW sortFirst) (items.resultsW sortFirst)
    | .map perm es => mapMarshal sortFirst perm (es.resultsW sortFirst)
    | .set perm ms => setMarshal perm ms
  def JVs.resultsW (sortFirst : Bool) : JVs → List MR
    | .nil => []
    | .cons v r => v.marshalW sortFirst :: r.resultsW sortFirst
  def JEs.resultsW (sortFirst : Bool) : JEs → List (String × MR)
    | .nil => []
    | .cons k v r => (k, v.marshalW sortFirst) :: r.resultsW sortFirst
end

/-- **Impl** (= what the property demands): `json.Marshal` of a risor value as the code does it -/
def JV.marshal (t : JV) : MR := t.marshalW true

/-- the forbidden variant: map values marshalled inside a `range` that returns at the first failure -/
def JV.marshalRange (t : JV) : MR := t.marshalW false

mutual
  /-- forget the adversary's choices -/
  def JV.strip : JV → JV
    | .ok t => .ok t
    | .bad m => .bad m
    | .list items => .list items.strip
    | .map _ es => .map [] es.strip
    | .set _ ms => .set [] ms
  def JVs.strip : JVs → JVs
    | .nil => .nil
    | .cons v r => .cons v.strip r.strip
  def JEs.strip : JEs → JEs
    | .nil => .nil
    | .cons k v r => .cons k v.strip r.strip
end

mutual
  /-- no set of the tree has a NaN member (the guard of finding C05-set-nan-order) -/
  def JV.noNaN : JV → Bool
    | .ok _ => true
    | .bad _ => true
    | .list items => items.noNaN
    | .map _ es => es.noNaN
    | .set _ ms => Risor.C05.noNaN (ms.map (·.1))
  def JVs.noNaN : JVs → Bool
    | .nil => true
    | .cons v r => v.noNaN && r.noNaN
  def JEs.noNaN : JEs → Bool
    | .nil => true
    | .cons _ v r => v.noNaN && r.noNaN
end

/-- `http.Header.Add` under the canonical form of the header name, for every visited entry of
    the `headers` map (`HttpRequest.AddHeaders`): the values filed under one canonical name, in
    the order they were added -/
def headerValues (canon : String → String) (name : String) (vis : List (String × String)) : List String :=
  inVisitingOrder (·.2) (vis.filter (fun kv => canon kv.1 == name))

/-- the `MarshalJSON` method of every object type, as regenerated from object/*.go:
    `fails` (a single `return nil, <error>`), `json.Marshal(<expression>)` (a single return of
    that call; `struct` for a struct literal), `bytes` (returns of literal byte texts only);
    anything else — a loop, a `range`, several statements — is printed as `other…` and is not
    in this table.  `Map` hands the Go map itself to `encoding/json` (keys sorted there), `Set`
    its sorted listing, `List` its slice. -/
def marshalPathsReviewed : List (String × String) := [
  ("Bool", "bytes"),
  ("Buffer", "bytes"),
  ("Builtin", "fails"),
  ("Byte", "bytes"),
  ("ByteSlice", "json.Marshal(string(b.value))"),
  ("Cell", "fails"),
  ("Chan", "fails"),
  ("Color", "json.Marshal(struct)"),
  ("DirEntry", "json.Marshal(struct)"),
  ("DynamicAttr", "fails"),
  ("Entry", "fails"),
  ("Error", "fails"),
  ("File", "fails"),
  ("FileInfo", "json.Marshal(struct)"),
  ("FileIter", "fails"),
  ("FileMode", "json.Marshal(struct)"),
  ("Float", "json.Marshal(f.value)"),
  ("FloatSlice", "json.Marshal(f.value)"),
  ("Function", "fails"),
  ("GoField", "json.Marshal(struct)"),
  ("GoMethod", "json.Marshal(struct)"),
  ("GoType", "json.Marshal(struct)"),
  ("Int", "json.Marshal(i.value)"),
  ("IntIter", "fails"),
  ("List", "json.Marshal(ls.items)"),
  ("ListIter", "fails"),
  ("Map", "json.Marshal(m.items)"),
  ("MapIter", "fails"),
  ("Module", "fails"),
  ("NilType", "bytes"),
  ("Partial", "fails"),
  ("Proxy", "json.Marshal(p.obj)"),
  ("Set", "json.Marshal(s.SortedItems())"),
  ("SetIter", "fails"),
  ("SliceIter", "fails"),
  ("String", "json.Marshal(s.value)"),
  ("Thread", "fails"),
  ("Time", "json.Marshal(t.value.Format(time.RFC3339))")
]

/-- the operations of the harness's failing-element stream and the site or marshal path each
    one reaches (asked for by the harness: an operation named here without a script there, or
    the other way round, is reported) -/
def walkOps : List (String × String) := [
  ("json.marshal", "object.Map.MarshalJSON / Set.MarshalJSON / List.MarshalJSON"),
  ("json.marshal-indent", "object.Map.MarshalJSON / Set.MarshalJSON / List.MarshalJSON"),
  ("json.marshal-try", "object.Map.MarshalJSON / Set.MarshalJSON / List.MarshalJSON"),
  ("json.marshal-nested-list", "object.List.MarshalJSON over object.Map.MarshalJSON"),
  ("json.marshal-nested-map", "object.Map.MarshalJSON over itself"),
  ("go-json.Marshal", "object.Map.MarshalJSON called by the host"),
  ("encode-json", "object.Map.Interface + encoding/json"),
  ("http-data", "object.Map.Interface + encoding/json"),
  ("exec-params", "modules/exec.configureCommand 0"),
  ("exec-env-values", "modules/exec.configureCommand 1"),
  ("exec-env-order", "modules/exec.configureCommand 1"),
  ("http-headers", "modules/http.HttpRequest.AddHeaders 0")
]

/-! ## Part 6 — several tables merged into one map; candidates probed in a priority order

Two places where the code walks a SLICE (a fixed order) and the result is a function of that
order: `DefaultGlobals` writes the builtin tables of five packages one after the other into the
globals map (two tables may define the same name: the LATER table wins), and
`readFileWithExtensions` tries the configured extensions one after the other (the FIRST file that
exists is the module).  The adversaries: the visiting order inside each table; the order in which
the answers of the filesystem arrive. -/

/-- `DefaultGlobals`: `tabs` are the tables in the order of the slice, each one in the visiting
    order of its own `range`; every entry is written under its own key -/
def mergeTables (tabs : List (List (String × V))) (m0 : AMap V) : AMap V :=
  tabs.foldl (fun m t => foldInsert (fun _ _ => true) (fun _ v => v) t m) m0

/-- Spec: the binding of a name is that of the LAST table (in slice order) that defines it -/
def lastDefining (tabs : List (List (String × V))) (m0 : AMap V) (k : String) : Option V :=
  match tabs.reverse.findSome? (fun t => (t.find? (fun kv => kv.1 == k)).map (·.2)) with
  | some v => some v
  | none => m0 k

/-- the forbidden variant: the tables themselves are held in a Go map and visited in ITS order -/
def mergeTablesRanged (perm : List Nat) (tabs : List (List (String × V))) (m0 : AMap V) : AMap V :=
  mergeTables (applyPerm perm tabs) m0

/-- `readFileWithExtensions`: the extensions are tried one after the other, the first one whose
    file exists (and can be read) is the module's file; `present` = the filesystem -/
def pickExtension (exts : List String) (present : String → Bool) : Option String :=
  exts.find? present

/-- the forbidden variant: all candidates are probed at once and the first answer that ARRIVES
    wins (`arrival` = the order in which the probes finish: scheduling, latency per file) -/
def pickExtensionRaced (arrival : List Nat) (exts : List String) (present : String → Bool) : Option String :=
  (applyPerm arrival exts).find? present

/-! ## Part 9 — declarations that introduce several names at once

`from m import a, b as c, d`, `a, b := [1, 2]`, `func f(p, q) {…}`: every name gets the next free
slot of the symbol table of its scope (a global slot at top level, a local slot inside a
function) unless it is already there.  The property demands that the slots follow the SOURCE:
`compileFromImport` builds a Go map name → alias, but declares the names by walking the import
list, so the map's visiting order (the adversary's parameter `vis`) is never consulted. -/

/-- get-or-insert: a name that is already in the table keeps its slot, a new one is appended -/
def declare (tab : List String) (n : String) : List String := if tab.contains n then tab else tab ++ [n]

/-- the names are declared one after the other in the order of the list -/
def declareAll (ns : List String) (tab : List String) : List String := ns.foldl declare tab

/-- `aliases[name]` after the map was filled in source order: the LAST alias written for a name -/
def aliasOf (ims : List (String × String)) (name : String) : String :=
  match ims.reverse.find? (fun p => p.1 == name) with
  | some p => p.2
  | none => name

/-- the names one statement declares, in source order (for a from-import: the alias the map
    holds for each imported name; for the other forms name = alias) -/
def declNames (ims : List (String × String)) : List String := ims.map fun p => aliasOf ims p.1

/-- one declaring statement as the code compiles it: the table afterwards and the operands of
    the stores (the slot of each declared name, in source order).  `vis` is the adversary's
    visiting order of the alias map: the loop walks the import list, not the map -/
def declStmt (_vis : List Nat) (ims : List (String × String)) (tab : List String) : List String × List Nat :=
  let ns := declNames ims
  let tab' := declareAll ns tab
  (tab', ns.map tab'.idxOf)

/-- the forbidden variant: the names are declared by ranging over the alias map -/
def declStmtMapOrdered (vis : List Nat) (ims : List (String × String)) (tab : List String) : List String × List Nat :=
  let ns := declNames ims
  let tab' := declareAll (applyPerm vis ns.eraseDups) tab
  (tab', ns.map tab'.idxOf)

/-- a sequence of declaring statements of one scope, each with its own adversary annotation -/
def declProgram (step : List Nat → List (String × String) → List String → List String × List Nat) :
    List (List Nat × List (String × String)) → List String → List String × List (List Nat)
  | [], tab => (tab, [])
  | (vis, ims) :: rest, tab =>
    let r := step vis ims tab
    let r' := declProgram step rest r.1
    (r'.1, r.2 :: r'.2)

end Risor.C05
