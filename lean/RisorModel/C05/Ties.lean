import RisorModel.C05.Model
import RisorModel.Generated.C05
/-!
C05 ties: the list of `range`-over-map sites regenerated from the source tree on this run
(go/types over compiler, vm, object, builtins, importer, os, parser, ast, errz, op and the
root package) is exactly the reviewed list every entry of which carries a classification in
`Risor.C05.mapSites`.  A new `range` over a map anywhere in scope, a removed one, a loop body
that starts doing something else (writes, appends, emits, returns), or a removed `sort` call
after a collecting loop breaks `map_range_sites_classified`.
-/
namespace Risor.C05

/-- every regenerated site is in the reviewed table, with the reviewed body shape, and
    the table has no stale entries -/
theorem map_range_sites_classified :
    Risor.Generated.C05.mapRangeSites = mapSites.map (fun s => (s.1, s.2.1, s.2.2.1, s.2.2.2.1)) := by
  decide

/-- every site classified "sorted afterwards" is followed by a sort call in its function,
    on this run's source -/
theorem sorted_sites_have_sort :
    (mapSites.filter (fun s => s.2.2.2.2 == SiteClass.sortedAfter)).all (fun s => s.2.2.2.1) = true := by
  decide

/-- every type of package object that implements object.Object is in the reviewed inventory,
    with the reviewed answers to: does it have a `String()` method; do the fmt calls inside its
    `Inspect()` / `String()` have an operand that could print an address.  A new object type,
    a removed `String()`, a `%p`, or a pointer/channel/func/interface operand added to any
    `Inspect()`/`String()` breaks this lemma. -/
theorem object_types_reviewed : Risor.Generated.C05.objectTypes = objTypes := by
  decide

/-- the inventory the rendering theorems quantify over (`Kind`) names exactly these types -/
theorem kinds_are_the_object_types : allKinds.map Kind.goName = objTypes.map (·.1) := by
  decide

/-- `object.PrintableValue` still dispatches primitives → Go value, time → RFC3339,
    Stringer → `String()`, everything else → `Inspect()` (the model's `RObj.printable`) -/
theorem printable_dispatch_reviewed : Risor.Generated.C05.printableDispatch = printableCases := by
  decide

/-- the functions that hand script values to a fmt verb, and through what -/
theorem format_sites_reviewed : Risor.Generated.C05.formatSites = formatSitesReviewed := by
  decide

/-- the packages the extractor walked are the property's scope -/
theorem scope_is_complete :
    Risor.Generated.C05.scope =
      ["risor", "ast", "builtins", "compiler", "errz", "importer", "object", "op", "os", "parser", "vm",
       "arg", "lexer", "limits", "token",
       "modules/all", "modules/base64", "modules/bytes", "modules/dns", "modules/errors", "modules/exec",
       "modules/filepath", "modules/fmt", "modules/http", "modules/json", "modules/math", "modules/net",
       "modules/os", "modules/rand", "modules/regexp", "modules/strconv", "modules/strings", "modules/time"] := by
  decide

/-- every directory under modules/ that belongs to the root module (what the default globals
    of `risor.Eval` can hold) is walked: a new module directory breaks this lemma -/
theorem root_modules_in_scope :
    Risor.Generated.C05.rootModules.all (fun m => Risor.Generated.C05.scope.contains m) = true := by
  decide

/-- the json paths: the `MarshalJSON` method of every object type is what was reviewed — the
    containers hand their Go map / sorted listing / slice to `encoding/json` in ONE call (which
    sorts map keys before it marshals the values), the unmarshalable types fail outright.  A
    `MarshalJSON` that starts walking the elements itself (a `range`, a loop, several
    statements) is printed as `other…` and breaks this lemma. -/
theorem marshal_paths_reviewed : Risor.Generated.C05.marshalPaths = marshalPathsReviewed := by
  decide

set_option maxRecDepth 16384 in
/-- the hash keys: the `HashKey()` method of every type that can be a member of a set is what was
    reviewed — one `HashKey` literal built from the type name and the value itself (the model's
    `HV.key`).  A method that starts hashing, truncating, or reading package-level state (a seed),
    a new hashable type or a removed one breaks this lemma. -/
theorem hash_keys_reviewed : Risor.Generated.C05.hashKeys = hashKeysReviewed := by
  decide

set_option maxRecDepth 16384 in
/-- the choosing loop of `VirtualOS.findMount` is the loop that was read against the model's
    `selStep`: exact match returns, a qualifying mount point replaces the candidate only when its
    key is longer than the KEY of the candidate (`len(k) > len(matchKey)`, `match` and `matchKey`
    replaced together — the loop as repaired; the text it had before, with
    `len(k) > len(match.Target)`, is `preFixFindMountLoops` and no longer passes) -/
theorem find_mount_loop_reviewed : Risor.Generated.C05.findMountLoops = findMountLoopsReviewed := by
  decide

end Risor.C05
