import RisorModel.C05.Lemmas
/-!
C05 — evaluation and compilation are deterministic.

Go's map iteration is an adversary: a `range` over a map may visit the entries in ANY order.
In the model every such loop receives the visited order `vis` explicitly; "the result does
not depend on hash-map iteration order" is `f vis₁ = f vis₂` for all `vis₁ ~ vis₂`
(`List.Perm`).  Every theorem below quantifies over ALL maps (lists of any length), ALL
visiting orders and, for the language part, ALL programs of the fragment of any size and
ALL adversary annotations; nothing is bounded.

A second adversary chooses the ADDRESS of every allocation: an object graph (`RObj`) carries
an address at every node and "nothing observable depends on memory addresses" is
`route o = route o'` for all graphs `o`, `o'` that are equal up to addresses
(`render_address_independent`, for every rendering route of the code and every object type).

Three defects found by this check were repaired in /repo and the model follows the repaired code:
`VirtualOS.Environ` and `MockFS.ReadDir` sort their listing (`environ_perm_invariant`,
`readDir_perm_invariant`), the `error()` builtin formats through `PrintableValue` (covered by
`render_address_independent`); the pre-fix behaviours are kept as `C05_fixed_…` statements.
-/
namespace Risor.C05

/-- the entries of a Go map have pairwise distinct keys -/
def KeysDistinct (l : List (String × V)) : Prop := l.Pairwise (fun a b => a.1 ≠ b.1)

/-! ## site classes -/

/-- **collect, then sort** (`Map.SortedKeys`, `object.Keys`, `Config.GlobalNames`,
    `newGoType` attribute names, `Set.SortedItems` with its total order on hash keys): for
    every key list and every two visiting orders of it the sorted result is the same.  Hence
    map/set iteration, printing, `keys()`, `values()`, `items()` are order-independent. -/
theorem sortedKeys_perm_invariant {vis₁ vis₂ : List String} (h : vis₁.Perm vis₂) :
    sortedKeys vis₁ = sortedKeys vis₂ :=
  isort_unique sle sle_trans sle_total sle_antisymm h

/-- the same for any comparator that is a total order on the visited items (what
    `Set.SortedItems` needs: hash keys of distinct set members are distinct) -/
theorem sorted_perm_invariant (le : α → α → Bool)
    (trans : ∀ a b c, le a b = true → le b c = true → le a c = true)
    (total : ∀ a b, (le a b || le b a) = true)
    (antisymm : ∀ a b, le a b = true → le b a = true → a = b)
    {vis₁ vis₂ : List α} (h : vis₁.Perm vis₂) : isort le vis₁ = isort le vis₂ :=
  isort_unique le trans total antisymm h

/-- the result of sorting is sorted and contains exactly the visited keys (so the previous
    theorem is not vacuous: this is the list Go's `sort.Strings` returns) -/
theorem sortedKeys_sorted_perm (vis : List String) :
    (sortedKeys vis).Pairwise (fun a b => a ≤ b) ∧ (sortedKeys vis).Perm vis := by
  refine ⟨?_, isort_perm sle vis⟩
  have := isort_sorted sle sle_trans sle_total vis
  simpa [sle, sortedKeys] using this

/-- **write each entry under its own key into another map** (`Map.Copy/Update/Interface`,
    the set operations, `AsObjects` on its success path, `WithGlobals`, `DefaultGlobals`,
    `symbolTableFromDefinition`, `VirtualMachine.Clone`, …): for every source map (distinct
    keys), every pure filter `keep` and transformation `f`, every starting map `m0` and every
    two visiting orders, the resulting abstract map is the same. -/
theorem insert_fold_perm_invariant (keep : String → V → Bool) (f : String → V → W)
    {vis₁ vis₂ : List (String × V)} (h : vis₁.Perm vis₂) (hd : KeysDistinct vis₁) (m0 : AMap W) :
    foldInsert keep f vis₁ m0 = foldInsert keep f vis₂ m0 := by
  unfold foldInsert
  refine foldl_perm_of_comm _ (fun (a b : String × _) => a.1 ≠ b.1) (fun h => Ne.symm h) ?_ h hd m0
  intro s x y hxy
  by_cases hx : keep x.1 x.2 = true <;> by_cases hy : keep y.1 y.2 = true <;> simp only [hx, hy, if_true]
  · exact AMap.set_comm s hxy _ _
  all_goals rfl

/-- **delete every visited key from another map** (`Config.applyDenylist`, top-level names) -/
theorem delete_fold_perm_invariant {vis₁ vis₂ : List String} (h : vis₁.Perm vis₂) (m0 : AMap V) :
    foldDelete vis₁ m0 = foldDelete vis₂ m0 := by
  unfold foldDelete
  refine foldl_perm_of_comm _ (fun _ _ => True) (fun _ => trivial) ?_ h ?_ m0
  · intro s x y _
    exact AMap.del_comm s x y
  · exact pairwise_true _

/-- **assignment by index** (`compileFunc`: `defaults[paramsIdx[name]] = value`): for every
    injective index on the visited names the filled array is the same for every visiting order -/
theorem defaults_by_index_perm_invariant (idx : String → Nat)
    {vis₁ vis₂ : List (String × V)} (h : vis₁.Perm vis₂)
    (hinj : vis₁.Pairwise (fun a b => idx a.1 ≠ idx b.1)) (arr : List (Option V)) :
    assignByIndex idx vis₁ arr = assignByIndex idx vis₂ arr := by
  unfold assignByIndex
  refine foldl_perm_of_comm _ (fun (a b : String × V) => idx a.1 ≠ idx b.1) (fun h => Ne.symm h) ?_ h hinj arr
  intro s x y hxy
  exact List.set_comm _ _ hxy

/-- **conjunction of a pure test** (`Map.Equals`, `Set.Equals`, `builtins.All`) -/
theorem all_entries_perm_invariant (p : α → Bool) {vis₁ vis₂ : List α} (h : vis₁.Perm vis₂) :
    allEntries p vis₁ = allEntries p vis₂ := h.all_eq

/-- **disjunction of a pure test** (`builtins.Any`) -/
theorem any_entry_perm_invariant (p : α → Bool) {vis₁ vis₂ : List α} (h : vis₁.Perm vis₂) :
    anyEntry p vis₁ = anyEntry p vis₂ := h.any_eq

/-- **first failing entry decides** (`modules/exec.configureCommand`; before their repair also
    `compileFunc` defaults, `AsObjects`, `FromGoType`, `MapConverter`, `StructConverter`): the
    reported error does not depend on the visiting order provided all failing entries fail with
    the same error (in particular when at most one entry fails). -/
theorem first_failure_perm_invariant (err : α → Option ε) {vis₁ vis₂ : List α} (h : vis₁.Perm vis₂)
    (hsame : ∀ a ∈ vis₁, ∀ b ∈ vis₁, ∀ ea eb, err a = some ea → err b = some eb → ea = eb) :
    firstFailure err vis₁ = firstFailure err vis₂ := by
  unfold firstFailure
  cases h1 : vis₁.findSome? err with
  | none =>
    cases h2 : vis₂.findSome? err with
    | none => rfl
    | some e =>
      obtain ⟨b, hb, hbe⟩ := List.exists_of_findSome?_eq_some h2
      have := List.findSome?_eq_none_iff.1 h1 b (h.mem_iff.2 hb)
      rw [this] at hbe
      cases hbe
  | some e1 =>
    obtain ⟨a, ha, hae⟩ := List.exists_of_findSome?_eq_some h1
    cases h2 : vis₂.findSome? err with
    | none =>
      have := List.findSome?_eq_none_iff.1 h2 a (h.mem_iff.1 ha)
      rw [this] at hae
      cases hae
    | some e2 =>
      obtain ⟨b, hb, hbe⟩ := List.exists_of_findSome?_eq_some h2
      rw [hsame a ha b (h.mem_iff.2 hb) e1 e2 hae hbe]

/-- the full statement for first-failure loops is false … -/
def firstFailure_full : Prop :=
  ∀ (err : String → Option String) (vis₁ vis₂ : List String), vis₁.Perm vis₂ →
    firstFailure err vis₁ = firstFailure err vis₂

/-- … witness: two parameters with different unsupported defaults, `func f(a=[1], b=[2]) {}` -/
theorem first_failure_counterexample : ¬ firstFailure_full := by
  intro h
  have := h (fun s => some ("unsupported default value (got " ++ s ++ ")")) ["[1]", "[2]"] ["[2]", "[1]"]
    (List.Perm.swap _ _ _)
  revert this
  decide

/-- **conversions of a map at the host boundary** (`AsObjects`, `FromGoType`, `MapConverter.To/From`,
    `StructConverter.To` since `fix: convert the entries of a map in sorted key order`): for EVERY
    error function — any number of failing entries, each with its own error — and every two
    visiting orders of the map the reported error is the same.  The former guard (at most one
    kind of failure, finding C05-conversion-error-order) is gone. -/
theorem conversion_perm_invariant (err : String → Option ε) {vis₁ vis₂ : List String}
    (h : vis₁.Perm vis₂) : convertSorted err vis₁ = convertSorted err vis₂ := by
  unfold convertSorted
  rw [sortedKeys_perm_invariant h]

/-- the loops as they were before the repair: the full statement is refuted by the old witness
    (`s.F({"a": "x", "b": [1]})`: `string given` under one visiting order, `list given` under
    the other) — on which the repaired loops report `string given` under both -/
theorem C05_fixed_conversion_error_order :
    (¬ ∀ (err : String → Option String) (vis₁ vis₂ : List String), vis₁.Perm vis₂ →
        preFixConvert err vis₁ = preFixConvert err vis₂) ∧
    (let err := fun k => if k = "a" then some "expected int (string given)" else some "expected int (list given)"
     preFixConvert err ["a", "b"] ≠ preFixConvert err ["b", "a"] ∧
     convertSorted err ["a", "b"] = some "expected int (string given)" ∧
     convertSorted err ["b", "a"] = some "expected int (string given)") := by
  refine ⟨fun h => ?_, by decide⟩
  have := h (fun k => if k = "a" then some "s" else some "l") ["a", "b"] ["b", "a"] (List.Perm.swap _ _ _)
  revert this
  decide

/-- **`compileFunc` defaults** since `fix: report the first unsupported parameter default in
    declaration order`: for every parameter list, every defaults map (distinct keys: it is a Go
    map), every error function and every two visiting orders of the map the reported error is
    the same — the one of the first parameter, in declaration order, whose default is
    unsupported.  The former guard (one kind of failure, finding C05-func-defaults-error-order)
    is gone. -/
theorem func_defaults_perm_invariant (err : D → Option ε) (params : List String)
    {vis₁ vis₂ : List (String × D)} (h : vis₁.Perm vis₂) (hd : KeysDistinct vis₁) :
    funcDefaults err params vis₁ = funcDefaults err params vis₂ := by
  unfold funcDefaults
  rw [insert_fold_perm_invariant _ _ h hd]

/-- the loop before the repair is refuted by the old witness `func f(a=[1], b=[2]) {}`; the
    repaired loop reports `[1]` under both visiting orders -/
theorem C05_fixed_func_defaults_error_order :
    (¬ ∀ (err : String → Option String) (params : List String) (vis₁ vis₂ : List (String × String)),
        vis₁.Perm vis₂ → KeysDistinct vis₁ → preFixFuncDefaults err params vis₁ = preFixFuncDefaults err params vis₂) ∧
    funcDefaults (fun s => some ("unsupported default value (got " ++ s ++ ")")) ["a", "b"] [("a", "[1]"), ("b", "[2]")]
      = some "unsupported default value (got [1])" ∧
    funcDefaults (fun s => some ("unsupported default value (got " ++ s ++ ")")) ["a", "b"] [("b", "[2]"), ("a", "[1]")]
      = some "unsupported default value (got [1])" := by
  refine ⟨fun h => ?_, by decide, by decide⟩
  have := h (fun s => some s) ["a", "b"] [("a", "[1]"), ("b", "[2]")] [("b", "[2]"), ("a", "[1]")]
    (List.Perm.swap _ _ _) (by simp [KeysDistinct])
  revert this
  decide

/-- **`Config.applyOverrides`** since `fix: apply global overrides in sorted order of their
    names`: for every overrides map (distinct names), ANY number of invalid values among them,
    and every two visiting orders the resulting globals are the same — the overrides whose names
    sort before the smallest invalid name are applied.  The former hypothesis of
    `apply_overrides_partial` (no invalid value, finding C05-overrides-abort-order) is gone. -/
theorem apply_overrides_perm_invariant {vis₁ vis₂ : List (String × Option V)} (h : vis₁.Perm vis₂)
    (hd : KeysDistinct vis₁) (m0 : AMap V) :
    applyOverridesSorted vis₁ m0 = applyOverridesSorted vis₂ m0 := by
  unfold applyOverridesSorted
  rw [insert_fold_perm_invariant _ _ h hd, sortedKeys_perm_invariant (h.map (·.1))]

/-- the loop body over the VISITING order (the code before the repair) agrees with an
    order-independent fold when no entry is invalid … -/
theorem apply_overrides_partial {vis₁ vis₂ : List (String × Option V)} (h : vis₁.Perm vis₂)
    (hd : KeysDistinct vis₁) (hv : ∀ e ∈ vis₁, e.2.isSome = true) (m0 : AMap V) :
    applyOverrides vis₁ m0 = applyOverrides vis₂ m0 := by
  have key : ∀ (l : List (String × Option V)) (m : AMap V), (∀ e ∈ l, e.2.isSome = true) →
      applyOverrides l m = l.foldl (fun m kv => match kv.2 with | some v => m.set kv.1 v | none => m) m := by
    intro l
    induction l with
    | nil => intro m _; rfl
    | cons e r ih =>
      intro m hv
      obtain ⟨k, v⟩ := e
      cases v with
      | none => have := hv (k, none) (by simp); simp at this
      | some v =>
        simp only [applyOverrides, List.foldl_cons]
        exact ih _ (fun e he => hv e (by simp [he]))
  rw [key vis₁ m0 hv, key vis₂ m0 (fun e he => hv e (h.mem_iff.2 he))]
  refine foldl_perm_of_comm _ (fun (a b : String × _) => a.1 ≠ b.1) (fun h => Ne.symm h) ?_ h hd m0
  intro s x y hxy
  obtain ⟨kx, vx⟩ := x
  obtain ⟨ky, vy⟩ := y
  cases vx <;> cases vy <;> simp only
  exact AMap.set_comm s hxy _ _

/-- … and depended on the visiting order as soon as one invalid entry is present (the code
    before the repair): with `math.sqrt` invalid and `math.abs` valid, `abs` is overridden in
    one order and not in the other -/
theorem apply_overrides_counterexample :
    applyOverrides [("abs", some 777), ("sqrt", none)] AMap.empty "abs" = some 777 ∧
    applyOverrides [("sqrt", none), ("abs", some 777)] (AMap.empty : AMap Nat) "abs" = none := by
  constructor <;> rfl

/-- finding C05-overrides-abort-order, fixed: on the old witness the repaired loop applies
    `abs` (it sorts before `sqrt`) under both visiting orders -/
theorem C05_fixed_overrides_abort_order :
    applyOverridesSorted [("abs", some 777), ("sqrt", none)] AMap.empty "abs" = some 777 ∧
    applyOverridesSorted [("sqrt", none), ("abs", some 777)] (AMap.empty : AMap Nat) "abs" = some 777 := by
  constructor <;> decide

/-- the seven repaired loops no longer appear in the site table as first-failure loops over a
    map: six are gone (they walk a list), `applyOverrides` only collects the names it sorts, and
    the new helper `sortedMapKeys` is a collect-then-sort site -/
theorem C05_fixed_first_failure_sites :
    preFixFirstFailureSites.all (fun s => !(mapSites.any fun t =>
      t.1 == s.1 && t.2.1 == s.2.1 && t.2.2.2.2 == s.2.2.2.2)) = true ∧
    mapSites.any (fun t => t.1 == "risor.Config.applyOverrides" && t.2.2.2.1 && t.2.2.2.2 == SiteClass.sortedAfter) = true ∧
    mapSites.any (fun t => t.1 == "object.sortedMapKeys" && t.2.2.2.1 && t.2.2.2.2 == SiteClass.sortedAfter) = true := by
  decide

/-- **result lists the entries in visiting order** (`ast.Map.String`, the emission loop of
    `compileMap`; before their repair also `VirtualOS.Environ` and `MockFS.ReadDir`): two
    visiting orders of a map with two different entries give two different results -/
theorem visiting_order_counterexample :
    ∃ vis₁ vis₂ : List String, vis₁.Perm vis₂ ∧
      inVisitingOrder id vis₁ ≠ inVisitingOrder id vis₂ :=
  ⟨["A=1", "B=2"], ["B=2", "A=1"], List.Perm.swap _ _ _, by decide⟩

/-! ## the two listings repaired in /repo: `VirtualOS.Environ` and `MockFS.ReadDir` -/

/-- **`VirtualOS.Environ`** (`os.environ()` under a virtual OS), as repaired: for EVERY
    environment (any number of variables, any names and values) and every two visiting orders
    of the env map the returned listing is the same. -/
theorem environ_perm_invariant {vis₁ vis₂ : List (String × String)} (h : vis₁.Perm vis₂) :
    environ vis₁ = environ vis₂ := by
  unfold environ inVisitingOrder
  exact sortedKeys_perm_invariant (h.map envLine)

/-- the listing is sorted and consists of exactly the `KEY=value` lines of the map (so the
    previous theorem is not vacuous: this is what `sort.Strings` returns) -/
theorem environ_sorted_perm (vis : List (String × String)) :
    (environ vis).Pairwise (fun a b => a ≤ b) ∧ (environ vis).Perm (vis.map envLine) :=
  sortedKeys_sorted_perm _

/-- BEFORE the repair ("fix: return the environment of a virtual OS in sorted order"; finding
    C05-virtualos-environ-order) the listing followed the visiting order: two orders of
    `{A: 1, B: 2}`, two different listings -/
theorem C05_fixed_environ_was_visiting_order :
    ∃ vis₁ vis₂ : List (String × String), vis₁.Perm vis₂ ∧ environPreFix vis₁ ≠ environPreFix vis₂ ∧
      environ vis₁ = environ vis₂ :=
  ⟨[("A", "1"), ("B", "2")], [("B", "2"), ("A", "1")], List.Perm.swap _ _ _, by decide, by decide⟩

/-- the sort is over the whole `KEY=value` line, as the code does it (`V10=x` before `V1=x`) -/
example : environ [("V1", "x"), ("B", ""), ("V10", "x")] = ["B=", "V10=x", "V1=x"] := by decide

/-- **`MockFS.ReadDir`**, as repaired: for EVERY mock filesystem content (entries = (path,
    filename, info), the paths pairwise distinct because they are the keys of one Go map; any
    number of entries, filenames may repeat) and every two visiting orders of the `fileInfos`
    map, the returned listing — filenames AND the file infos attached to them — is the same. -/
theorem readDir_perm_invariant {vis₁ vis₂ : List (String × String × I)} (h : vis₁.Perm vis₂)
    (hd : KeysDistinct vis₁) : readDir vis₁ = readDir vis₂ := by
  unfold readDir
  congr 1
  refine isort_unique_on _ (fun a b c => entLe_trans (a.2.1, a.1) (b.2.1, b.1) (c.2.1, c.1))
    (fun a b => entLe_total (a.2.1, a.1) (b.2.1, b.1)) h ?_
  intro a ha b hb h1 h2
  have := entLe_antisymm (a.2.1, a.1) (b.2.1, b.1) h1 h2
  exact eq_of_key_eq hd a ha b hb (by simpa using congrArg Prod.snd this)

/-- the listing is sorted by filename (what `os.ReadDir` promises) and consists of exactly
    the visited entries -/
theorem readDir_sorted_by_name (vis : List (String × String × I)) :
    (readDir vis).Pairwise (fun a b => a.1 ≤ b.1) ∧
      (readDir vis).Perm (vis.map fun e => (e.2.1, e.2.2)) := by
  unfold readDir
  constructor
  · have hs := isort_sorted (fun (a b : String × String × I) => entLe (a.2.1, a.1) (b.2.1, b.1))
      (fun a b c => entLe_trans (a.2.1, a.1) (b.2.1, b.1) (c.2.1, c.1))
      (fun a b => entLe_total (a.2.1, a.1) (b.2.1, b.1)) vis
    rw [List.pairwise_map]
    refine hs.imp ?_
    intro a b hab
    unfold entLe at hab
    simp only at hab
    split at hab
    · exact Std.le_of_lt (by simpa using hab)
    · rename_i hne
      have : a.2.1 = b.2.1 := by simpa using hne
      rw [this]
      exact String.le_refl _
  · exact (isort_perm _ vis).map _

/-- BEFORE the repair ("fix: return the entries of a MockFS directory sorted by filename";
    finding C05-mockfs-readdir-order) the listing followed the visiting order -/
theorem C05_fixed_readdir_was_visiting_order :
    ∃ vis₁ vis₂ : List (String × String × Nat), vis₁.Perm vis₂ ∧ KeysDistinct vis₁ ∧
      readDirPreFix vis₁ ≠ readDirPreFix vis₂ ∧ readDir vis₁ = readDir vis₂ :=
  ⟨[("/d/a", "a", 1), ("/d/b", "b", 2)], [("/d/b", "b", 2), ("/d/a", "a", 1)], List.Perm.swap _ _ _,
    by simp [KeysDistinct], by decide, by decide⟩

/-- non-vacuity: a directory listing with a repeated filename (the listing of `/`, which
    includes all descendants): by filename, then by path -/
example : readDir [("/d/f2", "f2", 0), ("/e/f1", "f1", 1), ("/d/f1", "f1", 2)]
    = [("f1", 2), ("f1", 1), ("f2", 0)] := by decide

/-- the reviewed table follows the repair: the two sites were classified "visiting order"
    (findings) with no sort call after the loop, and are "sorted afterwards" with a sort call now -/
theorem C05_fixed_sites_were_unsorted :
    preFixSites.all (fun s => !s.2.2.2.1 && (mapSites.any fun t =>
      t.1 == s.1 && t.2.1 == s.2.1 && t.2.2.1 == s.2.2.1 && t.2.2.2.1 && t.2.2.2.2 == SiteClass.sortedAfter)
      && (s.2.2.2.2 == SiteClass.visitingOrder "C05-mockfs-readdir-order"
          || s.2.2.2.2 == SiteClass.visitingOrder "C05-virtualos-environ-order")) = true := by
  decide

/-! ## `Set.SortedItems`, `sorted()`, the import cache -/

/-- the full statement for `Set.SortedItems` (printing, iterating, `list()`, `sorted()` of a
    set): for every set and every two visiting orders of its hash keys the listing is the same -/
def sortedItems_full : Prop :=
  ∀ vis₁ vis₂ : List HKey, vis₁.Perm vis₂ → sortedItems vis₁ = sortedItems vis₂

/-- guard: no member of the set is a NaN float -/
def nanKey : HKey := ⟨"float", 0, "", 0, true⟩
def fltKey (ord : Int) : HKey := ⟨"float", 0, "", ord, false⟩

/-- `sortedItems_full` is false: a NaN is neither less than nor greater than any float, so
    `{NaN, 1.0, 2.0}` is listed as `NaN, 1, 2` / `1, NaN, 2` / `1, 2, NaN` / `2, NaN, 1` …
    depending on where the map iteration delivers the NaN -/
theorem sortedItems_counterexample_nan : ¬ sortedItems_full := by
  intro h
  have := h [fltKey 2, nanKey, fltKey 1] [nanKey, fltKey 2, fltKey 1]
    (List.Perm.swap _ _ _)
  revert this
  decide

/-- **`Set.SortedItems` for every NaN-free set**: for all sets of any size and content (ints,
    floats, strings, bools, nil, bytes, byte slices; the keys need not even be distinct) and
    every two visiting orders, the listing is the same.  Rests on the comparator examining
    every field of the hash key (`hkLess_incomp`): a comparator that skips a field — say the
    float value — leaves keys that differ only there in visiting order. -/
theorem sortedItems_perm_invariant {vis₁ vis₂ : List HKey} (h : vis₁.Perm vis₂)
    (hn : noNaN vis₁ = true) : sortedItems vis₁ = sortedItems vis₂ := by
  unfold sortedItems
  congr 1
  refine isort_unique_pred hkGe (fun k => k.nan = false) hkGe_trans hkGe_total hkGe_antisymm
    (((List.reverse_perm vis₁).trans h).trans (List.reverse_perm vis₂).symm) ?_
  intro x hx
  have := List.all_eq_true.1 hn x (List.mem_reverse.1 hx)
  simpa using this

/-- the listing is sorted (each item is not less than its predecessor) and contains exactly
    the visited keys; so it is the list Go's `sort.Slice` returns -/
theorem sortedItems_sorted_perm (vis : List HKey) (hn : noNaN vis = true) :
    (sortedItems vis).Pairwise (fun a b => hkLess b a = false) ∧ (sortedItems vis).Perm vis := by
  unfold sortedItems
  constructor
  · have hs := isort_sorted_on hkGe (fun k => k.nan = false) hkGe_trans hkGe_total vis.reverse (by
      intro x hx
      have := List.all_eq_true.1 hn x (List.mem_reverse.1 hx)
      simpa using this)
    rw [List.pairwise_reverse]
    refine hs.imp ?_
    intro a b hab
    simpa [hkGe] using hab
  · exact (List.reverse_perm _).trans ((isort_perm hkGe _).trans (List.reverse_perm _))

/-- iterating a NaN-free set (`for x in s`, `list(s)`, unpacking) visits exactly the ordered
    listing, for every visiting order of the underlying Go map -/
theorem iterItems_perm_invariant {vis₁ vis₂ : List HKey} (h : vis₁.Perm vis₂)
    (hn : noNaN vis₁ = true) : iterItems vis₁ = iterItems vis₂ ∧ iterItems vis₁ = sortedItems vis₁ := by
  unfold iterItems
  rw [sortedItems_perm_invariant h hn]
  refine ⟨rfl, ?_⟩
  rw [← sortedItems_perm_invariant h hn]
  have key : ∀ l : List HKey, (∀ k ∈ l, (!k.nan) = true) → l.takeWhile (fun k => !k.nan) = l := by
    intro l
    induction l with
    | nil => intro _; rfl
    | cons a l ih =>
      intro hl
      rw [List.takeWhile_cons, hl a (List.mem_cons_self ..), if_pos rfl, ih (fun k hk => hl k (List.mem_cons_of_mem _ hk))]
  apply key
  intro k hk
  have hk' : k ∈ vis₁ := (sortedItems_sorted_perm vis₁ hn).2.mem_iff.1 hk
  exact List.all_eq_true.1 hn k hk'

/-- … and with a NaN member the iteration stops where the NaN happens to be listed:
    `list({NaN, 1.0, 2.0})` is `[]`, `[1]` or `[1, 2]` -/
theorem iterItems_counterexample_nan :
    iterItems [nanKey, fltKey 2, fltKey 1] = [] ∧ iterItems [fltKey 2, fltKey 1, nanKey] = [fltKey 1, fltKey 2] := by
  decide

/-- **`sorted(set, cmp)` / `sorted(map, cmp)`**: for every NaN-free set, every comparison
    function that is a strict weak order (given by the rank it assigns to each item; ties
    allowed) and every two visiting orders the result is the same — because the stable sort
    starts from the ordered listing -/
theorem sorted_builtin_perm_invariant (rank : HKey → Int) {vis₁ vis₂ : List HKey}
    (h : vis₁.Perm vis₂) (hn : noNaN vis₁ = true) :
    sortedBuiltin rank vis₁ = sortedBuiltin rank vis₂ := by
  unfold sortedBuiltin
  rw [sortedItems_perm_invariant h hn]

/-- … whereas a stable sort that starts from the visiting order itself keeps tied items in
    that order: with `cmp` unable to tell `"fig"` from `"yam"`, two different results -/
theorem stable_sort_of_visiting_order_counterexample :
    ∃ (rank : String → Int) (vis₁ vis₂ : List String), vis₁.Perm vis₂ ∧
      stableSortBy rank vis₁ ≠ stableSortBy rank vis₂ :=
  ⟨fun s => s.length, ["fig", "yam"], ["yam", "fig"], List.Perm.swap _ _ _, by decide⟩

/-- the stable sort is stable and sorts: tied items keep their relative order -/
example : stableSortBy (fun s : String => (s.length : Int)) ["pear", "fig", "kiwi", "yam", "date"]
    = ["fig", "yam", "pear", "kiwi", "date"] := by decide

/-- **the import cache** (`VirtualMachine.applyOptions`): for all globals (distinct names)
    and every two visiting orders the same module is cached under every name — each module
    is entered under the name of the global that holds it and under no other name -/
theorem module_cache_perm_invariant {vis₁ vis₂ : List (String × Option (String × Nat))}
    (h : vis₁.Perm vis₂) (hd : KeysDistinct vis₁) : moduleCache vis₁ = moduleCache vis₂ :=
  insert_fold_perm_invariant _ _ h hd AMap.empty

/-- `import X` resolves to the module held by the global called `X` (and not to a module
    that merely calls itself `X`) -/
example : moduleCache [("conf", some ("conf", 1)), ("conf_dev", some ("conf", 2)), ("n", none)] "conf" = some ("conf", 1)
    ∧ moduleCache [("conf_dev", some ("conf", 2)), ("conf", some ("conf", 1))] "conf" = some ("conf", 1)
    ∧ moduleCache [("conf_dev", some ("conf", 2))] "conf" = none := by decide

/-- … whereas entering a module also under its own name makes two globals whose modules
    share a name race for that entry -/
theorem module_cache_alias_counterexample :
    moduleCacheAlias [("conf", some ("conf", 1)), ("conf_dev", some ("conf", 2))] "conf" = some ("conf", 2) ∧
    moduleCacheAlias [("conf_dev", some ("conf", 2)), ("conf", some ("conf", 1))] "conf" = some ("conf", 1) := by
  decide

/-- non-vacuity: a NaN-free set with a member of every hashable type, two visiting orders -/
example : noNaN [fltKey 3, ⟨"int", 3, "", 0, false⟩, ⟨"string", 0, "a", 0, false⟩, fltKey (-1)] = true
    ∧ sortedItems [fltKey 3, ⟨"int", 3, "", 0, false⟩, ⟨"string", 0, "a", 0, false⟩, fltKey (-1)]
      = [fltKey (-1), fltKey 3, ⟨"int", 3, "", 0, false⟩, ⟨"string", 0, "a", 0, false⟩] := by decide

/-- the guard really excludes something -/
example : noNaN [fltKey 2, nanKey] = false := by decide

/-! ## the compiler and the VM on the language fragment -/

/-- `compiler.New` sorts the global names it is given: compilation (and hence evaluation)
    does not depend on the order in which `Config.GlobalNames`/`VMOpts`/`newVM` collected them -/
theorem globals_sorted_perm_invariant {names₁ names₂ : List String} (h : names₁.Perm names₂) (p : Prog) :
    compile names₁ p = compile names₂ p ∧ eval names₁ p = eval names₂ p := by
  have : initSymbols names₁ = initSymbols names₂ := by
    unfold initSymbols
    rw [sortedKeys_perm_invariant h]
  unfold eval compile
  simp only [this, and_self]

mutual
  theorem compE_strip : ∀ e : Expr, e.noBigMap = true → compE e = compE e.strip
    | .int _, _ => rfl
    | .str _, _ => rfl
    | .tru, _ => rfl
    | .fls, _ => rfl
    | .nil, _ => rfl
    | .var _, _ => rfl
    | .add a b, h => by
      simp only [Expr.noBigMap, Bool.and_eq_true] at h
      simp only [compE, Expr.strip, compE_strip a h.1, compE_strip b h.2]
    | .index a b, h => by
      simp only [Expr.noBigMap, Bool.and_eq_true] at h
      simp only [compE, Expr.strip, compE_strip a h.1, compE_strip b h.2]
    | .print xs, h => by
      simp only [Expr.noBigMap] at h
      simp only [compE, Expr.strip, compItems_strip xs h, Items.length_strip]
    | .list xs, h => by
      simp only [Expr.noBigMap] at h
      simp only [compE, Expr.strip, compItems_strip xs h, Items.length_strip]
    | .set xs, h => by
      simp only [Expr.noBigMap] at h
      simp only [compE, Expr.strip, compItems_strip xs h, Items.length_strip]
    | .map perm es, h => by
      simp only [Expr.noBigMap, Bool.and_eq_true, decide_eq_true_eq] at h
      simp only [compE, Expr.strip]
      rw [applyPerm_short perm _ (by rw [compEntries_length]; exact h.1),
        applyPerm_short [] _ (by rw [compEntries_length, Entries.length_strip]; exact h.1),
        compEntries_strip es h.2, Entries.length_strip]
  theorem compItems_strip : ∀ xs : Items, xs.noBigMap = true → compItems xs = compItems xs.strip
    | .nil, _ => rfl
    | .cons e r, h => by
      simp only [Items.noBigMap, Bool.and_eq_true] at h
      simp only [compItems, Items.strip, compE_strip e h.1, compItems_strip r h.2]
  theorem compEntries_strip : ∀ es : Entries, es.noBigMap = true → compEntries es = compEntries es.strip
    | .nil, _ => rfl
    | .cons k v r, h => by
      simp only [Entries.noBigMap, Bool.and_eq_true] at h
      simp only [compEntries, Entries.strip, compE_strip v h.1, compEntries_strip r h.2]
end

theorem compStmt_strip (s : Stmt) (h : s.noBigMap = true) : compStmt s = compStmt s.strip := by
  cases s with
  | decl x e => simp only [Stmt.noBigMap] at h; simp only [compStmt, Stmt.strip, compE_strip e h]
  | expr e => simp only [Stmt.noBigMap] at h; simp only [compStmt, Stmt.strip, compE_strip e h]

/-- inside the guard the adversary has no influence: the emitted code is that of the source text -/
theorem compile_strip (g : List String) (p : Prog) (h : p.noBigMap = true) :
    compile g p = compile g p.strip := by
  simp only [Prog.noBigMap, Bool.and_eq_true, List.all_eq_true] at h
  have h1 : p.stmts.map compStmt = (p.stmts.map Stmt.strip).map compStmt := by
    rw [List.map_map]
    apply List.map_congr_left
    intro s hs
    exact compStmt_strip s (h.1 s hs)
  unfold compile compProg
  simp only [Prog.strip, declared_strip, h1, compE_strip p.last h.2]

/-- **The property on the fragment, full statement**: for every configuration `g` and every
    two runs of the same source text (`p`, `q` differ only in the adversary's choices), the
    bytecode with its constant pool and symbol table is identical and so are the result and
    the printed output. -/
def C05_full : Prop :=
  ∀ (g : List String) (p q : Prog), p.strip = q.strip →
    compile g p = compile g q ∧ eval g p = eval g q

def dupKeyProg (perm : List Nat) : Prog :=
  ⟨[], .index (.map perm (.cons "a" (.int 1) (.cons "a" (.int 2) .nil))) (.str "a")⟩

/-- **`C05_full` is false on the unchanged code**: `{"a": 1, "a": 2}["a"]`.  When `range`
    visits the entries in source order the bytecode is `… "a" 1 "a" 2 BUILD_MAP` and the
    value is 1 (BUILD_MAP pops the later pair first, the earlier one overwrites it); in the
    other order the constants are swapped and the value is 2. -/
theorem C05_counterexample_map_literal : ¬ C05_full := by
  intro h
  have h2 := (h [] (dupKeyProg [0, 1]) (dupKeyProg [1, 0]) rfl).2
  have e1 : eval [] (dupKeyProg [0, 1]) = (.ok (.int 1), []) := by rfl
  have e2 : eval [] (dupKeyProg [1, 0]) = (.ok (.int 2), []) := by rfl
  rw [e1, e2] at h2
  simp at h2

/-- the bytecode alone already differs for distinct keys and pure values: `{"a": 1, "b": 2}` -/
theorem C05_counterexample_bytecode :
    compile [] ⟨[], .map [0, 1] (.cons "a" (.int 1) (.cons "b" (.int 2) .nil))⟩ ≠
    compile [] ⟨[], .map [1, 0] (.cons "a" (.int 1) (.cons "b" (.int 2) .nil))⟩ := by
  decide

/-- **`C05_partial`**: for every configuration (given in any two orders), every two runs of
    the same source text that contains no map literal with two or more entries (the decidable
    guard `Prog.noBigMap`), compilation yields identical bytecode, constants and symbols, and
    evaluation in a fresh VM yields the identical result and output. -/
theorem C05_partial (g₁ g₂ : List String) (hg : g₁.Perm g₂) (p q : Prog) (hs : p.strip = q.strip)
    (hp : p.noBigMap = true) (hq : q.noBigMap = true) :
    compile g₁ p = compile g₂ q ∧ eval g₁ p = eval g₂ q := by
  have hc : compile g₁ p = compile g₂ q := by
    rw [compile_strip g₁ p hp, compile_strip g₂ q hq, hs]
    exact (globals_sorted_perm_invariant hg q.strip).1
  exact ⟨hc, by unfold eval; rw [hc]⟩

/-- **BUILD_MAP with pairwise distinct keys**: the map value the VM builds (kept sorted by
    key, as it prints and iterates) is the same for every order in which the key/value pairs
    were pushed — so for a map literal with distinct keys only the bytecode, not the built
    value, depends on the adversary.  (`pairsToMap` is the fold `buildMapFrom` performs.) -/
theorem buildMap_perm_invariant {ps₁ ps₂ : List (String × Val)} (h : ps₁.Perm ps₂)
    (hd : KeysDistinct ps₁) :
    sortPairs (pairsToMap ps₁) = sortPairs (pairsToMap ps₂) := by
  have hd₂ : KeysDistinct ps₂ := (h.pairwise_iff (fun h => Ne.symm h)).1 hd
  have e₁ : pairsToMap ps₁ = ps₁ := by
    unfold pairsToMap; rw [foldl_mapSet_distinct ps₁ [] (by simpa [KeysDistinct] using hd)]; simp
  have e₂ : pairsToMap ps₂ = ps₂ := by
    unfold pairsToMap; rw [foldl_mapSet_distinct ps₂ [] (by simpa [KeysDistinct] using hd₂)]; simp
  rw [e₁, e₂]
  unfold sortPairs
  refine isort_unique_on _ (fun a b c => sle_trans a.1 b.1 c.1) (fun a b => sle_total a.1 b.1) h ?_
  intro a ha b hb h1 h2
  exact eq_of_key_eq hd a ha b hb (sle_antisymm a.1 b.1 h1 h2)

/-- with a duplicated key the built value does depend on the order: the pair pushed first wins -/
theorem buildMap_duplicate_key_counterexample :
    buildMapFrom [.int 2, .str "a", .int 1, .str "a"] 2 [] = some ([("a", .int 1)], []) ∧
    buildMapFrom [.int 1, .str "a", .int 2, .str "a"] 2 [] = some ([("a", .int 2)], []) := by
  constructor <;> rfl

/-- evaluation is a function of the bytecode: two compilations that agree evaluate alike
    (fresh VMs share nothing) -/
theorem eval_determined_by_code (g₁ g₂ : List String) (p q : Prog) (h : compile g₁ p = compile g₂ q) :
    eval g₁ p = eval g₂ q := by
  unfold eval; rw [h]

/-- whatever annotation the adversary picks, a map literal's entry blocks are a permutation of
    the source entries (the Impl model never invents or drops an entry) -/
theorem compileMap_visits_each_entry_once (perm : List Nat) (es : Entries) :
    (applyPerm perm (compEntries es)).Perm (compEntries es) := applyPerm_perm perm _

/-! ## rendering: the address of an allocation as a second adversary

An object graph is rendered through `Inspect()`, `PrintableValue` + a fmt verb (print, printf,
sprintf, errorf, fmt.*, errors.new, and — since its repair — the `error()` builtin),
`builtins.String` or string interpolation.  Every node carries the address the adversary chose
for its allocation; two graphs with the same `eraseAddr` are the same script value living at
different places in memory (another run, another process, another repetition). -/

theorem RObj.eraseAddr_kind (o : RObj) : o.eraseAddr.kind = o.kind := by cases o; rfl
theorem RObj.eraseAddr_raw (o : RObj) : o.eraseAddr.raw = o.raw := by cases o; rfl
theorem RObj.eraseAddr_aux (o : RObj) : o.eraseAddr.aux = o.aux := by cases o; rfl

theorem nodeInsp_congr (k : Kind) (txt : String) (ks ks' : List Rendered)
    (h1 : ks.map (·.insp) = ks'.map (·.insp))
    (h2 : k = .Cell → ks.map (·.fmtS) = ks'.map (·.fmtS)) :
    nodeInsp k txt ks = nodeInsp k txt ks' := by
  unfold nodeInsp
  by_cases hc : k = .Cell
  · simp only [hc, if_true, h2 hc]
  · simp only [hc, if_false, h1]

mutual
  /-- the two texts an object offers do not depend on any address in the graph: `Inspect()`
      never, `%s` of the object whenever the object has a `String()` method -/
  theorem render_erase : ∀ o : RObj, o.cellsOk = true →
      (render o.eraseAddr).insp = (render o).insp ∧
      (hasString o.kind = true → (render o.eraseAddr).fmtS = (render o).fmtS)
    | .mk k a txt raw aux kids, h => by
      simp only [RObj.cellsOk, Bool.and_eq_true, Bool.or_eq_true, bne_iff_ne, ne_eq] at h
      obtain ⟨hc, hk⟩ := h
      obtain ⟨ih1, ih2⟩ := renderAll_erase kids hk
      have hn : nodeInsp k txt (renderAll kids.eraseAddr) = nodeInsp k txt (renderAll kids) := by
        refine nodeInsp_congr k txt _ _ ih1 ?_
        intro hcell
        cases hc with
        | inl hne => exact absurd hcell hne
        | inr hs => exact ih2 hs
      refine ⟨?_, ?_⟩
      · simp only [RObj.eraseAddr, render, hn]
      · intro hs
        simp only [RObj.kind] at hs
        simp only [RObj.eraseAddr, render, hn, hs, if_true]
  theorem renderAll_erase : ∀ os : RObjs, os.cellsOk = true →
      (renderAll os.eraseAddr).map (·.insp) = (renderAll os).map (·.insp) ∧
      (os.allStringers = true →
        (renderAll os.eraseAddr).map (·.fmtS) = (renderAll os).map (·.fmtS))
    | .nil, _ => ⟨rfl, fun _ => rfl⟩
    | .cons o r, h => by
      simp only [RObjs.cellsOk, Bool.and_eq_true] at h
      obtain ⟨ho1, ho2⟩ := render_erase o h.1
      obtain ⟨hr1, hr2⟩ := renderAll_erase r h.2
      refine ⟨?_, ?_⟩
      · simp only [RObjs.eraseAddr, renderAll, List.map_cons, ho1, hr1]
      · intro hs
        simp only [RObjs.allStringers, Bool.and_eq_true] at hs
        simp only [RObjs.eraseAddr, renderAll, List.map_cons, ho2 hs.1, hr2 hs.2]
end

/-- `Inspect()` of a graph is that of the graph with all addresses forgotten -/
theorem inspect_erase (o : RObj) (h : o.cellsOk = true) : o.eraseAddr.inspect = o.inspect :=
  (render_erase o h).1

theorem strM_erase (o : RObj) (h : o.cellsOk = true) : o.eraseAddr.strM = o.strM := by
  unfold RObj.strM
  rw [RObj.eraseAddr_kind, RObj.eraseAddr_raw, inspect_erase o h]

theorem printable_erase (o : RObj) (h : o.cellsOk = true) : o.eraseAddr.printable = o.printable := by
  unfold RObj.printable
  rw [RObj.eraseAddr_kind, RObj.eraseAddr_raw, inspect_erase o h, strM_erase o h]

theorem stringBuiltin_erase (o : RObj) (h : o.cellsOk = true) :
    o.eraseAddr.stringBuiltin = o.stringBuiltin := by
  unfold RObj.stringBuiltin
  rw [RObj.eraseAddr_kind, RObj.eraseAddr_aux, inspect_erase o h, strM_erase o h]

theorem interp_erase (o : RObj) (h : o.cellsOk = true) : o.eraseAddr.interp = o.interp := by
  unfold RObj.interp
  rw [RObj.eraseAddr_kind, RObj.eraseAddr_raw, inspect_erase o h]

theorem errorFmt_erase (o : RObj) (h : o.cellsOk = true) : o.eraseAddr.errorFmt = o.errorFmt :=
  printable_erase o h

/-- the five rendering routes of the code, as one record -/
def routes (o : RObj) : String × String × String × String × String :=
  (o.inspect, o.printable, o.stringBuiltin, o.interp, o.errorFmt)

/-- **`render_address_independent`** — for ALL object graphs (every kind of the inventory at
    every node, any depth, any fan-out) and ALL pairs of address assignments (`o`, `o'` are the
    same graph up to addresses), the text produced by `Inspect()` (evaluation result, items
    inside lists/maps/sets/entries/partials/threads/iterators), by `PrintableValue` + `%v`
    (print, printf, sprintf, errorf, fmt.*, errors.new), by `string(x)`, by string
    interpolation and by the `error(fmt, args…)` builtin / `builtins.Sprintf` (since their repair
    in /repo: no guard on the kinds of objects any more) is identical.  Guard `cellsOk`: a cell holds an object with a `String()`
    method (`Cell.String` uses `%s`); cells are never script values (`…_script_values`). -/
theorem render_address_independent (o o' : RObj) (h : o.eraseAddr = o'.eraseAddr)
    (hc : o.cellsOk = true) (hc' : o'.cellsOk = true) : routes o = routes o' := by
  unfold routes
  rw [← inspect_erase o hc, ← printable_erase o hc, ← stringBuiltin_erase o hc, ← interp_erase o hc,
    ← errorFmt_erase o hc,
    ← inspect_erase o' hc', ← printable_erase o' hc', ← stringBuiltin_erase o' hc', ← interp_erase o' hc',
    ← errorFmt_erase o' hc', h]

mutual
  theorem cellFree_cellsOk : ∀ o : RObj, o.cellFree = true → o.cellsOk = true
    | .mk k a txt raw aux kids, h => by
      simp only [RObj.cellFree, Bool.and_eq_true] at h
      simp only [RObj.cellsOk, Bool.and_eq_true, Bool.or_eq_true]
      exact ⟨Or.inl h.1, cellFrees_cellsOk kids h.2⟩
  theorem cellFrees_cellsOk : ∀ os : RObjs, os.cellFree = true → os.cellsOk = true
    | .nil, _ => rfl
    | .cons o r, h => by
      simp only [RObjs.cellFree, Bool.and_eq_true] at h
      simp only [RObjs.cellsOk, Bool.and_eq_true]
      exact ⟨cellFree_cellsOk o h.1, cellFrees_cellsOk r h.2⟩
end

/-- the same for everything a script can get hold of (no `Cell` node: the VM dereferences
    cells before a value reaches the stack), without any other hypothesis -/
theorem render_address_independent_script_values (o o' : RObj) (h : o.eraseAddr = o'.eraseAddr)
    (hc : o.cellFree = true) (hc' : o'.cellFree = true) : routes o = routes o' :=
  render_address_independent o o' h (cellFree_cellsOk o hc) (cellFree_cellsOk o' hc')

/-- the full statement (no guard on cells) … -/
def render_full : Prop :=
  ∀ o o' : RObj, o.eraseAddr = o'.eraseAddr → routes o = routes o'

def chanAt (a : Nat) : RObj := .mk .Chan a "2" "" "" .nil

/-- … is false: a cell that holds a channel is formatted with `%s`, a channel has no
    `String()`, so fmt prints the pointer — `cell(0x…)` -/
theorem render_counterexample_cell : ¬ render_full := by
  intro h
  have := h (.mk .Cell 7 "" "" "" (.cons (chanAt 1) .nil)) (.mk .Cell 7 "" "" "" (.cons (chanAt 2) .nil)) rfl
  revert this
  decide

/-- **why the `Inspect()` fallback matters**: `PrintableValue` without it (an object that has
    no `String()` is handed to fmt as it is) renders the SAME channel differently at two
    addresses, whereas with the fallback both give `chan(2)` -/
theorem printable_without_fallback_counterexample :
    (chanAt 1).eraseAddr = (chanAt 2).eraseAddr ∧
    (chanAt 1).printableNoFallback ≠ (chanAt 2).printableNoFallback ∧
    (chanAt 1).printable = "chan(2)" ∧ (chanAt 2).printable = "chan(2)" :=
  ⟨rfl, by decide, by decide, by decide⟩

/-- every type of the inventory that has no `String()` method is address-dependent without the
    fallback (so the fallback is needed exactly for Chan, Entry, Partial, Thread, GoField,
    GoMethod, GoType) and only those -/
theorem no_fallback_differs_iff_no_string :
    allKinds.all (fun k =>
      ((RObj.mk k 1 "" "" "" .nil).printableNoFallback != (RObj.mk k 2 "" "" "" .nil).printableNoFallback)
        == !(hasString k)) = true := by
  decide

/-! ### the `error()` builtin: repaired; the pre-fix route kept as checked statements -/

/-- **the `error(fmt, args…)` builtin (and `builtins.Sprintf`), as repaired**: for every value a
    script can get hold of — channels, builtins, files, partials, proxies included — and all
    address assignments the message is the same (a corollary of
    `render_address_independent_script_values`; no `noRawAddr` guard) -/
theorem error_format_address_independent (o o' : RObj) (h : o.eraseAddr = o'.eraseAddr)
    (hc : o.cellFree = true) (hc' : o'.cellFree = true) : o.errorFmt = o'.errorFmt := by
  have := render_address_independent_script_values o o' h hc hc'
  unfold routes at this
  exact (Prod.mk.inj (Prod.mk.inj (Prod.mk.inj (Prod.mk.inj this).2).2).2).2

/-- `error("E %v", chan(2))` now renders the channel as every other route does -/
example : (chanAt 1).errorFmt = "chan(2)" ∧ (chanAt 2).errorFmt = "chan(2)" := by decide

/-- BEFORE the repair ("fix: format the arguments of error() and the sprintf builtin with
    PrintableValue"; finding C05-error-format-raw-go-value) the route was `Interface()` + `%v`
    (`ifaceV`); its full statement: the message does not depend on addresses -/
def errorFormat_preFix_full : Prop :=
  ∀ o o' : RObj, o.eraseAddr = o'.eraseAddr → ifaceV o = ifaceV o'

/-- **it was false**: `error("%v", chan(2))` — `Chan.Interface()` is the Go channel and `%v`
    prints its address -/
theorem C05_fixed_error_format_was_address_dependent : ¬ errorFormat_preFix_full := by
  intro h
  have := h (chanAt 1) (chanAt 2) rfl
  revert this
  decide

/-- the format sites as they were: both rows handed `Interface()` to fmt; both hand
    `PrintableValue` now -/
theorem C05_fixed_format_sites_were_interface :
    preFixFormatSites.all (fun s => s.2 == "Interface" &&
      formatSitesReviewed.contains (s.1, "PrintableValue")) = true
    ∧ formatSitesReviewed.all (fun s => s.2 == "PrintableValue") = true := by
  constructor <;> decide

mutual
  theorem ifaceV_erase : ∀ o : RObj, o.noRawAddr = true → ifaceV o.eraseAddr = ifaceV o
    | .mk k a txt raw aux kids, h => by
      simp only [RObj.noRawAddr, Bool.and_eq_true, Bool.not_eq_true'] at h
      have ih := ifaceAll_erase kids h.2
      cases k <;> first
        | (simp only [rawAddrKind] at h; exact absurd h.1 (by decide))
        | simp only [RObj.eraseAddr, ifaceV, ih]
  theorem ifaceAll_erase : ∀ os : RObjs, os.noRawAddr = true → ifaceAll os.eraseAddr = ifaceAll os
    | .nil, _ => rfl
    | .cons o r, h => by
      simp only [RObjs.noRawAddr, Bool.and_eq_true] at h
      simp only [RObjs.eraseAddr, ifaceAll, ifaceV_erase o h.1, ifaceAll_erase r h.2]
end

/-- (historical) what could be proved of the pre-fix route: for all graphs without an object
    whose `Interface()` is a Go pointer, channel or func (guard `noRawAddr`) and all address
    assignments, the message was the same — the guard the repair made unnecessary -/
theorem error_format_preFix_partial (o o' : RObj) (h : o.eraseAddr = o'.eraseAddr)
    (hn : o.noRawAddr = true) (hn' : o'.noRawAddr = true) : ifaceV o = ifaceV o' := by
  rw [← ifaceV_erase o hn, ← ifaceV_erase o' hn', h]

/-- non-vacuity: a list holding a channel, an iterator entry, a partial over a builtin, a thread
    and a map, at two address assignments; all routes give the same text -/
def sampleGraph (a b c d : Nat) : RObj :=
  .mk .List a "" "" "" (.cons (.mk .Chan b "2" "" "" .nil)
    (.cons (.mk .Entry c "" "" "" (.cons (.mk .Int 0 "0" "0" "" .nil) (.cons (.mk .String 0 "\"x\"" "x" "" .nil) .nil)))
    (.cons (.mk .Partial d "" "" "" (.cons (.mk .Builtin b "len" "" "" .nil) (.cons (.mk .Int 0 "1" "1" "" .nil) .nil)))
    (.cons (.mk .Thread a "" "" "" (.cons (.mk .Function c "func f() { return 1 }" "func f() { ... }" "" .nil) .nil))
    (.cons (.mk .Map d "" "" "" (.cons (.mk .pair 0 "\"k\"" "k" "" (.cons (.mk .NilType 0 "nil" "nil" "" .nil) .nil)) .nil)) .nil)))))

example : (sampleGraph 1 2 3 4).eraseAddr = (sampleGraph 50 60 70 80).eraseAddr ∧
    (sampleGraph 1 2 3 4).cellFree = true ∧
    (sampleGraph 1 2 3 4).inspect =
      "[chan(2), iter_entry(0, \"x\"), partial(builtin(len), 1), thread(func f() { return 1 }), {\"k\": nil}]" ∧
    (sampleGraph 1 2 3 4).printable = (sampleGraph 1 2 3 4).inspect :=
  ⟨rfl, by decide, by decide, by decide⟩

/-- the sample graph — channel, builtin and partial included — through the repaired `error()` route -/
example : (sampleGraph 1 2 3 4).errorFmt = (sampleGraph 50 60 70 80).errorFmt ∧
    (sampleGraph 1 2 3 4).errorFmt = (sampleGraph 1 2 3 4).inspect := ⟨by decide, by decide⟩

/-- the historical guard really excluded something / was satisfiable -/
example : (sampleGraph 1 2 3 4).noRawAddr = false ∧
    (RObj.mk .List 9 "" "" "" (.cons (.mk .Function 3 "func() { }" "func() { ... }" "" .nil) .nil)).noRawAddr = true ∧
    ifaceV (RObj.mk .List 9 "" "" "" (.cons (.mk .Function 3 "func() { }" "func() { ... }" "" .nil) .nil)) = "[<nil>]" := by
  decide

/-! ## walks over a container whose elements can fail one by one (`json.marshal`, …) -/

/-- **sort first, then seek the first failure** (what `encoding/json` does with the Go map
    `Map.MarshalJSON` hands it, and `Set.MarshalJSON` with `SortedItems()`): for EVERY error
    function — any number of failing entries, all with different errors — the reported error
    is the same for every two visiting orders.  No hypothesis of the kind
    `first_failure_perm_invariant` needs. -/
theorem sorted_first_failure_perm_invariant (err : String → Option ε) {vis₁ vis₂ : List String}
    (h : vis₁.Perm vis₂) :
    firstFailure err (sortedKeys vis₁) = firstFailure err (sortedKeys vis₂) := by
  rw [sortedKeys_perm_invariant h]

/-- one map node of `json.Marshal`, as the code does it: for all entries (any number, any
    outcomes of the values) and every two visiting orders of the Go map the outcome — the JSON
    text or the error — is the same -/
theorem mapMarshal_perm_invariant (p q : List Nat) (rs : List (String × MR)) :
    mapMarshal true p rs = mapMarshal true q rs := by
  unfold mapMarshal inKeyOrder
  simp only [if_true]
  rw [sortedKeys_perm_invariant ((applyPerm_perm p (rs.map (·.1))).trans (applyPerm_perm q (rs.map (·.1))).symm)]

/-- one set node (`json.Marshal(s.SortedItems())`), NaN-free members -/
theorem setMarshal_perm_invariant (p q : List Nat) (ms : List (HKey × MR))
    (hn : noNaN (ms.map (·.1)) = true) : setMarshal p ms = setMarshal q ms := by
  unfold setMarshal
  have hp := applyPerm_perm p (ms.map (·.1))
  have hq := applyPerm_perm q (ms.map (·.1))
  have hnp : noNaN (applyPerm p (ms.map (·.1))) = true := by
    unfold noNaN at hn ⊢
    rw [hp.all_eq]; exact hn
  rw [sortedItems_perm_invariant (hp.trans hq.symm) hnp]

mutual
  theorem JV.marshal_strip : ∀ t : JV, t.noNaN = true → t.marshalW true = t.strip.marshalW true
    | .ok _, _ => rfl
    | .bad _, _ => rfl
    | .list items, h => by
      simp only [JV.noNaN] at h
      simp only [JV.marshalW, JV.strip, JVs.results_strip items h]
    | .map p es, h => by
      simp only [JV.noNaN] at h
      simp only [JV.marshalW, JV.strip, ← JEs.results_strip es h]
      exact mapMarshal_perm_invariant p [] _
    | .set p ms, h => by
      simp only [JV.noNaN] at h
      simp only [JV.marshalW, JV.strip]
      exact setMarshal_perm_invariant p [] ms h
  theorem JVs.results_strip : ∀ ts : JVs, ts.noNaN = true → ts.resultsW true = ts.strip.resultsW true
    | .nil, _ => rfl
    | .cons v r, h => by
      simp only [JVs.noNaN, Bool.and_eq_true] at h
      simp only [JVs.resultsW, JVs.strip, JV.marshal_strip v h.1, JVs.results_strip r h.2]
  theorem JEs.results_strip : ∀ es : JEs, es.noNaN = true → es.resultsW true = es.strip.resultsW true
    | .nil, _ => rfl
    | .cons k v r, h => by
      simp only [JEs.noNaN, Bool.and_eq_true] at h
      simp only [JEs.resultsW, JEs.strip, JV.marshal_strip v h.1, JEs.results_strip r h.2]
end

/-- **`json.marshal` of a container with several failing elements**: for ALL value trees (maps,
    sets and lists nested to any depth, any number of entries, any number of elements whose own
    marshalling fails, each with its own error) and ALL pairs of adversary choices — one
    visiting order per map and per set node — the outcome of `json.Marshal` as the code does it
    (the JSON text, or the error text that `risor.Eval` / `try` shows) is the same.  Guard: no
    set of the tree has a NaN member (finding C05-set-nan-order). -/
theorem marshal_perm_invariant (t₁ t₂ : JV) (h : t₁.strip = t₂.strip)
    (hn₁ : t₁.noNaN = true) (hn₂ : t₂.noNaN = true) : t₁.marshal = t₂.marshal := by
  unfold JV.marshal
  rw [JV.marshal_strip t₁ hn₁, JV.marshal_strip t₂ hn₂, h]

/-- the full statement for the variant that marshals the values of a map inside a `range` and
    returns at the first failure … -/
def marshalRange_full : Prop :=
  ∀ t₁ t₂ : JV, t₁.strip = t₂.strip → t₁.marshalRange = t₂.marshalRange

/-- … is false: `json.marshal({"f": func() {}, "m": math})` names the function under one
    visiting order and the module under the other -/
theorem marshalRange_counterexample : ¬ marshalRange_full := by
  intro h
  have := h (.map [0, 1] (.cons "f" (.bad "unable to marshal function") (.cons "m" (.bad "unable to marshal module") .nil)))
    (.map [1, 0] (.cons "f" (.bad "unable to marshal function") (.cons "m" (.bad "unable to marshal module") .nil))) rfl
  revert this
  decide

/-- **why no existing test sees the difference**: on every map whose values all marshal (any
    number of entries, any visiting order) the range-and-return variant and the code produce the
    same outcome — the same sorted JSON text -/
theorem mapMarshal_variants_agree_without_failure (p : List Nat) (rs : List (String × MR))
    (hok : ∀ r ∈ rs, r.2.errOf = none) : mapMarshal false p rs = mapMarshal true p rs := by
  unfold mapMarshal seqMarshal
  simp only [if_true, Bool.false_eq_true, if_false]
  unfold inKeyOrder inRangeOrder
  rw [firstFailure_none_of_lookup _ rs hok, firstFailure_none_of_lookup _ rs hok]

/-- the two variants cannot be told apart by a map with at most one failing value, nor by any
    successful output: here one bad value among three (what every existing test marshals) -/
example :
    (JV.map [2, 0, 1] (.cons "b" (.ok "1") (.cons "a" (.bad "E") (.cons "c" (.ok "[2]") .nil)))).marshalRange =
      (JV.map [2, 0, 1] (.cons "b" (.ok "1") (.cons "a" (.bad "E") (.cons "c" (.ok "[2]") .nil)))).marshal ∧
    (JV.map [2, 0, 1] (.cons "b" (.ok "1") (.cons "a" (.ok "null") (.cons "c" (.ok "[2]") .nil)))).marshalRange =
      .out "{\"a\":null,\"b\":1,\"c\":[2]}" := by decide

/-- Impl on the counterexample's map: the error of the smallest failing key, under both orders -/
example :
    (JV.map [0, 1] (.cons "m" (.bad "M") (.cons "f" (.bad "F") .nil))).marshal =
      .err "json: error calling MarshalJSON for type *object.Map: F" ∧
    (JV.map [1, 0] (.cons "m" (.bad "M") (.cons "f" (.bad "F") .nil))).marshal =
      .err "json: error calling MarshalJSON for type *object.Map: F" := by decide

set_option maxRecDepth 8192 in
/-- a nested tree with a set (members +Inf and -Inf fail, -Inf sorts first) inside a list inside a map -/
example :
    (JV.map [1, 0] (.cons "z" (.bad "Z") (.cons "k" (.list (.cons (.ok "1") (.cons
      (.set [1, 0] [(⟨"float", 0, "", 5, false⟩, .err "+Inf"), (⟨"float", 0, "", -5, false⟩, .err "-Inf")]) .nil))) .nil))).marshal =
      .err (wrapErr "Map" (wrapErr "List" (wrapErr "Set" "-Inf"))) := by decide

/-- **`http.request` headers**: the values filed under one canonical header name do not depend
    on the visiting order of the `headers` map provided no two of its keys have the same
    canonical form (then at most one value is filed under each name) -/
theorem headerValues_perm_invariant (canon : String → String) (name : String)
    {vis₁ vis₂ : List (String × String)} (h : vis₁.Perm vis₂)
    (hd : vis₁.Pairwise (fun a b => canon a.1 ≠ canon b.1)) :
    headerValues canon name vis₁ = headerValues canon name vis₂ := by
  unfold headerValues inVisitingOrder
  congr 1
  have hp : (vis₁.filter (fun kv => canon kv.1 == name)).Perm (vis₂.filter (fun kv => canon kv.1 == name)) :=
    h.filter _
  have hsub : (vis₁.filter (fun kv => canon kv.1 == name)).Pairwise (fun a b => canon a.1 ≠ canon b.1) :=
    hd.sublist List.filter_sublist
  -- at most one entry survives the filter
  match h1 : vis₁.filter (fun kv => canon kv.1 == name), hp with
  | [], hp => rw [h1] at hp ⊢; exact hp.nil_eq
  | [a], hp => rw [h1] at hp ⊢; exact (List.perm_singleton.1 hp.symm).symm
  | a :: b :: r, _ =>
    exfalso
    rw [h1] at hsub
    have hab := (List.pairwise_cons.1 hsub).1 b (List.mem_cons_self ..)
    have ha : a ∈ vis₁.filter (fun kv => canon kv.1 == name) := by rw [h1]; exact List.mem_cons_self ..
    have hb : b ∈ vis₁.filter (fun kv => canon kv.1 == name) := by rw [h1]; exact List.mem_cons_of_mem _ (List.mem_cons_self ..)
    have ea := (List.mem_filter.1 ha).2
    have eb := (List.mem_filter.1 hb).2
    simp only [beq_iff_eq] at ea eb
    exact hab (ea.trans eb.symm)

/-- the full statement for `AddHeaders` … -/
def headerValues_full : Prop :=
  ∀ (canon : String → String) (name : String) (vis₁ vis₂ : List (String × String)),
    vis₁.Perm vis₂ → KeysDistinct vis₁ → headerValues canon name vis₁ = headerValues canon name vis₂

/-- … is false (finding C05-http-header-case-order): the keys `a` and `A` are distinct keys of
    the script's map and both are filed under `A` -/
theorem headerValues_counterexample : ¬ headerValues_full := by
  intro h
  have := h (fun s => if s = "a" then "A" else s) "A" [("a", "1"), ("A", "2")] [("A", "2"), ("a", "1")] (List.Perm.swap _ _ _)
    (by simp [KeysDistinct])
  revert this
  decide

/-! ## loops that choose one entry of a map: `VirtualOS.findMount`

The loop was repaired in /repo ("fix: choose the longest mount point in findMount by the length of
its key"; finding C05-findmount-target-length): it compares the length of the visited key with the
length of the KEY of its candidate.  The theorems below therefore hold for EVERY mount table — no
hypothesis on the `Target` fields is left; the loop as it was is kept as `preFixFindMount` with the
checked statement `C05_fixed_findmount_target_length`. -/

/-- the keys of the mount table (a Go map) are pairwise distinct -/
def MountKeysDistinct (vis : List MountEnt) : Prop := vis.Pairwise (fun a b => a.key ≠ b.key)

/-- the mounts of a table, pairwise: compatible for the choosing loop (whatever their `Target`s) -/
theorem mounts_compat (path : List Nat) {vis : List MountEnt} (hd : MountKeysDistinct vis) :
    vis.Pairwise (SelCompat (fun e : MountEnt => e.key == path) (fun e => mountMatches path e.key)
      (fun e => e.key.length) (fun e => e.key.length)) := by
  refine hd.imp ?_
  intro a b hab
  refine ⟨rfl, rfl, ?_, ?_⟩
  · intro ⟨h1, h2⟩
    simp only [beq_iff_eq] at h1 h2
    exact hab (h1.trans h2.symm)
  · intro h1 h2 hlen
    simp only [mountMatches, Bool.and_eq_true] at h1 h2
    exact hab (hasPrefixB_eq_of_length path a.key b.key h1.1 h2.1 hlen)

/-- **`VirtualOS.findMount`** (every file operation of a script under a virtual OS:
    `os.read_file`, `os.write_file`, `os.stat`, `os.remove`, `os.rename`, `open`, …): for EVERY path
    string, EVERY mount table (any number of mounts, nested to any depth, keys pairwise distinct as
    the keys of one Go map are; the `Target` fields ARBITRARY — equal to the key, empty, spelled
    with a trailing slash, anything) and EVERY two visiting orders of the `mounts` map, the same
    mount serves the access and is handed the same relative path.  (Before the repair this needed
    `targetsAreKeys`; outside it the statement was false: `C05_fixed_findmount_target_length`.) -/
theorem findMount_perm_invariant (path : List Nat) {vis₁ vis₂ : List MountEnt} (h : vis₁.Perm vis₂)
    (hd : MountKeysDistinct vis₁) :
    findMount path vis₁ = findMount path vis₂ := by
  unfold findMount
  rw [selectLoop_perm _ _ _ _ h (mounts_compat path hd)]

/-- the full statement (no hypothesis on `Target`) … -/
def findMount_full : Prop :=
  ∀ (path : List Nat) (vis₁ vis₂ : List MountEnt), vis₁.Perm vis₂ → MountKeysDistinct vis₁ →
    findMount path vis₁ = findMount path vis₂

/-- … holds since the repair (it was refuted before: `findMount_counterexample_target` of the
    earlier sessions is now `C05_fixed_findmount_target_length`) -/
theorem findMount_full_holds : findMount_full :=
  fun path _ _ h hd => findMount_perm_invariant path h hd

/-- the general form (any choosing loop of this shape over any map): for all entries that are
    pairwise `SelCompat` — at most one ends the loop, qualifying entries have pairwise different
    lengths, the length compared is the length stored — every visiting order chooses the same entry -/
theorem select_perm_invariant (exact ok : α → Bool) (lenNew lenCur : α → Nat) {vis₁ vis₂ : List α}
    (h : vis₁.Perm vis₂) (hp : vis₁.Pairwise (SelCompat exact ok lenNew lenCur)) :
    selectLoop exact ok lenNew lenCur vis₁ = selectLoop exact ok lenNew lenCur vis₂ :=
  selectLoop_perm exact ok lenNew lenCur h hp

/-- **what is chosen** (so the invariance is not vacuous — this is the mount the documentation
    promises): when no mount point IS the path, the mount that serves it is one whose mount point
    is a component-wise string prefix of the path and NO qualifying mount point of the table is
    longer; it is handed the path with its own `Target` trimmed off the front; and when no mount
    point qualifies nothing is found.  For every table (any `Target`s) and visiting order. -/
theorem findMount_longest (path : List Nat) (vis : List MountEnt)
    (hne : ∀ e ∈ vis, e.key ≠ path) :
    (∀ id rel, findMount path vis = some (id, rel) →
      ∃ m ∈ vis, m.id = id ∧ rel = relOf path m.target ∧ mountMatches path m.key = true ∧
        ∀ k ∈ vis, mountMatches path k.key = true → k.key.length ≤ m.key.length) ∧
    (findMount path vis = none ↔ ∀ k ∈ vis, mountMatches path k.key = false) := by
  obtain ⟨b', h1, h2, _, h4⟩ := selectLoop_cand (fun e : MountEnt => e.key == path)
    (fun e => mountMatches path e.key) (fun e => e.key.length) (fun e => e.key.length) vis none
    (by intro x hx; simpa using hne x hx) (by intro x _; rfl)
  unfold findMount selectLoop
  rw [h1]
  cases b' with
  | none =>
    refine ⟨by simp, ?_⟩
    simp only [true_iff]
    intro k hk
    cases hm : mountMatches path k.key with
    | false => rfl
    | true => obtain ⟨m, hm', _⟩ := h4 k hk hm; cases hm'
  | some m =>
    have hm := h2 m rfl
    simp only [reduceCtorEq, false_or] at hm
    refine ⟨?_, ?_⟩
    · intro id rel hres
      simp only [Option.some.injEq, Prod.mk.injEq] at hres
      refine ⟨m, hm.1, hres.1, hres.2.symm, hm.2, ?_⟩
      intro k hk hkm
      obtain ⟨m', hm', hle⟩ := h4 k hk hkm
      cases hm'
      exact hle
    · simp only [reduceCtorEq, false_iff]
      intro hall
      have := hall m hm.1
      rw [hm.2] at this
      cases this

/-- on a table whose mounts are registered under their own `Target` the relative path is the path
    below the chosen mount point (what `cmd/risor` and the tests rely on) -/
theorem findMount_longest_rel (path : List Nat) (vis : List MountEnt) (ht : targetsAreKeys vis = true)
    (hne : ∀ e ∈ vis, e.key ≠ path) (id : Nat) (rel : List Nat)
    (h : findMount path vis = some (id, rel)) :
    ∃ m ∈ vis, m.id = id ∧ rel = relOf path m.key ∧ mountMatches path m.key = true := by
  obtain ⟨m, hm, hid, hrel, hmm, _⟩ := (findMount_longest path vis hne).1 id rel h
  have : m.target = m.key := by simpa using List.all_eq_true.1 ht m hm
  exact ⟨m, hm, hid, by rw [hrel, this], hmm⟩

/-- a mount point that IS the path serves it, whatever else is mounted and in whatever order the
    table is visited -/
theorem findMount_exact (path : List Nat) (vis : List MountEnt) (hd : MountKeysDistinct vis)
    (e : MountEnt) (he : e ∈ vis) (hk : e.key = path) :
    findMount path vis = some (e.id, [47]) := by
  obtain ⟨l₁, l₂, rfl⟩ := List.append_of_mem he
  have hperm : (l₁ ++ e :: l₂).Perm (e :: (l₁ ++ l₂)) := List.perm_middle
  rw [findMount_perm_invariant path hperm hd]
  unfold findMount selectLoop
  have e1 : selStep (fun e : MountEnt => e.key == path) (fun e => mountMatches path e.key)
      (fun e => e.key.length) (fun e => e.key.length) (.cand none) e = .done e := by
    simp [selStep, hk]
  rw [List.foldl_cons, e1, foldl_selStep_done]

/-- the full statement for the variant in which every qualifying mount replaces the candidate … -/
def findMountLast_full : Prop :=
  ∀ (path : List Nat) (vis₁ vis₂ : List MountEnt), vis₁.Perm vis₂ → MountKeysDistinct vis₁ →
    targetsAreKeys vis₁ = true → findMountLast path vis₁ = findMountLast path vis₂

/-- … is false (even on tables registered under their own `Target`): with `/` and `/d` mounted,
    `/d/f` is served by whichever of the two is visited last -/
theorem lastSelect_counterexample : ¬ findMountLast_full := by
  intro h
  have := h [47, 100, 47, 102] [⟨[47], [47], 0⟩, ⟨[47, 100], [47, 100], 1⟩]
    [⟨[47, 100], [47, 100], 1⟩, ⟨[47], [47], 0⟩] (List.Perm.swap _ _ _)
    (by simp [MountKeysDistinct]) (by decide)
  revert this
  decide

/-- **why no existing test sees the difference**: on a table with at most ONE mount point that
    qualifies for the path (a single mount, disjoint mounts) both variants choose alike; here
    `/` alone, and `/d` next to `/e` -/
example : findMountLast [47, 100, 47, 102] [⟨[47], [47], 0⟩] = findMount [47, 100, 47, 102] [⟨[47], [47], 0⟩] ∧
    findMountLast [47, 100, 47, 102] [⟨[47, 101], [47, 101], 0⟩, ⟨[47, 100], [47, 100], 1⟩] =
      findMount [47, 100, 47, 102] [⟨[47, 101], [47, 101], 0⟩, ⟨[47, 100], [47, 100], 1⟩] := by decide

/-- Impl on the counterexample's table: `/d` (id 1) with the relative path `/f`, under both orders -/
example : findMount [47, 100, 47, 102] [⟨[47], [47], 0⟩, ⟨[47, 100], [47, 100], 1⟩] = some (1, [47, 102]) ∧
    findMount [47, 100, 47, 102] [⟨[47, 100], [47, 100], 1⟩, ⟨[47], [47], 0⟩] = some (1, [47, 102]) := by decide

/-- a mount point that is a string prefix but not a path prefix does not qualify: `/d` for `/dx/f` -/
example : findMount [47, 100, 120, 47, 102] [⟨[47, 100], [47, 100], 1⟩] = none := by decide

/-! ### the loop before its repair (finding C05-findmount-target-length, fixed) -/

/-- the full statement for the loop as it was (`len(k) > len(match.Target)`) … -/
def preFixFindMount_full : Prop :=
  ∀ (path : List Nat) (vis₁ vis₂ : List MountEnt), vis₁.Perm vis₂ → MountKeysDistinct vis₁ →
    preFixFindMount path vis₁ = preFixFindMount path vis₂

/-- BEFORE the repair ("fix: choose the longest mount point in findMount by the length of its
    key"; finding C05-findmount-target-length) the loop compared the length of the visited KEY with
    the length of the candidate's `Target` FIELD: with `/` and `/d` mounted and both `Target`s left
    empty (`WithMounts(map[string]*Mount{"/": {Source: a}, "/d": {Source: b}})`), every qualifying
    mount looked longer than the candidate and the one visited LAST served `/d/f` — mount 1 under
    one visiting order, mount 0 under the other.  The repaired loop chooses mount 1 (`/d`, the
    longest mount point) under both, and hands it the same path. -/
theorem C05_fixed_findmount_target_length :
    ¬ preFixFindMount_full ∧
    ∃ (path : List Nat) (vis₁ vis₂ : List MountEnt), vis₁.Perm vis₂ ∧ MountKeysDistinct vis₁ ∧
      preFixFindMount path vis₁ = some (1, path) ∧ preFixFindMount path vis₂ = some (0, path) ∧
      findMount path vis₁ = some (1, path) ∧ findMount path vis₂ = some (1, path) := by
  refine ⟨?_, [47, 100, 47, 102], [⟨[47], [], 0⟩, ⟨[47, 100], [], 1⟩], [⟨[47, 100], [], 1⟩, ⟨[47], [], 0⟩],
    List.Perm.swap _ _ _, by simp [MountKeysDistinct], by decide, by decide, by decide, by decide⟩
  intro h
  have := h [47, 100, 47, 102] [⟨[47], [], 0⟩, ⟨[47, 100], [], 1⟩]
    [⟨[47, 100], [], 1⟩, ⟨[47], [], 0⟩] (List.Perm.swap _ _ _) (by simp [MountKeysDistinct])
  revert this
  decide

/-- the repair changes nothing for the tables every caller in the repository builds: where each
    mount is registered under its own `Target` the loop before the repair chose exactly what the
    repaired loop chooses — for every path, table size and visiting order -/
theorem preFixFindMount_eq_on_own_targets (path : List Nat) (vis : List MountEnt)
    (ht : targetsAreKeys vis = true) : preFixFindMount path vis = findMount path vis := by
  have ht' : ∀ e ∈ vis, e.target.length = e.key.length := by
    intro e he
    have : e.target = e.key := by simpa using List.all_eq_true.1 ht e he
    rw [this]
  unfold preFixFindMount findMount selectLoop
  rw [foldl_selStep_congr _ _ _ (fun e : MountEnt => e.target.length) (fun e => e.key.length) vis
    (.cand none) (by intro m hm; cases hm) ht']

/-- the other spelling the finding named: `/d` registered with `Target = "/d/"` next to `/d/`
    (`Target = "/d/"`): before the repair neither looked longer than the other, so the one visited
    FIRST served `/d/f`; now `/d/` (the longer mount point) serves it under both orders -/
example : preFixFindMount [47, 100, 47, 102] [⟨[47, 100], [47, 100, 47], 1⟩, ⟨[47, 100, 47], [47, 100, 47], 2⟩] = some (1, [102]) ∧
    preFixFindMount [47, 100, 47, 102] [⟨[47, 100, 47], [47, 100, 47], 2⟩, ⟨[47, 100], [47, 100, 47], 1⟩] = some (2, [102]) ∧
    findMount [47, 100, 47, 102] [⟨[47, 100], [47, 100, 47], 1⟩, ⟨[47, 100, 47], [47, 100, 47], 2⟩] = some (2, [102]) ∧
    findMount [47, 100, 47, 102] [⟨[47, 100, 47], [47, 100, 47], 2⟩, ⟨[47, 100], [47, 100, 47], 1⟩] = some (2, [102]) := by
  decide

/-- non-vacuity: a nested table (`/`, `/d`, `/d/s`) with `Target`s spelled three different ways
    (empty, the key, the key with a trailing slash) has distinct keys, and `/d/s/f` is served by
    `/d/s` under every one of its six visiting orders -/
example : MountKeysDistinct [⟨[47], [], 0⟩, ⟨[47, 100], [47, 100], 1⟩, ⟨[47, 100, 47, 115], [47, 100, 47, 115, 47], 2⟩] ∧
    targetsAreKeys [⟨[47], [], 0⟩, ⟨[47, 100], [47, 100], 1⟩, ⟨[47, 100, 47, 115], [47, 100, 47, 115, 47], 2⟩] = false ∧
    ([[⟨[47], [], 0⟩, ⟨[47, 100], [47, 100], 1⟩, ⟨[47, 100, 47, 115], [47, 100, 47, 115, 47], 2⟩],
      [⟨[47], [], 0⟩, ⟨[47, 100, 47, 115], [47, 100, 47, 115, 47], 2⟩, ⟨[47, 100], [47, 100], 1⟩],
      [⟨[47, 100], [47, 100], 1⟩, ⟨[47], [], 0⟩, ⟨[47, 100, 47, 115], [47, 100, 47, 115, 47], 2⟩],
      [⟨[47, 100], [47, 100], 1⟩, ⟨[47, 100, 47, 115], [47, 100, 47, 115, 47], 2⟩, ⟨[47], [], 0⟩],
      [⟨[47, 100, 47, 115], [47, 100, 47, 115, 47], 2⟩, ⟨[47], [], 0⟩, ⟨[47, 100], [47, 100], 1⟩],
      [⟨[47, 100, 47, 115], [47, 100, 47, 115, 47], 2⟩, ⟨[47, 100], [47, 100], 1⟩, ⟨[47], [], 0⟩]].all
      (fun vis => findMount [47, 100, 47, 115, 47, 102] vis == some (2, [102]))) = true := by
  refine ⟨by simp [MountKeysDistinct], by decide, by decide⟩

/-! ## the hash key of a value is a function of the value alone

`Set.SortedItems` orders the members of a set by `HashKey()`.  "Sets iterate and print in sorted
order", the same in every evaluation and every fresh process, is therefore a statement about the
seven `HashKey()` methods: each must be a function of the value (no seed drawn per process, no
address), injective, and monotone within its type. -/

/-- **`HashKey()` is injective**: two hashable values (of any of the seven types, a NaN included)
    with the same hash key are the same value — so membership in a set (a Go map keyed by
    `HashKey()`) is membership by value and distinct members have distinct keys -/
theorem hvKey_injective (a b : HV) (h : a.key = b.key) : a = b := by
  cases a <;> cases b <;> simp [HV.key] at h <;> grind

/-- **`HashKey()` is monotone**: the comparator of `SortedItems` applied to the keys of two values
    IS the order of the VALUES the property promises (`HV.less`: by type name; ints and bytes
    numerically, strings and byte slices bytewise, false before true, floats numerically), for
    all values of all types -/
theorem hkLess_key_eq_less (a b : HV) : hkLess a.key b.key = a.less b := by
  have ir := String.lt_irrefl
  cases a <;> cases b <;> simp [HV.key, HV.less, HV.ty, hkLess] <;> grind

/-- the listing of the VALUES is the listing of their hash keys (`sortedItems`, the model the
    set-order stream compares `Set.SortedItems` with), however members are keyed -/
theorem listingBy_keys (key : HV → HKey) (vis : List HV) :
    (listingBy key vis).map key = sortedItems (vis.map key) := by
  unfold listingBy sortedItems
  rw [List.map_reverse, isort_map key hkGe, List.map_reverse]

/-- **the listing of a set is a function of its members**: for ALL NaN-free sets of values of any
    types and sizes (byte slices and strings of any length) and every two visiting orders of the
    underlying Go map the listing — the VALUES in the order they print, iterate, convert to a list
    and marshal — is the same.  Nothing else enters: `HV.key` has no other argument (no process,
    no seed, no address). -/
theorem setListing_perm_invariant {vis₁ vis₂ : List HV} (h : vis₁.Perm vis₂)
    (hn : ∀ v ∈ vis₁, v.isNaN = false) : setListing vis₁ = setListing vis₂ := by
  unfold setListing listingBy
  congr 1
  refine isort_unique_pred _ (fun v : HV => v.isNaN = false) ?_ ?_ ?_
    (((List.reverse_perm vis₁).trans h).trans (List.reverse_perm vis₂).symm) ?_
  · intro a b c ha hb hc
    exact hkGe_trans a.key b.key c.key (by rw [hvKey_nan, ha]) (by rw [hvKey_nan, hb]) (by rw [hvKey_nan, hc])
  · intro a b; exact hkGe_total a.key b.key
  · intro a b ha hb h1 h2
    exact hvKey_injective a b (hkGe_antisymm a.key b.key (by rw [hvKey_nan, ha]) (by rw [hvKey_nan, hb]) h1 h2)
  · intro x hx; exact hn x (List.mem_reverse.1 hx)

/-- the listing consists of exactly the members -/
theorem setListing_perm (vis : List HV) : (setListing vis).Perm vis := by
  unfold setListing listingBy
  exact (List.reverse_perm _).trans ((isort_perm _ _).trans (List.reverse_perm _))

/-- **sets print in sorted order**: for every NaN-free set (members pairwise distinct) the listing
    is strictly ascending in the promised order of the VALUES (`HV.less`) — in particular long
    byte slices and strings come out in bytewise order of their contents -/
theorem setListing_ascending (vis : List HV) (hn : ∀ v ∈ vis, v.isNaN = false) (hd : vis.Nodup) :
    (setListing vis).Pairwise (fun a b => a.less b = true) := by
  have hs : (setListing vis).Pairwise (fun a b => hkLess b.key a.key = false) := by
    unfold setListing listingBy
    have := isort_sorted_on (fun a b : HV => hkGe a.key b.key) (fun v : HV => v.isNaN = false)
      (fun a b c ha hb hc => hkGe_trans a.key b.key c.key (by rw [hvKey_nan, ha]) (by rw [hvKey_nan, hb]) (by rw [hvKey_nan, hc]))
      (fun a b => hkGe_total a.key b.key) vis.reverse (fun x hx => hn x (List.mem_reverse.1 hx))
    rw [List.pairwise_reverse]
    refine this.imp ?_
    intro a b hab
    simpa [hkGe] using hab
  have hnd : (setListing vis).Nodup := (setListing_perm vis).nodup_iff.2 hd
  have hmem : ∀ v ∈ setListing vis, v.isNaN = false := fun v hv => hn v ((setListing_perm vis).mem_iff.1 hv)
  have := (hs.and hnd).imp_of_mem (S := fun a b => a.less b = true) ?_
  · exact this
  · intro a b ha hb ⟨h1, h2⟩
    rw [← hkLess_key_eq_less]
    cases h : hkLess a.key b.key with
    | true => rfl
    | false =>
      exact absurd (hvKey_injective a b (hkLess_incomp a.key b.key (by rw [hvKey_nan, hmem a ha])
        (by rw [hvKey_nan, hmem b hb]) h h1)) h2

/-- the full statement for the variant that keys a byte slice longer than `limit` by a hash of its
    contents (the hash standing for one seeded per process): the listing does not depend on the
    hash function … -/
def hashedListing_full : Prop :=
  ∀ (limit : Nat) (h₁ h₂ : String → Int) (vis : List HV),
    listingBy (HV.keyHashed limit h₁) vis = listingBy (HV.keyHashed limit h₂) vis

/-- … is false: two processes whose hash functions order `aaa` and `aab` differently list the
    same set in two different orders -/
theorem hashedKey_counterexample : ¬ hashedListing_full := by
  intro h
  have := h 2 (fun s => if s = "aaa" then 0 else 1) (fun s => if s = "aaa" then 1 else 0)
    [.bytes "aaa", .bytes "aab"]
  revert this
  decide

/-- … and under such a key the listing is not even sorted, whereas the code lists `aaa` before
    `aab` whatever the visiting order -/
theorem hashedKey_not_sorted :
    listingBy (HV.keyHashed 2 (fun s => if s = "aaa" then 1 else 0)) [.bytes "aaa", .bytes "aab"]
      = [.bytes "aab", .bytes "aaa"] ∧
    setListing [.bytes "aaa", .bytes "aab"] = [.bytes "aaa", .bytes "aab"] ∧
    setListing [.bytes "aab", .bytes "aaa"] = [.bytes "aaa", .bytes "aab"] := by decide

/-- **why no existing test sees the difference**: on every set none of whose byte slices is longer
    than the limit, the hashed key and the code give the same listing (any hash function, any set) -/
theorem hashedKey_agrees_below_limit (limit : Nat) (h : String → Int) (vis : List HV)
    (hs : ∀ s, HV.bytes s ∈ vis → s.length ≤ limit) :
    listingBy (HV.keyHashed limit h) vis = setListing vis := by
  unfold setListing listingBy
  congr 1
  have key : ∀ v ∈ vis.reverse, HV.keyHashed limit h v = v.key := by
    intro v hv
    cases v with
    | bytes s => simp [HV.keyHashed, HV.key, hs s (List.mem_reverse.1 hv)]
    | _ => rfl
  generalize vis.reverse = l at key
  induction l with
  | nil => rfl
  | cons a l ih =>
    have ih' := ih (fun v hv => key v (List.mem_cons_of_mem _ hv))
    simp only [isort, ih']
    have hmem : ∀ x ∈ isort (fun a b => hkGe a.key b.key) l, HV.keyHashed limit h x = x.key :=
      fun x hx => key x (List.mem_cons_of_mem _ ((isort_perm _ l).mem_iff.1 hx))
    have ha := key a (List.mem_cons_self ..)
    generalize isort (fun a b => hkGe a.key b.key) l = m at hmem
    induction m with
    | nil => rfl
    | cons b m ihm =>
      simp only [insertBy, ha, hmem b (List.mem_cons_self ..)]
      split
      · rfl
      · rw [ihm (fun x hx => hmem x (List.mem_cons_of_mem _ hx))]

/-- non-vacuity: a set with a member of every hashable type, two long byte slices that share
    their first bytes, under two visiting orders -/
example : setListing [.bytes "prefix-prefix-B", .int 3, .str "a", .bytes "prefix-prefix-A", .byte 7, .bool true, .nil, .flt (-1)] =
      [.bool true, .byte 7, .bytes "prefix-prefix-A", .bytes "prefix-prefix-B", .flt (-1), .int 3, .nil, .str "a"] ∧
    setListing [.nil, .bytes "prefix-prefix-A", .flt (-1), .bool true, .byte 7, .str "a", .int 3, .bytes "prefix-prefix-B"] =
      [.bool true, .byte 7, .bytes "prefix-prefix-A", .bytes "prefix-prefix-B", .flt (-1), .int 3, .nil, .str "a"] := by
  decide

/-! ## several tables merged in a fixed order; candidates probed in a priority order

`DefaultGlobals` (the builtin tables of five packages written one after the other into the globals
map; `sprintf` is defined by two of them) and `readFileWithExtensions` (`.risor` before `.rsr`). -/

theorem foldl_set_lookup (t : List (String × V)) (hd : KeysDistinct t) (m : String → Option V) (k : String) :
    (t.foldl (fun (m : String → Option V) kv => fun k' => if k' = kv.1 then some kv.2 else m k') m) k =
      match (t.find? (fun kv => kv.1 == k)).map (·.2) with
      | some v => some v
      | none => m k := by
  induction t generalizing m with
  | nil => rfl
  | cons a t ih =>
    have hd' := List.pairwise_cons.1 hd
    rw [List.foldl_cons, ih hd'.2]
    by_cases hk : a.1 = k
    · have hnone : t.find? (fun kv => kv.1 == k) = none := by
        apply List.find?_eq_none.2
        intro x hx
        have := hd'.1 x hx
        simp only [beq_iff_eq]
        intro h; exact this (hk.trans h.symm)
      simp [hk, hnone]
    · have hne : (a.1 == k) = false := by simpa using hk
      simp only [List.find?_cons, hne]
      cases (t.find? (fun kv => kv.1 == k)).map (·.2) with
      | some v => rfl
      | none =>
        show (if k = a.1 then some a.2 else m k) = m k
        rw [if_neg (fun h => hk h.symm)]

theorem foldInsert_all_lookup (t : List (String × V)) (hd : KeysDistinct t) (m : AMap V) (k : String) :
    foldInsert (fun _ _ => true) (fun _ v => v) t m k =
      match (t.find? (fun kv => kv.1 == k)).map (·.2) with
      | some v => some v
      | none => m k :=
  foldl_set_lookup t hd m k

/-- **several tables, fixed table order**: whatever the visiting order INSIDE each table is, the
    merged map is the same (all numbers of tables, all sizes, tables may share names); a pair is
    one table under two visiting orders -/
theorem merge_tables_perm_invariant (tabs : List (List (String × V) × List (String × V)))
    (h : ∀ p ∈ tabs, p.1.Perm p.2 ∧ KeysDistinct p.1) (m0 : AMap V) :
    mergeTables (tabs.map (·.1)) m0 = mergeTables (tabs.map (·.2)) m0 := by
  unfold mergeTables
  induction tabs generalizing m0 with
  | nil => rfl
  | cons p ps ih =>
    simp only [List.map_cons, List.foldl_cons]
    have hp := h p (List.mem_cons_self ..)
    rw [insert_fold_perm_invariant _ _ hp.1 hp.2 m0]
    exact ih (fun q hq => h q (List.mem_cons_of_mem _ hq)) _

/-- … and every name is bound to what the LAST table (in slice order) that defines it says: a name
    defined by two tables is resolved by the order of the slice, never by a visiting order -/
theorem merge_tables_last_wins (tabs : List (List (String × V))) (hd : ∀ t ∈ tabs, KeysDistinct t)
    (m0 : AMap V) (k : String) : mergeTables tabs m0 k = lastDefining tabs m0 k := by
  induction tabs generalizing m0 with
  | nil => rfl
  | cons t ts ih =>
    have e : mergeTables (t :: ts) m0 = mergeTables ts (foldInsert (fun _ _ => true) (fun _ v => v) t m0) := rfl
    rw [e, ih (fun t' ht => hd t' (List.mem_cons_of_mem _ ht))]
    unfold lastDefining
    rw [List.reverse_cons, List.findSome?_append]
    cases ts.reverse.findSome? (fun t => (t.find? (fun kv => kv.1 == k)).map (·.2)) with
    | some v => rfl
    | none =>
      simp only [Option.none_or, List.findSome?_cons, List.findSome?_nil]
      rw [foldInsert_all_lookup t (hd t (List.mem_cons_self ..)) m0 k]
      cases (t.find? (fun kv => kv.1 == k)).map (·.2) <;> rfl

/-- the forbidden variant — the tables themselves held in a Go map and merged in ITS visiting
    order — is refuted: two tables that define `sprintf`, two visiting orders, two bindings -/
theorem mergeTablesRanged_counterexample :
    mergeTablesRanged [0, 1] [[("sprintf", "builtins"), ("len", "builtins")], [("sprintf", "fmt"), ("printf", "fmt")]] AMap.empty "sprintf" = some "fmt" ∧
    mergeTablesRanged [1, 0] [[("sprintf", "builtins"), ("len", "builtins")], [("sprintf", "fmt"), ("printf", "fmt")]] AMap.empty "sprintf" = some "builtins" := by
  decide

/-- tables without a shared name: there the forbidden variant is harmless (why no ordinary test sees it) -/
example : mergeTablesRanged [0, 1] [[("len", "builtins")], [("printf", "fmt")]] AMap.empty "len" =
    mergeTablesRanged [1, 0] [[("len", "builtins")], [("printf", "fmt")]] AMap.empty "len" := by decide

/-- **candidates probed in priority order**: the module's file is the FIRST extension of the list
    whose file exists — a function of the list and the filesystem alone (all lists, all filesystems) -/
theorem pickExtension_first (exts : List String) (present : String → Bool) (e : String) :
    pickExtension exts present = some e ↔
      present e = true ∧ ∃ pre post, exts = pre ++ e :: post ∧ ∀ x ∈ pre, (!present x) = true := by
  unfold pickExtension
  exact List.find?_eq_some_iff_append

theorem pickExtension_none (exts : List String) (present : String → Bool) :
    pickExtension exts present = none ↔ ∀ x ∈ exts, ¬ present x = true := by
  unfold pickExtension
  exact List.find?_eq_none

/-- the forbidden variant — every candidate probed at once, the first answer to ARRIVE wins — is
    refuted: `which.risor` and `which.rsr` both exist, two arrival orders, two different modules -/
theorem pickExtensionRaced_counterexample :
    pickExtensionRaced [0, 1] [".risor", ".rsr"] (fun _ => true) = some ".risor" ∧
    pickExtensionRaced [1, 0] [".risor", ".rsr"] (fun _ => true) = some ".rsr" ∧
    pickExtension [".risor", ".rsr"] (fun _ => true) = some ".risor" := by
  decide

/-- with a single existing candidate the raced variant agrees with the code (why no test with one
    file per module sees it) -/
example : pickExtensionRaced [1, 0] [".risor", ".rsr"] (fun e => e == ".rsr") = pickExtension [".risor", ".rsr"] (fun e => e == ".rsr") := by
  decide

/-! ## declarations that introduce several names at once (`from m import a, b, c`, …) -/

/-- a slot that has been handed out never moves: the table before a declaration is a prefix
    of the table after it (all tables, all name lists) -/
theorem declareAll_prefix (ns : List String) (tab : List String) :
    ∃ l, declareAll ns tab = tab ++ l := by
  induction ns generalizing tab with
  | nil => exact ⟨[], by simp [declareAll]⟩
  | cons n ns ih =>
    by_cases hc : n ∈ tab
    · obtain ⟨l, hl⟩ := ih tab
      refine ⟨l, ?_⟩
      have : declareAll (n :: ns) tab = declareAll ns tab := by
        simp [declareAll, declare, hc]
      rw [this, hl]
    · obtain ⟨l, hl⟩ := ih (tab ++ [n])
      refine ⟨n :: l, ?_⟩
      have : declareAll (n :: ns) tab = declareAll ns (tab ++ [n]) := by
        simp [declareAll, declare, hc]
      rw [this, hl]; simp

/-- **the slots follow the source order**: new, pairwise distinct names are appended to the
    table in the order in which the statement lists them — for every table and every list -/
theorem slots_follow_source_order (ns : List String) (tab : List String) (hn : ns.Nodup)
    (hnew : ∀ n ∈ ns, n ∉ tab) : declareAll ns tab = tab ++ ns := by
  induction ns generalizing tab with
  | nil => simp [declareAll]
  | cons n ns ih =>
    have hc : n ∉ tab := hnew n (by simp)
    have h1 : declareAll (n :: ns) tab = declareAll ns (tab ++ [n]) := by
      simp [declareAll, declare, hc]
    rw [h1, ih (tab ++ [n]) (List.nodup_cons.1 hn).2]
    · simp
    · intro m hm
      have hmn : m ≠ n := fun e => (List.nodup_cons.1 hn).1 (e ▸ hm)
      have := hnew m (by simp [hm])
      simp [this, hmn]

/-- **the slot assignment does not depend on the visiting order of the alias map**: the loop as
    it is walks the import list, so for all statements, tables and every two annotations of the
    adversary the table and the operands of the stores are the same -/
theorem slot_assignment_perm_invariant (vis₁ vis₂ : List Nat) (ims : List (String × String))
    (tab : List String) : declStmt vis₁ ims tab = declStmt vis₂ ims tab := rfl

/-- the same for a whole sequence of declaring statements of one scope, whatever annotation the
    adversary attaches to each statement -/
theorem decl_program_perm_invariant (stmts : List (List Nat × List (String × String)))
    (vs : List Nat) (tab : List String) :
    declProgram declStmt stmts tab = declProgram declStmt (stmts.map fun s => (vs, s.2)) tab := by
  induction stmts generalizing tab with
  | nil => rfl
  | cons s rest ih =>
    obtain ⟨v, ims⟩ := s
    simp only [declProgram, List.map_cons]
    rw [slot_assignment_perm_invariant v vs ims tab, ih]

/-- the full statement for the variant that declares the names by ranging over the alias map … -/
def declStmtMapOrdered_full : Prop :=
  ∀ (vis₁ vis₂ : List Nat) (ims : List (String × String)) (tab : List String),
    declStmtMapOrdered vis₁ ims tab = declStmtMapOrdered vis₂ ims tab

/-- … is false: `from m import a, b` gives a the slot 0 under one visiting order and 1 under the other -/
theorem slot_assignment_map_ordered_counterexample : ¬ declStmtMapOrdered_full := by
  intro h
  have := h [0, 1] [1, 0] [("a", "a"), ("b", "b")] []
  revert this
  decide

/-- on the visiting order that happens to be the source order the variant agrees with the code -/
example : declStmtMapOrdered [0, 1, 2] [("a", "a"), ("b", "x"), ("c", "c")] ["g"] =
    declStmt [] [("a", "a"), ("b", "x"), ("c", "c")] ["g"] := by decide

example : declStmt [] [("sqrt", "s"), ("abs", "abs"), ("sqrt", "r")] ["abs"] = (["abs", "r"], [1, 0, 1]) := by decide

/-! ## non-vacuity -/


/-- a program inside the guard that uses every construct, under two different annotations -/
def sampleProg (perm : List Nat) : Prog :=
  ⟨[.decl "m" (.map perm (.cons "k" (.list (.cons (.int 1) (.cons (.str "s") .nil))) .nil)),
    .expr (.print (.cons (.var "m") .nil)),
    .decl "s" (.set (.cons (.int 3) (.cons (.int 1) .nil)))],
   .list (.cons (.index (.var "m") (.str "k")) (.cons (.var "s") (.cons (.add (.int 1) (.int 2)) .nil)))⟩

example : (sampleProg [0]).noBigMap = true ∧ (sampleProg [5, 7]).noBigMap = true ∧
    (sampleProg [0]).strip = (sampleProg [5, 7]).strip := ⟨by decide, by decide, rfl⟩

example : (eval ["zz", "print"] (sampleProg [0])).2 = ["{\"k\": [1, \"s\"]}\n"] := by rfl

example : ["b", "a", "c"].Perm ["c", "a", "b"] ∧ sortedKeys ["b", "a", "c"] = ["a", "b", "c"] := by
  constructor
  · exact (List.Perm.swap "a" "b" ["c"]).trans (by decide)
  · decide

example : KeysDistinct [("a", 1), ("b", 2)] := by simp [KeysDistinct]

/-- the guard really excludes something: the counterexample program is outside it -/
example : (dupKeyProg [0, 1]).noBigMap = false := by decide

end Risor.C05
