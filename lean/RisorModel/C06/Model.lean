/-!
C06 — cancelling the context stops the evaluation and everything it started.

Executable model of risor's cancellation machinery (vm/vm.go `start`, `eval`, `Clone`,
`cloneCallAsync`, `callFunction`; object/chan.go, object/thread.go, modules/time/time.go;
the callback-carrying builtins of object/list.go and builtins/builtins.go) as it IS.

* a *program shape* `Prog` abstracts a script to what matters for cancellation: terminating
  compute, unbounded compute loops, blocking primitives, builtins that call a script
  function back on the same VM — the callback builtins of the repository, and host-provided
  builtins that hand the callback a context of their own making (`Wrap.host`: one cancelled
  with the run's, or a detached one) —, plain script calls `f()`, `defer` statements (a
  DEFERRED script closure is kept by the function frame that executed the statement and runs
  when that frame is left — by a return, by an error, or because the halt test stopped it),
  `import` of a source module (the module's TOP-LEVEL code runs as a nested `eval` on the same
  VM, under the context the importing `eval` was handed: `Wrap.imp`), and `go`/`spawn`;
* a *thread* is one goroutine running script code on its own VM (the main thread on the VM
  that `Run`/`Call` started, every spawned thread on a clone): the VM's `halt` flag, whether
  `start()` armed a context watcher for it, what it is doing, and the stack of `callFunction`
  frames it is inside of (builtin callbacks, script calls, deferred calls), each with the
  deferred closures it holds;
* a *system* is the cancelled flag of the (shared, inherited) context plus all threads;
* a *trace* is any list of labels `cancel | fire i | step i`; `exec` applies it (labels that
  are not enabled are no-ops), so "for every interleaving" is "for every `List Label`".

`Cfg.armClones = false` is the code as it is (`implCfg`); `true` is the design the property
asks for (`specCfg`: every VM that runs script code polls a flag its context sets).
Core Lean only.
-/
namespace Risor.C06

/-- blocking primitives; all of them `select` on `ctx.Done()` -/
inductive Prim where
  | recv   -- Chan.Receive / `<-c`          : returns ctx.Err()
  | send   -- Chan.Send / `c <- v`          : returns ctx.Err()
  | next   -- Chan.Next (`for … range c`)   : reports "exhausted", the loop ends normally
  | sleep  -- time.sleep                    : returns nil early
  | wait   -- Thread.Wait                   : returns Errorf("wait error: %s", ctx.Err())
  deriving DecidableEq, Repr, Inhabited

/-- The context a builtin hands to `callFunction` (through the public callback API,
    `object.GetCallFunc(ctx)`) for the callback it runs, relative to the context the
    evaluation was started with (the one the watcher of `start()` waits on).  `eval` receives
    THIS context, and `ctx.Err()` in its halt test is the error of THIS context. -/
inductive Cc where
  | follows   -- the caller's own ctx or one cancelled with it (child `WithCancel`, `WithValue`):
              -- it reports an error as soon as the run's context has fired
  | detached  -- carries the VM's values (call function, OS, …) but is NOT cancelled with the
              -- run: `context.WithoutCancel(ctx)`, `context.Background()` + the values copied
  deriving DecidableEq, Repr, Inhabited

/-- what is known about an error travelling up: it still *is* the context's error
    (`errors.Is(err, ctx.Err())`), only its text survived in a fresh error value, or it is the
    Go panic of a pop from the empty stack (recovered by Run/Call: `panic: runtime error: index
    out of range [-1]` — neither the context's error nor its text) -/
inductive Err where
  | ctx | msg | panic
  deriving DecidableEq, Repr, Inhabited

/-- builtins that call a script function back through `callFunction` on the same VM -/
inductive Wrap where
  | each | map | filter  -- object/list.go: `return Errorf(err.Error())`
  | call                 -- builtins.Call:  `return object.Errorf(err.Error())`
  | sorted               -- builtins.Sorted: `return object.TypeErrorf(sortErr.Error())`
  | try_                 -- builtins.Try: a non-fatal error is kept as `lastErr`, evaluation goes on
  /-- a host-provided builtin that calls the script function back with a callee context of
      kind `cc` and hands an error of the callback on unchanged (`object.NewError(err)`).
      `emptyPop` is a prophecy bit (each site of a shape executes at most once): when the
      halt test stops code under this callee context although the context reports no error,
      `callFunction` goes on to `vm.pop()` the "result" of the abandoned frame — `true` = some
      such pop finds the VM's stack empty (Go panic `index out of range [-1]`), `false` = every
      pop finds a value (the callback "returns" whatever was on top of the stack). -/
  | host (cc : Cc) (emptyPop : Bool)
  /-- not a builtin: a plain script call `f()` (`op.Call` → `callObject` → `callFunction`, a
      nested `eval` on the same VM with the same context); an error of the callee is returned
      by the calling `eval` unchanged -/
  | fn
  /-- not a builtin either: the frame of a DEFERRED call.  `callFunction`'s Go-level `defer`
      runs the deferred partials of the frame beneath through `callObject` (same VM, the
      context `callFunction` was handed) when that frame is left; `pending` is the outcome of
      the frame beneath so far (`none` = a result, `some e` = the error it is left with).
      Never written in a program shape: only `leaveT` pushes it. -/
  | dfr (pending : Option Err)
  /-- not a builtin: `import m` / `from m import x` of a SOURCE module that has not been
      imported on this VM yet (`op.Import` / `op.FromImport` → `importModule(ctx, name)`): the
      module's TOP-LEVEL code is evaluated by a nested `vm.eval(ctx)` on the same VM, and `ctx`
      is the context the importing `eval` itself runs under — so the body's polls return that
      context's error, its blocking primitives select on that context's `Done`, and whatever it
      starts with `go`/`spawn` inherits that context (tied:
      `Ties.import_body_runs_under_importers_ctx_tie`; the variant that hands the body another
      context is `stepImp .detached`).  An error of the module body is returned by the importing `eval` unchanged
      (`if err != nil { return err }`, the module is then not cached).  Not a function frame:
      `importModule` does not go through `callFunction`, the frame holds no deferred closures
      (`defer` directly in a module's top-level code is a compile error: `wfIn`).  A module
      that has been imported before is served from `vm.modules`: no frame, just `compute`.
      Before the body runs the importer compiles the module WITH THE SAME CONTEXT: the local
      importer's `parser.Parse(ctx, …)` fails with `ctx.Err()` when the context has already
      fired, so an `import` reached after the cancellation raises the context's error and no
      module body starts any more, on any VM (`stepT`; tied: `Ties.import_parse_observes_ctx_tie`). -/
  | imp
  deriving DecidableEq, Repr, Inhabited

/-- program shapes (continuation style) -/
inductive Prog where
  | done                                         -- end of the code / implicit return
  | compute (k : Prog)                           -- ≥ 1 instruction that terminates
  | spin                                         -- unbounded compute loop / recursion driver
  | block (p : Prim) (k : Prog)                  -- blocks for ever unless the context fires
  | cb (w : Wrap) (body : Prog) (k : Prog)       -- builtin `w` runs `body` as a callback
  | spawn (id : Nat) (body : Prog) (k : Prog)    -- `go f()` / `spawn(f)`: `body` on a clone
  | defer_ (d : Prog) (k : Prog)                 -- `defer func(){ d }()`: the innermost function
                                                 -- frame keeps the closure; `k` goes on
  deriving DecidableEq, Repr, Inhabited

/-- effect of a fired context on a thread blocked in the primitive: `some e` = an error is
    raised in the script, `none` = the builtin returns normally and the script goes on -/
def primEffect : Prim → Option Err
  | .recv => some .ctx
  | .send => some .ctx
  | .wait => some .msg
  | .next => none
  | .sleep => none

/-- the code a thread resumes at when the primitive returns normally on a fired context:
    leaving a `for … range c` loop lands on at least one more instruction of the enclosing
    code (observed: the call may still return the context's error after the loop) -/
def afterPrim : Prim → Prog → Prog
  | .next, k => .compute k
  | _, k => k

/-- what a callback-carrying builtin does with an error from its callback:
    `some e'` = it raises `e'`, `none` = swallowed -/
def wrapErr : Wrap → Err → Option Err
  | _, .panic => some .panic      -- a Go panic unwinds through every builtin (none recovers)
  | .try_, _ => none
  | .host _ _, e => some e
  | .fn, e => some e              -- `if err := vm.callObject(…); err != nil { return err }`
  | .dfr _, e => some e           -- (a deferred call's frame is left through `returnT`)
  | .imp, e => some e             -- `if err := vm.eval(ctx); err != nil { return nil, err }`
  | _, _ => some .msg

inductive St where
  | run (p : Prog)                 -- about to execute the first action of `p`
  | blocked (pr : Prim) (k : Prog) -- inside the primitive's `select`
  | raising (e : Err)              -- an error is unwinding: the top frame is left with it
  | leaving                        -- the top frame is left with a result, by Go code of
                                   -- `callFunction` (its loop over the deferred calls): NO poll
  | fin (e : Option Err)           -- goroutine ended: normally / with an error
  deriving DecidableEq, Repr, Inhabited

/-- one `callFunction` invocation on the VM: who called it, the code the caller resumes at,
    and the deferred closures the frame holds (`frame.defers`, most recent first: `Defer`
    prepends, the loop in `callFunction` runs them front to back) -/
abbrev Frame := Wrap × Prog × List Prog

structure Thread where
  id : Nat
  halt : Bool                      -- `vm.halt` of the VM this thread runs on
  armed : Bool                     -- `start()` armed a watcher goroutine for this VM
  st : St
  frames : List Frame              -- enclosing `callFunction` frames, innermost first
  deriving DecidableEq, Repr, Inhabited

def St.isFin : St → Bool
  | .fin _ => true
  | _ => false

/-! ### the halt test of `eval` and the context it consults

`eval(ctx)` starts every instruction with `if atomic.LoadInt32(&vm.halt) == 1 { return
ctx.Err() }`.  `ctx` is the context `eval` WAS HANDED: for the main code the run's own
context, for a callback the context the builtin passed to `callFunction`.  The DECISION to
stop reads only the flag; the consulted context only chooses the value returned. -/

/-- result of the halt test -/
inductive Poll where
  | go                   -- flag down: the instruction executes
  | stop (err : Bool)    -- `return ctx.Err()`; `err` = the consulted context reports an error
  | lower                -- lower the flag and execute the instruction (NOT in the code as it is)
  deriving DecidableEq, Repr, Inhabited

/-- the code as it is: `calleeErr` (has the context handed to this `eval` fired?) does not
    enter the decision -/
def pollImpl (halt calleeErr : Bool) : Poll := if halt then .stop calleeErr else .go

/-- a variant that trusts the consulted context ("the flag is not meant for me when my own
    context is live"): what the property forbids — see `Props.pollTrusting_not_honoured` -/
def pollTrusting (halt calleeErr : Bool) : Poll :=
  if halt then (if calleeErr then .stop true else .lower) else .go

/-! what `pollImpl` and `haltedT` assume about the text of vm/vm.go (hand-written from the
pinned tree; the extractor regenerates the same facts on every run, `Ties.lean` compares) -/

/-- the halt test: `if atomic.LoadInt32(&vm.halt) == 1 { return ctx.Err() }` -/
def expectHaltTestCond : String := "atomic.LoadInt32(&vm.halt) == 1"
def expectHaltTestBody : List String := ["return ctx.Err()"]
/-- only `start` (clears the flag; its watcher raises it) and `resetForNewCode` write it -/
def expectHaltWriters : List String := ["resetForNewCode", "start"]
/-- `callFunction(ctx context.Context, …)` runs `vm.eval(ctx)`: the context consulted by a
    callback's polls is the one the builtin handed over; `initContext` registers
    `vm.callFunction` as the public call function -/
def expectCallFunctionFirstParam : String := "ctx context.Context"
def expectCallFunctionEvalArg : String := "ctx"
def expectRegisteredCallFunc : String := "vm.callFunction"

/-- the deferred calls of a frame: ONE Go-level `defer` of `callFunction`, whose first
    statement is the loop over `callFrame.defers` (it runs however the frame is left), each
    partial through `vm.callObject` with the context `callFunction` was handed; nothing in it
    mentions the halt flag -/
def expectDeferRunnerCall : String := "vm.callObject(ctx, partial.Function(), partial.Args())"

/-- the innermost enclosing host callback that was given a detached callee context (every
    context derived further in is detached as well), with its prophecy bit; `none` = the code
    the thread is executing was handed a context that fires with the run's -/
def detachedBy : List Frame → Option Bool
  | [] => none
  | (.host .detached e, _, _) :: _ => some e
  | _ :: fs => detachedBy fs

/-! ### leaving a frame: the deferred calls

`callFunction` registers a Go-level `defer` that, HOWEVER the frame is left — `eval` returned
a result, an error, or the halt test's `ctx.Err()` —, calls every deferred partial of the frame
through `vm.callObject(ctx, …)`: a deferred script closure is one more `callFunction` / `eval`
on the same VM with the same context, so its FIRST instruction polls the flag like any other.
An error of a deferred call replaces the frame's outcome (`result = nil; resultErr = err`) and
the loop goes on; a Go panic (`Err.panic`) keeps unwinding whatever the deferred calls do.
Nothing here reads or writes `vm.halt` (tied: `Ties.deferred_calls_run_under_the_flag_tie`). -/

/-- outcome of a frame after one of its deferred calls ended with `o` -/
def deferredOutcome (pending o : Option Err) : Option Err :=
  match pending, o with
  | some .panic, _ => some .panic
  | _, some e => some e
  | p, none => p

/-- `callFunction` returns to whoever called it (all deferred calls of the frame are over):
    a builtin or the calling `eval` for a callback / script call (`wrapErr`), the loop over
    the deferred calls of the frame beneath for a deferred call -/
def returnT (t : Thread) (w : Wrap) (k : Prog) (fs : List Frame) (o : Option Err) : Thread :=
  match w with
  | .dfr pending =>
    match deferredOutcome pending o with
    | none => { t with st := .leaving, frames := fs }
    | some e => { t with st := .raising e, frames := fs }
  | _ =>
    match o with
    | none => { t with st := .run k, frames := fs }
    | some e =>
      match wrapErr w e with
      | none => { t with st := .run k, frames := fs }
      | some e' => { t with st := .raising e', frames := fs }

/-- the top frame is left with outcome `o`: its next deferred closure `d` starts (a new frame
    `.dfr o` on top; the flag is NOT touched), or, none being left, `callFunction` returns -/
def leaveT (t : Thread) (o : Option Err) : Thread :=
  match t.frames with
  | [] => { t with st := .fin o }
  | (w, k, d :: ds) :: fs =>
    { t with st := .run d, frames := (.dfr o, .done, []) :: (w, k, ds) :: fs }
  | (w, k, []) :: fs => returnT t w k fs o

/-- CONTRAST, not the code as it is: a `callFunction` that lowers the flag while the deferred
    calls of a frame run ("cleanup code has to run") — and would raise it again afterwards.
    The watcher goroutine is one-shot and has already stored its 1, so nothing raises the
    flag while a deferred call runs: see `Props.deferLowering_not_stopped`. -/
def leaveLowering (t : Thread) (o : Option Err) : Thread := { leaveT t o with halt := false }

/-- `defer func(){ d }()`: `frame.Defer` prepends the partial to the defers of the active
    function frame (the compiler rejects `defer` outside a function) -/
def registerT (t : Thread) (d k : Prog) : Thread :=
  match t.frames with
  | [] => { t with st := .run k }
  | (w, k0, ds) :: fs => { t with st := .run k, frames := (w, k0, d :: ds) :: fs }

/-- what a thread does when the halt test of its current `eval` finds the flag raised
    (`pollImpl true _ = .stop _`): the frame is abandoned in every case.  Consulted context
    fired (`detachedBy = none`): `ctx.Err()` is raised.  Consulted context live: `eval`
    returns nil, `callFunction` pops a "result" — the callback returns normally to its
    builtin with a junk value, or the pop panics. -/
def haltedT (t : Thread) : Thread :=
  match detachedBy t.frames with
  | none => { t with st := .raising .ctx }
  | some true => { t with st := .raising .panic }
  | some false => leaveT t none      -- (`detachedBy [] = none`: there is a frame to leave)

/-- One step of one thread; `c` = the context has fired.  Returns the new thread state and
    the body of a function it spawned, if any.  Every instruction polls `halt` first
    (`eval`); the only step without a poll is falling off the end of the main code. -/
def stepT (c : Bool) (t : Thread) : Thread × Option (Nat × Prog) :=
  match t.st with
  | .fin _ => (t, none)
  | .raising e => (leaveT t (some e), none)
  | .leaving => (leaveT t none, none)
  | .blocked pr k =>
    if c then
      match primEffect pr with
      | some e => ({ t with st := .raising e }, none)
      | none => ({ t with st := .run (afterPrim pr k) }, none)
    else (t, none)
  | .run .done =>
    match t.frames with
    | [] => ({ t with st := .fin none }, none)
    | _ :: _ =>
      if t.halt then (haltedT t, none)
      else (leaveT t none, none)
  | .run (.compute k) =>
    if t.halt then (haltedT t, none) else ({ t with st := .run k }, none)
  | .run .spin =>
    if t.halt then (haltedT t, none) else (t, none)
  | .run (.block pr k) =>
    if t.halt then (haltedT t, none) else ({ t with st := .blocked pr k }, none)
  | .run (.cb w body k) =>
    if t.halt then (haltedT t, none)
    -- `import` of a module that has not been imported yet goes through the importer first:
    -- `vm.importer.Import(ctx, name)` parses the source with `parser.Parse(ctx, …)`, which
    -- returns `ctx.Err()` before the first statement once the context has fired — the import
    -- fails with the context's own error, NO instruction of the module body executes
    else if w == .imp && c then ({ t with st := .raising .ctx }, none)
    else ({ t with st := .run body, frames := (w, k, []) :: t.frames }, none)
  | .run (.spawn id body k) =>
    if t.halt then (haltedT t, none)
    else ({ t with st := .run k }, some (id, body))
  | .run (.defer_ d k) =>
    if t.halt then (haltedT t, none) else (registerT t d k, none)

structure Cfg where
  armClones : Bool
  deriving DecidableEq, Repr

/-- the code as it is: `Clone()` never calls `start()` -/
def implCfg : Cfg := ⟨false⟩
/-- what the property asks for -/
def specCfg : Cfg := ⟨true⟩

structure Sys where
  cancelled : Bool
  threads : List Thread
  deriving DecidableEq, Repr

inductive Label where
  | cancel            -- the context is cancelled / its deadline passes
  | fire (i : Nat)    -- the watcher goroutine of thread i's VM runs: `halt := 1`
  | step (i : Nat)    -- thread i executes one step
  deriving DecidableEq, Repr

def newClone (cfg : Cfg) (b : Nat × Prog) : Thread :=
  { id := b.1, halt := false, armed := cfg.armClones, st := .run b.2, frames := [] }

/-- the watcher: only a VM that `start()` armed has one -/
def fireT (t : Thread) : Thread := if t.armed then { t with halt := true } else t

def stepAt (c : Bool) : Nat → List Thread → List Thread × Option (Nat × Prog)
  | _, [] => ([], none)
  | 0, t :: ts => ((stepT c t).1 :: ts, (stepT c t).2)
  | i + 1, t :: ts => (t :: (stepAt c i ts).1, (stepAt c i ts).2)

def fireAt : Nat → List Thread → List Thread
  | _, [] => []
  | 0, t :: ts => fireT t :: ts
  | i + 1, t :: ts => t :: fireAt i ts

def apply (cfg : Cfg) (s : Sys) : Label → Sys
  | .cancel => { s with cancelled := true }
  | .fire i => if s.cancelled then { s with threads := fireAt i s.threads } else s
  | .step i =>
    let r := stepAt s.cancelled i s.threads
    { s with threads := r.1 ++ (r.2.map (newClone cfg)).toList }

def exec (cfg : Cfg) (s : Sys) (σ : List Label) : Sys := σ.foldl (apply cfg) s

/-- `Run(ctx)` on a fresh VM: `start()` arms the watcher of the main VM -/
def init (p : Prog) : Sys :=
  { cancelled := false, threads := [{ id := 0, halt := false, armed := true, st := .run p, frames := [] }] }

/-! ### potential: a bound on the number of own steps a thread can still take -/

def size : Prog → Nat
  | .done => 2
  | .compute k => 1 + size k
  | .spin => 2
  | .block _ k => 3 + size k
  | .cb _ body k => 2 + size body + size k
  | .spawn _ _ k => 1 + size k
  | .defer_ d k => 6 + size d + size k

def potSt : St → Nat
  | .run p => size p
  | .blocked _ k => 2 + size k
  | .raising _ => 1
  | .leaving => 1
  | .fin _ => 0

/-- what the deferred closures a frame holds can still cost: each runs as a frame of its own -/
def potDefers : List Prog → Nat
  | [] => 0
  | d :: ds => 5 + size d + potDefers ds

def potFrames : List Frame → Nat
  | [] => 0
  | (_, k, ds) :: fs => 1 + size k + potDefers ds + potFrames fs

def potT (t : Thread) : Nat := potSt t.st + potFrames t.frames

/-- own steps of a thread once the context has fired (spawned children are dropped here;
    they are threads of their own in `exec`) -/
def iter (n : Nat) (t : Thread) : Thread :=
  match n with
  | 0 => t
  | n + 1 => iter n (stepT true t).1

/-- the model's verdict for one thread after cancellation (and after its watcher, if it
    has one, has fired): does it ever end?  Decided by running `potT t` steps
    (`Props.stops_iff`: this is exact). -/
def stops (t : Thread) : Bool := (iter (potT t) (fireT t)).st.isFin

/-! ### decidable guards (what the partial theorems exclude) -/

/-- no unbounded compute loop anywhere in the shape -/
def noSpin : Prog → Bool
  | .done => true
  | .compute k => noSpin k
  | .spin => false
  | .block _ k => noSpin k
  | .cb _ body k => noSpin body && noSpin k
  | .spawn _ body k => noSpin body && noSpin k
  | .defer_ d k => noSpin d && noSpin k

/-- no unbounded compute loop inside a spawned function (at any nesting depth) -/
def noCloneSpin : Prog → Bool
  | .done => true
  | .compute k => noCloneSpin k
  | .spin => true
  | .block _ k => noCloneSpin k
  | .cb _ body k => noCloneSpin body && noCloneSpin k
  | .spawn _ body k => noSpin body && noCloneSpin k
  | .defer_ d k => noCloneSpin d && noCloneSpin k

/-- outside spawned functions: no construct that swallows the cancellation
    (`try`, `time.sleep`, range over a channel) -/
def noSwallow : Prog → Bool
  | .done => true
  | .compute k => noSwallow k
  | .spin => true
  | .block p k => (primEffect p).isSome && noSwallow k
  | .cb w body k => w != .try_ && noSwallow body && noSwallow k
  | .spawn _ _ k => noSwallow k
  | .defer_ d k => noSwallow d && noSwallow k

/-- outside spawned functions: nothing that replaces the context's error by a copy of its
    text (every callback-carrying builtin, `thread.wait`) and nothing that swallows it; the
    top-level code of imported modules is part of the main code -/
def noLossy : Prog → Bool
  | .done => true
  | .compute k => noLossy k
  | .spin => true
  | .block p k => primEffect p == some .ctx && noLossy k
  | .cb .imp body k => noLossy body && noLossy k   -- an import hands the error on unchanged
  | .cb _ _ _ => false
  | .spawn _ _ k => noLossy k
  | .defer_ _ _ => false           -- (only inside a function frame, i.e. inside a `.cb`)

/-- outside spawned functions: no host callback with a detached callee context (guard of the
    finding "the halt test returns the error of the context the callee was handed") -/
def noDetached : Prog → Bool
  | .done => true
  | .compute k => noDetached k
  | .spin => true
  | .block _ k => noDetached k
  | .cb w body k => (match w with
      | .host .detached _ => false
      | _ => true) && noDetached body && noDetached k
  | .spawn _ _ k => noDetached k
  | .defer_ d k => noDetached d && noDetached k

/-! ### domain of the Impl model for detached callee contexts

Under a detached callee context the blocking primitives `select` on the Done channel of the
context THEY were handed, which by the host's choice never fires, a function spawned there
inherits that context, and `sorted`/`map`/`filter` go on to inspect the junk value an
abandoned callback "returned".  None of that is modelled: inside the body of a host callback
with a detached context the model covers computation, loops, and the callbacks of host
builtins, `each`, `call` and `try`, nested to any depth (`wf`; the oracle rejects other
shapes, the generator does not produce them).  Script calls and `defer` statements are not
modelled under a detached callee context either. -/

/-- code that may run under a detached callee context -/
def computeOnly : Prog → Bool
  | .done => true
  | .compute k => computeOnly k
  | .spin => true
  | .block _ _ => false
  | .cb w body k => (match w with
      | .host _ _ => true
      | .each => true
      | .call => true
      | .try_ => true
      | _ => false) && computeOnly body && computeOnly k
  | .spawn _ _ _ => false
  | .defer_ _ _ => false

/-- no `defer` statement anywhere in the shape -/
def noDefer : Prog → Bool
  | .done => true
  | .compute k => noDefer k
  | .spin => true
  | .block _ k => noDefer k
  | .cb _ body k => noDefer body && noDefer k
  | .spawn _ body k => noDefer body && noDefer k
  | .defer_ _ _ => false

/-- no host callback with a detached context anywhere (spawned functions included) -/
def noDetachedAnywhere : Prog → Bool
  | .done => true
  | .compute k => noDetachedAnywhere k
  | .spin => true
  | .block _ k => noDetachedAnywhere k
  | .cb w body k => (match w with
      | .host .detached _ => false
      | _ => true) && noDetachedAnywhere body && noDetachedAnywhere k
  | .spawn _ body k => noDetachedAnywhere body && noDetachedAnywhere k
  | .defer_ d k => noDetachedAnywhere d && noDetachedAnywhere k

/-- `inFn` = the code is the body of a function (a callback, a script call, a deferred
    closure): a `defer` statement is only accepted there (the compiler rejects it at the top
    level of the main code and of a module — the body of `.imp` is not a function body; the top-level function of a spawned thread or of `vm.Call` is not modelled as a
    frame, so a `defer` directly in it is outside the model — the generator wraps it in a
    script call).  `.dfr` is not a program construct. -/
def wfIn (inFn : Bool) : Prog → Bool
  | .done => true
  | .compute k => wfIn inFn k
  | .spin => true
  | .block _ k => wfIn inFn k
  | .cb w body k => (match w with
      | .host .detached _ => computeOnly body
      | .dfr _ => false
      | _ => true) && wfIn (w != .imp) body && wfIn inFn k
  | .spawn _ body k => wfIn false body && wfIn inFn k
  | .defer_ d k => inFn && wfIn true d && wfIn inFn k

/-- deferred closures and detached callee contexts are not combined (how a Go panic of the
    empty pop interleaves with the Go-level defers of `callFunction` is not modelled) -/
def wf (p : Prog) : Bool := wfIn false p && (noDefer p || noDetachedAnywhere p)

/-- set the prophecy bit of every host callback of the shape -/
def setPop (b : Bool) : Prog → Prog
  | .done => .done
  | .compute k => .compute (setPop b k)
  | .spin => .spin
  | .block pr k => .block pr (setPop b k)
  | .cb w body k => .cb (match w with
      | .host cc _ => .host cc b
      | w => w) (setPop b body) (setPop b k)
  | .spawn id body k => .spawn id (setPop b body) (setPop b k)
  | .defer_ d k => .defer_ (setPop b d) (setPop b k)

/-! ### the context the top-level code of an imported module runs under

`importModule(ctx, name)` evaluates the module body with `vm.eval(ctx)` — the SAME context the
importing `eval` runs under.  In the model that is: the code inside an `.imp` frame is stepped
with the same signal `c` ("the run's context has fired") as the code around it, and a thread
it spawns is a thread of the system like any other (`apply` steps every thread with
`s.cancelled`).  Three things of the module body depend on it: the error its polls return, its
blocking primitives (they `select` on the `Done` channel of THAT context), and the context the
functions it starts with `go`/`spawn` inherit (clone VMs have no watcher: that context is all
that ever stops them). -/

/-- is the thread executing (inside) the top-level code of a module that is being imported? -/
def inImport : List Frame → Bool
  | [] => false
  | (w, _, _) :: fs => w == .imp || inImport fs

/-- what the code running on top of the frames `fs` sees of the run's context (`c` = it has
    fired) when `importModule` hands the module body a context of kind `cc`.  `.follows` is the
    code as it is (`vm.eval(ctx)`).  `.detached` is the CONTRAST — a body evaluated under
    `context.WithoutCancel(ctx)` / a background context: inside an import the context the
    primitives select on never fires. -/
def seenBy (cc : Cc) (c : Bool) (fs : List Frame) : Bool :=
  match cc with
  | .follows => c
  | .detached => c && !inImport fs

/-- one step of a thread under an `importModule` that hands the module body a context of kind
    `cc`; `stepImp .follows` IS `stepT` (`Props.stepImp_follows`) -/
def stepImp (cc : Cc) (c : Bool) (t : Thread) : Thread × Option (Nat × Prog) :=
  stepT (seenBy cc c t.frames) t

/-- `n` applications of a step function -/
def iterWith (f : Thread → Thread) : Nat → Thread → Thread
  | 0, t => t
  | n + 1, t => iterWith f n (f t)

/-- own steps of a thread after the run's context has fired, under `stepImp cc` -/
def iterImp (cc : Cc) (n : Nat) (t : Thread) : Thread :=
  iterWith (fun t => (stepImp cc true t).1) n t

/-- own steps of a thread whose inherited context NEVER fires (CONTRAST: a function started
    with `go`/`spawn` by a module body that was handed a detached context inherits it; its VM
    is a clone without a watcher) -/
def iterNever (n : Nat) (t : Thread) : Thread :=
  iterWith (fun t => (stepT false t).1) n t

/-- the verdicts of the contrast, computed like `stops` (exact: `Props.stopsImp_iff`,
    `Props.stopsNever_iff`) -/
def stopsImp (cc : Cc) (t : Thread) : Bool := (iterImp cc (potT t) (fireT t)).st.isFin
def stopsNever (t : Thread) : Bool := (iterNever (potT t) t).st.isFin

/-- ids of the `go`/`spawn` sites whose function inherits the context a module body was
    handed: the sites inside the top-level code of an imported module (`inImp`), at any depth
    of callbacks and script calls, and the sites inside THOSE functions.  (Shapes are in
    continuation style: the body of a function stands where the function is called, so
    "inside" is lexical.) -/
def inheritsImportCtx (inImp : Bool) : Prog → List Nat
  | .done => []
  | .compute k => inheritsImportCtx inImp k
  | .spin => []
  | .block _ k => inheritsImportCtx inImp k
  | .cb w body k => inheritsImportCtx (inImp || w == .imp) body ++ inheritsImportCtx inImp k
  | .spawn id body k =>
    (if inImp then [id] else []) ++ inheritsImportCtx inImp body ++ inheritsImportCtx inImp k
  | .defer_ d k => inheritsImportCtx inImp d ++ inheritsImportCtx inImp k

/-- does the shape import a module at all (in the main code or in a spawned function)? -/
def hasImport : Prog → Bool
  | .done => false
  | .compute k => hasImport k
  | .spin => false
  | .block _ k => hasImport k
  | .cb w body k => w == .imp || hasImport body || hasImport k
  | .spawn _ body k => hasImport body || hasImport k
  | .defer_ d k => hasImport d || hasImport k

/-! what the model assumes about the text of `importModule` and of its callers in `eval`
(hand-written from the pinned tree; regenerated by the extractor, compared in `Ties.lean`) -/

/-- `importModule(ctx context.Context, name string)` runs the module body with `vm.eval(ctx)` -/
def expectImportFirstParam : String := "ctx context.Context"
def expectImportEvalArgs : List String := ["ctx"]
/-- every call of `vm.importModule` in `eval` (`op.Import`, twice in `op.FromImport`) passes
    the context `eval` was handed -/
def expectImportCallCtxArgs : List String := ["ctx", "ctx", "ctx"]
/-- before that, `importModule` asks the importer with the same context:
    `vm.importer.Import(ctx, name)`; the local importer (`LocalImporter.Import(ctx context.Context,
    …)`) hands it to `parseAndCompile(ctx, …)`, which parses with `parser.Parse(ctx, …)`; the
    statement loop of `Parser.Parse` starts every round with `select { case <-ctx.Done(): return
    nil, ctx.Err() … }` -/
def expectImporterCallArgs : List String := ["ctx", "name"]
def expectLocalImporterCtxChain : List String :=
  ["Import(ctx context.Context)", "parseAndCompile(ctx)", "parseAndCompile(ctx context.Context)", "parser.Parse(ctx)"]
def expectParserCtxCheck : List String := ["<-ctx.Done()", "return nil, ctx.Err()"]

/-! ### evaluations on a VM that has been used before (`Run`, `Call`, `RunCode` again)

Every entry point goes through `start()`: `halt := 0`, a NEW watcher goroutine for the
context it was given now — whatever the VM ran before, with whatever context, and whether
or not that context has already fired (a watcher for a fired context is enabled at once).
`RunCode` on a used VM then calls `resetForNewCode()`, which stores `halt := 0` a second
time, AFTER the watcher was launched: when the context had already fired before the start,
the watcher may run in between, its store is wiped and it has exited — the evaluation is
left without any watcher (`lost`). -/

/-- how the host starts an evaluation on the main VM -/
inductive Entry where
  | run      -- vm.Run  (first evaluation of a fresh VM)
  | call     -- vm.Call on a VM that ran before: start(); callFunction
  | runCode  -- vm.RunCode on a VM that ran before: start(); resetForNewCode(); eval
  deriving DecidableEq, Repr, Inhabited

/-- can the store of the watcher armed by this `start()` be wiped?  Only by the second
    `halt := 0` of `RunCode` on a used VM, and only when the context had fired before the
    start (otherwise the watcher is still waiting when the reset happens) -/
def canLose (e : Entry) (firedBefore : Bool) : Bool :=
  match e with
  | .runCode => firedBefore
  | _ => false

/-- the main thread after `start()` (+ `resetForNewCode()`) on a VM in ANY earlier state
    `t`: nothing of the earlier evaluation survives in what cancellation depends on.
    `lost = true` is the `RunCode` race above (only possible when `canLose`). -/
def restart (lost : Bool) (t : Thread) (p : Prog) : Thread :=
  { t with halt := false, armed := !lost, st := .run p, frames := [] }

/-- a system whose main VM is started again with program `p`; the threads spawned by
    earlier evaluations go on as they are (they run on their own clones) -/
def restartSys (lost : Bool) (s : Sys) (p : Prog) : Sys :=
  match s.threads with
  | [] => s
  | m :: cl => { s with threads := restart lost m p :: cl }

/-- a representative used main VM: its last evaluation was stopped by the poll -/
def usedMain : Thread :=
  { id := 0, halt := true, armed := true, st := .fin (some .ctx), frames := [] }

end Risor.C06
