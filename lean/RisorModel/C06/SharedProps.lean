import RisorModel.C06.Shared
/-!
C06 — several evaluations sharing host-supplied channel objects: property theorems.

"When the context given to an evaluation is cancelled or reaches its deadline, the call
returns promptly …" — for an evaluation that shares channel objects with OTHER evaluations
(each with its own context, cancelled at its own time) this must hold whatever the others do.

Everything is for ALL systems `s : Sys` (any number of contexts, consumers and channels, in any
state) and ALL traces `σ : List Label` (every interleaving of the consumers' steps, of the
cancellations of every context and of values put into / taken out of the channels by anybody).
-/
namespace Risor.C06.Shared

/-! ### locality: what a step of one consumer touches -/

theorem selectT_cons_other (s : Sys) (k i : Nat) (b : Bool) (x : Con) (o : Op) (c : Nat)
    (rest : List (Op × Nat)) (ch : Ch) (h : i ≠ k) :
    (selectT s k b x o c rest ch).cons i = s.cons i := by
  unfold selectT
  simp only []
  split
  · simp [setCon, setCh, h]
  · split
    · cases o <;> simp [setCon, setCh, h]
    · simp [setCh]

theorem selectT_done (s : Sys) (k : Nat) (b : Bool) (x : Con) (o : Op) (c : Nat)
    (rest : List (Op × Nat)) (ch : Ch) : (selectT s k b x o c rest ch).done = s.done := by
  unfold selectT
  simp only []
  split
  · rfl
  · split
    · cases o <;> rfl
    · rfl

/-- a step of consumer `k` leaves every other consumer as it is -/
theorem stepCon_cons_other (s : Sys) (k i : Nat) (b : Bool) (h : i ≠ k) :
    (stepCon s k b).cons i = s.cons i := by
  unfold stepCon
  simp only []
  split
  · rfl
  · split
    · simp [setCon, h]
    · exact selectT_cons_other s k i b _ _ _ _ _ h

/-- no step of a consumer changes the state of a context -/
theorem stepCon_done (s : Sys) (k : Nat) (b : Bool) : (stepCon s k b).done = s.done := by
  unfold stepCon
  simp only []
  split
  · rfl
  · split
    · rfl
    · exact selectT_done s k b _ _ _ _ _

/-- nothing but a consumer's own steps changes it: not the steps of the others, not the
    cancellation of any context, not what happens to the channels -/
theorem apply_cons_other (s : Sys) (i : Nat) (l : Label) (h : l.notStepOf i = true) :
    (applyWith stepCon s l).cons i = s.cons i := by
  cases l with
  | cancel k => rfl
  | step k b =>
    have hk : i ≠ k := by
      intro e
      simp [Label.notStepOf, e] at h
    exact stepCon_cons_other s k i b hk
  | feed c =>
    simp only [applyWith]
    split <;> rfl
  | drain c => rfl

/-- a context that is done stays done -/
theorem apply_done_mono (s : Sys) (k : Nat) (l : Label) (h : s.done k = true) :
    (applyWith stepCon s l).done k = true := by
  cases l with
  | cancel j =>
    simp only [applyWith]
    split
    · rfl
    · exact h
  | step j b => rw [show applyWith stepCon s (.step j b) = stepCon s j b from rfl, stepCon_done]; exact h
  | feed c =>
    simp only [applyWith]
    split
    · exact h
    · exact h
  | drain c => exact h

/-- a consumer keeps the context of its evaluation -/
theorem stepCon_ctx (s : Sys) (i : Nat) (b : Bool) :
    ((stepCon s i b).cons i).ctx = (s.cons i).ctx := by
  unfold stepCon
  simp only []
  split
  · rfl
  · split
    · simp [setCon]
    · unfold selectT
      simp only []
      split
      · simp [setCon]
      · split
        · rename_i o c rest _ _ _
          cases o <;> simp [setCon]
        · simp [setCh]

/-! ### the property -/

/-- **the own context suffices, one step**: a consumer whose OWN context is done and that has
    not ended loses potential with every step of its own — whatever state the channel it is
    blocked on is in, whoever else is parked on it, whichever case Go's `select` picks. -/
theorem own_step_decreases (s : Sys) (i : Nat) (b : Bool) (hd : s.done (s.cons i).ctx = true) :
    pot (stepCon s i b) i ≤ pot s i - 1 := by
  unfold pot stepCon
  simp only []
  cases he : (s.cons i).ended with
  | true => simp [he]
  | false =>
    simp only [Bool.false_eq_true, if_false]
    cases ht : (s.cons i).todo with
    | nil => simp [setCon]
    | cons oc rest =>
      obtain ⟨o, c⟩ := oc
      simp only [selectT, hd]
      split
      · simp [setCon, he]
      · cases o <;> simp [setCon, he]

/-- a consumer that has ended stays ended (potential 0 is kept by its own steps) -/
theorem pot_zero_iff (s : Sys) (i : Nat) : pot s i = 0 ↔ (s.cons i).ended = true := by
  unfold pot
  split
  · simp [*]
  · simp [*]

/-- **C06 for evaluations that share channel objects**: the code as it is meets the Spec.
    For every system, every consumer `i` whose own context is done and every trace — every
    interleaving with the steps of all other consumers (parked for ever on the same channel
    object or not), with the cancellation of any other context at any time, with values put
    into or taken out of the channels —: once the trace contains `pot s i` steps of `i`
    (at most one per channel operation it still had to do, plus one), `i` has ended.  For the
    main code of an evaluation that is: the evaluation has returned. -/
theorem C06_shared_own_context_suffices : Spec stepCon := by
  intro s i σ
  induction σ generalizing s with
  | nil =>
    intro _ hp
    have : pot s i = 0 := by simp [ownSteps] at hp; exact hp
    exact (pot_zero_iff s i).mp this
  | cons l σ ih =>
    intro hd hp
    show ((execWith stepCon (applyWith stepCon s l) σ).cons i).ended = true
    by_cases hl : l.notStepOf i = true
    · have hc := apply_cons_other s i l hl
      apply ih
      · rw [hc]; exact apply_done_mono s _ l hd
      · have : ownSteps i (l :: σ) = ownSteps i σ := by
          cases l with
          | step j b =>
            have : j ≠ i := by simpa [Label.notStepOf] using hl
            simp [ownSteps, this]
          | _ => rfl
        rw [this] at hp
        unfold pot at hp ⊢
        rw [hc]; exact hp
    · cases l with
      | step j b =>
        have hj : j = i := by simpa [Label.notStepOf] using hl
        subst hj
        apply ih
        · show (stepCon s j b).done ((stepCon s j b).cons j).ctx = true
          rw [stepCon_done, stepCon_ctx]; exact hd
        · have h1 := own_step_decreases s j b hd
          have h2 : ownSteps j (Label.step j b :: σ) = 1 + ownSteps j σ := by simp [ownSteps]
          rw [h2] at hp
          show pot (stepCon s j b) j ≤ ownSteps j σ
          omega
      | _ => simp [Label.notStepOf] at hl

/-- the same, read as independence: two traces that agree on nothing but the number of own
    steps of `i` (≥ `pot`) — the other evaluations cancelled early, late or never — both end
    with `i` ended -/
theorem C06_shared_others_irrelevant (s : Sys) (i : Nat) (σ τ : List Label)
    (hd : s.done (s.cons i).ctx = true) (h1 : pot s i ≤ ownSteps i σ) (h2 : pot s i ≤ ownSteps i τ) :
    ((exec s σ).cons i).ended = true ∧ ((exec s τ).cons i).ended = true :=
  ⟨C06_shared_own_context_suffices s i σ hd h1, C06_shared_own_context_suffices s i τ hd h2⟩

/-- a consumer whose context is NOT done and whose next operation cannot complete stays
    parked: its own steps change nothing (the model does not end evaluations for free) -/
theorem parked_stays (s : Sys) (i : Nat) (b : Bool) (o : Op) (c : Nat) (rest : List (Op × Nat))
    (he : (s.cons i).ended = false) (ht : (s.cons i).todo = (o, c) :: rest)
    (hd : s.done (s.cons i).ctx = false) (hr : ready o (s.chans c) = false) :
    (stepCon s i b).cons i = s.cons i := by
  unfold stepCon
  simp only [he, ht, selectT, hd, hr]
  simp [setCh]

/-! ### the contrast: a primitive that first waits for something that looks at no context -/

/-- under `stepLock`, a consumer `j` that reaches `range` over a channel whose iteration lock
    is held by another consumer `h` does not move by its own steps, whatever context is done -/
theorem stepLock_waiter_fixed (s : Sys) (j h c : Nat) (b : Bool) (rest : List (Op × Nat))
    (he : (s.cons j).ended = false) (ht : (s.cons j).todo = (.range, c) :: rest)
    (hh : (s.chans c).holder = some h) (hne : h ≠ j) : stepLock s j b = s := by
  unfold stepLock
  simp only [he, ht, hh]
  simp [hne]

/-- **lockFirst_not_stopped**: under the lock-first `Next`, for every system in which consumer
    `j` has reached `range` over a channel whose lock another consumer `h` holds (it is parked
    in `Next` under ITS context), and for every trace made of cancellations of ANY contexts —
    `j`'s own included — and of any number of `j`'s own steps: `j` has not ended.  Only a step
    of the holder (a value arrives, or the HOLDER's context is done) ever lets it go on. -/
theorem lockFirst_not_stopped (s : Sys) (j h c : Nat) (rest : List (Op × Nat)) (σ : List Label)
    (he : (s.cons j).ended = false) (ht : (s.cons j).todo = (.range, c) :: rest)
    (hh : (s.chans c).holder = some h) (hne : h ≠ j)
    (hσ : ∀ l ∈ σ, (∃ k, l = .cancel k) ∨ (∃ b, l = .step j b)) :
    ((execWith stepLock s σ).cons j).ended = false := by
  induction σ generalizing s with
  | nil => exact he
  | cons l σ ih =>
    show ((execWith stepLock (applyWith stepLock s l) σ).cons j).ended = false
    have hrest : ∀ l' ∈ σ, (∃ k, l' = .cancel k) ∨ (∃ b, l' = .step j b) :=
      fun l' hl' => hσ l' (List.mem_cons_of_mem _ hl')
    rcases hσ l (List.mem_cons_self ..) with ⟨k, rfl⟩ | ⟨b, rfl⟩
    · exact ih _ he ht hh hrest
    · show ((execWith stepLock (stepLock s j b) σ).cons j).ended = false
      rw [stepLock_waiter_fixed s j h c b rest he ht hh hne]
      exact ih s he ht hh hrest

/-- the witness: consumer 0 (context 0, live) is parked in `range` over channel 0 and holds its
    lock; consumer 1 (context 1) reaches `range` over the same channel object -/
def lockWitness : Sys :=
  { done := fun k => k == 1,
    cons := fun i => if i = 0 then { ctx := 0, todo := [(.range, 0)], ended := false }
      else if i = 1 then { ctx := 1, todo := [(.range, 0)], ended := false }
      else { ctx := 2, todo := [], ended := true },
    chans := fun _ => { len := 0, cap := 1, holder := some 0 } }

/-- **the lock-first `Next` violates the Spec**: in `lockWitness` the context of consumer 1 is
    done, yet no number of its own steps ends it -/
theorem lockFirst_violates_spec : ¬ Spec stepLock := by
  intro hs
  have h := hs lockWitness 1 [.step 1 false, .step 1 false] rfl (by decide)
  have hn := lockFirst_not_stopped lockWitness 1 0 0 [] [.step 1 false, .step 1 false]
    rfl rfl rfl (by decide) (by
      intro l hl
      simp at hl
      rcases hl with rfl | rfl <;> exact Or.inr ⟨false, rfl⟩)
  rw [h] at hn
  exact Bool.noConfusion hn

/-- … while the code as it is ends consumer 1 of the same system with its first own step -/
example : ((exec lockWitness [.step 1 false]).cons 1).ended = false ∧
    ((exec lockWitness [.step 1 false, .step 1 false]).cons 1).ended = true := by
  constructor <;> rfl

/-- the two step functions differ only in `range`: every other operation is the same `select` -/
theorem stepLock_eq_stepCon_off_range (s : Sys) (i : Nat) (b : Bool)
    (h : ∀ c rest, (s.cons i).todo ≠ (.range, c) :: rest) : stepLock s i b = stepCon s i b := by
  unfold stepLock
  simp only []
  split
  · unfold stepCon; simp [*]
  · first
      | rfl
      | (split
         · rename_i c rest heq
           exact absurd heq (h c rest)
         · rfl)

/-- the hypotheses of the Spec are satisfiable with consumers blocked in every way the
    language offers, on one channel object, under different contexts -/
example : ∃ s : Sys, s.done (s.cons 1).ctx = true ∧ s.done (s.cons 0).ctx = false ∧
    (s.cons 0).todo = [(.range, 0)] ∧ (s.cons 1).todo = [(.arrow, 0), (.receive, 0), (.send, 1)] ∧
    pot s 1 = 4 :=
  ⟨{ done := fun k => k == 1,
     cons := fun i => if i = 0 then { ctx := 0, todo := [(.range, 0)], ended := false }
       else { ctx := 1, todo := [(.arrow, 0), (.receive, 0), (.send, 1)], ended := false },
     chans := fun _ => { len := 0, cap := 0 } }, rfl, rfl, rfl, rfl, rfl⟩

end Risor.C06.Shared
