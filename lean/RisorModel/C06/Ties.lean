import RisorModel.C06.Model
import RisorModel.Generated.C06
/-!
C06 ties: the structural facts about the halt test of `eval` regenerated from `vm/vm.go` by
the extractor on this run equal what the thread model assumes (`pollImpl`, `haltedT`,
`stepT`: the flag alone decides, the consulted context only chooses the returned value, no
step lowers the flag).  An edit that makes the halt test depend on the context the callee
was handed, adds a second test, or lowers the flag anywhere in `eval` / `callFunction` /
`callObject` (its Go-level defer that runs the deferred calls of a frame included), or hands
the top-level code of an imported module another context than the importer's, breaks a named
lemma.
-/
namespace Risor.C06
open Risor.Generated.C06

/-- `eval` has exactly one halt test, `atomic.LoadInt32(&vm.halt) == 1`, as the first
    statement of the dispatch loop: every instruction polls (model: every `.run` step of
    `stepT` starts with `if t.halt`) -/
theorem halt_test_every_instruction_tie :
    haltTestCount = 1 ∧ haltTestCond = expectHaltTestCond ∧ haltTestFirstInLoop = true := by decide

/-- the DECISION to stop does not depend on the context `eval` was handed: the condition
    does not mention `ctx`, and the body is one unconditional `return ctx.Err()` — no nested
    test, no else (model: `pollImpl halt _` stops iff `halt`;
    `Props.poll_decision_ignores_callee_ctx`, `Props.halt_honoured_any_callee_ctx`) -/
theorem halt_test_ignores_callee_ctx_tie :
    haltTestCondMentionsCtx = false ∧ haltTestUnconditionalReturn = true ∧ haltTestHasElse = false ∧
    haltTestBody = expectHaltTestBody := by decide

/-- the flag is never lowered by running code: nothing in `eval`, `callFunction`,
    `callObject` writes it; in the whole package only `start` (and the watcher it spawns) and
    `resetForNewCode` do (model: `stepT_flags` — a step never changes `halt`; `restart`) -/
theorem halt_never_lowered_by_eval_tie :
    evalHaltWrites = [] ∧ callFunctionHaltWrites = [] ∧ callObjectHaltWrites = [] ∧
    haltWriters = expectHaltWriters := by decide

/-- the context a callback's polls consult is the one the builtin handed to the public
    callback API: `initContext` registers `vm.callFunction`, whose first parameter `ctx` goes
    to `vm.eval(ctx)` unchanged (model: `detachedBy t.frames`) -/
theorem callee_ctx_reaches_eval_tie :
    registeredCallFunc = expectRegisteredCallFunc ∧ callFunctionFirstParam = expectCallFunctionFirstParam ∧
    callFunctionEvalArg = expectCallFunctionEvalArg ∧ callFunctionReassignsCtx = false := by decide

/-- the deferred calls of a frame run under the flag as it is: `callFunction` has exactly one
    Go-level `defer` that ranges over `callFrame.defers`, the loop is its first statement (no
    early return: the deferred calls run however the frame is left, also when the halt test
    stopped it), each partial is called through `vm.callObject` with the context
    `callFunction` was handed — a nested `callFunction` / `eval` whose first instruction polls
    —, and nothing in it reads or writes `vm.halt` (model: `leaveT` keeps the flag,
    `leaveT_flags`; `Props.halt_stops_deferred_calls`; the forbidden variant is
    `leaveLowering`, `Props.deferLowering_not_stopped`) -/
theorem deferred_calls_run_under_the_flag_tie :
    (deferRunnerCount = 1 ∧ deferRunnerLoopFirst = true ∧ deferRunnerCall = expectDeferRunnerCall) ∧
    (deferRunnerTouchesHalt = false ∧ callFunctionHaltWrites = []) := by decide

/-- the top-level code of an imported module runs under the importer's context:
    `importModule(ctx context.Context, …)` evaluates it with exactly one `vm.eval(ctx)`, never
    reassigns `ctx` and derives no context at all (no call into package `context`), and every
    call of `vm.importModule` in `eval` (`op.Import`, twice in `op.FromImport`) passes the `ctx`
    `eval` was handed, which `eval` never reassigns (model: code inside an `.imp` frame is
    stepped with the same signal as the code around it and what it spawns is an ordinary
    thread of the system — `Props.stepImp_follows`, `Props.import_body_blocked_unblocks`,
    `Props.C06_partial_import`; the forbidden variant is `stepImp .detached`,
    `Props.importDetached_not_stopped`, `Props.inherited_ctx_never_fires_never_stops`) -/
theorem import_body_runs_under_importers_ctx_tie :
    (importModuleFirstParam = expectImportFirstParam ∧ importModuleEvalArgs = expectImportEvalArgs ∧
      importModuleReassignsCtx = false ∧ importModuleDerivesCtx = false) ∧
    (importModuleCallCtxArgs = expectImportCallCtxArgs ∧ evalReassignsCtx = false) := by decide

/-- an `import` reached after the context has fired starts nothing: `importModule` asks the
    importer with the context it was given (`vm.importer.Import(ctx, name)`), the local importer
    hands it through `parseAndCompile` to `parser.Parse(ctx, …)` unchanged, and the statement
    loop of `Parser.Parse` opens with `select { case <-ctx.Done(): return nil, ctx.Err() … }`
    (model: `stepT` on `.cb .imp` with the context fired raises the context's error;
    `Props.import_after_cancellation_fails`) -/
theorem import_parse_observes_ctx_tie :
    importerCallArgs = expectImporterCallArgs ∧
    (localImporterCtxChain = expectLocalImporterCtxChain ∧ localImporterReassignsCtx = false) ∧
    parserCtxCheck = expectParserCtxCheck := by decide

end Risor.C06
