import RisorModel.C06.Model
import RisorModel.Generated.C06
/-!
C06 ties: the structural facts about the halt test of `eval` regenerated from `vm/vm.go` by
the extractor on this run equal what the thread model assumes (`pollImpl`, `haltedT`,
`stepT`: the flag alone decides, the consulted context only chooses the returned value, no
step lowers the flag).  An edit that makes the halt test depend on the context the callee
was handed, adds a second test, or lowers the flag anywhere in `eval` / `callFunction` /
`callObject` (its Go-level defer that runs the deferred calls of a frame included) breaks a
named lemma.
-/
namespace Risor.C06
open Risor.Generated.C06

/-- `eval` has exactly one halt test, `atomic.LoadInt32(&vm.halt) == 1`, as the first
    statement of the dispatch loop: every instruction polls (model: every `.run` step of
    `stepT` starts with `if t.halt`) -/
theorem halt_test_every_instruction_tie :
    haltTestCount = 1 ∧ haltTestCond = expectHaltTestCond ∧ haltTestFirstInLoop = true := by decide

/-- the DECISION to stop does not depend on the context `eval` was handed: the condition
    does not mention `ctx`, and the body is one unconditional `return ctx.Err()` — no nested
    test, no else (model: `pollImpl halt _` stops iff `halt`;
    `Props.poll_decision_ignores_callee_ctx`, `Props.halt_honoured_any_callee_ctx`) -/
theorem halt_test_ignores_callee_ctx_tie :
    haltTestCondMentionsCtx = false ∧ haltTestUnconditionalReturn = true ∧ haltTestHasElse = false ∧
    haltTestBody = expectHaltTestBody := by decide

/-- the flag is never lowered by running code: nothing in `eval`, `callFunction`,
    `callObject` writes it; in the whole package only `start` (and the watcher it spawns) and
    `resetForNewCode` do (model: `stepT_flags` — a step never changes `halt`; `restart`) -/
theorem halt_never_lowered_by_eval_tie :
    evalHaltWrites = [] ∧ callFunctionHaltWrites = [] ∧ callObjectHaltWrites = [] ∧
    haltWriters = expectHaltWriters := by decide

/-- the context a callback's polls consult is the one the builtin handed to the public
    callback API: `initContext` registers `vm.callFunction`, whose first parameter `ctx` goes
    to `vm.eval(ctx)` unchanged (model: `detachedBy t.frames`) -/
theorem callee_ctx_reaches_eval_tie :
    registeredCallFunc = expectRegisteredCallFunc ∧ callFunctionFirstParam = expectCallFunctionFirstParam ∧
    callFunctionEvalArg = expectCallFunctionEvalArg ∧ callFunctionReassignsCtx = false := by decide

/-- the deferred calls of a frame run under the flag as it is: `callFunction` has exactly one
    Go-level `defer` that ranges over `callFrame.defers`, the loop is its first statement (no
    early return: the deferred calls run however the frame is left, also when the halt test
    stopped it), each partial is called through `vm.callObject` with the context
    `callFunction` was handed — a nested `callFunction` / `eval` whose first instruction polls
    —, and nothing in it reads or writes `vm.halt` (model: `leaveT` keeps the flag,
    `leaveT_flags`; `Props.halt_stops_deferred_calls`; the forbidden variant is
    `leaveLowering`, `Props.deferLowering_not_stopped`) -/
theorem deferred_calls_run_under_the_flag_tie :
    (deferRunnerCount = 1 ∧ deferRunnerLoopFirst = true ∧ deferRunnerCall = expectDeferRunnerCall) ∧
    (deferRunnerTouchesHalt = false ∧ callFunctionHaltWrites = []) := by decide

end Risor.C06
