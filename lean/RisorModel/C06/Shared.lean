/-!
C06 — SEVERAL evaluations that share host-supplied channel objects.

A host may hand the same `object.NewChan(n)` to several evaluations (`risor.WithGlobal`), or
call a function of a VM (`vm.Call`, own deadline) while goroutines an earlier run started are
still parked on a channel under a longer-lived context.  Every evaluation has ITS OWN context,
cancelled at its own time.  The property: an evaluation returns once ITS context is done,
whatever the others do — also while they stay parked on the same channel object for ever.

* a *consumer* (`Con`) is one goroutine running script code: the main code of an evaluation, or
  a function it started with `go`/`spawn` (it inherits the evaluation's context: `ctx` is the
  id of that context).  What matters of its code is the sequence of channel operations it
  still has to do (`todo`; each may block), in the four ways the language offers (`Op`);
* a *channel* (`Ch`) is the host's channel object: how many values it buffers, its capacity,
  and — for the CONTRAST only — who holds a lock taken before waiting;
* a *system* (`Sys`) is the done-flag of every context, every consumer and every channel
  (functions of `Nat`: any number of each);
* a *trace* is any list of labels `cancel k | step i b | feed c | drain c`; `exec` applies it.
  "Whatever the others do" is "for every `List Label`".

`stepCon` is the code as it is (object/chan.go: `Next`, `Receive`, `Send` are ONE `select` over
`ctx.Done()` and the Go channel, nothing before it): a blocked primitive waits for the channel
OR its own context.  `stepLock` is the contrast: `Next` first takes a lock of the channel
object (`sync.Mutex.Lock`, which looks at no context) and holds it while it is parked.
Core Lean only.
-/
namespace Risor.C06.Shared

/-- the ways the language offers to block on a channel object -/
inductive Op where
  | range    -- `for v := range c { … }`  : one `Chan.Next(ctx)`
  | arrow    -- `<-c`                     : `op.Receive` → `Chan.Receive(ctx)`
  | receive  -- `c.receive()`             : builtin `chan.receive` → `Chan.Receive(ctx)`
  | send     -- `c <- v` / `c.send(v)`    : `Chan.Send(ctx, v)` (blocks on a full channel)
  deriving DecidableEq, Repr, Inhabited

def Op.isRecv : Op → Bool
  | .send => false
  | _ => true

structure Ch where
  len : Nat                    -- values in the buffer
  cap : Nat
  holder : Option Nat := none  -- CONTRAST only: the consumer holding the iteration lock
  deriving DecidableEq, Repr, Inhabited

/-- can the operation complete at once? -/
def ready (o : Op) (ch : Ch) : Bool := if o.isRecv then 0 < ch.len else ch.len < ch.cap

def perform (o : Op) (ch : Ch) : Ch :=
  if o.isRecv then { ch with len := ch.len - 1 } else { ch with len := ch.len + 1 }

structure Con where
  ctx : Nat                 -- the context of ITS evaluation
  todo : List (Op × Nat)    -- channel operations still to do (operation, channel id); [] = the code ends
  ended : Bool              -- the goroutine has ended (for the main code: the evaluation returned)
  deriving DecidableEq, Repr, Inhabited

structure Sys where
  done : Nat → Bool         -- which contexts are done (cancelled / deadline passed)
  cons : Nat → Con
  chans : Nat → Ch

inductive Label where
  | cancel (k : Nat)            -- context `k` is cancelled / reaches its deadline
  | step (i : Nat) (b : Bool)   -- consumer `i` takes a step; `b`: Go's `select` picks the channel
                                -- case when both the channel and the context are ready
  | feed (c : Nat)              -- somebody not modelled (the host) puts a value into channel `c`
  | drain (c : Nat)             -- … takes a value out of it
  deriving DecidableEq, Repr

def setCon (s : Sys) (i : Nat) (x : Con) : Sys :=
  { s with cons := fun j => if j = i then x else s.cons j }

def setCh (s : Sys) (c : Nat) (x : Ch) : Sys :=
  { s with chans := fun d => if d = c then x else s.chans d }

/-- the `select` of a blocking primitive of consumer `i` (`x = s.cons i`, head of its todo list
    `(o, c)`, `ch` = the channel as the primitive sees it): the operation is performed, or the
    context being done the primitive returns (`Next` reports "exhausted": the loop is left and
    the code goes on; `Receive` / `Send` return `ctx.Err()`: the code ends with that error), or
    the goroutine stays parked -/
def selectT (s : Sys) (i : Nat) (b : Bool) (x : Con) (o : Op) (c : Nat) (rest : List (Op × Nat))
    (ch : Ch) : Sys :=
  let d := s.done x.ctx
  if ready o ch && (b || !d) then setCon (setCh s c (perform o ch)) i { x with todo := rest }
  else if d then
    match o with
    | .range => setCon (setCh s c ch) i { x with todo := rest }
    | _ => setCon (setCh s c ch) i { x with ended := true }
  else setCh s c ch

/-- one step of consumer `i`, the code as it is -/
def stepCon (s : Sys) (i : Nat) (b : Bool) : Sys :=
  let x := s.cons i
  if x.ended then s else
  match x.todo with
  | [] => setCon s i { x with ended := true }
  | (o, c) :: rest => selectT s i b x o c rest (s.chans c)

/-- CONTRAST, not the code as it is: `Chan.Next` takes an iteration lock of the channel object
    before its `select` and releases it when it returns.  A consumer that finds the lock held
    by another one waits in `Mutex.Lock` — for the HOLDER, not for the channel and not for its
    own context. -/
def stepLock (s : Sys) (i : Nat) (b : Bool) : Sys :=
  let x := s.cons i
  if x.ended then s else
  match x.todo with
  | (.range, c) :: rest =>
    let ch := s.chans c
    if ch.holder.isSome && ch.holder != some i then s   -- blocked in Lock: no context is looked at
    else
      let d := s.done x.ctx
      if ready .range ch && (b || !d) || d then
        selectT s i b x .range c rest { ch with holder := none }        -- Next returns: unlocked
      else setCh s c { ch with holder := some i }                       -- parked, holding the lock
  | _ => stepCon s i b

def applyWith (step : Sys → Nat → Bool → Sys) (s : Sys) : Label → Sys
  | .cancel k => { s with done := fun j => if j = k then true else s.done j }
  | .step i b => step s i b
  | .feed c => let ch := s.chans c; if ch.len < ch.cap then setCh s c { ch with len := ch.len + 1 } else s
  | .drain c => let ch := s.chans c; setCh s c { ch with len := ch.len - 1 }

def execWith (step : Sys → Nat → Bool → Sys) (s : Sys) (σ : List Label) : Sys :=
  σ.foldl (applyWith step) s

/-- the code as it is -/
def exec : Sys → List Label → Sys := execWith stepCon

/-- a bound on the own steps consumer `i` can still take once its context is done -/
def pot (s : Sys) (i : Nat) : Nat :=
  if (s.cons i).ended then 0 else (s.cons i).todo.length + 1

/-- number of steps of consumer `i` in a trace -/
def ownSteps (i : Nat) : List Label → Nat
  | [] => 0
  | .step j _ :: σ => (if j = i then 1 else 0) + ownSteps i σ
  | _ :: σ => ownSteps i σ

/-- SPEC: what the property demands of a step function.  In every system (any number of
    evaluations, consumers and channels in any state), a consumer whose OWN context is done has
    ended after `pot` of its own steps — in every trace, i.e. whatever all the others do
    meanwhile (stay parked for ever, get cancelled, feed or drain the channels). -/
def Spec (step : Sys → Nat → Bool → Sys) : Prop :=
  ∀ (s : Sys) (i : Nat) (σ : List Label), s.done (s.cons i).ctx = true → pot s i ≤ ownSteps i σ →
    ((execWith step s σ).cons i).ended = true

/-- labels that are not a step of consumer `h` -/
def Label.notStepOf (h : Nat) : Label → Bool
  | .step i _ => i != h
  | _ => true

/-! ### finite systems for the oracle -/

def ofLists (cons : List Con) (chans : List Ch) : Sys :=
  { done := fun _ => false,
    cons := fun i => cons.getD i { ctx := 0, todo := [], ended := true },
    chans := fun c => chans.getD c { len := 0, cap := 0 } }

/-- every consumer `0 … n-1` steps once, in order (the order in which they were started) -/
def round (step : Sys → Nat → Bool → Sys) (n : Nat) (s : Sys) : Sys :=
  (List.range n).foldl (fun s i => step s i false) s

/-- `k` rounds: with `k` ≥ the sum of all todo lengths + 2 nothing moves any more -/
def settle (step : Sys → Nat → Bool → Sys) (n : Nat) : Nat → Sys → Sys
  | 0, s => s
  | k + 1, s => settle step n k (round step n s)

def endedSet (n : Nat) (s : Sys) : List Nat := (List.range n).filter fun i => (s.cons i).ended

end Risor.C06.Shared
