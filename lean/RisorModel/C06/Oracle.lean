import RisorModel.Util
/-! Line-protocol front end of the C06 model (stub until the model exists). -/
namespace Risor.C06

def handle : List String → String
  | _ => "error\tnot-implemented"

end Risor.C06
