import RisorModel.Util
import RisorModel.C06.Model
import RisorModel.C06.Shared
/-!
Line-protocol front end of the C06 model (requests after the leading `C06` field).

  run <pre|later> <shape>      shape = prefix tokens separated by single spaces:
        D | C k | S | B <prim> k | W <wrap> body k | G <id> body k | E d k
        (wrap `fn` = a plain script call `func(){ body }()`; wrap `imp` = `import m` of a
        source module that has not been imported yet, `body` = the module's top-level code;
        `E d k` = `defer func(){ d }()` in the innermost function, then `k`)
  imported <pre|later> <shape>
        what the case has to do with the context `importModule` hands to a module body, at the
        instant of the cancellation (threads parked where `run` says): does the shape import
        at all, is the main thread inside the top-level code of a module, the model's verdict
        for it (`stops=`, must stop / never stops: `Risor.C06.stops`), the verdict of the
        CONTRAST in which the module body is handed a context that is not cancelled with the
        run's (`stops_detached=`: `stopsImp .detached`, exact by `Props.stopsImp_iff`;
        `Props.importDetached_not_stopped`), the ids of the spawn sites whose function
        inherits the module body's context (`inherit=`), and the spawned threads that exist at
        the instant, end under the code as it is and would never end under the contrast
        (`never_detached=`: a thread that inherits the module body's context is judged with a
        context that never fires — `stopsNever`, `Props.inherited_ctx_never_fires_never_stops` —,
        any other one, which may import modules itself, with `stopsImp .detached`)
  deferred <pre|later> <shape>
        the model's verdict for the main thread at the instant of the cancellation (parked
        where `run` says): `stops=1` must stop / `stops=0` never stops once its watcher has
        fired (`Risor.C06.stops`, exact by `Props.stops_iff`), the number of frames it is
        inside of, the deferred closures those frames hold (`pending=`) and how many of them
        contain an unbounded loop (`loops=`: the deferred calls a flag-lowering `callFunction`
        would never come back from, `Props.deferLowering_not_stopped`)
  rerun <run|call|runcode> <pre|later> <shape>
        the same for an evaluation started on a VM that has been used before (`restart`);
        the extra field `lost=` lists the outcomes when `RunCode`'s second `halt := 0` wipes
        the store of the watcher it has just armed (possible only for `runcode` + `pre`)

  shared <chans> <consumers> <cancellations>
        SEVERAL evaluations sharing host-supplied channel objects (`RisorModel/C06/Shared.lean`):
        chans = `len/cap,…` (channel 0, 1, …), consumers = `ctx:op@chan+op@chan,…` in the order
        in which they were started (op = range | arrow | receive | send; `ctx:-` = no channel
        operation), cancellations = context ids in the order in which they are cancelled (`-` =
        none).  Reply: `impl=` the consumers that have ended after all of them were started and
        after every cancellation (`;`-separated lists, everything settled: `Shared.settle`)
        under the code as it is (`stepCon`; `SharedProps.C06_shared_own_context_suffices`), and
        `lock=` the same under the CONTRAST in which `Chan.Next` takes a lock of the channel
        object before it waits (`stepLock`; `SharedProps.lockFirst_not_stopped`)

The reply lists what the Impl model allows for the case: where every thread parks when
nothing is cancelled, whether the main thread would ever return by itself, and the set of
outcomes `<error class of the main thread>|<ids of threads that never stop>` over the
only race the outcome depends on (how many polls of the main thread see `halt = 0` before
the watcher stores 1); plus the four guards of Props.lean / Model.lean evaluated on the shape (spawned loop, swallowing
construct, lossy construct, host callback with a detached callee context).

Wrappers `hf` / `hd`: a host-provided builtin that calls the script function back through the
public callback API with a context that is / is not cancelled with the run's.
-/
namespace Risor.C06
open Risor.Util

def parsePrim : String → Option Prim
  | "recv" => some .recv | "send" => some .send | "next" => some .next
  | "sleep" => some .sleep | "wait" => some .wait | _ => none

def parseWrap : String → Option Wrap
  | "each" => some .each | "map" => some .map | "filter" => some .filter
  | "call" => some .call | "sorted" => some .sorted | "try" => some .try_
  -- host-provided builtins calling back through object.GetCallFunc with a callee context that
  -- is cancelled with the run's (hf) / is not (hd); the prophecy bit is enumerated by `runCase`
  | "hf" => some (.host .follows false) | "hd" => some (.host .detached false)
  | "fn" => some .fn      -- a plain script call
  | "imp" => some .imp    -- `import m`: the body is the top-level code of the module
  | _ => none

def parseProg : Nat → List String → Option (Prog × List String)
  | 0, _ => none
  | _ + 1, [] => none
  | f + 1, tok :: rest =>
    match tok with
    | "D" => some (.done, rest)
    | "S" => some (.spin, rest)
    | "C" => (parseProg f rest).map fun (k, r) => (.compute k, r)
    | "B" =>
      match rest with
      | pr :: rest => do
        let pr ← parsePrim pr
        let (k, r) ← parseProg f rest
        pure (.block pr k, r)
      | [] => none
    | "W" =>
      match rest with
      | w :: rest => do
        let w ← parseWrap w
        let (b, r) ← parseProg f rest
        let (k, r) ← parseProg f r
        pure (.cb w b k, r)
      | [] => none
    | "E" => do
      let (d, r) ← parseProg f rest
      let (k, r) ← parseProg f r
      pure (.defer_ d k, r)
    | "G" =>
      match rest with
      | id :: rest => do
        let id ← id.toNat?
        let (b, r) ← parseProg f rest
        let (k, r) ← parseProg f r
        pure (.spawn id b k, r)
      | [] => none
    | _ => none

/-- one scheduling round: every thread present at the start of the round steps once; the
    watchers of spawned threads (there are none in `implCfg`) fire as early as they can -/
def round (cfg : Cfg) (s : Sys) : Sys :=
  (List.range s.threads.length).foldl
    (fun s i => apply cfg (if i = 0 then s else apply cfg s (.fire i)) (.step i)) s

/-- `size` counts a `spawn` as one step of the SPAWNER; the rounds a whole system needs to settle
    also cover the bodies that run on the spawned threads (nested spawns run one after the
    other), so the oracle's fuel is taken from this measure.  Fuel only: no theorem depends on it. -/
def deepSize : Prog → Nat
  | .done => 2
  | .compute k => 1 + deepSize k
  | .spin => 2
  | .block _ k => 3 + deepSize k
  | .cb _ body k => 2 + deepSize body + deepSize k
  | .spawn _ body k => 1 + deepSize body + deepSize k
  | .defer_ d k => 6 + deepSize d + deepSize k

def settle (cfg : Cfg) : Nat → Sys → Sys
  | 0, s => s
  | f + 1, s => let s' := round cfg s; if s' == s then s else settle cfg f s'

def stepsMain (cfg : Cfg) : Nat → Sys → Sys
  | 0, s => s
  | k + 1, s => stepsMain cfg k (apply cfg s (.step 0))

def errName : Option Err → String
  | none => "nil" | some .ctx => "ctx" | some .msg => "msg" | some .panic => "panic"

def insertSorted (x : Nat) : List Nat → List Nat
  | [] => [x]
  | y :: ys => if x < y then x :: y :: ys else if x = y then y :: ys else y :: insertSorted x ys

/-- outcome of a settled system: main error class | ids that spin for ever; `stuck` if some
    thread is neither finished nor in an unhalted compute loop (never expected) -/
def outcome (s : Sys) : String :=
  match s.threads with
  | [] => "stuck"
  | m :: cl =>
    let mainS := match m.st with
      | .fin e => errName e
      | _ => "hang"
    let spin := cl.foldl (fun acc t => if t.st == .run .spin && !t.halt then insertSorted t.id acc else acc) []
    let stuck := cl.any fun t => !(t.st.isFin || (t.st == .run .spin && !t.halt))
    mainS ++ "|" ++ ",".intercalate (spin.map toString) ++ (if stuck then "|stuck" else "")

def parkedOf (s : Sys) : String :=
  ",".intercalate (s.threads.map fun t =>
    toString t.id ++ ":" ++ (match t.st with
      | .fin _ => "F" | .blocked _ _ => "B" | .run .spin => "S" | _ => "R"))

def dedup (xs : List String) : List String :=
  xs.foldl (fun acc x => if acc.contains x then acc else acc ++ [x]) []

/-- outcomes of the evaluation whose main thread is the head of `s0` (not yet cancelled):
    where the threads park, whether main ends by itself, the outcome set over the race -/
def outcomesFrom (cfg : Cfg) (instant : String) (p : Prog) (s0 : Sys) : String × Bool × List String :=
  let fuel := 2 * deepSize p + 8
  let sA := if instant = "pre" then s0 else settle cfg fuel s0
  let nonterm := match (settle cfg fuel s0).threads with
    | m :: _ => !m.st.isFin
    | [] => false
  let s1 := apply cfg sA .cancel
  let outs := (List.range (size p + 3)).map fun k =>
    outcome (settle cfg fuel (apply cfg (stepsMain cfg k s1) (.fire 0)))
  (parkedOf sA, nonterm, dedup outs)

def parseEntry : String → Option Entry
  | "run" => some .run | "call" => some .call | "runcode" => some .runCode | _ => none

/-- `fresh = true`: `Run` on a new VM (`init`); otherwise the main VM has been used before
    and is started again through `entry` (`restartSys` on a used system).  `lost=` lists the
    outcomes of the `RunCode` race (`canLose`), `-` when it cannot happen. -/
def runCase (cfg : Cfg) (fresh : Bool) (entry : Entry) (instant : String) (p : Prog) : String :=
  let used : Sys := { cancelled := false, threads := [usedMain] }
  let s0 := fun (q : Prog) => if fresh then init q else restartSys false used q
  -- both values of the prophecy bit of the host callbacks (does a pop under a live callee
  -- context find the stack empty): the outcome set is the union
  let (parked, nonterm, outs0) := outcomesFrom cfg instant p (s0 (setPop false p))
  let outs := if noDetachedAnywhere p then outs0
    else dedup (outs0 ++ (outcomesFrom cfg instant p (s0 (setPop true p))).2.2)
  let lost := if !fresh && canLose entry (instant = "pre")
    then ";".intercalate (dedup ((outcomesFrom cfg instant p (restartSys true used (setPop false p))).2.2
      ++ (outcomesFrom cfg instant p (restartSys true used (setPop true p))).2.2))
    else "-"
  let b := fun (x : Bool) => if x then "1" else "0"
  "ok\tparked=" ++ parked ++ "\tnonterm=" ++ b nonterm ++ "\touts=" ++ ";".intercalate outs
    ++ "\tguards=" ++ b (!noCloneSpin p) ++ b (!noSwallow p) ++ b (!noLossy p) ++ b (!noDetached p)
    ++ "\tlost=" ++ lost

def withShape (shape : String) (f : Prog → String) : String :=
  let toks := shape.splitOn " "
  match parseProg (toks.length + 1) toks with
  | some (p, []) => if wf p then f p else "error\toutside-the-model: blocking primitive, spawn, sorted, map, filter, script call, import or defer under a detached callee context; defer outside a function (a module's top-level code is not a function)"
  | _ => "error\tbad-shape"

/-- the main thread at the instant of the cancellation, and what the frames it is inside of
    hold -/
def deferredCase (cfg : Cfg) (instant : String) (p : Prog) : String :=
  let fuel := 2 * deepSize p + 8
  let s0 := init (setPop false p)
  let sA := if instant = "pre" then s0 else settle cfg fuel s0
  match sA.threads with
  | [] => "error\tno-main-thread"
  | m :: _ =>
    let ds := m.frames.foldl (fun acc f => acc ++ f.2.2) ([] : List Prog)
    let b := fun (x : Bool) => if x then "1" else "0"
    "ok\tstops=" ++ b (stops m) ++ "\tframes=" ++ toString m.frames.length
      ++ "\tpending=" ++ toString ds.length
      ++ "\tloops=" ++ toString (ds.filter (fun d => !noSpin d)).length

/-- the case seen from the context a module body is handed -/
def importedCase (cfg : Cfg) (instant : String) (p : Prog) : String :=
  let fuel := 2 * deepSize p + 8
  let s0 := init (setPop false p)
  let sA := if instant = "pre" then s0 else settle cfg fuel s0
  match sA.threads with
  | [] => "error\tno-main-thread"
  | m :: cl =>
    let inh := inheritsImportCtx false p
    let b := fun (x : Bool) => if x then "1" else "0"
    let ids := fun (xs : List Nat) => if xs.isEmpty then "-" else ",".intercalate (xs.map toString)
    let never := (cl.filter fun t => stops t &&
      (if inh.contains t.id then !stopsNever t else !stopsImp .detached t)).map (·.id)
    "ok\timports=" ++ b (hasImport p) ++ "\tmain_in_import=" ++ b (inImport m.frames)
      ++ "\tstops=" ++ b (stops m) ++ "\tstops_detached=" ++ b (stopsImp .detached m)
      ++ "\tinherit=" ++ ids inh ++ "\tnever_detached=" ++ ids never

/-! ### several evaluations sharing channel objects -/

def parseOp : String → Option Shared.Op
  | "range" => some .range | "arrow" => some .arrow | "receive" => some .receive
  | "send" => some .send | _ => none

def parseTodo (s : String) : Option (List (Shared.Op × Nat)) :=
  if s == "-" then some [] else
  (s.splitOn "+").mapM fun t =>
    match t.splitOn "@" with
    | [o, c] => do
      let o ← parseOp o
      let c ← c.toNat?
      pure (o, c)
    | _ => none

def parseCon (s : String) : Option Shared.Con :=
  match s.splitOn ":" with
  | [k, todo] => do
    let k ← k.toNat?
    let todo ← parseTodo todo
    pure { ctx := k, todo := todo, ended := false }
  | _ => none

def parseCh (s : String) : Option Shared.Ch :=
  match s.splitOn "/" with
  | [l, c] => do
    let l ← l.toNat?
    let c ← c.toNat?
    pure { len := l, cap := c }
  | _ => none

def natList (xs : List Nat) : String :=
  if xs.isEmpty then "-" else ",".intercalate (xs.map toString)

/-- the consumers that have ended after the start and after every cancellation, settled -/
def sharedRun (step : Shared.Sys → Nat → Bool → Shared.Sys) (cons : List Shared.Con)
    (chans : List Shared.Ch) (cancels : List Nat) : String :=
  let n := cons.length
  let k := cons.foldl (fun a x => a + x.todo.length) 0 + 2
  let s0 := Shared.settle step n k (Shared.ofLists cons chans)
  let r := cancels.foldl (fun (acc : Shared.Sys × List String) c =>
      let s := Shared.settle step n k (Shared.applyWith step acc.1 (.cancel c))
      (s, acc.2 ++ [natList (Shared.endedSet n s)])) (s0, [natList (Shared.endedSet n s0)])
  ";".intercalate r.2

def sharedCase (chans cons cancels : String) : String :=
  match (chans.splitOn ",").mapM parseCh, (cons.splitOn ",").mapM parseCon,
      (if cancels == "-" then some [] else (cancels.splitOn ",").mapM String.toNat?) with
  | some chs, some cs, some ks =>
    "ok\timpl=" ++ sharedRun Shared.stepCon cs chs ks ++ "\tlock=" ++ sharedRun Shared.stepLock cs chs ks
  | _, _, _ => "error\tbad-shared-case"

def handle : List String → String
  | ["shared", chans, cons, cancels] => sharedCase chans cons cancels
  | ["deferred", instant, shape] => withShape shape (deferredCase implCfg instant)
  | ["imported", instant, shape] => withShape shape (importedCase implCfg instant)
  | ["run", instant, shape] => withShape shape (runCase implCfg true .run instant)
  | ["runspec", instant, shape] => withShape shape (runCase specCfg true .run instant)
  | ["rerun", entry, instant, shape] =>
    match parseEntry entry with
    | some e => withShape shape (runCase implCfg false e instant)
    | none => "error\tbad-entry"
  | _ => "error\tunknown-request"

end Risor.C06
