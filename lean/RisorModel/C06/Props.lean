import RisorModel.C06.Lemmas
set_option linter.unusedSimpArgs false
/-!
C06 — property theorems.  "When the context given to an evaluation is cancelled or reaches
its deadline, the call returns promptly with the context's error for every program …
After it has returned, no script code keeps executing, including code in goroutines the
script started."

Everything is for ALL program shapes `p : Prog` (any size, any nesting of callbacks and
spawns), ALL thread states and ALL traces `σ : List Label` — i.e. every interleaving of
thread steps, watcher goroutines and the cancellation instant; no bound anywhere.
"Promptly" is proved as "within `potT t` of the thread's own steps", a number computed
from what is left of its program; wall-clock time is not modelled.
-/
namespace Risor.C06

/-! ### 1. The polling mechanism -/

/-- `main_stops` (the poll): on a VM whose `halt` flag is set, the next instruction of any
    code — loop, recursion, call of a builtin, a callback's return — does not execute: the
    context's error is raised instead.  For every thread state whose current `eval` was handed
    a context that fires with the run's (`detachedBy = none`: the main code, and every
    callback of the builtins of the repository, which pass their own context on; for ANY
    callee context see `halt_honoured_any_callee_ctx`); the only step that does not poll is
    falling off the end of the main code (nothing is left to stop there). -/
theorem main_stops (c : Bool) (t : Thread) (p : Prog) (hh : t.halt = true) (hr : t.st = .run p)
    (hp : p ≠ .done ∨ t.frames ≠ []) (hd : detachedBy t.frames = none) :
    (stepT c t).1.st = .raising .ctx := by
  rw [stepT_halted c t p hh hr hp, haltedT_of_none t hd]

/-- the hypothesis of `main_stops` holds for every frame stack made of the builtins of the
    repository and of host builtins that pass a context cancelled with the run's -/
theorem detachedBy_none_of_follows (fs : List Frame)
    (h : ∀ f ∈ fs, ∀ e, f.1 ≠ .host .detached e) : detachedBy fs = none := by
  induction fs with
  | nil => rfl
  | cons f fs ih =>
    obtain ⟨w, k, ds⟩ := f
    have hw := h (w, k, ds) (by simp)
    have := ih (fun f hf => h f (by simp [hf]))
    cases w with
    | host cc e =>
      cases cc with
      | follows => simpa [detachedBy] using this
      | detached => exact absurd rfl (hw e)
    | _ => simpa [detachedBy] using this

/-! ### 1b. The halt test does not depend on the context the callee was handed -/

/-- the DECISION of the halt test reads only the flag: whatever the consulted context
    reports (`e`, `e'` — the run's own context, a child, a detached one), the instruction
    executes for both or for neither; the consulted context only chooses the returned value -/
theorem poll_decision_ignores_callee_ctx (halt e e' : Bool) :
    (pollImpl halt e = .go ↔ pollImpl halt e' = .go) ∧
    (pollImpl halt e = .stop e ↔ halt = true) ∧ pollImpl halt e ≠ .lower := by
  cases halt <;> cases e <;> cases e' <;> simp [pollImpl]

/-- the halted branch of the thread model IS that test: with the flag raised the poll stops
    (`.stop`), with the error of the consulted context when it reports one -/
theorem haltedT_is_poll_stop (t : Thread) :
    pollImpl true (detachedBy t.frames).isNone = .stop (detachedBy t.frames).isNone ∧
    ((detachedBy t.frames).isNone = true → (haltedT t).st = .raising .ctx) := by
  refine ⟨rfl, fun h => ?_⟩
  rw [haltedT_of_none t (by cases hd : detachedBy t.frames <;> simp_all)]

/-- `halt_honoured_any_callee_ctx`: on a VM whose `halt` flag is set, the next poll of ANY
    frame stops, for EVERY callee context: whatever builtins enclose the running code and
    whatever context each of them handed to its callback (`t.frames` is arbitrary — the
    caller's own context, a child, `WithValue`, `WithoutCancel`, background + values, nested
    in any order), the instruction does not execute, nothing is spawned, the flag stays
    raised (it is never lowered), and the frame is left: by the context's error, by the pop
    panic, or as if the callback had returned (`leaveT t none`: the deferred calls of the frame,
    if it holds any, then the enclosing builtin) — so what is left to do strictly
    shrinks.  (By `halt_implies_cancelled` a raised flag in a reachable state was raised by
    the watcher of the run's own context.) -/
theorem halt_honoured_any_callee_ctx (c : Bool) (t : Thread) (p : Prog) (hh : t.halt = true)
    (hr : t.st = .run p) (hp : p ≠ .done ∨ t.frames ≠ []) :
    (stepT c t).1.halt = true ∧ (stepT c t).2 = none ∧
    ((stepT c t).1.st = .raising .ctx ∨ (stepT c t).1.st = .raising .panic ∨
      (t.frames ≠ [] ∧ (stepT c t).1 = leaveT t none ∧
        ∀ w k fs, t.frames = (w, k, []) :: fs → (∀ o, w ≠ .dfr o) →
          (stepT c t).1.st = .run k ∧ (stepT c t).1.frames = fs)) ∧
    potT (stepT c t).1 < potT t := by
  rw [stepT_halted c t p hh hr hp]
  refine ⟨by rw [(haltedT_flags t).1]; exact hh, rfl, ?_, ?_⟩
  · rcases haltedT_cases t with e | e | ⟨hf, e⟩
    · exact Or.inl (by rw [e])
    · exact Or.inr (Or.inl (by rw [e]))
    · refine Or.inr (Or.inr ⟨hf, e, fun w k fs hfr hw => ?_⟩)
      show (haltedT t).st = .run k ∧ (haltedT t).frames = fs
      rw [e]
      unfold leaveT
      rw [hfr]
      cases w with
      | dfr o => exact absurd rfl (hw o)
      | _ => exact ⟨rfl, rfl⟩
  · have h1 := haltedT_pot t
    have h2 := size_pos p
    have h3 : potT t = size p + potFrames t.frames := by unfold potT; rw [hr]; rfl
    show potT (haltedT t) < potT t
    omega

/-- `pollTrusting_not_honoured`: the property does NOT hold for a halt test that trusts the
    consulted context.  Under a detached callee context it lowers the flag and the
    instruction executes (so a loop in the callback is never stopped, and the cancellation
    is lost for the whole evaluation); the code as it is never does that. -/
theorem pollTrusting_not_honoured :
    pollTrusting true false = .lower ∧ (∀ halt e, pollImpl halt e ≠ .lower) ∧
    (∀ e, pollTrusting true e = pollImpl true e ↔ e = true) := by
  refine ⟨rfl, ?_, ?_⟩
  · intro halt e; cases halt <;> cases e <;> simp [pollImpl]
  · intro e; cases e <;> simp [pollTrusting, pollImpl]

/-- `blocked_unblocks`: a thread blocked in any of the context-aware primitives (channel
    receive/send/range, `time.sleep`, `thread.wait`) is enabled as soon as the context has
    fired, on whatever VM it runs (watcher or not), and its step leaves the primitive:
    with the primitive's error, or normally for `sleep` / range. -/
theorem blocked_unblocks (t : Thread) (pr : Prim) (k : Prog) (hb : t.st = .blocked pr k) :
    (stepT true t).1.st = (match primEffect pr with
      | some e => .raising e
      | none => .run (afterPrim pr k)) := by
  obtain ⟨id, halt, armed, st, frames⟩ := t
  simp only at hb
  subst hb
  cases h : primEffect pr <;> simp [stepT, h]

/-- …and before the context fires such a thread does not move (the model does not stop
    things by accident). -/
theorem blocked_waits (t : Thread) (pr : Prim) (k : Prog) (hb : t.st = .blocked pr k) :
    (stepT false t).1 = t := by
  obtain ⟨id, halt, armed, st, frames⟩ := t
  simp only at hb
  subst hb
  simp [stepT]

/-- every primitive of the reviewed table reacts to the context -/
theorem every_primitive_reacts (pr : Prim) (k : Prog) (t : Thread) (hb : t.st = .blocked pr k) :
    (stepT true t).1.st ≠ t.st := by
  rw [blocked_unblocks t pr k hb, hb]
  cases h : primEffect pr <;> simp

/-! ### 2. A halted VM ends, in every interleaving -/

/-- `halted_thread_finishes`: a thread whose VM has `halt` set — whatever it is doing: deep
    in recursion, inside nested builtin callbacks (each, map, filter, call, sorted, try),
    blocked — has ended after at most `potT t` of its own steps.  `try` cannot keep it
    alive: the code after a swallowed error is stopped by the next poll. -/
theorem halted_thread_finishes (t : Thread) (hh : t.halt = true) (n : Nat) (hn : potT t ≤ n) :
    (iter n t).st.isFin = true :=
  finishes_of_invariant (fun t => t.halt = true)
    (fun t h => by rw [stepT_halt]; exact h)
    (fun t h hs => by rw [h] at hs; exact absurd hs.2 (by simp)) n t hh hn

/-- the watcher can only run after the cancellation: in every reachable state a set `halt`
    flag means the context has fired (no spurious stops) -/
theorem halt_implies_cancelled (cfg : Cfg) (p : Prog) (σ : List Label) :
    ∀ t ∈ (exec cfg (init p) σ).threads, t.halt = true → (exec cfg (init p) σ).cancelled = true := by
  suffices h : ∀ (σ : List Label) (s : Sys), (∀ t ∈ s.threads, t.halt = true → s.cancelled = true) →
      ∀ t ∈ (exec cfg s σ).threads, t.halt = true → (exec cfg s σ).cancelled = true by
    exact h σ (init p) (by simp [init])
  intro σ
  induction σ with
  | nil => intro s h; exact h
  | cons l σ ih =>
    intro s h
    show ∀ t ∈ (exec cfg (apply cfg s l) σ).threads, _
    apply ih
    intro t' ht' hh
    cases l with
    | cancel => rfl
    | fire i =>
      simp only [apply] at ht' ⊢
      split
      · assumption
      · rename_i hc; rw [if_neg hc] at ht'; exact h t' ht' hh
    | step i =>
      simp only [apply, List.mem_append] at ht' ⊢
      rcases ht' with ht' | ht'
      · obtain ⟨t, ht, hx⟩ := mem_stepAt _ i _ _ ht'
        rcases hx with rfl | rfl
        · exact h _ ht hh
        · rw [stepT_halt] at hh; exact h _ ht hh
      · cases hb : (stepAt s.cancelled i s.threads).2 with
        | none => simp [hb] at ht'
        | some b => simp [hb] at ht'; rw [ht'] at hh; simp [newClone] at hh

/-- `C06_partial_main` (main_stops for every interleaving): take ANY state reached from
    `Run(ctx)` of any program by any trace `σ₁` in which thread `i` runs on a VM whose
    watcher has fired; continue with ANY trace `σ₂` — other threads running, spawning,
    other watchers firing in any order.  As soon as `σ₂` contains `potT t` steps of thread
    `i`, that thread has ended.  For the main thread (`i = 0`) this is: the call returns. -/
theorem C06_partial_main (cfg : Cfg) (p : Prog) (σ₁ σ₂ : List Label) (i : Nat) (t : Thread)
    (ht : (exec cfg (init p) σ₁).threads[i]? = some t) (hh : t.halt = true)
    (hn : potT t ≤ ownSteps i σ₂) :
    ∃ t', (exec cfg (exec cfg (init p) σ₁) σ₂).threads[i]? = some t' ∧ t'.st.isFin = true := by
  have hc := halt_implies_cancelled cfg p σ₁ t (List.mem_of_getElem? ht) hh
  exact ⟨_, exec_local cfg i σ₂ _ t hc ht (fun _ => hh), halted_thread_finishes t hh _ hn⟩

/-- …in every reachable state of every interleaving: once the watcher of the run's own
    context has raised the flag of thread `i`'s VM, EVERY later poll of that thread — of the
    frame it is in, and of every enclosing frame it returns to, whatever context each was
    handed — finds the flag raised (`halt` is never lowered by a step) and stops. -/
theorem halt_stays_raised (cfg : Cfg) (p : Prog) (σ₁ σ₂ : List Label) (i : Nat) (t : Thread)
    (ht : (exec cfg (init p) σ₁).threads[i]? = some t) (hh : t.halt = true) :
    ∃ t', (exec cfg (exec cfg (init p) σ₁) σ₂).threads[i]? = some t' ∧ t'.halt = true := by
  have hc := halt_implies_cancelled cfg p σ₁ t (List.mem_of_getElem? ht) hh
  exact ⟨_, exec_local cfg i σ₂ _ t hc ht (fun _ => hh), by rw [iter_halt]; exact hh⟩

/-- finished is final: whatever happens afterwards, a thread that has ended stays ended
    (no script code of it runs again) -/
theorem finished_stays_finished (cfg : Cfg) (s : Sys) (σ : List Label) (i : Nat) (t : Thread)
    (hc : s.cancelled = true) (ht : s.threads[i]? = some t) (ha : t.armed = true → t.halt = true)
    (hf : t.st.isFin = true) : (exec cfg s σ).threads[i]? = some t := by
  rw [exec_local cfg i σ s t hc ht ha, iter_fix _ _ (fin_fix true t hf)]

/-- a thread in a compute loop on a VM whose `halt` is never set runs for ever -/
theorem unhalted_loop_never_ends (t : Thread) (hs : t.st = .run .spin) (hh : t.halt = false)
    (n : Nat) : (iter n t).st.isFin = false := by
  rw [iter_fix n t (spin_fix true t hs hh), hs]; rfl

/-! ### 1c. Deferred script closures run under the flag

`callFunction` runs the deferred calls of a frame when the frame is left — also when it is left
because the halt test stopped it.  A deferred script closure is one more `callFunction` /
`eval` on the same VM: its first instruction polls the flag like any other.  Everything below
is for ALL frame stacks (any nesting of builtin callbacks, script calls and deferred calls
beneath), ALL numbers and shapes of deferred closures in every frame, and every pending
outcome of the frame that is being left. -/

/-- whenever a frame that holds deferred closures is left — by an error or the halt test's
    `ctx.Err()` (`.raising e`), by its return instruction (flag down), or by the loop over the
    deferred calls of the frame above it having ended (`.leaving`) — the most recently deferred
    closure `d` starts as a frame of its own (`.dfr o` remembers the outcome so far); nothing
    else changes: the flag, the watcher, the frames beneath, the other deferred closures -/
theorem deferred_call_starts (c : Bool) (t : Thread) (w : Wrap) (k d : Prog) (ds : List Prog)
    (fs : List Frame) (hf : t.frames = (w, k, d :: ds) :: fs) (o : Option Err)
    (hst : (o = none ∧ (t.st = .leaving ∨ (t.st = .run .done ∧ t.halt = false))) ∨
      ∃ e, o = some e ∧ t.st = .raising e) :
    stepT c t = ({ t with st := .run d, frames := (.dfr o, .done, []) :: (w, k, ds) :: fs }, none) := by
  have hl : leaveT t o = { t with st := .run d, frames := (.dfr o, .done, []) :: (w, k, ds) :: fs } := by
    unfold leaveT; rw [hf]
  obtain ⟨id, halt, armed, st, frames⟩ := t
  simp only at hf hst
  subst hf
  rcases hst with ⟨rfl, rfl | ⟨rfl, rfl⟩⟩ | ⟨e, rfl, rfl⟩
  · simp [stepT, hl]
  · simp [stepT, hl]
  · simp [stepT, hl]

/-- `halt_stops_deferred_calls`: with the flag raised, a deferred closure is stopped by its
    FIRST poll like any other code.  Take any thread `t` whose VM has `halt = 1` and whose top
    frame — being left with any outcome `o` — holds deferred closures `d :: ds` (any shapes,
    unbounded loops included; any frames `fs` beneath, each with deferred closures of its own).
    The deferred call `d` starts (`t1`); its first step IS the halted branch of the poll: no
    instruction of `d` executes, nothing is spawned, the flag stays raised; when the context
    `callFunction` was handed fires with the run's, the deferred call fails with the
    context's error and the frame stack is as it was (the loop over `ds` goes on); the
    potential decreases strictly, and the whole thread — all remaining deferred closures of
    all frames included — has ended after at most `potT t1 ≤ potFrames t.frames` own steps. -/
theorem halt_stops_deferred_calls (c : Bool) (t : Thread) (o : Option Err) (w : Wrap) (k d : Prog)
    (ds : List Prog) (fs : List Frame) (hh : t.halt = true) (hf : t.frames = (w, k, d :: ds) :: fs) :
    (leaveT t o).st = .run d ∧ (leaveT t o).frames = (.dfr o, .done, []) :: (w, k, ds) :: fs ∧
    (leaveT t o).halt = true ∧
    stepT c (leaveT t o) = (haltedT (leaveT t o), none) ∧ (stepT c (leaveT t o)).1.halt = true ∧
    (detachedBy t.frames = none →
      (stepT c (leaveT t o)).1 = { leaveT t o with st := .raising .ctx }) ∧
    potT (stepT c (leaveT t o)).1 < potT (leaveT t o) ∧ potT (leaveT t o) ≤ potFrames t.frames ∧
    ∀ n, potT (leaveT t o) ≤ n → (iter n (leaveT t o)).st.isFin = true := by
  have hl : leaveT t o = { t with st := .run d, frames := (.dfr o, .done, []) :: (w, k, ds) :: fs } := by
    unfold leaveT; rw [hf]
  have hh1 : (leaveT t o).halt = true := by rw [(leaveT_flags t o).1]; exact hh
  have hst : (leaveT t o).st = .run d := by rw [hl]
  have hfr : (leaveT t o).frames = (.dfr o, .done, []) :: (w, k, ds) :: fs := by rw [hl]
  have hstep := stepT_halted c (leaveT t o) d hh1 hst (Or.inr (by rw [hfr]; simp))
  refine ⟨hst, hfr, hh1, hstep, ?_, ?_, ?_, leaveT_pot t o, ?_⟩
  · rw [stepT_halt]; exact hh1
  · intro hd
    rw [hstep]
    apply haltedT_of_none
    rw [hfr]
    simp only [detachedBy]
    rw [detachedBy_defers w k k ds (d :: ds) fs, ← hf]; exact hd
  · exact (halt_honoured_any_callee_ctx c (leaveT t o) d hh1 hst (Or.inr (by rw [hfr]; simp))).2.2.2
  · intro n hn; exact halted_thread_finishes (leaveT t o) hh1 n hn

/-- …and that is so for every deferred closure of every frame, whenever it starts: on a VM
    whose flag is raised NO step of the thread executes an instruction, ever — after any
    number `n` of its own steps the flag is still raised and a step from running code (the
    body of a callback, of a script call, of a deferred closure, the main code) is the halted
    branch of the poll -/
theorem halted_steps_execute_nothing (t : Thread) (hh : t.halt = true) (n : Nat) :
    (iter n t).halt = true ∧
    ∀ c p, (iter n t).st = .run p → (p ≠ .done ∨ (iter n t).frames ≠ []) →
      stepT c (iter n t) = (haltedT (iter n t), none) := by
  have h : (iter n t).halt = true := by rw [iter_halt]; exact hh
  exact ⟨h, fun c p hr hp => stepT_halted c _ p h hr hp⟩

/-- an error is never lost in the loop over the deferred calls: the frame's outcome after a
    deferred call is that call's error if it failed, the outcome so far if it did not (a Go
    panic keeps unwinding whatever the deferred calls do) -/
theorem deferred_outcome_never_lost (pending o : Option Err) :
    (o = none → deferredOutcome pending o = pending) ∧
    (∀ e, o = some e → pending ≠ some .panic → deferredOutcome pending o = some e) ∧
    ((pending.isSome || o.isSome) = true → (deferredOutcome pending o).isSome = true) := by
  refine ⟨?_, ?_, ?_⟩
  · intro h; subst h
    cases pending with
    | none => rfl
    | some e => cases e <;> rfl
  · intro e h hp; subst h
    cases pending with
    | none => rfl
    | some e' => cases e' <;> simp_all [deferredOutcome]
  · cases pending with
    | none => cases o <;> simp [deferredOutcome]
    | some e' => cases e' <;> cases o <;> simp [deferredOutcome]

/-- `deferLowering_not_stopped`: the property does NOT hold for a `callFunction` that lowers
    the flag while the deferred calls of a frame run (`leaveLowering`; it would raise the
    flag again afterwards, but there is no afterwards).  For EVERY thread, whatever frames lie
    beneath, whatever else the frame holds and whatever its outcome: when the next deferred
    closure of the frame being left is an unbounded loop (a polling wait, a retry loop), the
    thread never ends under the variant — no own step changes it; the watcher goroutine is
    one-shot and has already stored its 1, nothing raises the flag again — whereas under the
    code as it is, with the flag raised, it has ended within `potT` own steps. -/
theorem deferLowering_not_stopped (t : Thread) (o : Option Err) (w : Wrap) (k : Prog)
    (ds : List Prog) (fs : List Frame) (hf : t.frames = (w, k, .spin :: ds) :: fs) :
    (∀ n, (iter n (leaveLowering t o)).st.isFin = false) ∧
    (∀ n, iter n (leaveLowering t o) = leaveLowering t o) ∧
    (t.halt = true → (iter (potT (leaveT t o)) (leaveT t o)).st.isFin = true) := by
  have hst : (leaveLowering t o).st = .run .spin := by
    unfold leaveLowering leaveT; rw [hf]
  have hh : (leaveLowering t o).halt = false := rfl
  refine ⟨fun n => unhalted_loop_never_ends _ hst hh n,
    fun n => iter_fix n _ (spin_fix true _ hst hh), fun h => ?_⟩
  exact (halt_stops_deferred_calls true t o w k .spin ds fs h hf).2.2.2.2.2.2.2.2 _ (Nat.le_refl _)

/-- the two differ exactly in the flag: the variant starts the same deferred call on the same
    frames; the code as it is never lowers the flag when it leaves a frame -/
theorem leaveLowering_differs_only_in_flag (t : Thread) (o : Option Err) :
    (leaveLowering t o).st = (leaveT t o).st ∧ (leaveLowering t o).frames = (leaveT t o).frames ∧
    (leaveLowering t o).halt = false ∧ (leaveT t o).halt = t.halt :=
  ⟨rfl, rfl, rfl, (leaveT_flags t o).1⟩

/-! ### 1d. The top-level code of an imported module runs under the importer's context

`import m` of a source module evaluates the module's top-level code by a nested `eval` on the
same VM.  The property covers that code like any other: a cancellation that arrives while a
module body loops, is blocked in a context-aware primitive, or after it started goroutines,
must stop all of it.  That rests on ONE fact — `importModule` hands `eval` the context it was
given (`Ties.import_body_runs_under_importers_ctx_tie`) — which the model has as "code inside
an `.imp` frame is stepped with the same signal as the code around it" (`stepImp .follows`),
and which is contrasted here with an `importModule` that hands the body a context that is not
cancelled with the run's (`stepImp .detached`, `iterNever`).  Everything is for ALL frame
stacks (imports nested in callbacks, script calls, deferred calls, other imports, in any
order), all primitives, all continuations. -/

/-- the code as it is treats code inside an import like any other: `stepImp .follows` IS
    `stepT`, for every state and every signal -/
theorem stepImp_follows (c : Bool) (t : Thread) : stepImp .follows c t = stepT c t := rfl

theorem iterImp_follows (n : Nat) (t : Thread) : iterImp .follows n t = iter n t := by
  induction n generalizing t with
  | zero => rfl
  | succ n ih =>
    show iterWith _ n (stepImp .follows true t).1 = iter n (stepT true t).1
    exact ih _

/-- `import_starts_nested_eval`: with the flag down and the context live, `import m` of a
    module that has not been imported yet pushes ONE frame — not a function frame: it holds
    no deferred closures — and goes on with the module's top-level code on the same VM; flag,
    watcher and thread are untouched, nothing is spawned, and from then on the thread is
    `inImport` -/
theorem import_starts_nested_eval (t : Thread) (body k : Prog) (hh : t.halt = false)
    (hr : t.st = .run (.cb .imp body k)) :
    stepT false t = ({ t with st := .run body, frames := (.imp, k, []) :: t.frames }, none) ∧
    inImport (stepT false t).1.frames = true := by
  obtain ⟨id, halt, armed, st, frames⟩ := t
  simp only at hh hr
  subst hh hr
  simp [stepT, inImport]

/-- `import_after_cancellation_fails`: an `import` of a module that has not been imported yet,
    reached AFTER the context has fired, starts nothing: the importer parses the module with
    the same context and fails with the context's own error (flag down: e.g. on a clone VM,
    which has no watcher — a spawned function that leaves a sleep or a range over a channel
    after the cancellation cannot enter a module body any more); with the flag raised the poll
    stops the instruction first.  Either way no instruction of the module body executes
    (no import frame is pushed), nothing is spawned, and the thread is closer to its end. -/
theorem import_after_cancellation_fails (t : Thread) (body k : Prog)
    (hr : t.st = .run (.cb .imp body k)) :
    (t.halt = false → stepT true t = ({ t with st := .raising .ctx }, none)) ∧
    (t.halt = true → stepT true t = (haltedT t, none)) ∧
    (stepT true t).2 = none ∧ potT (stepT true t).1 < potT t := by
  have hd := step_decr t (by rw [hr]; rfl) (by rw [hr]; intro h; cases h.1)
  have hhalt : t.halt = true → stepT true t = (haltedT t, none) :=
    fun hh => stepT_halted true t _ hh hr (Or.inl (by simp))
  have hlive : t.halt = false → stepT true t = ({ t with st := .raising .ctx }, none) := by
    intro hh
    obtain ⟨id, halt, armed, st, frames⟩ := t
    simp only at hh hr
    subst hh hr
    simp [stepT]
  refine ⟨hlive, hhalt, ?_, hd⟩
  cases hh : t.halt
  · rw [hlive hh]
  · rw [hhalt hh]

/-- `import_error_unchanged`: an error that leaves the top-level code of a module — the
    context's error raised by a poll or by a channel operation, anything else — is returned by
    the importing `eval` as it is (`wrapErr .imp e = some e`): the frame is popped, the same
    error goes on unwinding; and a module body that ends normally resumes the importer -/
theorem import_error_unchanged (c : Bool) (t : Thread) (k : Prog) (fs : List Frame)
    (hf : t.frames = (.imp, k, []) :: fs) :
    (∀ e, t.st = .raising e → stepT c t = ({ t with st := .raising e, frames := fs }, none)) ∧
    (t.st = .run .done → t.halt = false → stepT c t = ({ t with st := .run k, frames := fs }, none)) := by
  obtain ⟨id, halt, armed, st, frames⟩ := t
  simp only at hf
  subst hf
  refine ⟨fun e hs => ?_, fun hs hh => ?_⟩
  · simp only at hs; subst hs
    cases e <;> simp [stepT, leaveT, returnT, wrapErr]
  · simp only at hs hh; subst hs hh
    simp [stepT, leaveT, returnT]

/-- `import_body_blocked_unblocks`: the blocking primitives of a module body select on the
    context the importing `eval` runs under.  Under the code as it is, a thread blocked in ANY
    context-aware primitive under ANY frame stack — in particular inside the top-level code of
    a module being imported, at any depth — leaves the primitive as soon as the run's context
    has fired (with the primitive's error, or normally for `sleep` / range), watcher or not. -/
theorem import_body_blocked_unblocks (t : Thread) (pr : Prim) (k : Prog) (hb : t.st = .blocked pr k) :
    (stepImp .follows true t).1.st = (match primEffect pr with
      | some e => .raising e
      | none => .run (afterPrim pr k)) ∧ (stepImp .follows true t).1.st ≠ t.st :=
  ⟨blocked_unblocks t pr k hb, every_primitive_reacts pr k t hb⟩

/-- `importDetached_not_stopped`: the property does NOT hold for an `importModule` that
    evaluates the module body under a context that is not cancelled with the run's.  For EVERY
    thread blocked in a context-aware primitive inside the top-level code of a module being
    imported — whatever the primitive, whatever follows it, whatever frames lie around the
    import, and EVEN WITH the halt flag of its VM raised (a thread inside a `select` executes
    no instruction, so no poll can help it) — no own step ever changes it under the variant:
    the evaluation never returns.  Under the code as it is the same thread leaves the primitive
    at its next step, and with the flag raised it has ended within `potT t` own steps. -/
theorem importDetached_not_stopped (t : Thread) (pr : Prim) (k : Prog)
    (hb : t.st = .blocked pr k) (hi : inImport t.frames = true) :
    (∀ n, iterImp .detached n t = t) ∧ (∀ n, (iterImp .detached n t).st.isFin = false) ∧
    (stepImp .follows true t).1.st ≠ t.st ∧
    (t.halt = true → (iterImp .follows (potT t) t).st.isFin = true) := by
  have hstep : (stepImp .detached true t).1 = t := by
    show (stepT (seenBy .detached true t.frames) t).1 = t
    simp only [seenBy, hi, Bool.not_true, Bool.and_false]
    rw [stepT_blocked_unfired t pr k hb]
  have hfix : ∀ n, iterImp .detached n t = t := fun n => iterWith_fix _ n t hstep
  refine ⟨hfix, fun n => ?_, (import_body_blocked_unblocks t pr k hb).2, fun hh => ?_⟩
  · rw [hfix n, hb]; rfl
  · rw [iterImp_follows]; exact halted_thread_finishes t hh _ (Nat.le_refl _)

/-- outside an import the variant changes nothing: it is the code as it is -/
theorem importDetached_same_outside_import (c : Bool) (t : Thread) (hi : inImport t.frames = false) :
    stepImp .detached c t = stepT c t := by
  show stepT (seenBy .detached c t.frames) t = stepT c t
  simp [seenBy, hi]

/-- `inherited_ctx_never_fires_never_stops`: a function started with `go`/`spawn` runs on a
    clone VM without a watcher; the context it INHERITS is all that ever stops it.  Started by
    a module body that had been handed a context which never fires, a thread blocked in a
    context-aware primitive — waiting on a channel nobody feeds, sleeping, waiting for another
    thread — stays there for ever (`iterNever`: every own step leaves it as it is); started by
    the module body of the code as it is, it inherits the run's context, leaves the primitive
    at its next step and, being loop-free, has ended within `potT t` own steps. -/
theorem inherited_ctx_never_fires_never_stops (t : Thread) (pr : Prim) (k : Prog)
    (hb : t.st = .blocked pr k) :
    (∀ n, iterNever n t = t) ∧ (∀ n, (iterNever n t).st.isFin = false) ∧
    (stepT true t).1.st ≠ t.st ∧
    (noSpinT t = true → (iter (potT t) t).st.isFin = true) := by
  have hstep : (stepT false t).1 = t := by rw [stepT_blocked_unfired t pr k hb]
  have hfix : ∀ n, iterNever n t = t := fun n => iterWith_fix _ n t hstep
  refine ⟨hfix, fun n => ?_, every_primitive_reacts pr k t hb, fun hs => ?_⟩
  · rw [hfix n, hb]; rfl
  · exact finishes_of_invariant (fun t => noSpinT t = true)
      (fun t h => (noSpinT_step true t h).1)
      (fun t h hs => by
        obtain ⟨id, halt, armed, st, frames⟩ := t
        simp only at hs
        rw [hs.1] at h
        simp [noSpinT, invP, stP, noSpin, allK] at h) _ t hs (Nat.le_refl _)

/-- the verdict the oracle reports for the contrast (`imported` request: would the main
    thread ever end if the module body were handed a context of kind `cc`) is exact: if it has
    not ended after `potT` own steps it never will -/
theorem stopsImp_iff (cc : Cc) (t : Thread) :
    (∃ n, (iterImp cc n (fireT t)).st.isFin = true) ↔ stopsImp cc t = true := by
  have hp : potT (fireT t) = potT t := by unfold fireT; split <;> rfl
  constructor
  · intro ⟨n, h⟩
    show (iterImp cc (potT t) (fireT t)).st.isFin = true
    rw [← hp]; exact iterWith_fin_within_pot _ (stepLike_imp cc) n _ h
  · intro h; exact ⟨_, h⟩

/-- …and so is the verdict for a thread whose inherited context never fires -/
theorem stopsNever_iff (t : Thread) :
    (∃ n, (iterNever n t).st.isFin = true) ↔ stopsNever t = true := by
  constructor
  · intro ⟨n, h⟩; exact iterWith_fin_within_pot _ stepLike_never n _ h
  · intro h; exact ⟨_, h⟩

/-- for the code as it is the two verdicts coincide: `stopsImp .follows` is `stops` -/
theorem stopsImp_follows (t : Thread) : stopsImp .follows t = stops t := by
  unfold stopsImp stops; rw [iterImp_follows]

/-! ### 3. The verdict the oracle reports is exact -/

/-- `stops` (what the oracle answers per thread: run `potT` own steps after the watcher, if
    any, fired, and look) decides "this thread ever ends" exactly: if it has not ended by
    then it never will. -/
theorem stops_iff (t : Thread) : (∃ n, (iter n (fireT t)).st.isFin = true) ↔ stops t = true := by
  have hp : potT (fireT t) = potT t := by unfold fireT; split <;> rfl
  constructor
  · intro ⟨n, h⟩
    show (iter (potT t) (fireT t)).st.isFin = true
    rw [← hp]; exact fin_within_pot n _ h
  · intro h; exact ⟨_, h⟩

/-! ### 4. The full statement, its counterexample, the guard, the partial theorem -/

/-- What the property demands of a configuration: in every state reachable from `Run(ctx)`
    of any program by any trace, once the context has fired every thread that exists —
    main or spawned at any depth — ends after finitely many of its own steps, given only
    that its VM's watcher (if `start()` armed one) gets to run.  (By `exec_local` the own
    steps are all that matters: no interleaving can delay or prevent it.) -/
def C06_full (cfg : Cfg) : Prop :=
  ∀ (p : Prog) (σ : List Label), (exec cfg (init p) σ).cancelled = true →
    ∀ t ∈ (exec cfg (init p) σ).threads, ∃ n, (iter n (fireT t)).st.isFin = true

/-- the witness: `go func(){ for { tick() } }()` — a spawned compute loop -/
def leakProg : Prog := .spawn 1 .spin .done

/-- `C06_counterexample_spawned_loop`: the code as it is violates the full statement.  After
    `go func(){ for {…} }()` and the cancellation, the clone's VM has no watcher (`Clone()`
    never calls `start()`), so its `halt` stays 0 and the loop never ends. -/
theorem C06_counterexample_spawned_loop : ¬ C06_full implCfg := by
  intro h
  have hs := h leakProg [.step 0, .cancel] (by decide)
    { id := 1, halt := false, armed := false, st := .run .spin, frames := [] } (by decide)
  obtain ⟨n, hn⟩ := hs
  have := unhalted_loop_never_ends
    { id := 1, halt := false, armed := false, st := .run .spin, frames := [] } rfl rfl n
  have hf : fireT { id := 1, halt := false, armed := false, st := .run .spin, frames := [] }
      = { id := 1, halt := false, armed := false, st := .run .spin, frames := [] } := by decide
  rw [hf, this] at hn
  exact absurd hn (by simp)

/-- …and it survives every continuation: in EVERY interleaving after the call returned the
    spawned loop is still there, still running (nothing in the system can stop it). -/
theorem C06_counterexample_persists (σ : List Label) :
    (exec implCfg (exec implCfg (init leakProg) [.step 0, .cancel, .fire 0, .step 0]) σ).threads[1]?
      = some { id := 1, halt := false, armed := false, st := .run .spin, frames := [] } := by
  have h := exec_local implCfg 1 σ (exec implCfg (init leakProg) [.step 0, .cancel, .fire 0, .step 0])
    { id := 1, halt := false, armed := false, st := .run .spin, frames := [] } (by decide) (by decide) (by simp)
  rw [h, iter_fix _ _ (spin_fix true _ rfl rfl)]

/-- a thread that can no longer reach a loop ends once the context has fired, halted or not
    (this is what makes blocked clones harmless: the primitives themselves watch the context) -/
theorem loopfree_thread_finishes (t : Thread) (h : noSpinT t = true) (n : Nat) (hn : potT t ≤ n) :
    (iter n t).st.isFin = true :=
  finishes_of_invariant (fun t => noSpinT t = true)
    (fun t h => (noSpinT_step true t h).1)
    (fun t h hs => by
      obtain ⟨id, halt, armed, st, frames⟩ := t
      simp only at hs
      rw [hs.1] at h
      simp [noSpinT, invP, stP, noSpin, allK] at h) n t h hn

/-- `C06_partial`: for every program in which no spawned function (at any nesting depth)
    contains an unbounded compute loop — guard `noCloneSpin`, decidable, exactly the shapes
    `C06_counterexample_spawned_loop` lives in are excluded — the code as it is satisfies
    the full statement: in every reachable state after the cancellation, the main thread
    (infinite loops, deep recursion, callbacks inside builtins, anything) ends once its
    watcher has fired, and every spawned thread — blocked in channel operations, sleeps,
    waits, nested to any depth, spawning further threads — ends as well, for every
    interleaving. -/
theorem C06_partial (p : Prog) (hg : noCloneSpin p = true) (σ : List Label)
    (_hc : (exec implCfg (init p) σ).cancelled = true) :
    ∀ t ∈ (exec implCfg (init p) σ).threads, ∃ n, (iter n (fireT t)).st.isFin = true := by
  have inv := exec_invariant implCfg
    (fun t => (t.armed = true ∧ noCloneSpinT t = true) ∨ noSpinT t = true)
    (fun c t h => by
      rcases h with ⟨ha, h⟩ | h
      · exact Or.inl ⟨by rw [stepT_armed]; exact ha, (noCloneSpinT_step c t h).1⟩
      · exact Or.inr (noSpinT_step c t h).1)
    (fun t h => by
      rcases h with ⟨ha, h⟩ | h
      · refine Or.inl ⟨?_, by rw [noCloneSpinT_fire]; exact h⟩
        unfold fireT; rw [if_pos ha]; exact ha
      · exact Or.inr (by rw [noSpinT_fire]; exact h))
    (fun c t b h hb => by
      have hb' : noSpin b.2 = true := by
        rcases h with ⟨_, h⟩ | h
        · exact (noCloneSpinT_step c t h).2 b hb
        · exact (noSpinT_step c t h).2 b hb
      exact Or.inr (by simp [newClone, noSpinT, invP, stP, allK, hb']))
    σ (init p) (by
      intro t ht
      simp [init] at ht
      subst ht
      exact Or.inl ⟨rfl, by simp [noCloneSpinT, invP, stP, allK, hg]⟩)
  intro t ht
  rcases inv t ht with ⟨ha, _⟩ | h
  · refine ⟨potT (fireT t), halted_thread_finishes _ ?_ _ (Nat.le_refl _)⟩
    unfold fireT; rw [if_pos ha]
  · exact ⟨potT (fireT t), loopfree_thread_finishes _ (by rw [noSpinT_fire]; exact h) _ (Nat.le_refl _)⟩

/-- `C06_spec_arm_clones`: the same machinery with one change — `Clone()` arms a watcher
    for the clone's VM as `start()` does (`specCfg`) — satisfies the full statement for every
    program: the defect is exactly the missing watcher, and the repair named in DESIGN §8
    suffices. -/
theorem C06_spec_arm_clones : C06_full specCfg := by
  intro p σ _ t ht
  have inv := exec_invariant specCfg (fun t => t.armed = true)
    (fun c t h => by rw [stepT_armed]; exact h)
    (fun t h => by unfold fireT; rw [if_pos h]; exact h)
    (fun _ _ _ _ _ => rfl)
    σ (init p) (by intro t ht; simp [init] at ht; subst ht; rfl)
  have ha := inv t ht
  refine ⟨potT (fireT t), halted_thread_finishes _ ?_ _ (Nat.le_refl _)⟩
  unfold fireT; rw [if_pos ha]

/-- `C06_partial_import` (the partial theorem read for imports): for every program in which
    no spawned function contains an unbounded compute loop (`noCloneSpin`; the top-level code of
    imported modules may loop, block, call back, import further modules and spawn), in every
    state reachable by any trace after the cancellation: a thread that is inside the top-level
    code of a module it is importing (`inImport`, at any depth of frames) ends once its
    watcher, if it has one, has fired; and every thread WITHOUT a watcher — every function a
    module body (or anything else) started with `go`/`spawn`, on its clone VM — ends by its own
    steps alone, through the context it inherited. -/
theorem C06_partial_import (p : Prog) (hg : noCloneSpin p = true) (σ : List Label)
    (hc : (exec implCfg (init p) σ).cancelled = true) :
    (∀ t ∈ (exec implCfg (init p) σ).threads, inImport t.frames = true →
      ∃ n, (iterImp .follows n (fireT t)).st.isFin = true) ∧
    (∀ t ∈ (exec implCfg (init p) σ).threads, t.armed = false →
      ∃ n, (iter n t).st.isFin = true) := by
  refine ⟨fun t ht _ => ?_, fun t ht ha => ?_⟩
  · obtain ⟨n, hn⟩ := C06_partial p hg σ hc t ht
    exact ⟨n, by rw [iterImp_follows]; exact hn⟩
  · obtain ⟨n, hn⟩ := C06_partial p hg σ hc t ht
    have : fireT t = t := by unfold fireT; rw [ha]; rfl
    exact ⟨n, by rw [this] at hn; exact hn⟩

/-- bridge from the per-thread form used in `C06_full` to traces: if thread `i` ends after
    `n` own steps once its watcher has fired, then in EVERY interleaving that follows the
    watcher's firing, it has ended as soon as it was scheduled `n` times. -/
theorem ends_in_every_interleaving (cfg : Cfg) (s : Sys) (i : Nat) (t : Thread) (n : Nat)
    (hc : s.cancelled = true) (ht : s.threads[i]? = some t)
    (hn : (iter n (fireT t)).st.isFin = true) (σ : List Label) (hσ : n ≤ ownSteps i σ) :
    ∃ t', (exec cfg (apply cfg s (.fire i)) σ).threads[i]? = some t' ∧ t'.st.isFin = true := by
  have h1 : (apply cfg s (.fire i)).threads[i]? = some (fireT t) := by
    simp only [apply, hc, if_true]; exact fireAt_get_self i _ t ht
  have h2 : (apply cfg s (.fire i)).cancelled = true := by simp [apply, hc]
  have h3 : (fireT t).armed = true → (fireT t).halt = true := by
    unfold fireT; split <;> simp_all
  exact ⟨_, exec_local cfg i σ _ _ h2 h1 h3, iter_fin_mono _ _ _ hσ hn⟩

/-! ### 5. Which error the call returns -/

/-- state of a thread that can only end with the context's own error: no enclosing
    callback — nothing around it but the top-level code of modules being imported (`impF`;
    an import hands the error on unchanged) —, blocked only in a primitive that returns
    `ctx.Err()` itself -/
def ctxOnly (t : Thread) : Bool :=
  impF t.frames && (match t.st with
    | .run p => t.halt && p != .done
    | .blocked pr _ => primEffect pr == some .ctx
    | .raising e => e == .ctx
    | .leaving => false
    | .fin e => e == some .ctx)

/-- `C06_partial_error_identity`: a thread outside every builtin callback — in the main code
    or, at any depth, in the top-level code of modules it is importing — that is stopped by
    the poll (loops, recursion — `halt` set) or is blocked in a channel receive/send ends
    with exactly the context's error (`errors.Is(err, ctx.Err())`), after at most `potT t`
    own steps. -/
theorem C06_partial_error_identity (t : Thread) (h : ctxOnly t = true) (n : Nat) (hn : potT t ≤ n) :
    (iter n t).st = .fin (some .ctx) := by
  have keep : ∀ t, ctxOnly t = true → ctxOnly (stepT true t).1 = true := by
    intro t h
    obtain ⟨id, halt, armed, st, frames⟩ := t
    simp only [ctxOnly, Bool.and_eq_true] at h
    obtain ⟨hi, hs⟩ := h
    have hdet := impF_detachedBy frames hi
    cases st with
    | fin e => simp [stepT, ctxOnly, hi]; simpa using hs
    | raising e =>
      simp at hs; subst hs
      cases frames with
      | nil => simp [stepT, leaveT, ctxOnly, impF]
      | cons f fs =>
        obtain ⟨w, k, ds⟩ := f
        simp [impF] at hi
        obtain ⟨⟨hw, hds⟩, hfs⟩ := hi
        subst hw hds
        simp [stepT, leaveT, returnT, wrapErr, ctxOnly, hfs]
    | leaving => simp at hs
    | blocked pr k => simp at hs; simp [stepT, hs, ctxOnly, hi]
    | run p =>
      simp at hs
      obtain ⟨hh, hp⟩ := hs
      subst hh
      rw [stepT_halted true _ p rfl rfl (Or.inl hp), haltedT_of_none _ hdet]
      simp [ctxOnly, hi]
  have hfin := finishes_of_invariant (fun t => ctxOnly t = true) keep
    (fun t h hs => by
      obtain ⟨id, halt, armed, st, frames⟩ := t
      simp only at hs
      obtain ⟨h1, h2⟩ := hs
      subst h1 h2
      simp [ctxOnly] at h) n t h hn
  have hinv : ∀ n t, ctxOnly t = true → ctxOnly (iter n t) = true := by
    intro n
    induction n with
    | zero => intro t h; exact h
    | succ n ih => intro t h; rw [iter_succ]; exact ih _ (keep t h)
  have hc := hinv n t h
  generalize iter n t = u at hfin hc
  obtain ⟨id, halt, armed, st, frames⟩ := u
  cases st <;> simp [St.isFin] at hfin
  simp [ctxOnly] at hc
  simp [hc.2]

/-- `C06_partial_error_program` (the guard the harness attributes findings by, at program
    level): for every program whose main code — the top-level code of the modules it imports
    included — uses no callback-carrying builtin, no `thread.wait`, no `time.sleep` and no
    range over a channel (`noLossy`: plain loops, recursion, channel receive/send, imports of
    such modules, spawns of anything), in every reachable state of every interleaving, a main
    thread that was halted while it still had code to run ends with exactly the context's
    error. -/
theorem C06_partial_error_program (p : Prog) (hg : noLossy p = true) (σ : List Label) (t : Thread)
    (ht : t ∈ (exec implCfg (init p) σ).threads) (ha : t.armed = true) (hh : t.halt = true)
    (hnf : t.st.isFin = false) (hnd : t.st ≠ .run .done) (n : Nat) (hn : potT t ≤ n) :
    (iter n t).st = .fin (some .ctx) := by
  have inv := exec_invariant implCfg (fun t => t.armed = true → ctxPath t = true)
    (fun c t h ha => ctxPath_step c t (h (by rw [stepT_armed] at ha; exact ha)))
    (fun t h ha => by
      rw [ctxPath_fire]; apply h
      unfold fireT at ha; split at ha <;> assumption)
    (fun _ _ _ _ _ ha => by simp [newClone, implCfg] at ha)
    σ (init p) (by intro t ht _; simp [init] at ht; subst ht; simp [ctxPath, impF, allK, hg])
  have hc := inv t ht ha
  apply C06_partial_error_identity t _ n hn
  obtain ⟨id, halt, armed, st, frames⟩ := t
  simp only at hh hnd
  subst hh
  simp only [ctxPath, Bool.and_eq_true] at hc
  obtain ⟨⟨hi, _⟩, hs⟩ := hc
  cases st with
  | fin e => simp [St.isFin] at hnf
  | raising e => simp at hs; simp [ctxOnly, hi, hs]
  | leaving => simp at hs
  | blocked pr k => simp at hs; simp [ctxOnly, hi, hs.1]
  | run q => simp [ctxOnly, hi]; intro h; exact hnd (by rw [h])

/-- the full statement about the returned error: a halted thread that still has code to
    run ends with the context's error -/
def C06_full_error : Prop :=
  ∀ t : Thread, t.halt = true → t.st.isFin = false → (t.st ≠ .run .done ∨ t.frames ≠ []) →
    ∃ n, (iter n t).st = .fin (some .ctx)

/-- `C06_counterexample_callback_error`: `[1].each(func(x){ for {} })` — the builtin turns
    the callback's `ctx.Err()` into `Errorf(err.Error())`; the call returns an error that
    only carries the text (and `thread.wait` wraps it the same way). -/
theorem C06_counterexample_callback_error : ¬ C06_full_error := by
  intro h
  obtain ⟨n, hn⟩ := h { id := 0, halt := true, armed := true, st := .run .spin, frames := [(.each, .done, [])] }
    rfl rfl (Or.inl (by simp))
  have h3 : iter 3 { id := 0, halt := true, armed := true, st := .run .spin, frames := [(.each, .done, [])] }
      = { id := 0, halt := true, armed := true, st := .fin (some .msg), frames := [] } := by decide
  have hfin : (iter (3 + n) { id := 0, halt := true, armed := true, st := .run .spin, frames := [(Wrap.each, Prog.done, [])] }).st
      = .fin (some .msg) := by
    rw [iter_add, h3, iter_fix n _ (fin_fix true _ rfl)]
  have hfin' : (iter (n + 3) { id := 0, halt := true, armed := true, st := .run .spin, frames := [(Wrap.each, Prog.done, [])] }).st
      = .fin (some .ctx) := by
    rw [iter_add]
    generalize iter n _ = u at hn
    rw [iter_fix 3 u (fin_fix true u (by rw [hn]; rfl))]; exact hn
  rw [Nat.add_comm, hfin] at hfin'
  cases hfin'

/-- `C06_counterexample_try_swallows`: `try(func(){ for {} })` as the last thing a program
    does — `try` keeps the context's error as `lastErr` and returns nil; no instruction is
    left to poll, the call returns a nil error. -/
theorem C06_counterexample_try_swallows :
    ∃ t : Thread, t.halt = true ∧ t.st = .run .spin ∧ ∀ n, 3 ≤ n → (iter n t).st = .fin none := by
  refine ⟨{ id := 0, halt := true, armed := true, st := .run .spin, frames := [(.try_, .done, [])] }, rfl, rfl, ?_⟩
  intro n hn
  obtain ⟨d, rfl⟩ := Nat.exists_eq_add_of_le hn
  have h3 : iter 3 { id := 0, halt := true, armed := true, st := .run .spin, frames := [(.try_, .done, [])] }
      = { id := 0, halt := true, armed := true, st := .fin none, frames := [] } := by decide
  rw [iter_add, h3, iter_fix d _ (fin_fix true _ rfl)]

/-- frames that cannot swallow, state that cannot fall off the end silently (frames without
    deferred closures: the state space the statement was made for; with deferred closures see
    `halt_stops_deferred_calls`, `deferred_outcome_never_lost` and, for a raised flag,
    `C06_partial_error_nonnil_deferred`) -/
def raises (t : Thread) : Bool :=
noTry t.frames && (detachedBy t.frames).isNone && noDefersF t.frames && (match t.st with
    | .run p => t.halt && (p != .done || !t.frames.isEmpty)
    | .blocked pr _ => (primEffect pr).isSome
    | .raising _ => true
    | .leaving => false
    | .fin e => e.isSome)

/-- `raises` without its clause about the callee context: what `C06_partial_error_nonnil`
    would have to hold for if the returned error did not depend on the consulted context -/
def raisesButDetached (t : Thread) : Bool :=
  noTry t.frames && noDefersF t.frames && (match t.st with
    | .run p => t.halt && (p != .done || !t.frames.isEmpty)
    | .blocked pr _ => (primEffect pr).isSome
    | .raising _ => true
    | .leaving => false
    | .fin e => e.isSome)

/-- `C06_partial_error_nonnil`: outside `try`, a thread stopped by the poll or blocked in
    receive/send/wait always ends with *an* error (the context's, or a copy of its text
    made by each/map/filter/call/sorted/wait) — never with a silent normal result. -/
theorem C06_partial_error_nonnil (t : Thread) (h : raises t = true) (n : Nat) (hn : potT t ≤ n) :
    ∃ e, (iter n t).st = .fin (some e) := by
  have keep : ∀ t, raises t = true → raises (stepT true t).1 = true := by
    intro t h
    obtain ⟨id, halt, armed, st, frames⟩ := t
    cases st with
    | fin e => simpa [stepT] using h
    | raising e =>
      cases frames with
      | nil => simp [stepT, leaveT, raises, noTry, detachedBy, noDefersF]
      | cons f fs =>
        obtain ⟨w, k, ds⟩ := f
        cases ds with
        | cons d ds => simp [raises, noDefersF] at h
        | nil =>
          cases w with
          | host cc b => cases cc <;> cases e <;> simp_all [stepT, leaveT, returnT, wrapErr, raises, noTry, detachedBy, noDefersF]
          | dfr o => simp [raises, noDefersF] at h
          | _ => cases e <;> simp_all [stepT, leaveT, returnT, wrapErr, raises, noTry, detachedBy, noDefersF]
    | leaving => simp [raises] at h
    | blocked pr k =>
      cases hp : primEffect pr <;> simp_all [stepT, raises]
    | run p =>
      cases p <;> cases frames <;> cases halt <;> simp_all [stepT, raises, noTry, haltedT, detachedBy, noDefersF]
  have hfin := finishes_of_invariant (fun t => raises t = true) keep
    (fun t h hs => by
      obtain ⟨id, halt, armed, st, frames⟩ := t
      simp only at hs
      obtain ⟨h1, h2⟩ := hs
      subst h1 h2
      simp [raises] at h) n t h hn
  have hinv : ∀ n t, raises t = true → raises (iter n t) = true := by
    intro n
    induction n with
    | zero => intro t h; exact h
    | succ n ih => intro t h; rw [iter_succ]; exact ih _ (keep t h)
  have hc := hinv n t h
  generalize iter n t = u at hfin hc
  obtain ⟨id, halt, armed, st, frames⟩ := u
  cases st <;> simp [St.isFin] at hfin
  rename_i e
  cases e with
  | none => simp [raises] at hc
  | some e => exact ⟨e, rfl⟩

/-- a HALTED thread outside `try` and outside detached callee contexts, whatever deferred
    closures its frames hold -/
def raisesHalted (t : Thread) : Bool :=
  noTry t.frames && (detachedBy t.frames).isNone && t.halt && (match t.st with
    | .run p => p != .done || !t.frames.isEmpty
    | .blocked pr _ => (primEffect pr).isSome
    | .raising _ => true
    | .leaving => false
    | .fin e => e.isSome)

theorem noTry_tail (f : Frame) (fs : List Frame) (h : noTry (f :: fs) = true) : noTry fs = true := by
  obtain ⟨w, k, ds⟩ := f
  simp [noTry] at h; exact h.2

theorem leaveT_raisesHalted (t : Thread) (e : Err) (hh : t.halt = true) (ht : noTry t.frames = true)
    (hd : detachedBy t.frames = none) : raisesHalted (leaveT t (some e)) = true := by
  obtain ⟨id, halt, armed, st, frames⟩ := t
  simp only at hh ht hd
  subst hh
  cases frames with
  | nil => simp [leaveT, raisesHalted, noTry, detachedBy]
  | cons f fs =>
    obtain ⟨w, k, ds⟩ := f
    have ht' := noTry_tail _ _ ht
    have hd' := detachedBy_tail _ _ hd
    cases ds with
    | cons d ds =>
      have h1 : detachedBy ((w, k, ds) :: fs) = none := by
        rw [detachedBy_defers w k k ds (d :: ds) fs]; exact hd
      have h2 : noTry ((w, k, ds) :: fs) = true := by simpa [noTry] using ht
      simp [noTry] at h2
      simp [leaveT, raisesHalted, noTry, detachedBy, h1, h2]
    | nil =>
      cases w with
      | dfr o =>
        cases o with
        | none => simp [leaveT, returnT, deferredOutcome, raisesHalted, ht', hd']
        | some e' => cases e' <;> simp [leaveT, returnT, deferredOutcome, raisesHalted, ht', hd']
      | try_ => simp [noTry] at ht
      | host cc b => cases e <;> simp [leaveT, returnT, wrapErr, raisesHalted, ht', hd']
      | _ => cases e <;> simp [leaveT, returnT, wrapErr, raisesHalted, ht', hd']

/-- `C06_partial_error_nonnil_deferred`: on a VM whose flag is raised, outside `try` and
    outside detached callee contexts, a thread ends with AN error whatever deferred closures its
    frames hold (any number, any shapes, `try` and loops inside them included — none of their
    instructions executes): the loop over the deferred calls never turns the cancellation into
    a silent normal result. -/
theorem C06_partial_error_nonnil_deferred (t : Thread) (h : raisesHalted t = true) (n : Nat)
    (hn : potT t ≤ n) : ∃ e, (iter n t).st = .fin (some e) := by
  have keep : ∀ t, raisesHalted t = true → raisesHalted (stepT true t).1 = true := by
    intro t h
    have h0 := h
    simp only [raisesHalted, Bool.and_eq_true, Option.isNone_iff_eq_none] at h
    obtain ⟨⟨⟨ht, hd⟩, hh⟩, hs⟩ := h
    have hl := fun e => leaveT_raisesHalted t e hh ht hd
    cases hst : t.st with
    | fin e => rw [fin_fix true t (by rw [hst]; rfl)]; exact h0
    | raising e =>
      have : (stepT true t).1 = leaveT t (some e) := by
        obtain ⟨id, halt, armed, st, frames⟩ := t
        simp only at hst; subst hst; simp [stepT]
      rw [this]; exact hl e
    | leaving => rw [hst] at hs; simp at hs
    | blocked pr k =>
      rw [hst] at hs
      obtain ⟨id, halt, armed, st, frames⟩ := t
      simp only at hst hh ht hd; subst hst hh
      cases hp : primEffect pr with
      | none => simp [hp] at hs
      | some e => simp [stepT, hp, raisesHalted, ht, hd]
    | run p =>
      rw [hst] at hs
      have hp : p ≠ .done ∨ t.frames ≠ [] := by
        simp at hs
        rcases hs with h1 | h1
        · exact Or.inl h1
        · exact Or.inr h1
      rw [stepT_halted true t p hh hst hp, haltedT_of_none t hd]
      simp [raisesHalted, ht, hd, hh]
  have hfin := finishes_of_invariant (fun t => raisesHalted t = true) keep
    (fun t h hs => by
      simp only [raisesHalted, Bool.and_eq_true] at h
      rw [hs.2] at h; simp at h) n t h hn
  have hinv : ∀ n t, raisesHalted t = true → raisesHalted (iter n t) = true := by
    intro n
    induction n with
    | zero => intro t h; exact h
    | succ n ih => intro t h; rw [iter_succ]; exact ih _ (keep t h)
  have hc := hinv n t h
  generalize iter n t = u at hfin hc
  obtain ⟨id, halt, armed, st, frames⟩ := u
  cases st <;> simp [St.isFin] at hfin
  rename_i e
  cases e with
  | none => simp [raisesHalted] at hc
  | some e => exact ⟨e, rfl⟩

/-- `C06_partial_callee_ctx` (the guard the harness attributes the callee-context finding by,
    at program level): for every program whose main code calls no host builtin with a
    detached callee context (`noDetached`: everything made of the builtins of the repository
    and of host builtins that pass on a context cancelled with the run's — loops, blocking
    calls, spawns of anything), in every reachable state of every interleaving the context
    consulted by the main thread's polls is one that fires with the run's: a raised flag
    makes its next poll raise the context's own error (`main_stops` applies). -/
theorem C06_partial_callee_ctx (p : Prog) (hg : noDetached p = true) (σ : List Label) (t : Thread)
    (ht : t ∈ (exec implCfg (init p) σ).threads) (ha : t.armed = true) :
    detachedBy t.frames = none ∧
    ∀ c q, t.halt = true → t.st = .run q → (q ≠ .done ∨ t.frames ≠ []) →
      (stepT c t).1.st = .raising .ctx := by
  have inv := exec_invariant implCfg (fun t => t.armed = true → noDetT t = true)
    (fun c t h ha => noDetT_step c t (h (by rw [stepT_armed] at ha; exact ha)))
    (fun t h ha => by
      rw [noDetT_fire]; apply h
      unfold fireT at ha; split at ha <;> assumption)
    (fun _ _ _ _ _ ha => by simp [newClone, implCfg] at ha)
    σ (init p) (by intro t ht _; simp [init] at ht; subst ht; simp [noDetT, invP, stP, allK, detachedBy, hg])
  have hd : detachedBy t.frames = none := by
    have := inv t ht ha
    simp [noDetT] at this
    exact this.2
  exact ⟨hd, fun c q hh hr hp => main_stops c t q hh hr hp hd⟩

/-- `C06_counterexample_detached_nil`: a host builtin runs `func(){ for {} }` back under
    `context.WithoutCancel(ctx)` as the last thing the program does.  The flag stops the
    callback (`halt_honoured_any_callee_ctx`), but `eval` returns the error of the context
    it was handed — nil; the callback "returns", no instruction is left to poll: the
    cancelled call returns a nil error. -/
theorem C06_counterexample_detached_nil :
    ∃ t : Thread, t.halt = true ∧ t.st = .run .spin ∧ raisesButDetached t = true ∧
      ∀ n, 2 ≤ n → (iter n t).st = .fin none := by
  refine ⟨{ id := 0, halt := true, armed := true, st := .run .spin, frames := [(.host .detached false, .done, [])] },
    rfl, rfl, by decide, ?_⟩
  intro n hn
  obtain ⟨d, rfl⟩ := Nat.exists_eq_add_of_le hn
  have h2 : iter 2 { id := 0, halt := true, armed := true, st := .run .spin, frames := [(.host .detached false, .done, [])] }
      = { id := 0, halt := true, armed := true, st := .fin none, frames := [] } := by decide
  rw [iter_add, h2, iter_fix d _ (fin_fix true _ rfl)]

/-- `C06_counterexample_detached_panic`: the same callback when the pop of the abandoned
    frame's "result" finds the stack empty: the call returns the recovered Go panic
    (`panic: runtime error: index out of range [-1]`), which is neither the context's error
    nor a copy of its text — even with a loop after the builtin that WOULD have returned the
    context's error. -/
theorem C06_counterexample_detached_panic :
    ∃ t : Thread, t.halt = true ∧ t.st = .run .spin ∧ raisesButDetached t = true ∧
      ∀ n, 3 ≤ n → (iter n t).st = .fin (some .panic) := by
  refine ⟨{ id := 0, halt := true, armed := true, st := .run .spin, frames := [(.host .detached true, .spin, [])] },
    rfl, rfl, by decide, ?_⟩
  intro n hn
  obtain ⟨d, rfl⟩ := Nat.exists_eq_add_of_le hn
  have h3 : iter 3 { id := 0, halt := true, armed := true, st := .run .spin, frames := [(.host .detached true, .spin, [])] }
      = { id := 0, halt := true, armed := true, st := .fin (some .panic), frames := [] } := by decide
  rw [iter_add, h3, iter_fix d _ (fin_fix true _ rfl)]

/-! ### 5b. Evaluations on a VM that has been used before

`Run`, `Call` and `RunCode` all go through `start()`; `restart` is the main thread it
leaves behind, for ANY earlier state of the VM (`t` is universally quantified: whatever
ran before, with the same context or another one, ended normally, by the poll, with an
error; whether the context fired before, during or between the earlier evaluations). -/

/-- `restart_is_fresh`: an evaluation started on a used VM (without the `RunCode` race)
    begins in exactly the state a fresh `Run(ctx)` begins in — `halt` cleared, a watcher
    armed for the context given NOW, no frames.  So everything proved from `init p`
    (sections 2–5) holds for every later evaluation on the same VM, and the oracle's answer
    for a `rerun` request is the one for `run`. -/
theorem restart_is_fresh (t : Thread) (p : Prog) (h0 : t.id = 0) :
    [restart false t p] = (init p).threads := by
  obtain ⟨id, halt, armed, st, frames⟩ := t
  simp only at h0
  subst h0
  rfl

/-- the state after `start()` does not depend on the history of the VM at all -/
theorem restart_independent_of_history (lost : Bool) (t t' : Thread) (p : Prog) (h : t.id = t'.id) :
    restart lost t p = restart lost t' p := by
  obtain ⟨id, halt, armed, st, frames⟩ := t
  obtain ⟨id', halt', armed', st', frames'⟩ := t'
  simp only at h
  subst h
  rfl

/-- `C06_reuse_main_stops`: for every earlier state of the VM and every program, once the
    context has fired (before this start, while the VM was idle, during an earlier
    evaluation, or now) and the watcher armed by THIS start has run, the evaluation ends
    within `potT` of its own steps — re-supplying a context the VM has already seen, fired or
    not, is no different from supplying a new one. -/
theorem C06_reuse_main_stops (t : Thread) (p : Prog) (n : Nat)
    (hn : potT (fireT (restart false t p)) ≤ n) :
    (iter n (fireT (restart false t p))).st.isFin = true :=
  halted_thread_finishes _ (by simp [fireT, restart]) n hn

/-- What the property demands of every entry point: whichever way the evaluation is started
    (`e`), on a VM in whatever state (`t`), whether or not the context had fired before the
    start (`firedBefore`), and whichever way the races inside the start go (`lost`, possible
    only where `canLose` says so): once the context has fired the evaluation ends. -/
def C06_full_reuse : Prop :=
  ∀ (e : Entry) (firedBefore lost : Bool), (lost = true → canLose e firedBefore = true) →
    ∀ (t : Thread) (p : Prog), ∃ n, (iter n (fireT (restart lost t p))).st.isFin = true

/-- `C06_counterexample_runcode_reset`: the code as it is violates it.  `RunCode(ctx, for {})`
    on a used VM with a context that has already fired: `start()` arms the watcher, the
    watcher stores `halt := 1` and exits, `resetForNewCode()` stores `halt := 0` — the loop
    polls a flag nobody will ever set. -/
theorem C06_counterexample_runcode_reset : ¬ C06_full_reuse := by
  intro h
  obtain ⟨n, hn⟩ := h .runCode true true (fun _ => rfl) usedMain .spin
  have := unhalted_loop_never_ends (fireT (restart true usedMain .spin)) rfl rfl n
  rw [this] at hn
  exact absurd hn (by simp)

/-- `C06_partial_reuse`: outside that race — every `Run`, every `Call`, and `RunCode` with a
    context that had not fired before the start — the statement holds, with the bound. -/
theorem C06_partial_reuse (e : Entry) (firedBefore lost : Bool)
    (hl : lost = true → canLose e firedBefore = true) (hg : canLose e firedBefore = false)
    (t : Thread) (p : Prog) :
    (iter (potT (fireT (restart lost t p))) (fireT (restart lost t p))).st.isFin = true := by
  have hlost : lost = false := by
    cases lost with
    | false => rfl
    | true => rw [hl rfl] at hg; exact absurd hg (by simp)
  subst hlost
  exact C06_reuse_main_stops t p _ (Nat.le_refl _)

/-! ### 6. Non-vacuity -/

/-- the guard of `C06_partial` admits programs with loops, callbacks, every blocking
    primitive and spawns nested three deep -/
example : noCloneSpin
    (.spawn 1 (.spawn 2 (.spawn 3 (.block .recv .done) (.block .sleep (.compute .done)))
      (.cb .each (.block .wait .done) .done)) (.cb .sorted .spin .done)) = true := by decide

/-- …and the hypothesis "cancelled" of `C06_partial`/`C06_full` is reachable with live threads -/
example : (exec implCfg (init (.spawn 1 (.block .sleep .done) .spin)) [.step 0, .step 1, .cancel]).cancelled = true
    ∧ (exec implCfg (init (.spawn 1 (.block .sleep .done) .spin)) [.step 0, .step 1, .cancel]).threads.length = 2 := by
  decide

/-- `C06_partial_main` is not vacuous: a halted main thread deep inside callbacks exists
    in a reachable state and does end with an error -/
example : ∃ t, (exec implCfg (init (.cb .map (.cb .try_ .spin .done) .done))
      [.step 0, .step 0, .step 0, .cancel, .fire 0]).threads[0]? = some t ∧ t.halt = true
      ∧ (iter (potT t) t).st = .fin (some .msg) :=
  ⟨{ id := 0, halt := true, armed := true, st := .run .spin, frames := [(.try_, .done, []), (.map, .done, [])] },
    by decide, by decide, by decide⟩

/-- `halt_stops_deferred_calls` is not vacuous: `func(){ defer func(){ for {} }(); for {} }()`
    — a script call registers a deferred unbounded loop and loops; cancel, the watcher fires: a
    reachable state with the flag raised and a deferred loop pending; the evaluation ends with
    the context's error within `potT` own steps (under the lowering variant it never would:
    `deferLowering_not_stopped`) -/
example : ∃ t, (exec implCfg (init (.cb .fn (.defer_ .spin .spin) .done))
      [.step 0, .step 0, .cancel, .fire 0]).threads[0]? = some t ∧ t.halt = true
      ∧ t.frames = [(.fn, .done, [.spin])] ∧ (iter (potT t) t).st = .fin (some .ctx)
      ∧ (iter 2 t).st = .run .spin ∧ (iter 2 t).frames = [(.dfr (some .ctx), .done, []), (.fn, .done, [])] :=
  ⟨{ id := 0, halt := true, armed := true, st := .run .spin, frames := [(.fn, .done, [.spin])] },
    by decide, by decide, by decide, by decide, by decide, by decide⟩

/-- …deferred closures in the callback of a builtin and in its caller, three of them, one
    holding a deferred closure of its own and blocking primitives: all stopped; `each` hands
    a copy of the error's text to the script call, whose own deferred closure is stopped by the
    poll in turn, and THAT error — the context's — replaces the outcome of the call -/
example : (iter 40 { id := 0, halt := true, armed := true, st := .run .spin,
                     frames := [(.each, .done, [.spin, .defer_ .spin (.block .recv .spin)]), (.fn, (.compute .done), [.cb .try_ .spin .spin])] }).st
    = .fin (some .ctx) := by decide

/-- …and a frame that returned normally while the flag was down runs its deferred closure; the
    cancellation that arrives while THAT loops stops it, the error replaces the result -/
example : ∃ t, (exec implCfg (init (.cb .fn (.defer_ .spin .done) .spin))
      [.step 0, .step 0, .step 0, .cancel, .fire 0]).threads[0]? = some t ∧ t.halt = true
      ∧ t.frames = [(.dfr none, .done, []), (.fn, .spin, [])] ∧ (iter (potT t) t).st = .fin (some .ctx) :=
  ⟨{ id := 0, halt := true, armed := true, st := .run .spin, frames := [(.dfr none, .done, []), (.fn, .spin, [])] },
    by decide, by decide, by decide, by decide⟩

/-- the import theorems are not vacuous: `import m` where the top-level code of `m` is
    `go func(){ <-c }(); <-c` — a reachable state after the cancellation in which the main
    thread is blocked INSIDE the module body and the function the module body started is
    blocked on its clone VM without a watcher.  Under the code as it is both end with the
    context's error (the import hands it on unchanged); had the module body been handed a
    context that does not fire, neither would ever end -/
example : (exec implCfg (init (.cb .imp (.spawn 1 (.block .recv .done) (.block .recv .done)) .spin))
      [.step 0, .step 0, .step 0, .step 1, .cancel]).threads
      = [{ id := 0, halt := false, armed := true, st := .blocked .recv .done, frames := [(.imp, .spin, [])] },
         { id := 1, halt := false, armed := false, st := .blocked .recv .done, frames := [] }]
    ∧ inImport [(Wrap.imp, Prog.spin, ([] : List Prog))] = true
    ∧ (iter 3 (fireT { id := 0, halt := false, armed := true, st := .blocked .recv .done, frames := [(.imp, .spin, [])] })).st
        = .fin (some .ctx)
    ∧ (iter 2 { id := 1, halt := false, armed := false, st := .blocked .recv .done, frames := [] }).st = .fin (some .ctx)
    ∧ stopsImp .detached { id := 0, halt := false, armed := true, st := .blocked .recv .done, frames := [(.imp, .spin, [])] } = false
    ∧ stopsNever { id := 1, halt := false, armed := false, st := .blocked .recv .done, frames := [] } = false := by
  decide

/-- …the contrast is not only about threads that are already blocked when the context fires:
    a spawned function (clone VM, no watcher) that imports a module whose top-level code
    computes and then receives reaches the receive after the cancellation — it ends under
    the code as it is and never under the variant.  (On a VM WITH a watcher the raised flag
    stops the module body before it can reach another primitive: there the two differ exactly
    for threads blocked inside an import, `importDetached_not_stopped`.) -/
example : stops (Thread.mk 1 false false (.run (.compute (.block .recv .done))) [(.imp, .done, [])]) = true
    ∧ stopsImp .detached (Thread.mk 1 false false (.run (.compute (.block .recv .done))) [(.imp, .done, [])]) = false
    ∧ stopsImp .detached (Thread.mk 0 false true (.run .spin) [(.try_, .block .recv .done, []), (.imp, .done, [])]) = true := by
  decide

/-- `ctxOnly` / `noLossy` admit imports nested in imports: a loop in the top-level code of a
    module imported by the top-level code of a module is stopped with the context's own error -/
example : ctxOnly { id := 0, halt := true, armed := true, st := .run .spin,
                    frames := [(.imp, .done, []), (.imp, .spin, [])] } = true
    ∧ (iter 4 { id := 0, halt := true, armed := true, st := .run .spin,
                frames := [(.imp, .done, []), (.imp, .spin, [])] }).st = .fin (some .ctx)
    ∧ noLossy (.cb .imp (.block .recv (.cb .imp .spin .done)) (.spawn 1 (.cb .each .spin .done) .spin)) = true := by
  decide

/-- `raisesHalted` admits frames that hold deferred closures with `try` and loops in them -/
example : raisesHalted { id := 0, halt := true, armed := true, st := .run .spin,
                         frames := [(.sorted, .done, [.cb .try_ .spin .spin, .spin]), (.fn, .spin, [.spin])] } = true := by
  decide

/-- `ctxOnly` and `raises` are satisfiable by the shapes the tests use and by blocked ones -/
example : ctxOnly { id := 0, halt := true, armed := true, st := .run .spin, frames := [] } = true
    ∧ ctxOnly { id := 0, halt := false, armed := true, st := .blocked .recv .done, frames := [] } = true
    ∧ raises { id := 0, halt := false, armed := true, st := .blocked .wait .done, frames := [(.sorted, .done, [])] } = true := by
  decide

/-- `halt_honoured_any_callee_ctx` is not vacuous: a halted thread inside a host callback
    with a detached context, itself inside `each` inside a host callback that passed its
    own context, is a reachable state; the flag stops it, and the evaluation ends with the
    context's error at the next poll of a frame that was handed the run's context -/
example : ∃ t, (exec implCfg (init (.cb (.host .follows false) (.cb .each (.cb (.host .detached false) .spin .done) .done) .spin))
      [.step 0, .step 0, .step 0, .step 0, .cancel, .fire 0]).threads[0]? = some t ∧ t.halt = true
      ∧ detachedBy t.frames = some false ∧ (iter (potT t) t).st = .fin (some .msg) :=
  ⟨{ id := 0, halt := true, armed := true, st := .run .spin,
     frames := [(.host .detached false, .done, []), (.each, .done, []), (.host .follows false, .spin, [])] },
    by decide, by decide, by decide, by decide⟩

/-- …and after a detached callback that "returned" under the raised flag, the next poll of the
    main code (run's own context) returns the context's error itself -/
example : (iter 3 (Thread.mk 0 true true (.run .spin) [(.host .detached false, .spin, [])])).st
    = .fin (some .ctx) := by decide

/-- the guard of `C06_partial_callee_ctx` admits host callbacks with every context that is
    cancelled with the run's, inside and around the builtins of the repository, and spawned
    functions of any kind (a detached callback inside a SPAWNED function is the spawned-loop
    finding: its VM has no watcher at all) -/
example : noDetached (.cb (.host .follows false) (.cb .sorted (.cb (.host .follows false) .spin .done) .done)
    (.spawn 1 (.cb (.host .detached false) .spin .done) (.block .recv .spin))) = true := by decide

/-- the guard of `C06_partial_error_program` admits loops after channel operations and
    spawned functions of any kind -/
example : noLossy (.spawn 1 (.cb .each .spin .done) (.block .recv (.compute .spin))) = true := by decide

/-- without a cancellation nothing is stopped: a blocked thread stays blocked, a loop loops -/
example : (exec implCfg (init (.block .recv .done)) [.step 0, .step 0, .fire 0, .step 0]).threads
    = [{ id := 0, halt := false, armed := true, st := .blocked .recv .done, frames := [] }] := by decide

/-- the guard of `C06_partial_reuse` is satisfiable for every entry point, and the race of
    the counterexample needs exactly `RunCode` + a context fired before the start -/
example : canLose .run true = false ∧ canLose .call true = false ∧ canLose .runCode false = false
    ∧ canLose .runCode true = true := by decide

/-- a used VM stopped by the poll, started again with the (fired) context: halted again
    after the new watcher ran, ends with the context's error -/
example : (iter 3 (fireT (restart false usedMain .spin))).st = .fin (some .ctx) := by decide

end Risor.C06
