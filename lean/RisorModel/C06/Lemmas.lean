import RisorModel.C06.Model
set_option linter.unusedSimpArgs false
/-!
Helper lemmas for C06: what one step preserves, the potential argument, and locality of a
thread's evolution inside an arbitrary interleaving.
-/
namespace Risor.C06

/-! ### the halted branch of a poll -/

/-- the three things a raised flag can do to a thread, whatever context its `eval` was
    handed: raise the context's error, raise the pop panic, or abandon the callback frame
    and return to its builtin; `halt`, `armed`, `id` are never touched -/
theorem haltedT_cases (t : Thread) :
    haltedT t = { t with st := .raising .ctx } ∨ haltedT t = { t with st := .raising .panic } ∨
    ∃ w k fs, t.frames = (w, k) :: fs ∧ haltedT t = { t with st := .run k, frames := fs } := by
  unfold haltedT
  split
  · exact Or.inl rfl
  · exact Or.inr (Or.inl rfl)
  · split
    · exact Or.inl rfl
    · rename_i w k fs h; exact Or.inr (Or.inr ⟨w, k, fs, h, rfl⟩)

theorem haltedT_of_none (t : Thread) (h : detachedBy t.frames = none) :
    haltedT t = { t with st := .raising .ctx } := by
  unfold haltedT; rw [h]

theorem haltedT_flags (t : Thread) :
    (haltedT t).halt = t.halt ∧ (haltedT t).armed = t.armed ∧ (haltedT t).id = t.id := by
  rcases haltedT_cases t with h | h | ⟨w, k, fs, _, h⟩ <;> rw [h] <;> simp

/-- every instruction polls: with the flag raised the step of running code IS `haltedT`
    (the only step without a poll is falling off the end of the main code) -/
theorem stepT_halted (c : Bool) (t : Thread) (p : Prog) (hh : t.halt = true) (hr : t.st = .run p)
    (hp : p ≠ .done ∨ t.frames ≠ []) : stepT c t = (haltedT t, none) := by
  obtain ⟨id, halt, armed, st, frames⟩ := t
  simp only at hh hr hp
  subst hh hr
  cases p with
  | done =>
    cases frames with
    | nil => simp at hp
    | cons f fs => simp [stepT]
  | _ => simp [stepT]

/-! ### one step -/

theorem stepT_flags (c : Bool) (t : Thread) :
    (stepT c t).1.halt = t.halt ∧ (stepT c t).1.armed = t.armed ∧ (stepT c t).1.id = t.id := by
  obtain ⟨id, halt, armed, st, frames⟩ := t
  cases st with
  | fin e => simp [stepT]
  | raising e =>
    cases frames with
    | nil => simp [stepT]
    | cons f fs =>
      obtain ⟨w, k⟩ := f
      cases h : wrapErr w e <;> simp [stepT, h]
  | blocked pr k =>
    cases c
    · simp [stepT]
    · cases h : primEffect pr <;> simp [stepT, h]
  | run p =>
    have hf := haltedT_flags
    cases p <;> cases halt <;> cases frames <;> simp [stepT, hf]

theorem stepT_halt (c : Bool) (t : Thread) : (stepT c t).1.halt = t.halt := (stepT_flags c t).1
theorem stepT_armed (c : Bool) (t : Thread) : (stepT c t).1.armed = t.armed := (stepT_flags c t).2.1

theorem fin_fix (c : Bool) (t : Thread) (h : t.st.isFin = true) : (stepT c t).1 = t := by
  obtain ⟨id, halt, armed, st, frames⟩ := t
  cases st <;> simp [St.isFin] at h
  simp [stepT]

theorem spin_fix (c : Bool) (t : Thread) (h : t.st = .run .spin) (hh : t.halt = false) :
    (stepT c t).1 = t := by
  obtain ⟨id, halt, armed, st, frames⟩ := t
  simp only at h hh
  subst h hh
  simp [stepT]

theorem size_pos (p : Prog) : 2 ≤ size p := by
  induction p <;> simp only [size] <;> omega

theorem afterPrim_size (pr : Prim) (k : Prog) : size (afterPrim pr k) ≤ 1 + size k := by
  cases pr <;> simp [afterPrim, size] <;> omega

/-- whatever the halted branch does, what is left is at most one unwinding step plus the
    enclosing frames -/
theorem haltedT_pot (t : Thread) : potT (haltedT t) ≤ 1 + potFrames t.frames := by
  rcases haltedT_cases t with h | h | ⟨w, k, fs, hf, h⟩
  · rw [h]; simp [potT, potSt]
  · rw [h]; simp [potT, potSt]
  · rw [h, hf]; simp [potT, potSt, potFrames]; omega

/-- Once the context has fired, every step of a thread that is neither finished nor in an
    unhalted compute loop strictly decreases its potential. -/
theorem step_decr (t : Thread) (hf : t.st.isFin = false)
    (hs : ¬ (t.st = .run .spin ∧ t.halt = false)) :
    potT (stepT true t).1 < potT t := by
  obtain ⟨id, halt, armed, st, frames⟩ := t
  cases st with
  | fin e => simp [St.isFin] at hf
  | raising e =>
    cases frames with
    | nil => simp [stepT, potT, potSt, potFrames]
    | cons f fs =>
      obtain ⟨w, k⟩ := f
      cases h : wrapErr w e <;> simp [stepT, h, potT, potSt, potFrames] <;> omega
  | blocked pr k =>
    cases h : primEffect pr
    · have := afterPrim_size pr k
      simp [stepT, h, potT, potSt]; omega
    · have := size_pos k
      simp [stepT, h, potT, potSt]; omega
  | run p =>
    cases halt with
    | true =>
      by_cases hp : p ≠ .done ∨ frames ≠ []
      · rw [stepT_halted true _ p rfl rfl hp]
        show potT (haltedT _) < _
        have h1 := haltedT_pot { id := id, halt := true, armed := armed, st := .run p, frames := frames }
        have h2 := size_pos p
        simp only [potT, potSt] at h1 ⊢
        omega
      · have hp1 : p = .done := by
          cases p <;> simp_all
        have hp2 : frames = [] := by
          cases frames <;> simp_all
        subst hp1 hp2
        simp [stepT, potT, potSt, potFrames, size]
    | false =>
      cases p with
      | done =>
        cases frames with
        | nil => simp [stepT, potT, potSt, potFrames, size]
        | cons f fs =>
          obtain ⟨w, k⟩ := f
          simp [stepT, potT, potSt, potFrames, size]; omega
      | compute k =>
        have := size_pos k
        simp [stepT, potT, potSt, size]
      | spin => exact absurd ⟨rfl, rfl⟩ hs
      | block pr k =>
        have := size_pos k
        simp [stepT, potT, potSt, size]
      | cb w body k =>
        have := size_pos k
        have := size_pos body
        simp [stepT, potT, potSt, potFrames, size]; omega
      | spawn i body k =>
        have := size_pos k
        simp [stepT, potT, potSt, size]

/-! ### own steps -/

theorem iter_succ (n : Nat) (t : Thread) : iter (n + 1) t = iter n (stepT true t).1 := rfl

theorem iter_fix (n : Nat) (t : Thread) (h : (stepT true t).1 = t) : iter n t = t := by
  induction n with
  | zero => rfl
  | succ n ih => rw [iter_succ, h, ih]

theorem iter_add (m n : Nat) (t : Thread) : iter (m + n) t = iter n (iter m t) := by
  induction m generalizing t with
  | zero => simp [iter]
  | succ m ih => rw [Nat.add_right_comm, iter_succ, ih, iter_succ]

theorem iter_halt (n : Nat) (t : Thread) : (iter n t).halt = t.halt := by
  induction n generalizing t with
  | zero => rfl
  | succ n ih => rw [iter_succ, ih, stepT_halt]

theorem iter_fin_mono (m n : Nat) (t : Thread) (hmn : m ≤ n) (h : (iter m t).st.isFin = true) :
    (iter n t).st.isFin = true := by
  obtain ⟨d, rfl⟩ := Nat.exists_eq_add_of_le hmn
  rw [iter_add, iter_fix d _ (fin_fix true _ h)]
  exact h

/-- a predicate that rules out "unhalted compute loop" and is kept by steps gives termination
    within `potT` own steps -/
theorem finishes_of_invariant (P : Thread → Prop)
    (hstep : ∀ t, P t → P (stepT true t).1)
    (hspin : ∀ t, P t → ¬ (t.st = .run .spin ∧ t.halt = false))
    (n : Nat) : ∀ t, P t → potT t ≤ n → (iter n t).st.isFin = true := by
  induction n with
  | zero =>
    intro t _ hn
    cases hf : t.st.isFin
    · have := step_decr t hf (hspin t ‹_›); omega
    · exact hf
  | succ n ih =>
    intro t hP hn
    cases hf : t.st.isFin
    · have hd := step_decr t hf (hspin t hP)
      rw [iter_succ]
      exact ih _ (hstep t hP) (by omega)
    · rw [iter_fix _ _ (fin_fix true t hf)]; exact hf

/-- if a thread ever finishes, it has finished after `potT` own steps -/
theorem fin_within_pot (n : Nat) : ∀ t : Thread, (iter n t).st.isFin = true →
    (iter (potT t) t).st.isFin = true := by
  induction n with
  | zero => intro t h; exact iter_fin_mono 0 _ t (Nat.zero_le _) h
  | succ n ih =>
    intro t h
    cases hf : t.st.isFin
    · by_cases hs : t.st = .run .spin ∧ t.halt = false
      · rw [iter_fix _ _ (spin_fix true t hs.1 hs.2)] at h
        rw [hf] at h; exact absurd h (by simp)
      · have hd := step_decr t hf hs
        rw [iter_succ] at h
        have := ih _ h
        obtain ⟨d, hd'⟩ := Nat.exists_eq_add_of_le (Nat.succ_le_of_lt hd)
        rw [hd', Nat.succ_eq_add_one, Nat.add_right_comm, iter_succ]
        exact iter_fin_mono _ _ _ (Nat.le_add_right _ _) this
    · rw [iter_fix _ _ (fin_fix true t hf)]; exact hf

/-! ### lists of threads -/

theorem stepAt_length (c : Bool) (i : Nat) (ts : List Thread) : (stepAt c i ts).1.length = ts.length := by
  induction ts generalizing i with
  | nil => simp [stepAt]
  | cons t ts ih => cases i <;> simp [stepAt, ih]

theorem stepAt_get_self (c : Bool) (i : Nat) (ts : List Thread) (t : Thread) (h : ts[i]? = some t) :
    (stepAt c i ts).1[i]? = some (stepT c t).1 := by
  induction ts generalizing i with
  | nil => simp at h
  | cons u ts ih =>
    cases i with
    | zero => simp at h; simp [stepAt, h]
    | succ i => simp at h; simpa [stepAt] using ih i h

theorem stepAt_get_other (c : Bool) (i j : Nat) (ts : List Thread) (h : j ≠ i) :
    (stepAt c i ts).1[j]? = ts[j]? := by
  induction ts generalizing i j with
  | nil => simp [stepAt]
  | cons u ts ih =>
    cases i with
    | zero =>
      cases j with
      | zero => exact absurd rfl h
      | succ j => simp [stepAt]
    | succ i =>
      cases j with
      | zero => simp [stepAt]
      | succ j => simpa [stepAt] using ih i j (by omega)

theorem fireAt_length (i : Nat) (ts : List Thread) : (fireAt i ts).length = ts.length := by
  induction ts generalizing i with
  | nil => simp [fireAt]
  | cons t ts ih => cases i <;> simp [fireAt, ih]

theorem fireAt_get_self (i : Nat) (ts : List Thread) (t : Thread) (h : ts[i]? = some t) :
    (fireAt i ts)[i]? = some (fireT t) := by
  induction ts generalizing i with
  | nil => simp at h
  | cons u ts ih =>
    cases i with
    | zero => simp at h; simp [fireAt, h]
    | succ i => simp at h; simpa [fireAt] using ih i h

theorem fireAt_get_other (i j : Nat) (ts : List Thread) (h : j ≠ i) : (fireAt i ts)[j]? = ts[j]? := by
  induction ts generalizing i j with
  | nil => simp [fireAt]
  | cons u ts ih =>
    cases i with
    | zero =>
      cases j with
      | zero => exact absurd rfl h
      | succ j => simp [fireAt]
    | succ i =>
      cases j with
      | zero => simp [fireAt]
      | succ j => simpa [fireAt] using ih i j (by omega)

/-- every thread after a `step i` is an old thread, the stepped old thread, … -/
theorem mem_stepAt (c : Bool) (i : Nat) (ts : List Thread) (t' : Thread) (h : t' ∈ (stepAt c i ts).1) :
    ∃ t ∈ ts, t' = t ∨ t' = (stepT c t).1 := by
  induction ts generalizing i with
  | nil => simp [stepAt] at h
  | cons u ts ih =>
    cases i with
    | zero =>
      simp only [stepAt, List.mem_cons] at h
      rcases h with h | h
      · exact ⟨u, by simp, Or.inr h⟩
      · exact ⟨t', by simp [h], Or.inl rfl⟩
    | succ i =>
      simp only [stepAt, List.mem_cons] at h
      rcases h with h | h
      · exact ⟨u, by simp, Or.inl h⟩
      · obtain ⟨t, ht, hh⟩ := ih i h
        exact ⟨t, by simp [ht], hh⟩

/-- … or the clone made for a function the stepped thread spawned -/
theorem spawned_stepAt (c : Bool) (i : Nat) (ts : List Thread) (b : Nat × Prog)
    (h : (stepAt c i ts).2 = some b) : ∃ t ∈ ts, (stepT c t).2 = some b := by
  induction ts generalizing i with
  | nil => simp [stepAt] at h
  | cons u ts ih =>
    cases i with
    | zero => exact ⟨u, by simp, by simpa [stepAt] using h⟩
    | succ i =>
      obtain ⟨t, ht, hh⟩ := ih i (by simpa [stepAt] using h)
      exact ⟨t, by simp [ht], hh⟩

theorem mem_fireAt (i : Nat) (ts : List Thread) (t' : Thread) (h : t' ∈ fireAt i ts) :
    ∃ t ∈ ts, t' = t ∨ t' = fireT t := by
  induction ts generalizing i with
  | nil => simp [fireAt] at h
  | cons u ts ih =>
    cases i with
    | zero =>
      simp only [fireAt, List.mem_cons] at h
      rcases h with h | h
      · exact ⟨u, by simp, Or.inr h⟩
      · exact ⟨t', by simp [h], Or.inl rfl⟩
    | succ i =>
      simp only [fireAt, List.mem_cons] at h
      rcases h with h | h
      · exact ⟨u, by simp, Or.inl h⟩
      · obtain ⟨t, ht, hh⟩ := ih i h
        exact ⟨t, by simp [ht], hh⟩

/-- A property of threads that holds initially, is kept by steps and by the watcher, and
    holds for every clone a thread with the property spawns, holds for every thread of
    every reachable state. -/
theorem exec_invariant (cfg : Cfg) (P : Thread → Prop)
    (hstep : ∀ c t, P t → P (stepT c t).1)
    (hfire : ∀ t, P t → P (fireT t))
    (hspawn : ∀ c t b, P t → (stepT c t).2 = some b → P (newClone cfg b))
    (σ : List Label) : ∀ s : Sys, (∀ t ∈ s.threads, P t) → ∀ t ∈ (exec cfg s σ).threads, P t := by
  induction σ with
  | nil => intro s h; exact h
  | cons l σ ih =>
    intro s h
    show ∀ t ∈ (exec cfg (apply cfg s l) σ).threads, P t
    apply ih
    intro t' ht'
    cases l with
    | cancel => exact h t' ht'
    | fire i =>
      simp only [apply] at ht'
      split at ht'
      · obtain ⟨t, ht, hh⟩ := mem_fireAt i _ _ ht'
        rcases hh with rfl | rfl
        · exact h _ ht
        · exact hfire _ (h _ ht)
      · exact h t' ht'
    | step i =>
      simp only [apply, List.mem_append] at ht'
      rcases ht' with ht' | ht'
      · obtain ⟨t, ht, hh⟩ := mem_stepAt _ i _ _ ht'
        rcases hh with rfl | rfl
        · exact h _ ht
        · exact hstep _ _ (h _ ht)
      · cases hb : (stepAt s.cancelled i s.threads).2 with
        | none => simp [hb] at ht'
        | some b =>
          simp [hb] at ht'
          obtain ⟨t, ht, hh⟩ := spawned_stepAt _ i _ b hb
          rw [ht']
          exact hspawn _ t b (h _ ht) hh

/-! ### locality: inside any interleaving a thread only moves by its own steps -/

def ownSteps (i : Nat) : List Label → Nat
  | [] => 0
  | .step j :: σ => (if j = i then 1 else 0) + ownSteps i σ
  | _ :: σ => ownSteps i σ

theorem fireT_id_of_fired (t : Thread) (h : t.armed = true → t.halt = true) : fireT t = t := by
  obtain ⟨id, halt, armed, st, frames⟩ := t
  cases armed
  · simp [fireT]
  · simp at h; simp [fireT, h]

theorem exec_cancelled (cfg : Cfg) (σ : List Label) : ∀ s : Sys, s.cancelled = true →
    (exec cfg s σ).cancelled = true := by
  induction σ with
  | nil => intro s h; exact h
  | cons l σ ih =>
    intro s h
    show (exec cfg (apply cfg s l) σ).cancelled = true
    apply ih
    cases l with
    | cancel => rfl
    | fire i => simp only [apply]; split <;> exact h
    | step i => exact h

/-- After the cancellation, and once its watcher (if any) has fired, thread `i` of the
    system is, after ANY trace `σ`, exactly where `ownSteps i σ` of its own steps take it:
    nothing another thread, another watcher or the environment does can change that. -/
theorem exec_local (cfg : Cfg) (i : Nat) (σ : List Label) : ∀ (s : Sys) (t : Thread),
    s.cancelled = true → s.threads[i]? = some t → (t.armed = true → t.halt = true) →
    (exec cfg s σ).threads[i]? = some (iter (ownSteps i σ) t) := by
  induction σ with
  | nil => intro s t _ ht _; simpa [exec, ownSteps, iter] using ht
  | cons l σ ih =>
    intro s t hc ht ha
    show (exec cfg (apply cfg s l) σ).threads[i]? = _
    have hlt : i < s.threads.length := by
      rcases Nat.lt_or_ge i s.threads.length with h | h
      · exact h
      · rw [List.getElem?_eq_none_iff.2 h] at ht; cases ht
    cases l with
    | cancel =>
      simpa [ownSteps] using ih (apply cfg s .cancel) t rfl ht ha
    | fire j =>
      have hc' : (apply cfg s (.fire j)).cancelled = true := by simp [apply, hc]
      by_cases hji : j = i
      · subst hji
        have : (apply cfg s (.fire j)).threads[j]? = some t := by
          simp only [apply, hc, if_true]
          rw [fireAt_get_self j _ t ht, fireT_id_of_fired t ha]
        simpa [ownSteps] using ih _ t hc' this ha
      · have : (apply cfg s (.fire j)).threads[i]? = some t := by
          simp only [apply, hc, if_true]
          rw [fireAt_get_other j i _ (Ne.symm hji)]; exact ht
        simpa [ownSteps] using ih _ t hc' this ha
    | step j =>
      have hc' : (apply cfg s (.step j)).cancelled = true := hc
      by_cases hji : j = i
      · subst hji
        have : (apply cfg s (.step j)).threads[j]? = some (stepT true t).1 := by
          simp only [apply]
          rw [List.getElem?_append_left (by rw [stepAt_length]; exact hlt), hc]
          exact stepAt_get_self true j _ t ht
        have ha' : (stepT true t).1.armed = true → (stepT true t).1.halt = true := by
          rw [stepT_armed, stepT_halt]; exact ha
        have := ih _ _ hc' this ha'
        simp only [ownSteps, if_true]
        rw [Nat.add_comm, iter_succ]; exact this
      · have : (apply cfg s (.step j)).threads[i]? = some t := by
          simp only [apply]
          rw [List.getElem?_append_left (by rw [stepAt_length]; exact hlt)]
          rw [stepAt_get_other _ j i _ (Ne.symm hji)]; exact ht
        have := ih _ t hc' this ha
        simpa [ownSteps, hji] using this

/-! ### thread-level forms of the guards and what a step does to them -/

/-- a predicate on programs holds of the continuation of every enclosing callback frame -/
def allK (P : Prog → Bool) : List (Wrap × Prog) → Bool
  | [] => true
  | (_, k) :: fs => P k && allK P fs

/-- no enclosing callback frame is a `try` -/
def noTry : List (Wrap × Prog) → Bool
  | [] => true
  | (w, _) :: fs => w != .try_ && noTry fs

/-- a predicate that holds of the continuation of every enclosing frame holds of whatever a
    halted poll leaves to execute -/
theorem haltedT_allK (P : Prog → Bool) (t : Thread) (h : allK P t.frames = true) :
    (match (haltedT t).st with
      | .run p => P p
      | .blocked _ k => P k
      | _ => true) = true ∧ allK P (haltedT t).frames = true := by
  rcases haltedT_cases t with e | e | ⟨w, k, fs, hf, e⟩
  · rw [e]; exact ⟨rfl, h⟩
  · rw [e]; exact ⟨rfl, h⟩
  · rw [e]; rw [hf] at h; simp [allK] at h; exact ⟨h.1, h.2⟩

/-- a halted step of running code: nothing is spawned, and a frame predicate is kept -/
theorem stepT_halted_allK (P : Prog → Bool) (c : Bool) (t : Thread) (p : Prog) (hh : t.halt = true)
    (hr : t.st = .run p) (h : allK P t.frames = true) :
    ((match (stepT c t).1.st with
      | .run p => P p
      | .blocked _ k => P k
      | _ => true) && allK P (stepT c t).1.frames) = true ∧ (stepT c t).2 = none := by
  by_cases hp : p ≠ .done ∨ t.frames ≠ []
  · rw [stepT_halted c t p hh hr hp]
    have := haltedT_allK P t h
    simp [this.1, this.2]
  · have hp1 : p = .done := by
      cases p <;> simp_all
    have hp2 : t.frames = [] := by
      cases hf : t.frames <;> simp_all
    obtain ⟨id, halt, armed, st, frames⟩ := t
    simp only at hh hr hp2
    subst hh hr hp1 hp2
    simp [stepT, allK]

/-- thread-level form of the guards: nothing the thread can still execute contains a loop -/
def noSpinT (t : Thread) : Bool :=
  (match t.st with
    | .run p => noSpin p
    | .blocked _ k => noSpin k
    | _ => true) && allK noSpin t.frames

/-- nothing the thread can still spawn contains a loop -/
def noCloneSpinT (t : Thread) : Bool :=
  (match t.st with
    | .run p => noCloneSpin p
    | .blocked _ k => noCloneSpin k
    | _ => true) && allK noCloneSpin t.frames

theorem noSpin_afterPrim (pr : Prim) (k : Prog) : noSpin (afterPrim pr k) = noSpin k := by
  cases pr <;> simp [afterPrim, noSpin]

theorem noCloneSpin_afterPrim (pr : Prim) (k : Prog) : noCloneSpin (afterPrim pr k) = noCloneSpin k := by
  cases pr <;> simp [afterPrim, noCloneSpin]

theorem noSpinT_step (c : Bool) (t : Thread) (h : noSpinT t = true) :
    noSpinT (stepT c t).1 = true ∧ ∀ b, (stepT c t).2 = some b → noSpin b.2 = true := by
  obtain ⟨id, halt, armed, st, frames⟩ := t
  cases st with
  | fin e => simpa [stepT] using h
  | raising e =>
    cases frames with
    | nil => simp [stepT, noSpinT, allK]
    | cons f fs =>
      obtain ⟨w, k⟩ := f
      simp [noSpinT, allK] at h
      cases hw : wrapErr w e <;> simp [stepT, hw, noSpinT, allK, h]
  | blocked pr k =>
    simp [noSpinT, allK] at h
    cases c
    · simp [stepT, noSpinT, allK, h]
    · cases hp : primEffect pr <;> simp [stepT, hp, noSpinT, allK, h, noSpin_afterPrim]
  | run p =>
    cases halt with
    | true =>
      have hk : allK noSpin frames = true := by
        simp [noSpinT] at h; exact h.2
      have := stepT_halted_allK noSpin c { id := id, halt := true, armed := armed, st := .run p, frames := frames } p rfl rfl hk
      refine ⟨this.1, ?_⟩
      rw [this.2]; simp
    | false =>
      cases p with
      | done =>
        cases frames with
        | nil => simp [stepT, noSpinT, allK]
        | cons f fs =>
          obtain ⟨w, k⟩ := f
          simp [noSpinT, noSpin, allK] at h
          simp [stepT, noSpinT, allK, h]
      | spin => simp [noSpinT, noSpin, allK] at h
      | compute k => simp [noSpinT, noSpin, allK] at h; simp [stepT, noSpinT, allK, h]
      | block pr k => simp [noSpinT, noSpin, allK] at h; simp [stepT, noSpinT, allK, h]
      | cb w body k => simp [noSpinT, noSpin, allK] at h; simp [stepT, noSpinT, allK, h]
      | spawn i body k => simp [noSpinT, noSpin, allK] at h; simp [stepT, noSpinT, allK, h]

theorem noCloneSpinT_step (c : Bool) (t : Thread) (h : noCloneSpinT t = true) :
    noCloneSpinT (stepT c t).1 = true ∧ ∀ b, (stepT c t).2 = some b → noSpin b.2 = true := by
  obtain ⟨id, halt, armed, st, frames⟩ := t
  cases st with
  | fin e => simpa [stepT] using h
  | raising e =>
    cases frames with
    | nil => simp [stepT, noCloneSpinT, allK]
    | cons f fs =>
      obtain ⟨w, k⟩ := f
      simp [noCloneSpinT, allK] at h
      cases hw : wrapErr w e <;> simp [stepT, hw, noCloneSpinT, allK, h]
  | blocked pr k =>
    simp [noCloneSpinT, allK] at h
    cases c
    · simp [stepT, noCloneSpinT, allK, h]
    · cases hp : primEffect pr <;> simp [stepT, hp, noCloneSpinT, allK, h, noCloneSpin_afterPrim]
  | run p =>
    cases halt with
    | true =>
      have hk : allK noCloneSpin frames = true := by
        simp [noCloneSpinT] at h; exact h.2
      have := stepT_halted_allK noCloneSpin c { id := id, halt := true, armed := armed, st := .run p, frames := frames } p rfl rfl hk
      refine ⟨this.1, ?_⟩
      rw [this.2]; simp
    | false =>
      cases p with
      | done =>
        cases frames with
        | nil => simp [stepT, noCloneSpinT, allK]
        | cons f fs =>
          obtain ⟨w, k⟩ := f
          simp [noCloneSpinT, noCloneSpin, allK] at h
          simp [stepT, noCloneSpinT, allK, h]
      | spin => simpa [stepT, noCloneSpinT, noCloneSpin] using h
      | compute k => simp [noCloneSpinT, noCloneSpin, allK] at h; simp [stepT, noCloneSpinT, allK, h]
      | block pr k => simp [noCloneSpinT, noCloneSpin, allK] at h; simp [stepT, noCloneSpinT, allK, h]
      | cb w body k => simp [noCloneSpinT, noCloneSpin, allK] at h; simp [stepT, noCloneSpinT, allK, h]
      | spawn i body k => simp [noCloneSpinT, noCloneSpin, allK] at h; simp [stepT, noCloneSpinT, allK, h]

theorem noSpinT_fire (t : Thread) : noSpinT (fireT t) = noSpinT t := by
  unfold fireT; split <;> rfl

theorem noCloneSpinT_fire (t : Thread) : noCloneSpinT (fireT t) = noCloneSpinT t := by
  unfold fireT; split <;> rfl

/-- the main thread of a program without lossy constructs (`noLossy`) is always outside
    callbacks, and whatever stops it stops it with the context's own error -/
def ctxPath (t : Thread) : Bool :=
  t.frames.isEmpty && (match t.st with
    | .run p => noLossy p
    | .blocked pr k => primEffect pr == some .ctx && noLossy k
    | .raising e => e == .ctx
    | .fin e => e == none || e == some .ctx)

theorem ctxPath_step (c : Bool) (t : Thread) (h : ctxPath t = true) : ctxPath (stepT c t).1 = true := by
  obtain ⟨id, halt, armed, st, frames⟩ := t
  cases frames with
  | cons f fs => simp [ctxPath] at h
  | nil =>
    cases st with
    | fin e => simpa [stepT] using h
    | raising e => simp [ctxPath] at h; simp [stepT, ctxPath, h]
    | blocked pr k =>
      simp [ctxPath] at h
      cases c
      · simp [stepT, ctxPath, h]
      · simp [stepT, h, ctxPath]
    | run p =>
      cases p <;> cases halt <;> simp_all [stepT, ctxPath, noLossy, haltedT, detachedBy]

/-- thread-level form of `noDetached`: nothing the thread can still execute calls a host
    builtin with a detached callee context, and it is not inside such a callback now -/
def noDetT (t : Thread) : Bool :=
  (match t.st with
    | .run p => noDetached p
    | .blocked _ k => noDetached k
    | _ => true) && allK noDetached t.frames && (detachedBy t.frames).isNone

theorem noDetached_afterPrim (pr : Prim) (k : Prog) : noDetached (afterPrim pr k) = noDetached k := by
  cases pr <;> simp [afterPrim, noDetached]

theorem noDetT_step (c : Bool) (t : Thread) (h : noDetT t = true) : noDetT (stepT c t).1 = true := by
  obtain ⟨id, halt, armed, st, frames⟩ := t
  cases st with
  | fin e => simpa [stepT] using h
  | raising e =>
    cases frames with
    | nil => simp [stepT, noDetT, allK, detachedBy]
    | cons f fs =>
      obtain ⟨w, k⟩ := f
      have h' : noDetached k = true ∧ allK noDetached fs = true ∧ detachedBy fs = none := by
        cases w with
        | host cc b => cases cc <;> simp [noDetT, allK, detachedBy] at h <;> simp [h]
        | _ => simp [noDetT, allK, detachedBy] at h; simp [h]
      cases hw : wrapErr w e <;> simp [stepT, hw, noDetT, h']
  | blocked pr k =>
    simp [noDetT] at h
    cases c
    · simp [stepT, noDetT, h]
    · cases hp : primEffect pr <;> simp [stepT, hp, noDetT, h, noDetached_afterPrim]
  | run p =>
    cases halt with
    | true =>
      simp [noDetT] at h
      by_cases hp : p ≠ .done ∨ frames ≠ []
      · rw [stepT_halted c _ p rfl rfl hp]
        show noDetT (haltedT _) = true
        rw [haltedT_of_none _ (by simpa using h.2)]
        simp [noDetT, h]
      · have hp1 : p = .done := by
          cases p <;> simp_all
        have hp2 : frames = [] := by
          cases frames <;> simp_all
        subst hp1 hp2
        simp [stepT, noDetT, allK, detachedBy]
    | false =>
      cases p with
      | done =>
        cases frames with
        | nil => simp [stepT, noDetT, allK, detachedBy]
        | cons f fs =>
          obtain ⟨w, k⟩ := f
          cases w with
          | host cc b => cases cc <;> simp [noDetT, noDetached, allK, detachedBy] at h <;> simp [stepT, noDetT, allK, h]
          | _ => simp [noDetT, noDetached, allK, detachedBy] at h; simp [stepT, noDetT, allK, h]
      | spin => simpa [stepT] using h
      | compute k => simp [noDetT, noDetached] at h; simp [stepT, noDetT, h]
      | block pr k => simp [noDetT, noDetached] at h; simp [stepT, noDetT, h]
      | spawn i body k => simp [noDetT, noDetached] at h; simp [stepT, noDetT, h]
      | cb w body k =>
        cases w with
        | host cc b => cases cc <;> simp [noDetT, noDetached] at h <;> simp [stepT, noDetT, allK, detachedBy, h]
        | _ => simp [noDetT, noDetached] at h; simp [stepT, noDetT, allK, detachedBy, h]

theorem noDetT_fire (t : Thread) : noDetT (fireT t) = noDetT t := by
  unfold fireT; split <;> rfl

theorem ctxPath_fire (t : Thread) : ctxPath (fireT t) = ctxPath t := by
  unfold fireT; split <;> rfl

end Risor.C06
