import RisorModel.C06.Model
set_option linter.unusedSimpArgs false
/-!
Helper lemmas for C06: what one step preserves, the potential argument, and locality of a
thread's evolution inside an arbitrary interleaving.
-/
namespace Risor.C06

/-! ### leaving a frame (deferred calls, return to the caller) -/

theorem size_pos (p : Prog) : 2 ≤ size p := by
  induction p <;> simp only [size] <;> omega

theorem returnT_flags (t : Thread) (w : Wrap) (k : Prog) (fs : List Frame) (o : Option Err) :
    (returnT t w k fs o).halt = t.halt ∧ (returnT t w k fs o).armed = t.armed ∧
    (returnT t w k fs o).id = t.id := by
  unfold returnT
  split
  · split <;> simp
  · split
    · simp
    · split <;> simp

/-- leaving a frame — starting its next deferred call or returning to the caller — never
    touches the flag, the watcher or the thread id -/
theorem leaveT_flags (t : Thread) (o : Option Err) :
    (leaveT t o).halt = t.halt ∧ (leaveT t o).armed = t.armed ∧ (leaveT t o).id = t.id := by
  unfold leaveT
  split
  · simp
  · simp
  · exact returnT_flags t _ _ _ o

theorem registerT_flags (t : Thread) (d k : Prog) :
    (registerT t d k).halt = t.halt ∧ (registerT t d k).armed = t.armed ∧
    (registerT t d k).id = t.id := by
  unfold registerT
  split <;> simp

theorem returnT_pot (t : Thread) (w : Wrap) (k : Prog) (fs : List Frame) (o : Option Err) :
    potT (returnT t w k fs o) ≤ size k + potFrames fs := by
  have := size_pos k
  unfold returnT
  split
  · split <;> simp [potT, potSt] <;> omega
  · split
    · simp [potT, potSt]
    · split <;> simp [potT, potSt] <;> omega

/-- whatever leaving the top frame leads to — the next deferred closure of the frame (with all
    its code still to run), the rest of the deferred calls, the caller —, it is paid for by
    the potential of the frames: the deferred closures are counted in `potFrames` -/
theorem leaveT_pot (t : Thread) (o : Option Err) : potT (leaveT t o) ≤ potFrames t.frames := by
  unfold leaveT
  split
  · rename_i h; simp [potT, potSt, h, potFrames]
  · rename_i w k d ds fs h
    simp [potT, potSt, h, potFrames, potDefers, size]; omega
  · rename_i w k fs h
    have := returnT_pot t w k fs o
    simp [h, potFrames, potDefers]; omega

/-! ### the halted branch of a poll -/

/-- the three things a raised flag can do to a thread, whatever context its `eval` was
    handed: raise the context's error, raise the pop panic, or abandon the callback frame
    (it is left as if it had returned: its deferred calls, then its builtin); `halt`,
    `armed`, `id` are never touched -/
theorem haltedT_cases (t : Thread) :
    haltedT t = { t with st := .raising .ctx } ∨ haltedT t = { t with st := .raising .panic } ∨
    (t.frames ≠ [] ∧ haltedT t = leaveT t none) := by
  unfold haltedT
  split
  · exact Or.inl rfl
  · exact Or.inr (Or.inl rfl)
  · rename_i h
    refine Or.inr (Or.inr ⟨?_, rfl⟩)
    intro hf; rw [hf] at h; simp [detachedBy] at h

theorem haltedT_of_none (t : Thread) (h : detachedBy t.frames = none) :
    haltedT t = { t with st := .raising .ctx } := by
  unfold haltedT; rw [h]

theorem haltedT_flags (t : Thread) :
    (haltedT t).halt = t.halt ∧ (haltedT t).armed = t.armed ∧ (haltedT t).id = t.id := by
  rcases haltedT_cases t with h | h | ⟨_, h⟩
  · rw [h]; simp
  · rw [h]; simp
  · rw [h]; exact leaveT_flags t none

/-- every instruction polls: with the flag raised the step of running code IS `haltedT`
    (the only step without a poll is falling off the end of the main code) -/
theorem stepT_halted (c : Bool) (t : Thread) (p : Prog) (hh : t.halt = true) (hr : t.st = .run p)
    (hp : p ≠ .done ∨ t.frames ≠ []) : stepT c t = (haltedT t, none) := by
  obtain ⟨id, halt, armed, st, frames⟩ := t
  simp only at hh hr hp
  subst hh hr
  cases p with
  | done =>
    cases frames with
    | nil => simp at hp
    | cons f fs => simp [stepT]
  | _ => simp [stepT]

/-! ### one step -/

theorem stepT_flags (c : Bool) (t : Thread) :
    (stepT c t).1.halt = t.halt ∧ (stepT c t).1.armed = t.armed ∧ (stepT c t).1.id = t.id := by
  have hl := leaveT_flags t
  have hf := haltedT_flags t
  have hg := registerT_flags t
  obtain ⟨id, halt, armed, st, frames⟩ := t
  cases st with
  | fin e => simp [stepT]
  | raising e => simpa [stepT] using hl (some e)
  | leaving => simpa [stepT] using hl none
  | blocked pr k =>
    cases c
    · simp [stepT]
    · cases h : primEffect pr <;> simp [stepT, h]
  | run p =>
    cases p with
    | done =>
      cases frames with
      | nil => simp [stepT]
      | cons f fs =>
        cases halt
        · simpa [stepT] using hl none
        · simpa [stepT] using hf
    | defer_ d k =>
      cases halt
      · simpa [stepT] using hg d k
      · simpa [stepT] using hf
    | cb w body k =>
      cases halt
      · by_cases hw : (w == Wrap.imp && c) = true <;> simp [stepT, hw]
      · simpa [stepT] using hf
    | _ =>
      cases halt
      · simp [stepT]
      · simpa [stepT] using hf

theorem stepT_halt (c : Bool) (t : Thread) : (stepT c t).1.halt = t.halt := (stepT_flags c t).1
theorem stepT_armed (c : Bool) (t : Thread) : (stepT c t).1.armed = t.armed := (stepT_flags c t).2.1

theorem fin_fix (c : Bool) (t : Thread) (h : t.st.isFin = true) : (stepT c t).1 = t := by
  obtain ⟨id, halt, armed, st, frames⟩ := t
  cases st <;> simp [St.isFin] at h
  simp [stepT]

theorem spin_fix (c : Bool) (t : Thread) (h : t.st = .run .spin) (hh : t.halt = false) :
    (stepT c t).1 = t := by
  obtain ⟨id, halt, armed, st, frames⟩ := t
  simp only at h hh
  subst h hh
  simp [stepT]

theorem afterPrim_size (pr : Prim) (k : Prog) : size (afterPrim pr k) ≤ 1 + size k := by
  cases pr <;> simp [afterPrim, size] <;> omega

/-- whatever the halted branch does, what is left is at most one unwinding step plus the
    enclosing frames (their deferred closures included) -/
theorem haltedT_pot (t : Thread) : potT (haltedT t) ≤ 1 + potFrames t.frames := by
  rcases haltedT_cases t with h | h | ⟨_, h⟩
  · rw [h]; simp [potT, potSt]
  · rw [h]; simp [potT, potSt]
  · rw [h]; have := leaveT_pot t none; omega

theorem registerT_pot (t : Thread) (d k : Prog) :
    potT (registerT t d k) < 6 + size d + size k + potFrames t.frames := by
  unfold registerT
  split
  · rename_i h; simp [potT, potSt, h, potFrames]; omega
  · rename_i w k0 ds fs h
    simp [potT, potSt, h, potFrames, potDefers]; omega

/-- Every step of a thread that is neither finished, nor in an unhalted compute loop, nor
    blocked in a primitive whose context has not fired strictly decreases its potential. -/
theorem step_decr_c (c : Bool) (t : Thread) (hf : t.st.isFin = false)
    (hs : ¬ (t.st = .run .spin ∧ t.halt = false))
    (hb : c = false → ∀ pr k, t.st ≠ .blocked pr k) :
    potT (stepT c t).1 < potT t := by
  have hl := leaveT_pot t
  have hg := registerT_pot t
  obtain ⟨id, halt, armed, st, frames⟩ := t
  cases st with
  | fin e => simp [St.isFin] at hf
  | raising e =>
    have := hl (some e)
    simp only [stepT, potT, potSt] at this ⊢; omega
  | leaving =>
    have := hl none
    simp only [stepT, potT, potSt] at this ⊢; omega
  | blocked pr k =>
    cases c with
    | false => exact absurd rfl (hb rfl pr k)
    | true =>
      cases h : primEffect pr
      · have := afterPrim_size pr k
        simp [stepT, h, potT, potSt]; omega
      · have := size_pos k
        simp [stepT, h, potT, potSt]; omega
  | run p =>
    cases halt with
    | true =>
      by_cases hp : p ≠ .done ∨ frames ≠ []
      · rw [stepT_halted c _ p rfl rfl hp]
        show potT (haltedT _) < _
        have h1 := haltedT_pot { id := id, halt := true, armed := armed, st := .run p, frames := frames }
        have h2 := size_pos p
        simp only [potT, potSt] at h1 ⊢
        omega
      · have hp1 : p = .done := by
          cases p <;> simp_all
        have hp2 : frames = [] := by
          cases frames <;> simp_all
        subst hp1 hp2
        simp [stepT, potT, potSt, potFrames, size]
    | false =>
      cases p with
      | done =>
        cases frames with
        | nil => simp [stepT, potT, potSt, potFrames, size]
        | cons f fs =>
          have := hl none
          simp only [stepT, potT, potSt, size] at this ⊢
          simp only [Bool.false_eq_true, if_false]
          omega
      | compute k =>
        have := size_pos k
        simp [stepT, potT, potSt, size]
      | spin => exact absurd ⟨rfl, rfl⟩ hs
      | block pr k =>
        have := size_pos k
        simp [stepT, potT, potSt, size]
      | cb w body k =>
        have := size_pos k
        have := size_pos body
        by_cases hw : (w == Wrap.imp && c) = true
        · simp [stepT, hw, potT, potSt, size]; omega
        · simp [stepT, hw, potT, potSt, potFrames, potDefers, size]; omega
      | spawn i body k =>
        have := size_pos k
        simp [stepT, potT, potSt, size]
      | defer_ d k =>
        have := hg d k
        simp only [stepT, potT, potSt, size] at this ⊢
        simp only [Bool.false_eq_true, if_false]
        omega

/-- Once the context has fired, every step of a thread that is neither finished nor in an
    unhalted compute loop strictly decreases its potential. -/
theorem step_decr (t : Thread) (hf : t.st.isFin = false)
    (hs : ¬ (t.st = .run .spin ∧ t.halt = false)) :
    potT (stepT true t).1 < potT t :=
  step_decr_c true t hf hs (by intro h; cases h)

/-! ### own steps -/

theorem iter_succ (n : Nat) (t : Thread) : iter (n + 1) t = iter n (stepT true t).1 := rfl

theorem iter_fix (n : Nat) (t : Thread) (h : (stepT true t).1 = t) : iter n t = t := by
  induction n with
  | zero => rfl
  | succ n ih => rw [iter_succ, h, ih]

theorem iter_add (m n : Nat) (t : Thread) : iter (m + n) t = iter n (iter m t) := by
  induction m generalizing t with
  | zero => simp [iter]
  | succ m ih => rw [Nat.add_right_comm, iter_succ, ih, iter_succ]

theorem iter_halt (n : Nat) (t : Thread) : (iter n t).halt = t.halt := by
  induction n generalizing t with
  | zero => rfl
  | succ n ih => rw [iter_succ, ih, stepT_halt]

theorem iter_fin_mono (m n : Nat) (t : Thread) (hmn : m ≤ n) (h : (iter m t).st.isFin = true) :
    (iter n t).st.isFin = true := by
  obtain ⟨d, rfl⟩ := Nat.exists_eq_add_of_le hmn
  rw [iter_add, iter_fix d _ (fin_fix true _ h)]
  exact h

/-- a predicate that rules out "unhalted compute loop" and is kept by steps gives termination
    within `potT` own steps -/
theorem finishes_of_invariant (P : Thread → Prop)
    (hstep : ∀ t, P t → P (stepT true t).1)
    (hspin : ∀ t, P t → ¬ (t.st = .run .spin ∧ t.halt = false))
    (n : Nat) : ∀ t, P t → potT t ≤ n → (iter n t).st.isFin = true := by
  induction n with
  | zero =>
    intro t _ hn
    cases hf : t.st.isFin
    · have := step_decr t hf (hspin t ‹_›); omega
    · exact hf
  | succ n ih =>
    intro t hP hn
    cases hf : t.st.isFin
    · have hd := step_decr t hf (hspin t hP)
      rw [iter_succ]
      exact ih _ (hstep t hP) (by omega)
    · rw [iter_fix _ _ (fin_fix true t hf)]; exact hf

/-- if a thread ever finishes, it has finished after `potT` own steps -/
theorem fin_within_pot (n : Nat) : ∀ t : Thread, (iter n t).st.isFin = true →
    (iter (potT t) t).st.isFin = true := by
  induction n with
  | zero => intro t h; exact iter_fin_mono 0 _ t (Nat.zero_le _) h
  | succ n ih =>
    intro t h
    cases hf : t.st.isFin
    · by_cases hs : t.st = .run .spin ∧ t.halt = false
      · rw [iter_fix _ _ (spin_fix true t hs.1 hs.2)] at h
        rw [hf] at h; exact absurd h (by simp)
      · have hd := step_decr t hf hs
        rw [iter_succ] at h
        have := ih _ h
        obtain ⟨d, hd'⟩ := Nat.exists_eq_add_of_le (Nat.succ_le_of_lt hd)
        rw [hd', Nat.succ_eq_add_one, Nat.add_right_comm, iter_succ]
        exact iter_fin_mono _ _ _ (Nat.le_add_right _ _) this
    · rw [iter_fix _ _ (fin_fix true t hf)]; exact hf

/-! ### step functions that either take the thread's own step or leave it where it is -/

theorem iterWith_succ (f : Thread → Thread) (n : Nat) (t : Thread) :
    iterWith f (n + 1) t = iterWith f n (f t) := rfl

theorem iterWith_fix (f : Thread → Thread) (n : Nat) (t : Thread) (h : f t = t) : iterWith f n t = t := by
  induction n with
  | zero => rfl
  | succ n ih => rw [iterWith_succ, h, ih]

theorem iterWith_add (f : Thread → Thread) (m n : Nat) (t : Thread) :
    iterWith f (m + n) t = iterWith f n (iterWith f m t) := by
  induction m generalizing t with
  | zero => simp [iterWith]
  | succ m ih => rw [Nat.add_right_comm, iterWith_succ, ih, iterWith_succ]

/-- `f` leaves the thread where it is, or takes it strictly closer to its end (as the thread's
    own steps do); a finished thread stays finished -/
def StepLike (f : Thread → Thread) : Prop :=
  (∀ t, f t = t ∨ potT (f t) < potT t) ∧ (∀ t, t.st.isFin = true → f t = t)

theorem stepLike_fin (f : Thread → Thread) (hf : StepLike f) (t : Thread) (h : t.st.isFin = true) :
    f t = t := hf.2 t h

theorem iterWith_fin_mono (f : Thread → Thread) (hf : StepLike f) (m n : Nat) (t : Thread)
    (hmn : m ≤ n) (h : (iterWith f m t).st.isFin = true) : (iterWith f n t).st.isFin = true := by
  obtain ⟨d, rfl⟩ := Nat.exists_eq_add_of_le hmn
  rw [iterWith_add, iterWith_fix f d _ (stepLike_fin f hf _ h)]
  exact h

/-- if a thread ever finishes under such a step function, it has finished after `potT` steps:
    a step that does nothing on an unfinished thread does nothing for ever -/
theorem iterWith_fin_within_pot (f : Thread → Thread) (hf : StepLike f) (n : Nat) :
    ∀ t : Thread, (iterWith f n t).st.isFin = true → (iterWith f (potT t) t).st.isFin = true := by
  induction n with
  | zero => intro t h; exact iterWith_fin_mono f hf 0 _ t (Nat.zero_le _) h
  | succ n ih =>
    intro t h
    cases hfin : t.st.isFin
    · rcases hf.1 t with h1 | hd
      · rw [iterWith_fix f _ t h1, hfin] at h
        exact absurd h (by simp)
      · rw [iterWith_succ] at h
        have := ih _ h
        obtain ⟨d, hd'⟩ := Nat.exists_eq_add_of_le (Nat.succ_le_of_lt hd)
        rw [hd', Nat.succ_eq_add_one, Nat.add_right_comm, iterWith_succ]
        exact iterWith_fin_mono f hf _ _ _ (Nat.le_add_right _ _) this
    · rw [iterWith_fix f _ t (stepLike_fin f hf t hfin)]; exact hfin

theorem stepT_blocked_unfired (t : Thread) (pr : Prim) (k : Prog) (hb : t.st = .blocked pr k) :
    stepT false t = (t, none) := by
  obtain ⟨id, halt, armed, st, frames⟩ := t
  simp only at hb
  subst hb
  simp [stepT]

/-- a thread's own step under ANY signal — its context has fired, or never does — leaves it
    where it is (finished, unhalted loop, blocked under a context that has not fired) or takes
    it closer to its end -/
theorem stepLike_signal (c : Bool) : StepLike (fun t => (stepT c t).1) := by
  refine ⟨fun t => ?_, fun t h => fin_fix c t h⟩
  show (stepT c t).1 = t ∨ potT (stepT c t).1 < potT t
  cases hfin : t.st.isFin
  · by_cases hs : t.st = .run .spin ∧ t.halt = false
    · exact Or.inl (spin_fix c t hs.1 hs.2)
    · by_cases hb : c = false ∧ ∃ pr k, t.st = .blocked pr k
      · obtain ⟨hc, pr, k, hst⟩ := hb
        subst hc
        exact Or.inl (by rw [stepT_blocked_unfired t pr k hst])
      · refine Or.inr (step_decr_c c t hfin hs (fun hc pr k hst => hb ⟨hc, pr, k, hst⟩))
  · exact Or.inl (fin_fix c t hfin)

/-- the step of a thread whose context never fires -/
theorem stepLike_never : StepLike (fun t => (stepT false t).1) := stepLike_signal false

/-- …and the step under an `importModule` that hands the module body a context of either kind -/
theorem stepLike_imp (cc : Cc) : StepLike (fun t => (stepImp cc true t).1) := by
  refine ⟨fun t => ?_, fun t h => ?_⟩
  · exact (stepLike_signal (seenBy cc true t.frames)).1 t
  · exact fin_fix _ t h

/-! ### lists of threads -/

theorem stepAt_length (c : Bool) (i : Nat) (ts : List Thread) : (stepAt c i ts).1.length = ts.length := by
  induction ts generalizing i with
  | nil => simp [stepAt]
  | cons t ts ih => cases i <;> simp [stepAt, ih]

theorem stepAt_get_self (c : Bool) (i : Nat) (ts : List Thread) (t : Thread) (h : ts[i]? = some t) :
    (stepAt c i ts).1[i]? = some (stepT c t).1 := by
  induction ts generalizing i with
  | nil => simp at h
  | cons u ts ih =>
    cases i with
    | zero => simp at h; simp [stepAt, h]
    | succ i => simp at h; simpa [stepAt] using ih i h

theorem stepAt_get_other (c : Bool) (i j : Nat) (ts : List Thread) (h : j ≠ i) :
    (stepAt c i ts).1[j]? = ts[j]? := by
  induction ts generalizing i j with
  | nil => simp [stepAt]
  | cons u ts ih =>
    cases i with
    | zero =>
      cases j with
      | zero => exact absurd rfl h
      | succ j => simp [stepAt]
    | succ i =>
      cases j with
      | zero => simp [stepAt]
      | succ j => simpa [stepAt] using ih i j (by omega)

theorem fireAt_length (i : Nat) (ts : List Thread) : (fireAt i ts).length = ts.length := by
  induction ts generalizing i with
  | nil => simp [fireAt]
  | cons t ts ih => cases i <;> simp [fireAt, ih]

theorem fireAt_get_self (i : Nat) (ts : List Thread) (t : Thread) (h : ts[i]? = some t) :
    (fireAt i ts)[i]? = some (fireT t) := by
  induction ts generalizing i with
  | nil => simp at h
  | cons u ts ih =>
    cases i with
    | zero => simp at h; simp [fireAt, h]
    | succ i => simp at h; simpa [fireAt] using ih i h

theorem fireAt_get_other (i j : Nat) (ts : List Thread) (h : j ≠ i) : (fireAt i ts)[j]? = ts[j]? := by
  induction ts generalizing i j with
  | nil => simp [fireAt]
  | cons u ts ih =>
    cases i with
    | zero =>
      cases j with
      | zero => exact absurd rfl h
      | succ j => simp [fireAt]
    | succ i =>
      cases j with
      | zero => simp [fireAt]
      | succ j => simpa [fireAt] using ih i j (by omega)

/-- every thread after a `step i` is an old thread, the stepped old thread, … -/
theorem mem_stepAt (c : Bool) (i : Nat) (ts : List Thread) (t' : Thread) (h : t' ∈ (stepAt c i ts).1) :
    ∃ t ∈ ts, t' = t ∨ t' = (stepT c t).1 := by
  induction ts generalizing i with
  | nil => simp [stepAt] at h
  | cons u ts ih =>
    cases i with
    | zero =>
      simp only [stepAt, List.mem_cons] at h
      rcases h with h | h
      · exact ⟨u, by simp, Or.inr h⟩
      · exact ⟨t', by simp [h], Or.inl rfl⟩
    | succ i =>
      simp only [stepAt, List.mem_cons] at h
      rcases h with h | h
      · exact ⟨u, by simp, Or.inl h⟩
      · obtain ⟨t, ht, hh⟩ := ih i h
        exact ⟨t, by simp [ht], hh⟩

/-- … or the clone made for a function the stepped thread spawned -/
theorem spawned_stepAt (c : Bool) (i : Nat) (ts : List Thread) (b : Nat × Prog)
    (h : (stepAt c i ts).2 = some b) : ∃ t ∈ ts, (stepT c t).2 = some b := by
  induction ts generalizing i with
  | nil => simp [stepAt] at h
  | cons u ts ih =>
    cases i with
    | zero => exact ⟨u, by simp, by simpa [stepAt] using h⟩
    | succ i =>
      obtain ⟨t, ht, hh⟩ := ih i (by simpa [stepAt] using h)
      exact ⟨t, by simp [ht], hh⟩

theorem mem_fireAt (i : Nat) (ts : List Thread) (t' : Thread) (h : t' ∈ fireAt i ts) :
    ∃ t ∈ ts, t' = t ∨ t' = fireT t := by
  induction ts generalizing i with
  | nil => simp [fireAt] at h
  | cons u ts ih =>
    cases i with
    | zero =>
      simp only [fireAt, List.mem_cons] at h
      rcases h with h | h
      · exact ⟨u, by simp, Or.inr h⟩
      · exact ⟨t', by simp [h], Or.inl rfl⟩
    | succ i =>
      simp only [fireAt, List.mem_cons] at h
      rcases h with h | h
      · exact ⟨u, by simp, Or.inl h⟩
      · obtain ⟨t, ht, hh⟩ := ih i h
        exact ⟨t, by simp [ht], hh⟩

/-- A property of threads that holds initially, is kept by steps and by the watcher, and
    holds for every clone a thread with the property spawns, holds for every thread of
    every reachable state. -/
theorem exec_invariant (cfg : Cfg) (P : Thread → Prop)
    (hstep : ∀ c t, P t → P (stepT c t).1)
    (hfire : ∀ t, P t → P (fireT t))
    (hspawn : ∀ c t b, P t → (stepT c t).2 = some b → P (newClone cfg b))
    (σ : List Label) : ∀ s : Sys, (∀ t ∈ s.threads, P t) → ∀ t ∈ (exec cfg s σ).threads, P t := by
  induction σ with
  | nil => intro s h; exact h
  | cons l σ ih =>
    intro s h
    show ∀ t ∈ (exec cfg (apply cfg s l) σ).threads, P t
    apply ih
    intro t' ht'
    cases l with
    | cancel => exact h t' ht'
    | fire i =>
      simp only [apply] at ht'
      split at ht'
      · obtain ⟨t, ht, hh⟩ := mem_fireAt i _ _ ht'
        rcases hh with rfl | rfl
        · exact h _ ht
        · exact hfire _ (h _ ht)
      · exact h t' ht'
    | step i =>
      simp only [apply, List.mem_append] at ht'
      rcases ht' with ht' | ht'
      · obtain ⟨t, ht, hh⟩ := mem_stepAt _ i _ _ ht'
        rcases hh with rfl | rfl
        · exact h _ ht
        · exact hstep _ _ (h _ ht)
      · cases hb : (stepAt s.cancelled i s.threads).2 with
        | none => simp [hb] at ht'
        | some b =>
          simp [hb] at ht'
          obtain ⟨t, ht, hh⟩ := spawned_stepAt _ i _ b hb
          rw [ht']
          exact hspawn _ t b (h _ ht) hh

/-! ### locality: inside any interleaving a thread only moves by its own steps -/

def ownSteps (i : Nat) : List Label → Nat
  | [] => 0
  | .step j :: σ => (if j = i then 1 else 0) + ownSteps i σ
  | _ :: σ => ownSteps i σ

theorem fireT_id_of_fired (t : Thread) (h : t.armed = true → t.halt = true) : fireT t = t := by
  obtain ⟨id, halt, armed, st, frames⟩ := t
  cases armed
  · simp [fireT]
  · simp at h; simp [fireT, h]

theorem exec_cancelled (cfg : Cfg) (σ : List Label) : ∀ s : Sys, s.cancelled = true →
    (exec cfg s σ).cancelled = true := by
  induction σ with
  | nil => intro s h; exact h
  | cons l σ ih =>
    intro s h
    show (exec cfg (apply cfg s l) σ).cancelled = true
    apply ih
    cases l with
    | cancel => rfl
    | fire i => simp only [apply]; split <;> exact h
    | step i => exact h

/-- After the cancellation, and once its watcher (if any) has fired, thread `i` of the
    system is, after ANY trace `σ`, exactly where `ownSteps i σ` of its own steps take it:
    nothing another thread, another watcher or the environment does can change that. -/
theorem exec_local (cfg : Cfg) (i : Nat) (σ : List Label) : ∀ (s : Sys) (t : Thread),
    s.cancelled = true → s.threads[i]? = some t → (t.armed = true → t.halt = true) →
    (exec cfg s σ).threads[i]? = some (iter (ownSteps i σ) t) := by
  induction σ with
  | nil => intro s t _ ht _; simpa [exec, ownSteps, iter] using ht
  | cons l σ ih =>
    intro s t hc ht ha
    show (exec cfg (apply cfg s l) σ).threads[i]? = _
    have hlt : i < s.threads.length := by
      rcases Nat.lt_or_ge i s.threads.length with h | h
      · exact h
      · rw [List.getElem?_eq_none_iff.2 h] at ht; cases ht
    cases l with
    | cancel =>
      simpa [ownSteps] using ih (apply cfg s .cancel) t rfl ht ha
    | fire j =>
      have hc' : (apply cfg s (.fire j)).cancelled = true := by simp [apply, hc]
      by_cases hji : j = i
      · subst hji
        have : (apply cfg s (.fire j)).threads[j]? = some t := by
          simp only [apply, hc, if_true]
          rw [fireAt_get_self j _ t ht, fireT_id_of_fired t ha]
        simpa [ownSteps] using ih _ t hc' this ha
      · have : (apply cfg s (.fire j)).threads[i]? = some t := by
          simp only [apply, hc, if_true]
          rw [fireAt_get_other j i _ (Ne.symm hji)]; exact ht
        simpa [ownSteps] using ih _ t hc' this ha
    | step j =>
      have hc' : (apply cfg s (.step j)).cancelled = true := hc
      by_cases hji : j = i
      · subst hji
        have : (apply cfg s (.step j)).threads[j]? = some (stepT true t).1 := by
          simp only [apply]
          rw [List.getElem?_append_left (by rw [stepAt_length]; exact hlt), hc]
          exact stepAt_get_self true j _ t ht
        have ha' : (stepT true t).1.armed = true → (stepT true t).1.halt = true := by
          rw [stepT_armed, stepT_halt]; exact ha
        have := ih _ _ hc' this ha'
        simp only [ownSteps, if_true]
        rw [Nat.add_comm, iter_succ]; exact this
      · have : (apply cfg s (.step j)).threads[i]? = some t := by
          simp only [apply]
          rw [List.getElem?_append_left (by rw [stepAt_length]; exact hlt)]
          rw [stepAt_get_other _ j i _ (Ne.symm hji)]; exact ht
        have := ih _ t hc' this ha
        simpa [ownSteps, hji] using this

/-! ### thread-level forms of the guards and what a step does to them -/

/-- a predicate on programs holds of what the state is about to execute -/
def stP (P : Prog → Bool) : St → Bool
  | .run p => P p
  | .blocked _ k => P k
  | _ => true

/-- a predicate on programs holds of the continuation of every enclosing frame and of every
    deferred closure a frame holds -/
def allK (P : Prog → Bool) : List Frame → Bool
  | [] => true
  | (_, k, ds) :: fs => P k && ds.all P && allK P fs

/-- no enclosing callback frame is a `try` -/
def noTry : List Frame → Bool
  | [] => true
  | (w, _, _) :: fs => w != .try_ && noTry fs

/-- no enclosing frame holds a deferred closure, none is the frame of a deferred call -/
def noDefersF : List Frame → Bool
  | [] => true
  | (w, _, ds) :: fs => ds.isEmpty && (match w with
      | .dfr _ => false
      | _ => true) && noDefersF fs

/-- everything the thread can still execute satisfies `P` -/
def invP (P : Prog → Bool) (t : Thread) : Bool := stP P t.st && allK P t.frames

/-- `P` is inherited by every part of a shape that can come to execution on the same thread -/
structure SubClosed (P : Prog → Bool) : Prop where
  done : P .done = true
  compute : ∀ k, P (.compute k) = true → P k = true
  block : ∀ pr k, P (.block pr k) = true → P k = true
  after : ∀ pr k, P (afterPrim pr k) = P k
  cb : ∀ w b k, P (.cb w b k) = true → P b = true ∧ P k = true
  spawn : ∀ i b k, P (.spawn i b k) = true → P k = true
  defer_ : ∀ d k, P (.defer_ d k) = true → P d = true ∧ P k = true

theorem returnT_invP (P : Prog → Bool) (t : Thread) (w : Wrap) (k : Prog) (fs : List Frame)
    (o : Option Err) (hk : P k = true) (hfs : allK P fs = true) :
    invP P (returnT t w k fs o) = true := by
  unfold returnT
  split
  · split <;> simp [invP, stP, hfs]
  · split
    · simp [invP, stP, hk, hfs]
    · split <;> simp [invP, stP, hk, hfs]

/-- leaving a frame keeps a frame predicate: what comes to execution is a deferred closure
    of the frame or the continuation of the caller -/
theorem leaveT_invP (P : Prog → Bool) (hd : P .done = true) (t : Thread) (o : Option Err)
    (h : allK P t.frames = true) : invP P (leaveT t o) = true := by
  unfold leaveT
  split
  · rename_i hf; simp [invP, stP, hf, allK]
  · rename_i w k d ds fs hf
    rw [hf] at h
    simp [allK] at h
    simp [invP, stP, allK, hd, h]
    exact h.1.2.2
  · rename_i w k fs hf
    rw [hf] at h
    simp [allK] at h
    exact returnT_invP P t w k fs o h.1 h.2

theorem haltedT_invP (P : Prog → Bool) (hd : P .done = true) (t : Thread)
    (h : allK P t.frames = true) : invP P (haltedT t) = true := by
  rcases haltedT_cases t with e | e | ⟨_, e⟩
  · rw [e]; simpa [invP, stP] using h
  · rw [e]; simpa [invP, stP] using h
  · rw [e]; exact leaveT_invP P hd t none h

theorem registerT_invP (P : Prog → Bool) (t : Thread) (d k : Prog) (hd : P d = true) (hk : P k = true)
    (h : allK P t.frames = true) : invP P (registerT t d k) = true := by
  unfold registerT
  split
  · rename_i hf; simp [invP, stP, hk, hf, allK]
  · rename_i w k0 ds fs hf
    rw [hf] at h
    simp [allK] at h
    simp [invP, stP, allK, hk, hd, h]
    exact h.1.2

/-- what a step can spawn: only the body named by a `spawn` the thread was about to execute -/
theorem stepT_spawned (c : Bool) (t : Thread) (b : Nat × Prog) (h : (stepT c t).2 = some b) :
    ∃ k, t.st = .run (.spawn b.1 b.2 k) := by
  obtain ⟨id, halt, armed, st, frames⟩ := t
  cases st with
  | fin e => simp [stepT] at h
  | raising e => simp [stepT] at h
  | leaving => simp [stepT] at h
  | blocked pr k =>
    cases c
    · simp [stepT] at h
    · cases hp : primEffect pr <;> simp [stepT, hp] at h
  | run p =>
    cases p with
    | done => cases frames <;> cases halt <;> simp [stepT] at h
    | spawn i body k =>
      cases halt
      · simp [stepT] at h; exact ⟨k, by rw [← h]⟩
      · simp [stepT] at h
    | cb w body k =>
      cases halt
      · by_cases hw : (w == Wrap.imp && c) = true <;> simp [stepT, hw] at h
      · simp [stepT] at h
    | _ => cases halt <;> simp [stepT] at h

/-- a step keeps a sub-closed predicate on everything the thread can still execute -/
theorem invP_step (P : Prog → Bool) (hP : SubClosed P) (c : Bool) (t : Thread)
    (h : invP P t = true) : invP P (stepT c t).1 = true := by
  have hfr : allK P t.frames = true := by
    simp [invP] at h; exact h.2
  have hl := leaveT_invP P hP.done t
  have hh := haltedT_invP P hP.done t hfr
  have hg := registerT_invP P t
  obtain ⟨id, halt, armed, st, frames⟩ := t
  cases st with
  | fin e => simpa [stepT] using h
  | raising e => exact hl (some e) hfr
  | leaving => exact hl none hfr
  | blocked pr k =>
    simp [invP, stP] at h
    cases c
    · simp [stepT, invP, stP, h]
    · cases hp : primEffect pr <;> simp [stepT, hp, invP, stP, h, hP.after]
  | run p =>
    simp [invP, stP] at h
    cases halt with
    | true =>
      by_cases hp : p ≠ .done ∨ frames ≠ []
      · rw [stepT_halted c _ p rfl rfl hp]; exact hh
      · have hp1 : p = .done := by
          cases p <;> simp_all
        have hp2 : frames = [] := by
          cases frames <;> simp_all
        subst hp1 hp2
        simp [stepT, invP, stP, allK]
    | false =>
      cases p with
      | done =>
        cases frames with
        | nil => simp [stepT, invP, stP, allK]
        | cons f fs => simpa [stepT] using hl none hfr
      | spin => simpa [stepT, invP, stP] using h
      | compute k => simp [stepT, invP, stP, hP.compute k h.1, h.2]
      | block pr k => simp [stepT, invP, stP, hP.block pr k h.1, h.2]
      | cb w body k =>
        have := hP.cb w body k h.1
        by_cases hw : (w == Wrap.imp && c) = true
        · simp [stepT, hw, invP, stP, h.2]
        · simp [stepT, hw, invP, stP, allK, this, h.2]
      | spawn i body k => simp [stepT, invP, stP, hP.spawn i body k h.1, h.2]
      | defer_ d k =>
        have := hP.defer_ d k h.1
        simpa [stepT] using hg d k this.1 this.2 hfr

theorem noSpin_afterPrim (pr : Prim) (k : Prog) : noSpin (afterPrim pr k) = noSpin k := by
  cases pr <;> simp [afterPrim, noSpin]

theorem noCloneSpin_afterPrim (pr : Prim) (k : Prog) : noCloneSpin (afterPrim pr k) = noCloneSpin k := by
  cases pr <;> simp [afterPrim, noCloneSpin]

theorem noDetached_afterPrim (pr : Prim) (k : Prog) : noDetached (afterPrim pr k) = noDetached k := by
  cases pr <;> simp [afterPrim, noDetached]

theorem subClosed_noSpin : SubClosed noSpin where
  done := rfl
  compute := fun k h => by simpa [noSpin] using h
  block := fun pr k h => by simpa [noSpin] using h
  after := noSpin_afterPrim
  cb := fun w b k h => by simpa [noSpin] using h
  spawn := fun i b k h => by simp [noSpin] at h; exact h.2
  defer_ := fun d k h => by simpa [noSpin] using h

theorem subClosed_noCloneSpin : SubClosed noCloneSpin where
  done := rfl
  compute := fun k h => by simpa [noCloneSpin] using h
  block := fun pr k h => by simpa [noCloneSpin] using h
  after := noCloneSpin_afterPrim
  cb := fun w b k h => by simpa [noCloneSpin] using h
  spawn := fun i b k h => by simp [noCloneSpin] at h; exact h.2
  defer_ := fun d k h => by simpa [noCloneSpin] using h

theorem subClosed_noDetached : SubClosed noDetached where
  done := rfl
  compute := fun k h => by simpa [noDetached] using h
  block := fun pr k h => by simpa [noDetached] using h
  after := noDetached_afterPrim
  cb := fun w b k h => by
    simp [noDetached] at h; exact ⟨h.1.2, h.2⟩
  spawn := fun i b k h => by simpa [noDetached] using h
  defer_ := fun d k h => by simpa [noDetached] using h

/-- thread-level form of the guards: nothing the thread can still execute — the code it is
    in, the continuations of its frames, the deferred closures they hold — contains a loop -/
def noSpinT (t : Thread) : Bool := invP noSpin t

/-- nothing the thread can still spawn contains a loop -/
def noCloneSpinT (t : Thread) : Bool := invP noCloneSpin t

theorem noSpinT_step (c : Bool) (t : Thread) (h : noSpinT t = true) :
    noSpinT (stepT c t).1 = true ∧ ∀ b, (stepT c t).2 = some b → noSpin b.2 = true := by
  refine ⟨invP_step noSpin subClosed_noSpin c t h, fun b hb => ?_⟩
  obtain ⟨k, hk⟩ := stepT_spawned c t b hb
  simp [noSpinT, invP, hk, stP, noSpin] at h
  exact h.1.1

theorem noCloneSpinT_step (c : Bool) (t : Thread) (h : noCloneSpinT t = true) :
    noCloneSpinT (stepT c t).1 = true ∧ ∀ b, (stepT c t).2 = some b → noSpin b.2 = true := by
  refine ⟨invP_step noCloneSpin subClosed_noCloneSpin c t h, fun b hb => ?_⟩
  obtain ⟨k, hk⟩ := stepT_spawned c t b hb
  simp [noCloneSpinT, invP, hk, stP, noCloneSpin] at h
  exact h.1.1

theorem noSpinT_fire (t : Thread) : noSpinT (fireT t) = noSpinT t := by
  unfold fireT; split <;> rfl

theorem noCloneSpinT_fire (t : Thread) : noCloneSpinT (fireT t) = noCloneSpinT t := by
  unfold fireT; split <;> rfl

/-- every enclosing frame is the frame of an `import` (no deferred closures: it is not a
    function frame) -/
def impF : List Frame → Bool
  | [] => true
  | (w, _, ds) :: fs => w == .imp && ds.isEmpty && impF fs

theorem impF_detachedBy (fs : List Frame) (h : impF fs = true) : detachedBy fs = none := by
  induction fs with
  | nil => rfl
  | cons f fs ih =>
    obtain ⟨w, k, ds⟩ := f
    simp [impF] at h
    obtain ⟨⟨hw, _⟩, hfs⟩ := h
    subst hw
    simpa [detachedBy] using ih hfs

/-- the main thread of a program without lossy constructs (`noLossy`) is always outside
    callbacks — inside nothing but the top-level code of modules it imports, which hand an
    error on unchanged —, and whatever stops it stops it with the context's own error -/
def ctxPath (t : Thread) : Bool :=
  impF t.frames && allK noLossy t.frames && (match t.st with
    | .run p => noLossy p
    | .blocked pr k => primEffect pr == some .ctx && noLossy k
    | .raising e => e == .ctx
    | .leaving => false
    | .fin e => e == none || e == some .ctx)

theorem ctxPath_step (c : Bool) (t : Thread) (h : ctxPath t = true) : ctxPath (stepT c t).1 = true := by
  obtain ⟨id, halt, armed, st, frames⟩ := t
  simp only [ctxPath, Bool.and_eq_true] at h
  obtain ⟨⟨hi, hk⟩, hs⟩ := h
  have hdet := impF_detachedBy frames hi
  -- leaving the top frame with an error / a result
  have hleaveE : ∀ st', ctxPath (leaveT { id := id, halt := halt, armed := armed, st := st', frames := frames } (some .ctx)) = true := by
    intro st'
    cases frames with
    | nil => simp [leaveT, ctxPath, impF, allK]
    | cons f fs =>
      obtain ⟨w, k, ds⟩ := f
      simp [impF] at hi
      obtain ⟨⟨hw, hds⟩, hfs⟩ := hi
      subst hw hds
      simp [allK] at hk
      simp [leaveT, returnT, wrapErr, ctxPath, hfs, hk.2]
  have hleaveN : ∀ st', frames ≠ [] → ctxPath (leaveT { id := id, halt := halt, armed := armed, st := st', frames := frames } none) = true := by
    intro st' hne
    cases frames with
    | nil => exact absurd rfl hne
    | cons f fs =>
      obtain ⟨w, k, ds⟩ := f
      simp [impF] at hi
      obtain ⟨⟨hw, hds⟩, hfs⟩ := hi
      subst hw hds
      simp [allK] at hk
      simp [leaveT, returnT, ctxPath, hfs, hk.1, hk.2]
  have hhalted : ∀ p, ctxPath (haltedT { id := id, halt := halt, armed := armed, st := .run p, frames := frames }) = true := by
    intro p
    rw [haltedT_of_none _ hdet]
    simp [ctxPath, hi, hk]
  cases st with
  | fin e => simp [stepT, ctxPath, hi, hk]; simpa using hs
  | raising e =>
    simp at hs; subst hs
    simpa [stepT] using hleaveE _
  | leaving => simp at hs
  | blocked pr k =>
    simp at hs
    cases c
    · simp [stepT, ctxPath, hi, hk, hs]
    · simp [stepT, hs.1, ctxPath, hi, hk]
  | run p =>
    simp only at hs
    cases halt with
    | true =>
      by_cases hp : p ≠ .done ∨ frames ≠ []
      · rw [stepT_halted c _ p rfl rfl hp]; exact hhalted p
      · have hp1 : p = .done := by
          cases p <;> simp_all
        have hp2 : frames = [] := by
          cases frames <;> simp_all
        subst hp1 hp2
        simp [stepT, ctxPath, impF, allK]
    | false =>
      cases p with
      | done =>
        cases frames with
        | nil => simp [stepT, ctxPath, impF, allK]
        | cons f fs => simpa [stepT] using hleaveN _ (by simp)
      | spin => simp [stepT, ctxPath, hi, hk, noLossy]
      | compute k => simp [noLossy] at hs; simp [stepT, ctxPath, hi, hk, hs]
      | block pr k => simp [noLossy] at hs; simp [stepT, ctxPath, hi, hk, hs]
      | spawn i body k => simp [noLossy] at hs; simp [stepT, ctxPath, hi, hk, hs]
      | defer_ d k => simp [noLossy] at hs
      | cb w body k =>
        cases w with
        | imp =>
          simp [noLossy] at hs
          cases c
          · simp [stepT, ctxPath, impF, allK, hi, hk, hs]
          · simp [stepT, ctxPath, hi, hk]
        | _ => simp [noLossy] at hs

/-- thread-level form of `noDetached`: nothing the thread can still execute calls a host
    builtin with a detached callee context, and it is not inside such a callback now -/
def noDetT (t : Thread) : Bool := invP noDetached t && (detachedBy t.frames).isNone

theorem detachedBy_tail (f : Frame) (fs : List Frame) (h : detachedBy (f :: fs) = none) :
    detachedBy fs = none := by
  obtain ⟨w, k, ds⟩ := f
  cases w with
  | host cc b => cases cc <;> simp [detachedBy] at h ⊢ <;> exact h
  | _ => simpa [detachedBy] using h

theorem detachedBy_defers (w : Wrap) (k k' : Prog) (ds ds' : List Prog) (fs : List Frame) :
    detachedBy ((w, k, ds) :: fs) = detachedBy ((w, k', ds') :: fs) := by
  cases w with
  | host cc b => cases cc <;> simp [detachedBy]
  | _ => simp [detachedBy]

theorem returnT_frames (t : Thread) (w : Wrap) (k : Prog) (fs : List Frame) (o : Option Err) :
    (returnT t w k fs o).frames = fs := by
  unfold returnT
  split
  · split <;> rfl
  · split
    · rfl
    · split <;> rfl

/-- leaving a frame never puts the thread under a detached callee context it was not under -/
theorem leaveT_detachedBy (t : Thread) (o : Option Err) (h : detachedBy t.frames = none) :
    detachedBy (leaveT t o).frames = none := by
  unfold leaveT
  split
  · exact h
  · rename_i w k d ds fs hf
    rw [hf] at h
    show detachedBy ((.dfr o, .done, []) :: (w, k, ds) :: fs) = none
    simp only [detachedBy]
    rw [detachedBy_defers w k k ds (d :: ds) fs]; exact h
  · rename_i w k fs hf
    rw [hf] at h
    rw [returnT_frames]; exact detachedBy_tail _ _ h

theorem registerT_detachedBy (t : Thread) (d k : Prog) :
    detachedBy (registerT t d k).frames = detachedBy t.frames := by
  unfold registerT
  split
  · rfl
  · rename_i w k0 ds fs hf
    rw [hf]; exact detachedBy_defers w k0 k0 (d :: ds) ds fs

theorem noDetT_step (c : Bool) (t : Thread) (h : noDetT t = true) : noDetT (stepT c t).1 = true := by
  simp only [noDetT, Bool.and_eq_true, Option.isNone_iff_eq_none] at h ⊢
  refine ⟨invP_step noDetached subClosed_noDetached c t h.1, ?_⟩
  have hd := h.2
  have hl := leaveT_detachedBy t
  have hg := registerT_detachedBy t
  have hi := h.1
  obtain ⟨id, halt, armed, st, frames⟩ := t
  simp only at hd
  cases st with
  | fin e => simpa [stepT] using hd
  | raising e => exact hl (some e) hd
  | leaving => exact hl none hd
  | blocked pr k =>
    cases c
    · simpa [stepT] using hd
    · cases hp : primEffect pr <;> simpa [stepT, hp] using hd
  | run p =>
    cases halt with
    | true =>
      by_cases hp : p ≠ .done ∨ frames ≠ []
      · rw [stepT_halted c _ p rfl rfl hp]
        show detachedBy (haltedT _).frames = none
        rw [haltedT_of_none _ hd]; exact hd
      · have hp1 : p = .done := by
          cases p <;> simp_all
        have hp2 : frames = [] := by
          cases frames <;> simp_all
        subst hp1 hp2
        simp [stepT, detachedBy]
    | false =>
      cases p with
      | done =>
        cases frames with
        | nil => simp [stepT, detachedBy]
        | cons f fs => simpa [stepT] using hl none hd
      | spin => simpa [stepT] using hd
      | compute k => simpa [stepT] using hd
      | block pr k => simpa [stepT] using hd
      | spawn i body k => simpa [stepT] using hd
      | defer_ d k => simpa [stepT, hg d k] using hd
      | cb w body k =>
        simp [invP, stP, noDetached] at hi
        cases w with
        | host cc b =>
          cases cc
          · simpa [stepT, detachedBy] using hd
          · simp at hi
        | imp => cases c <;> simpa [stepT, detachedBy] using hd
        | _ => simpa [stepT, detachedBy] using hd

theorem noDetT_fire (t : Thread) : noDetT (fireT t) = noDetT t := by
  unfold fireT; split <;> rfl

theorem ctxPath_fire (t : Thread) : ctxPath (fireT t) = ctxPath t := by
  unfold fireT; split <;> rfl

end Risor.C06
