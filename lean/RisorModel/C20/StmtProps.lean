import RisorModel.C20.StmtLemmas
/-!
C20 — statement level: layout never changes the tree a program parses to.

Stated over the statement-level parser model of Stmt.lean (`stmts`/`stmtStrict`/`exprStmt`/
`parseIf`, delegating expressions to the Pratt model of C01), which runs on the token stream of
the lexer machine — NEWLINE and SEMICOLON are tokens; blanks, indentation, block comments and line
comments never reach the parser (Props.lean / GapProps.lean / BridgeProps.lean prove that on the
lexer machine: `lex_space_invariant`, `lex_comment_run_invariant`, `lex_line_comment_at_line_end`).

Fragment: expression statements, `var x = e`, `x := e`, `x = e` / `+=` / `-=` / `*=` / `/=`,
`return e`, bare `return`, `break`, `continue`, `if c { … }` with `else { … }` / `else if …` chains of
any length, blocks nested to any depth; expressions = the Pratt core with unnested ternaries.

A layout of a tree (`LStmt`/`LItems`/`LElse`) chooses
  * for every expression a `NL.Layout` (ANY number of NEWLINE tokens in each gap the expression
    parser skips: after a binary operator, after the `.` of a method call, after `(`/`[`, after
    each `,`, before `)`/`]` of non-empty calls and lists, optional trailing comma);
  * behind every `{` ANY run of line ends, each optionally followed by one `;`;
  * behind every statement an optional `;` and ANY run of line ends, each optionally followed by
    one `;` (`Sep`) — not empty between two statements, possibly empty before `}` / end of input;
  * before the first statement of the program ANY run of line ends.
These are all the places: between `var`, the name, `=` and the value, between `x` and `:=`/`=`,
between `return` and its value, between `if`, the condition and `{`, between `}` and `else`, between
`else` and `{`/`if` the real parser does not skip a NEWLINE (`expectPeek`/`peekTokenIs` look at the
very next token), and the model refuses or re-splits there (last section).
-/
namespace Risor.C20.St
open Risor.C01 Risor.C01.Pratt Risor.C20.NL

/-- **Every layout of a program parses to the program** (`stmt_layout_parse`).  For every laid-out
    statement list `items` of the fragment (unbounded length and nesting, well-formed: unnested
    ternaries, a non-empty separator between two statements) and every run `lead` of line ends
    before it there is a fuel from which on the statement-level parser model, run on the tokens of
    that layout, returns exactly the tree with the layout erased. -/
theorem stmt_layout_parse (lead : Lines) (items : LItems) (hw : wfItems items = true) :
    ∃ fuel, ∀ f, fuel ≤ f → parseProgram f (renderProgram lead items) = some items.erase := by
  obtain ⟨N, hN⟩ := items_inv items hw true [] [] (by simp [endsAt])
  refine ⟨N + lead.length + 1, fun f hf => ?_⟩
  have := stmts_lines true lead (renderItems items ++ []) _ N hN f hf
  simp only [List.append_nil] at this
  simp [parseProgram, renderProgram, this]

/-- **Blocks**: the same for the body of a block behind its `{`, with what follows the `}` left in
    the input. -/
theorem block_layout_parse (lead : Lines) (items : LItems) (hw : wfItems items = true) (r : List Token) :
    ∃ fuel, ∀ f, fuel ≤ f →
      stmts false f (linesToks lead ++ (renderItems items ++ tk .RBRACE :: r)) = some (items.erase, r) := by
  obtain ⟨N, hN⟩ := items_inv items hw false (tk .RBRACE :: r) r (by simp [endsAt, kind_tk])
  exact ⟨N + lead.length + 1, fun f hf => stmts_lines false lead _ _ N hN f hf⟩

/-- **One statement**: a laid-out statement followed by a separator start (`;`, line end, `}`, end
    of input) parses to the statement; the optional `;` is consumed. -/
theorem stmt_layout_parse_one (s : LStmt) (hw : wfS s = true) (rest : List Token) (hr : sepStart rest) :
    ∃ fuel, ∀ f, fuel ≤ f → stmtStrict f (renderS s ++ rest) = some (some s.erase, dropSemi rest) :=
  stmt_inv s hw rest hr

/-- **Layout invariance** (`layout_invariance`): any two layouts of the same tree — different
    numbers of blank lines, `;` instead of or in addition to line ends, line breaks inside
    expressions at the permitted gaps, trailing commas — give the SAME result on the parser
    model, namely that tree. -/
theorem layout_invariance (lead₁ lead₂ : Lines) (i₁ i₂ : LItems) (h₁ : wfItems i₁ = true)
    (h₂ : wfItems i₂ = true) (he : i₁.erase = i₂.erase) :
    ∃ fuel, ∀ f, fuel ≤ f →
      parseProgram f (renderProgram lead₁ i₁) = parseProgram f (renderProgram lead₂ i₂) ∧
      parseProgram f (renderProgram lead₁ i₁) = some i₁.erase := by
  obtain ⟨N₁, k₁⟩ := stmt_layout_parse lead₁ i₁ h₁
  obtain ⟨N₂, k₂⟩ := stmt_layout_parse lead₂ i₂ h₂
  refine ⟨N₁ + N₂, fun f hf => ?_⟩
  rw [k₁ f (by omega), k₂ f (by omega), he]
  exact ⟨rfl, rfl⟩

/-! ### the canonical rendering -/

mutual
theorem erase_canonS : (s : Stmt) → (canonS s).erase = s
  | .expr _ | .var _ _ | .decl _ _ | .assign _ _ _ | .ret _ | .ret0 | .brk | .cont => by
    simp [canonS, LStmt.erase]
  | .ifS c thn els => by simp [canonS, LStmt.erase, erase_canonB thn, erase_canonE els]
theorem erase_canonB : (b : Block) → (canonB b).erase = b
  | .nil => by simp [canonB, LItems.erase]
  | .cons s b => by simp [canonB, LItems.erase, erase_canonS s, erase_canonB b]
theorem erase_canonE : (e : Else) → (canonE e).erase = e
  | .none => by simp [canonE, LElse.erase]
  | .block b => by simp [canonE, LElse.erase, erase_canonB b]
  | .elif c thn els => by simp [canonE, LElse.erase, erase_canonB thn, erase_canonE els]
end

mutual
theorem wf_canonS : (s : Stmt) → okStmt s = true → wfS (canonS s) = true
  | .expr _, h | .var _ _, h | .decl _ _, h | .assign _ _ _, h | .ret _, h => by
    simpa [canonS, wfS, okStmt] using h
  | .ret0, _ | .brk, _ | .cont, _ => by simp [canonS, wfS]
  | .ifS c thn els, h => by
    have h' : (unnested c = true ∧ okBlock thn = true) ∧ okElse els = true := by simpa [okStmt] using h
    simp [canonS, wfS, h'.1.1, wf_canonB thn h'.1.2, wf_canonE els h'.2]
theorem wf_canonB : (b : Block) → okBlock b = true → wfItems (canonB b) = true
  | .nil, _ => by simp [canonB, wfItems]
  | .cons s b, h => by
    have h' : okStmt s = true ∧ okBlock b = true := by simpa [okBlock] using h
    simp [canonB, wfItems, wf_canonS s h'.1, wf_canonB b h'.2, nlSep, Sep.nonEmpty]
theorem wf_canonE : (e : Else) → okElse e = true → wfElse (canonE e) = true
  | .none, _ => by simp [canonE, wfElse]
  | .block b, h => by simpa [canonE, wfElse, okElse] using wf_canonB b (by simpa [okElse] using h)
  | .elif c thn els, h => by
    have h' : (unnested c = true ∧ okBlock thn = true) ∧ okElse els = true := by simpa [okElse] using h
    simp [canonE, wfElse, h'.1.1, wf_canonB thn h'.1.2, wf_canonE els h'.2]
end

/-- **Round trip** (`stmt_parse_render`): parsing the canonical rendering of a statement-level tree
    (one statement per line, expressions on one line) returns the tree — for all trees of the
    fragment. -/
theorem stmt_parse_render (b : Block) (hb : okBlock b = true) :
    ∃ fuel, ∀ f, fuel ≤ f → parseProgram f (renderCanon b) = some b := by
  obtain ⟨N, hN⟩ := stmt_layout_parse [] (canonB b) (wf_canonB b hb)
  exact ⟨N, fun f hf => by simpa [renderProgram, renderCanon, linesToks, erase_canonB] using hN f hf⟩

/-- every layout parses to what the canonical text parses to -/
theorem layout_parses_as_canonical (lead : Lines) (items : LItems) (hw : wfItems items = true)
    (hb : okBlock items.erase = true) :
    ∃ fuel, ∀ f, fuel ≤ f →
      parseProgram f (renderProgram lead items) = parseProgram f (renderCanon items.erase) := by
  obtain ⟨N₁, k₁⟩ := stmt_layout_parse lead items hw
  obtain ⟨N₂, k₂⟩ := stmt_parse_render items.erase hb
  exact ⟨N₁ + N₂, fun f hf => by rw [k₁ f (by omega), k₂ f (by omega)]⟩

/-! ### a newline is significant only as a separator

Outside the permitted gaps a NEWLINE either splits the text into different statements or is an
error.  The dangerous cases (the text still parses, to ANOTHER tree): -/

/-- **`return` ⏎ `e`** is a bare `return` followed by the expression statement `e` — for every
    expression and every layout of it; on one line it is `return e`. -/
theorem return_newline_splits (e : Expr) (L : Layout) (he : unnested e = true) (lit : String) :
    (∃ fuel, ∀ f, fuel ≤ f →
      parseProgram f (tk .RETURN :: ⟨.NEWLINE, lit⟩ :: renderNLTop L e)
        = some (.cons .ret0 (.cons (.expr e) .nil))) ∧
    (∃ fuel, ∀ f, fuel ≤ f →
      parseProgram f (tk .RETURN :: renderNLTop L e) = some (.cons (.ret e) .nil)) := by
  constructor
  · have := stmt_layout_parse [] (.cons .ret0 ⟨false, [(lit, false)]⟩ (.cons (.expr e L) ⟨false, []⟩ .nil))
      (by simp [wfItems, wfS, he, Sep.nonEmpty, LItems.isNil])
    simpa [renderProgram, renderItems, renderS, linesToks, Sep.toks, LItems.erase, LStmt.erase] using this
  · have := stmt_layout_parse [] (.cons (.ret e L) ⟨false, []⟩ .nil)
      (by simp [wfItems, wfS, he, LItems.isNil])
    simpa [renderProgram, renderItems, renderS, linesToks, Sep.toks, LItems.erase, LStmt.erase] using this

/-- **A line end before a binary operator, `(` or `[`** ends the statement: what follows is parsed
    as the next statement, whatever it is.  General form: two laid-out statements separated by a
    line end parse to two statements — never to one. -/
theorem newline_splits_statements (s₁ s₂ : LStmt) (h₁ : wfS s₁ = true) (h₂ : wfS s₂ = true) (lit : String) :
    ∃ fuel, ∀ f, fuel ≤ f →
      parseProgram f (renderS s₁ ++ ⟨.NEWLINE, lit⟩ :: renderS s₂)
        = some (.cons s₁.erase (.cons s₂.erase .nil)) := by
  have := stmt_layout_parse [] (.cons s₁ ⟨false, [(lit, false)]⟩ (.cons s₂ ⟨false, []⟩ .nil))
    (by simp [wfItems, h₁, h₂, Sep.nonEmpty, LItems.isNil])
  simpa [renderProgram, renderItems, linesToks, Sep.toks, LItems.erase] using this

private def tI (x : String) : Token := ⟨.IDENT, x⟩
private def tNL : Token := ⟨.NEWLINE, "\n"⟩

/-- `x` ⏎ `(y)`: two expression statements `x` and `y`; on one line the call `x(y)` -/
theorem newline_before_call_paren :
    parseProgram 14 [tI "x", tNL, tk .LPAREN, tI "y", tk .RPAREN]
      = some (.cons (.expr (.ident "x")) (.cons (.expr (.ident "y")) .nil)) ∧
    parseProgram 14 [tI "x", tk .LPAREN, tI "y", tk .RPAREN]
      = some (.cons (.expr (.call (.ident "x") (.cons (.ident "y") .nil))) .nil) := by
  constructor <;> decide

/-- `x` ⏎ `[i]`: the statement `x` and the list literal `[i]`; on one line the index `x[i]` -/
theorem newline_before_index_bracket :
    parseProgram 14 [tI "x", tNL, tk .LBRACKET, tI "i", tk .RBRACKET]
      = some (.cons (.expr (.ident "x")) (.cons (.expr (.list (.cons (.ident "i") .nil))) .nil)) ∧
    parseProgram 14 [tI "x", tk .LBRACKET, tI "i", tk .RBRACKET]
      = some (.cons (.expr (.index (.ident "x") (.ident "i"))) .nil) := by
  constructor <;> decide

/-- `a` ⏎ `- b`: the statements `a` and `-b`; on one line the difference `a - b` -/
theorem newline_before_minus :
    parseProgram 14 [tI "a", tNL, tk .MINUS, tI "b"]
      = some (.cons (.expr (.ident "a")) (.cons (.expr (.neg (.ident "b"))) .nil)) ∧
    parseProgram 14 [tI "a", tk .MINUS, tI "b"]
      = some (.cons (.expr (.infix .sub (.ident "a") (.ident "b"))) .nil) := by
  constructor <;> decide

/-- the gaps INSIDE statements where a NEWLINE is an error (checked on the model at a fuel that
    parses the one-line text): `var`⏎`x = 1`, `var x`⏎`= 1`, `var x =`⏎`1`, `x`⏎`:= 1`, `x :=`⏎`1`,
    `x`⏎`= 1`, `x =`⏎`1`, `if`⏎`c {}`, `if c`⏎`{}`, `if c {}`⏎`else {}`, `if c {} else`⏎`{}`,
    `if c {} else`⏎`if c {}` -/
theorem newline_inside_statement_fails :
    parseProgram 12 [tk .VAR, tNL, tI "x", tk .ASSIGN, ⟨.INT, "1"⟩] = none ∧
    parseProgram 12 [tk .VAR, tI "x", tNL, tk .ASSIGN, ⟨.INT, "1"⟩] = none ∧
    parseProgram 12 [tk .VAR, tI "x", tk .ASSIGN, tNL, ⟨.INT, "1"⟩] = none ∧
    parseProgram 12 [tI "x", tNL, tk .DECLARE, ⟨.INT, "1"⟩] = none ∧
    parseProgram 12 [tI "x", tk .DECLARE, tNL, ⟨.INT, "1"⟩] = none ∧
    parseProgram 12 [tI "x", tNL, tk .ASSIGN, ⟨.INT, "1"⟩] = none ∧
    parseProgram 12 [tI "x", tk .ASSIGN, tNL, ⟨.INT, "1"⟩] = none ∧
    parseProgram 12 [tk .IF, tNL, tI "c", tk .LBRACE, tk .RBRACE] = none ∧
    parseProgram 12 [tk .IF, tI "c", tNL, tk .LBRACE, tk .RBRACE] = none ∧
    parseProgram 12 [tk .IF, tI "c", tk .LBRACE, tk .RBRACE, tNL, tk .ELSE, tk .LBRACE, tk .RBRACE] = none ∧
    parseProgram 12 [tk .IF, tI "c", tk .LBRACE, tk .RBRACE, tk .ELSE, tNL, tk .LBRACE, tk .RBRACE] = none ∧
    parseProgram 12 [tk .IF, tI "c", tk .LBRACE, tk .RBRACE, tk .ELSE, tNL, tk .IF, tI "c", tk .LBRACE, tk .RBRACE] = none ∧
    parseProgram 12 [tk .IF, tI "c", tk .LBRACE, tk .RBRACE, tk .ELSE, tk .LBRACE, tk .RBRACE]
      = some (.cons (.ifS (.ident "c") .nil (.block .nil)) .nil) := by
  decide

/-- **`else` in statement position is an error for every fuel** — so `}` ⏎ `else` can never
    attach the alternative: the `if` statement has ended at the `}`. -/
theorem else_in_statement_position_fails (tok : Token) (hk : tok.kind = .ELSE) (top : Bool) (f : Nat)
    (r : List Token) : stmts top f (tok :: r) = none := by
  have h1 : prefixFn Kind.ELSE = none := rfl
  have h2 : isPostfix Kind.ELSE = false := rfl
  have hp : ∀ g, parseNode g false Level.LOWEST.num (tok :: r) = none :=
    fun g => parseNode_none_of_prefixP (fun g => by cases g <;> simp [prefixP, hk, h1, h2]) g _
  have hs : ∀ g, stmtStrict g (tok :: r) = none := by
    intro g
    cases g with
    | zero => simp [stmtStrict]
    | succ g =>
      have he : exprStmt g (tok :: r) = none := by
        cases g with
        | zero => simp [exprStmt]
        | succ g => cases r <;> simp [exprStmt, hk, hp]
      simp [stmtStrict, hk, he]
  cases f with
  | zero => simp [stmts]
  | succ f => simp [stmts, hk, hs]

/-- several `;` in a row, or a `;` directly behind `{`, are errors (a `;` does not start a
    statement), whereas a `;` directly behind a line end is consumed with it -/
theorem semicolon_runs :
    parseProgram 14 [tI "x", tk .SEMICOLON, tk .SEMICOLON] = none ∧
    parseProgram 14 [tk .SEMICOLON, tI "x"] = none ∧
    parseProgram 14 [tI "x", tNL, tk .SEMICOLON, tI "y"]
      = some (.cons (.expr (.ident "x")) (.cons (.expr (.ident "y")) .nil)) := by
  decide

/-! ### the hypotheses are satisfiable -/

/-- `if a { x = 1; ⏎ return } else if b {⏎} else { y := [1,⏎2] }` laid out with a `;`, line ends and a
    break inside the list -/
private def exItems : LItems :=
  .cons (.ifS (.ident "a") Layout.flat []
      (.cons (.assign .set "x" (.int 1) Layout.flat) ⟨true, [("\n", false)]⟩ (.cons .ret0 ⟨false, []⟩ .nil))
      (.elif (.ident "b") Layout.flat [("\n", true)] .nil
        (.block [] (.cons (.decl "y" (.list (.cons (.int 1) (.cons (.int 2) .nil)))
          (Layout.ofCounts [0, 2, 0] [])) ⟨false, []⟩ .nil))))
    ⟨false, [("\n", false), ("\r\n", false)]⟩ .nil

example : wfItems exItems = true := by decide
example : parseProgram 30 (renderProgram [("\n", false)] exItems) = some exItems.erase := by decide
example : okBlock exItems.erase = true := by decide
example : sepStart [tk .RBRACE] := Or.inr (Or.inr rfl)

end Risor.C20.St
