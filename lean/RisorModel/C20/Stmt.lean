import RisorModel.C20.ParseNewline
/-!
C20 — statement-level parser model (parser/parser.go: `Parse`'s statement loop,
`parseStatementStrict`, `parseStatement`, `parseVar`, `parseDeclaration`, `parseReturn`,
`parseBreak`/`parseContinue`, `parseExpressionStatement`, `parseAssign`, `parseIf`, `parseBlock`)
over the token stream of the lexer machine (NEWLINE and SEMICOLON are tokens, as the real lexer
emits them).  Expressions are delegated to the Pratt model of C01 (`parseNode`).

Conventions (those of Pratt.lean).  A token list stands for `curToken :: peekToken :: …`; `[]`
is end of input (`toTokens` drops the EOF token; a token of kind EOF is treated alike).  Every
function returns the tokens from `peekToken` on.  `none` = "the real parser records an error, or
builds a node outside the fragment" (multi-assignment `a, b = …`, `const`, index assignment,
`func`, `for`, `switch`, postfix `++`, pipes, maps …).

Where the model takes a shortcut that is not the textual order of the Go code it says so:
* `exprStmt` first asks the Pratt model and, when that yields `none`, tries the assignment
  `IDENT op expr`.  The real `parseNode(LOWEST)` reaches `parseAssign` from its infix loop after
  `parseIdent`; the Pratt model returns `none` on every `IDENT =`… (its `infixP` has no
  `parseAssign`: `pratt_ident_assign_none` in StmtLemmas.lean), so the two orders agree.
* after an assignment or an `if` node the loop of `parseNode` looks at the next token again; the
  model returns `none` unless that token stops the expression (`stopsExpr`): `if c {} (x)` is a
  call of an `if` node in the real parser, which is outside the fragment.
* the flag "`curToken` is a SEMICOLON" that `parseStatementStrict` tests is `true` exactly when
  `parseStatement` consumed a trailing `;` — no node of the fragment ends in a `;` token.

Executable, total, core Lean only (linked into the oracle).
-/
namespace Risor.C20.St
open Risor.C01 Risor.C01.Pratt Risor.C20.NL

/-- the operators `parseAssign` accepts on an identifier, minus `:=` (which `parseStatement`
    routes to `parseDeclaration` when it follows a statement-initial identifier) -/
inductive AOp where
  | set | add | sub | mul | div
  deriving DecidableEq, Repr, Inhabited

def AOp.kind : AOp → Kind
  | .set => .ASSIGN | .add => .PLUS_EQUALS | .sub => .MINUS_EQUALS
  | .mul => .ASTERISK_EQUALS | .div => .SLASH_EQUALS

def aopOfKind : Kind → Option AOp
  | .ASSIGN => some .set | .PLUS_EQUALS => some .add | .MINUS_EQUALS => some .sub
  | .ASTERISK_EQUALS => some .mul | .SLASH_EQUALS => some .div
  | _ => none

mutual
/-- statement-level syntax trees of the fragment -/
inductive Stmt where
  | expr (e : Expr)                         -- expression statement
  | var (x : String) (e : Expr)             -- `var x = e`        (ast.Var)
  | decl (x : String) (e : Expr)            -- `x := e`           (ast.Var, walrus)
  | assign (op : AOp) (x : String) (e : Expr)  -- `x = e`, `x += e` … (ast.Assign)
  | ret (e : Expr)                          -- `return e`
  | ret0                                    -- bare `return`
  | brk | cont
  | ifS (c : Expr) (thn : Block) (els : Else)
/-- the statements of a block / of the program -/
inductive Block where
  | nil | cons (s : Stmt) (b : Block)
/-- the alternative of an `if`: none, `else { … }`, or `else if …` (which the real parser stores as
    a block holding the nested `if` alone) -/
inductive Else where
  | none | block (b : Block) | elif (c : Expr) (thn : Block) (els : Else)
end

deriving instance Repr for Stmt, Block, Else
deriving instance DecidableEq for Stmt, Block, Else
instance : Inhabited Stmt := ⟨.brk⟩

/-- `var statementTerminators` of parser.go -/
def terminators : List Kind := [.SEMICOLON, .NEWLINE, .RBRACE, .EOF, .PLUS_PLUS, .MINUS_MINUS]

/-- `statementTerminators[p.peekToken.Type]` (end of input is EOF) -/
def peekTerm : List Token → Bool
  | [] => true
  | tok :: _ => terminators.contains tok.kind

/-- the peek tokens at which `parseReturn` returns a bare `return` -/
def returnEnds : List Kind := [.SEMICOLON, .NEWLINE, .RBRACE, .EOF]

def peekReturnEnd : List Token → Bool
  | [] => true
  | tok :: _ => returnEnds.contains tok.kind

/-- "Consume trailing semicolon if present": the flag says whether one was consumed -/
def eatSemi (toks : List Token) : Bool × List Token :=
  if headIs .SEMICOLON toks then (true, toks.tail) else (false, toks)

/-- the tokens left after the optional trailing semicolon -/
def dropSemi (toks : List Token) : List Token := (eatSemi toks).2

/-- result of `parseStatement`/`parseStatementStrict`: outer `none` = error / outside the fragment,
    inner `none` = no statement (the NEWLINE case) -/
abbrev SRes := Option (Option Stmt × List Token)

mutual
/-- `parseStatementStrict`, `toks` = `curToken :: …` (never called at end of input) -/
def stmtStrict : Nat → List Token → SRes
  | 0, _ => none
  | _, [] => none
  | f+1, tok :: rest =>
    -- parseStatement: the switch on curToken.Type
    let r : SRes :=
      if tok.kind = .VAR then
        -- parseVar: expectPeek IDENT, (no comma in the fragment), expectPeek ASSIGN, value
        match rest with
        | x :: eq :: val =>
          if x.kind = .IDENT ∧ eq.kind = .ASSIGN then
            match parseNode f false Level.LOWEST.num val with
            | some (e, r) => some (some (.var x.lit e), r)
            | none => none
          else none
        | _ => none
      else if tok.kind = .CONST then none
      else if tok.kind = .RETURN then
        if peekReturnEnd rest then some (some .ret0, rest)
        else
          match parseNode f false Level.LOWEST.num rest with
          | some (e, r) => some (some (.ret e), r)
          | none => none
      else if tok.kind = .BREAK then some (some .brk, rest)
      else if tok.kind = .CONTINUE then some (some .cont, rest)
      else if tok.kind = .NEWLINE then some (none, rest)
      else if tok.kind = .IDENT ∧ headIs .DECLARE rest then
        -- parseDeclaration with one identifier and `:=`
        match parseNode f false Level.LOWEST.num rest.tail with
        | some (e, r) => some (some (.decl tok.lit e), r)
        | none => none
      else if tok.kind = .IDENT ∧ headIs .COMMA rest then none   -- `a, b = …`: outside
      else
        match exprStmt f (tok :: rest) with
        | some (s, r) => some (some s, r)
        | none => none
    match r with
    | none => none
    | some (os, rest') =>
      -- "Consume trailing semicolon if present"
      match os with
      | none => some (none, dropSemi rest')          -- parseStatementStrict: `stmt == nil`
      | some s =>
        if (eatSemi rest').1 || peekTerm (dropSemi rest') then some (some s, dropSemi rest')
        else none                                    -- "unexpected token following statement"

/-- `parseExpressionStatement` = `parseNode(LOWEST)` on the nodes of the fragment -/
def exprStmt : Nat → List Token → Option (Stmt × List Token)
  | 0, _ => none
  | _, [] => none
  | f+1, tok :: rest =>
    if tok.kind = .IF then
      match parseIf f rest with
      | some ((c, thn, els), r) => if stopsExpr r then some (.ifS c thn els, r) else none
      | none => none
    else
      match parseNode f false Level.LOWEST.num (tok :: rest) with
      | some (e, r) => some (.expr e, r)
      | none =>
        -- parseIdent, then parseAssign from the infix loop
        match rest with
        | opTok :: val =>
          if tok.kind = .IDENT then
            match aopOfKind opTok.kind with
            | some op =>
              match parseNode f false Level.LOWEST.num val with
              | some (e, r) => if stopsExpr r then some (.assign op tok.lit e, r) else none
              | none => none
            | none => none
          else none
        | [] => none

/-- `parseIf`; `toks` starts at the token after `if` -/
def parseIf : Nat → List Token → Option ((Expr × Block × Else) × List Token)
  | 0, _ => none
  | f+1, toks =>
    match parseNode f false Level.LOWEST.num toks with
    | none => none
    | some (c, r1) =>
      if headIs .LBRACE r1 then
        match stmts false f r1.tail with
        | none => none
        | some (thn, r2) =>
          if headIs .ELSE r2 then
            if headIs .IF r2.tail then
              match parseIf f r2.tail.tail with
              | some ((c', t', e'), r3) => some ((c, thn, .elif c' t' e'), r3)
              | none => none
            else if headIs .LBRACE r2.tail then
              match stmts false f r2.tail.tail with
              | some (b, r3) => some ((c, thn, .block b), r3)
              | none => none
            else none
          else some ((c, thn, .none), r2)
      else none

/-- the statement loops: `top = false` is `parseBlock` entered behind the `{` (ends at `}`, end of
    input is "unterminated block statement"); `top = true` is the loop of `Parser.Parse` (ends at
    EOF; a `}` goes to `parseStatementStrict`, which fails on it) -/
def stmts : Bool → Nat → List Token → Option (Block × List Token)
  | _, 0, _ => none
  | top, _+1, [] => if top then some (.nil, []) else none
  | top, f+1, tok :: rest =>
    if tok.kind = .EOF then (if top then some (.nil, []) else none)
    else if tok.kind = .RBRACE ∧ top = false then some (.nil, rest)
    else
      match stmtStrict f (tok :: rest) with
      | none => none
      | some (os, rest') =>
        match stmts top f rest' with
        | none => none
        | some (b, r) =>
          match os with
          | none => some (b, r)
          | some s => some (.cons s b, r)
end

/-- `Parser.Parse` on the tokens of a whole text -/
def parseProgram (fuel : Nat) (toks : List Token) : Option Block :=
  (stmts true fuel toks).map (·.1)

/-! ## laid-out trees and their printer -/

/-- A run of line ends: each NEWLINE token (its literal) may be followed by one `;`
    (`parseStatement` consumes a `;` behind the NEWLINE it treats as an empty statement). -/
abbrev Lines := List (String × Bool)

def linesToks : Lines → List Token
  | [] => []
  | (lit, semi) :: tl => ⟨.NEWLINE, lit⟩ :: ((if semi then [tk .SEMICOLON] else []) ++ linesToks tl)

/-- what stands behind a statement: an optional `;`, then any run of line ends -/
structure Sep where
  semi : Bool
  lines : Lines

def Sep.toks (s : Sep) : List Token := (if s.semi then [tk .SEMICOLON] else []) ++ linesToks s.lines

/-- a separator that separates: a `;` or at least one line end -/
def Sep.nonEmpty (s : Sep) : Bool := s.semi || !s.lines.isEmpty

mutual
/-- a statement tree together with ONE layout of it: a `NL.Layout` for each expression (any number
    of NEWLINE tokens in each permitted gap of the expression), a run of line ends behind every
    `{`, a separator behind every statement -/
inductive LStmt where
  | expr (e : Expr) (L : Layout)
  | var (x : String) (e : Expr) (L : Layout)
  | decl (x : String) (e : Expr) (L : Layout)
  | assign (op : AOp) (x : String) (e : Expr) (L : Layout)
  | ret (e : Expr) (L : Layout)
  | ret0
  | brk | cont
  | ifS (c : Expr) (L : Layout) (lead : Lines) (thn : LItems) (els : LElse)
inductive LItems where
  | nil | cons (s : LStmt) (sep : Sep) (tl : LItems)
inductive LElse where
  | none
  | block (lead : Lines) (b : LItems)
  | elif (c : Expr) (L : Layout) (lead : Lines) (thn : LItems) (els : LElse)
end

mutual
/-- forget the layout -/
def LStmt.erase : LStmt → Stmt
  | .expr e _ => .expr e
  | .var x e _ => .var x e
  | .decl x e _ => .decl x e
  | .assign op x e _ => .assign op x e
  | .ret e _ => .ret e
  | .ret0 => .ret0
  | .brk => .brk
  | .cont => .cont
  | .ifS c _ _ thn els => .ifS c thn.erase els.erase
def LItems.erase : LItems → Block
  | .nil => .nil
  | .cons s _ tl => .cons s.erase tl.erase
def LElse.erase : LElse → Else
  | .none => .none
  | .block _ b => .block b.erase
  | .elif c _ _ thn els => .elif c thn.erase els.erase
end

mutual
/-- the tokens of a laid-out statement -/
def renderS : LStmt → List Token
  | .expr e L => renderNLTop L e
  | .var x e L => [tk .VAR, ⟨.IDENT, x⟩, tk .ASSIGN] ++ renderNLTop L e
  | .decl x e L => [⟨.IDENT, x⟩, tk .DECLARE] ++ renderNLTop L e
  | .assign op x e L => [⟨.IDENT, x⟩, tk op.kind] ++ renderNLTop L e
  | .ret e L => [tk .RETURN] ++ renderNLTop L e
  | .ret0 => [tk .RETURN]
  | .brk => [tk .BREAK]
  | .cont => [tk .CONTINUE]
  | .ifS c L lead thn els =>
    [tk .IF] ++ (renderNLTop L c ++ (tk .LBRACE :: (linesToks lead ++ (renderItems thn ++
      (tk .RBRACE :: renderElse els)))))
def renderItems : LItems → List Token
  | .nil => []
  | .cons s sep tl => renderS s ++ (sep.toks ++ renderItems tl)
def renderElse : LElse → List Token
  | .none => []
  | .block lead b => tk .ELSE :: tk .LBRACE :: (linesToks lead ++ (renderItems b ++ [tk .RBRACE]))
  | .elif c L lead thn els =>
    tk .ELSE :: tk .IF :: (renderNLTop L c ++ (tk .LBRACE :: (linesToks lead ++ (renderItems thn ++
      (tk .RBRACE :: renderElse els)))))
end

def LItems.isNil : LItems → Bool
  | .nil => true
  | .cons _ _ _ => false

mutual
/-- well-formed laid-out trees: every expression has unnested ternaries (the class of
    `parse_newline_invariant`), and the separator between two statements is not empty (the one
    behind the last statement of a block may be) -/
def wfS : LStmt → Bool
  | .expr e _ | .var _ e _ | .decl _ e _ | .assign _ _ e _ | .ret e _ => unnested e
  | .ret0 | .brk | .cont => true
  | .ifS c _ _ thn els => unnested c && wfItems thn && wfElse els
def wfItems : LItems → Bool
  | .nil => true
  | .cons s sep tl => wfS s && (sep.nonEmpty || tl.isNil) && wfItems tl
def wfElse : LElse → Bool
  | .none => true
  | .block _ b => wfItems b
  | .elif c _ _ thn els => unnested c && wfItems thn && wfElse els
end

/-- a whole program text: line ends, then statements -/
def renderProgram (lead : Lines) (items : LItems) : List Token := linesToks lead ++ renderItems items

/-! ## the canonical layout: one statement per line, expressions on one line -/

def nlSep : Sep := ⟨false, [("\n", false)]⟩

mutual
def canonS : Stmt → LStmt
  | .expr e => .expr e Layout.flat
  | .var x e => .var x e Layout.flat
  | .decl x e => .decl x e Layout.flat
  | .assign op x e => .assign op x e Layout.flat
  | .ret e => .ret e Layout.flat
  | .ret0 => .ret0
  | .brk => .brk
  | .cont => .cont
  | .ifS c thn els => .ifS c Layout.flat [("\n", false)] (canonB thn) (canonE els)
def canonB : Block → LItems
  | .nil => .nil
  | .cons s b => .cons (canonS s) nlSep (canonB b)
def canonE : Else → LElse
  | .none => .none
  | .block b => .block [("\n", false)] (canonB b)
  | .elif c thn els => .elif c Layout.flat [("\n", false)] (canonB thn) (canonE els)
end

mutual
/-- the expressions of a tree have unnested ternaries -/
def okStmt : Stmt → Bool
  | .expr e | .var _ e | .decl _ e | .assign _ _ e | .ret e => unnested e
  | .ret0 | .brk | .cont => true
  | .ifS c thn els => unnested c && okBlock thn && okElse els
def okBlock : Block → Bool
  | .nil => true
  | .cons s b => okStmt s && okBlock b
def okElse : Else → Bool
  | .none => true
  | .block b => okBlock b
  | .elif c thn els => unnested c && okBlock thn && okElse els
end

/-- the canonical token list of a program: one statement per line -/
def renderCanon (b : Block) : List Token := renderItems (canonB b)

/-! ## the table of places where statement-level code looks at NEWLINE

Tied to parser/parser.go by `Ties.lean` (regenerated list of functions that mention
`token.NEWLINE` or call `eatNewlines`).  Of these the statement fragment uses: `parseStatement`
(a NEWLINE in statement position is an empty statement), `parseReturn` (a NEWLINE ends a bare
`return`), `statementTerminators`; everything else belongs to expressions (`parseInfixExpr`,
`parseExprList`, `parseNodeList`, `parseGetAttr`: the gaps of `NL.Layout`) or is outside the
fragment (`parseSwitch`, `parseFromImport`, `parseMapOrSet`, `parsePipe`; `New` registers `parseNewline`). -/
def newlineSites : List String :=
  ["New", "eatNewlines", "parseExprList", "parseFromImport", "parseGetAttr", "parseInfixExpr", "parseMapOrSet",
   "parseNodeList", "parsePipe", "parseReturn", "parseStatement", "parseSwitch"]

/-- the functions of the statement fragment, none of which skips a newline between its own tokens:
    regenerated as "functions of this list that mention NEWLINE or call eatNewlines" -/
def stmtFunctions : List String :=
  ["Parse", "parseAssign", "parseAssignmentValue", "parseBlock", "parseBreak", "parseContinue",
   "parseDeclaration", "parseExpressionStatement", "parseIf", "parseReturn", "parseStatement",
   "parseStatementStrict", "parseVar"]

/-- of those, the ones that look at NEWLINE: `parseStatement` (empty statement) and `parseReturn`
    (bare return) — exactly the two places where `stmtStrict` tests `.NEWLINE` -/
def stmtNewlineSites : List String := ["parseReturn", "parseStatement"]

/-- the cases of `switch p.curToken.Type` in `parseStatement`, in the order of `stmtStrict`'s if-chain -/
def statementCases : List Kind := [.VAR, .CONST, .RETURN, .BREAK, .CONTINUE, .NEWLINE, .IDENT]

/-- the token tests of the statement functions, in source order, as `stmtStrict` / `parseIf` / `stmts`
    make them: none of them is preceded by a newline skip, so the tested token is the very next one -/
def looksStatement : List String := ["peekTokenIs:DECLARE", "peekTokenIs:COMMA", "peekTokenIs:SEMICOLON"]
def looksStrict : List String := ["curTokenIs:SEMICOLON"]
def looksReturn : List String := returnEnds.map fun k => "peekTokenIs:" ++ k.name
def looksIf : List String := ["expectPeek:LBRACE", "peekTokenIs:ELSE", "peekTokenIs:IF", "expectPeek:LBRACE"]
def looksBlock : List String := ["curTokenIs:RBRACE", "curTokenIs:EOF", "curTokenIs:EOF"]
def looksVar : List String := ["expectPeek:IDENT", "peekTokenIs:COMMA", "expectPeek:IDENT", "expectPeek:ASSIGN"]
def looksDeclaration : List String := ["peekTokenIs:COMMA", "expectPeek:IDENT", "expectPeek:ASSIGN"]

end Risor.C20.St
